// extract: T1 of the verification tie.  Reads /repo's Go sources (go/parser, go/ast only) and
// regenerates lean/JivaVerif/Generated/Facts.lean:
//   - decision expressions translated to Lean functions (thresholds, majorities, range check, the
//     RemoveIndex comparison, the chain-length limit);
//   - guard conditions of the replica engine methods, the REST action table, the arguments of the
//     punch requests and a few other load-bearing statements as canonical strings.
//
// Lemmas in JivaVerif/Tie.lean relate each generated definition to what the models use; a source
// change that alters one of them makes a named obligation fail.  Anything the translator does not
// understand is a loud failure, never a guess.
package main

import (
	"bytes"
	"crypto/sha256"
	"encoding/json"
	"flag"
	"fmt"
	"go/ast"
	"go/parser"
	"go/printer"
	"go/token"
	"os"
	"path/filepath"
	"sort"
	"strings"
)

var fset = token.NewFileSet()

func src(n ast.Node) string {
	var b bytes.Buffer
	printer.Fprint(&b, fset, n)
	return strings.Join(strings.Fields(b.String()), " ")
}

func fail(f string, a ...interface{}) {
	fmt.Fprintf(os.Stderr, "extract: "+f+"\n", a...)
	os.Exit(1)
}

type file struct {
	path string
	ast  *ast.File
}

func parse(repo, rel string) *file {
	p := filepath.Join(repo, rel)
	f, err := parser.ParseFile(fset, p, nil, parser.ParseComments)
	if err != nil {
		fail("parse %s: %v", rel, err)
	}
	return &file{rel, f}
}

// fn finds a function or method (recv "" = plain function; recv "T" matches T and *T).
func (f *file) fn(recv, name string) *ast.FuncDecl {
	for _, d := range f.ast.Decls {
		fd, ok := d.(*ast.FuncDecl)
		if !ok || fd.Name.Name != name {
			continue
		}
		r := ""
		if fd.Recv != nil && len(fd.Recv.List) == 1 {
			r = strings.TrimPrefix(src(fd.Recv.List[0].Type), "*")
		}
		if r == recv {
			return fd
		}
	}
	fail("%s: function %s.%s not found", f.path, recv, name)
	return nil
}

func hash(n ast.Node) string {
	return fmt.Sprintf("%x", sha256.Sum256([]byte(src(n))))[:12]
}

// ifs returns all if statements inside n whose condition source contains every needle.
func ifs(n ast.Node, needles ...string) []*ast.IfStmt {
	var out []*ast.IfStmt
	ast.Inspect(n, func(x ast.Node) bool {
		if s, ok := x.(*ast.IfStmt); ok {
			c := src(s.Cond)
			all := true
			for _, nd := range needles {
				if !strings.Contains(c, nd) {
					all = false
				}
			}
			if all {
				out = append(out, s)
			}
		}
		return true
	})
	return out
}

// oneIfInit: the single `if` whose init statement contains the needle.
func oneIfInit(where string, n ast.Node, needle string) *ast.IfStmt {
	var out []*ast.IfStmt
	ast.Inspect(n, func(x ast.Node) bool {
		if s, ok := x.(*ast.IfStmt); ok && s.Init != nil && strings.Contains(src(s.Init), needle) {
			out = append(out, s)
		}
		return true
	})
	if len(out) != 1 {
		fail("%s: expected exactly one `if` whose init contains %q, found %d", where, needle, len(out))
	}
	return out[0]
}

func oneIf(where string, n ast.Node, needles ...string) *ast.IfStmt {
	l := ifs(n, needles...)
	if len(l) != 1 {
		fail("%s: expected exactly one `if` containing %v, found %d", where, needles, len(l))
	}
	return l[0]
}

// ---- expression translation ------------------------------------------------------------

// tr translates a Go integer/boolean expression to Lean.  `ren` maps canonical source text of
// leaf sub-expressions to Lean variable names.
func tr(where string, e ast.Expr, ren map[string]string) string {
	if v, ok := ren[src(e)]; ok {
		return v
	}
	switch x := e.(type) {
	case *ast.ParenExpr:
		return "(" + tr(where, x.X, ren) + ")"
	case *ast.BasicLit:
		if x.Kind == token.INT {
			return x.Value
		}
	case *ast.UnaryExpr:
		if x.Op == token.NOT {
			return "(!" + tr(where, x.X, ren) + ")"
		}
	case *ast.BinaryExpr:
		l, r := tr(where, x.X, ren), tr(where, x.Y, ren)
		switch x.Op {
		case token.ADD, token.SUB, token.MUL, token.QUO:
			return "(" + l + " " + x.Op.String() + " " + r + ")"
		case token.LSS, token.LEQ, token.GTR, token.GEQ:
			return "decide (" + l + " " + x.Op.String() + " " + r + ")"
		case token.EQL:
			return "decide (" + l + " = " + r + ")"
		case token.NEQ:
			return "decide (" + l + " ≠ " + r + ")"
		case token.LAND:
			return "(" + l + " && " + r + ")"
		case token.LOR:
			return "(" + l + " || " + r + ")"
		}
	}
	fail("%s: cannot translate expression `%s`", where, src(e))
	return ""
}

type fact struct {
	name, params, ty, body, origin string
}

var facts []fact
var strFacts [][2]string

func addFn(name, params, ty, body, origin string) {
	facts = append(facts, fact{name, params, ty, body, origin})
}
func addStr(name, val string) { strFacts = append(strFacts, [2]string{name, val}) }

func leanStr(s string) string {
	return "\"" + strings.ReplaceAll(strings.ReplaceAll(s, "\\", "\\\\"), "\"", "\\\"") + "\""
}

func main() {
	repo := flag.String("repo", "/repo", "repository")
	out := flag.String("out", "", "output directory")
	locksOnly := flag.Bool("locks-only", false, "only the lock discipline (for trees the fact extraction does not fit)")
	flag.Parse()
	if *locksOnly {
		analyseLocks(*repo, *out)
		return
	}

	control := parse(*repo, "controller/control.go")
	mw := parse(*repo, "controller/multi_writer_at.go")
	repl := parse(*repo, "controller/replicator.go")
	dd := parse(*repo, "replica/diff_disk.go")
	rep := parse(*repo, "replica/replica.go")
	revc := parse(*repo, "replica/revision_counter.go")
	backup := parse(*repo, "replica/backup.go")
	server := parse(*repo, "replica/server.go")
	model := parse(*repo, "replica/rest/model.go")
	router := parse(*repo, "replica/rest/router.go")
	syncf := parse(*repo, "sync/sync.go")
	rebuild := parse(*repo, "controller/rebuild.go")

	// 1. UpdateVolStatus threshold
	{
		f := control.fn("Controller", "UpdateVolStatus")
		i := oneIf("UpdateVolStatus", f, "rwReplicaCount", "ReplicationFactor")
		addFn("volStatusRW", "(rw rf q : Nat)", "Bool", tr("UpdateVolStatus", i.Cond, map[string]string{
			"rwReplicaCount": "rw", "c.ReplicationFactor": "rf", "c.quorumReplicaCount": "q"}), "controller/control.go UpdateVolStatus "+hash(i.Cond))
		if !strings.Contains(src(i.Body), "c.ReadOnly = false") || !strings.Contains(src(i.Else), "c.ReadOnly = true") {
			fail("UpdateVolStatus: branches no longer set ReadOnly false/true")
		}
		addStr("volStatusCounts", src(f.Body.List[2]))
	}
	// 2. registration majority
	{
		f := control.fn("Controller", "registerReplica")
		i := oneIf("registerReplica", f, "len(c.RegisteredReplicas) >=")
		addFn("canSignal", "(nreg nq rf q : Nat)", "Bool", tr("registerReplica", i.Cond, map[string]string{
			"len(c.RegisteredReplicas)": "nreg", "len(c.RegisteredQuorumReplicas)": "nq",
			"c.ReplicationFactor": "rf", "c.quorumReplicaCount": "q"}), "controller/control.go registerReplica "+hash(i.Cond))
		// the election loop
		var loop *ast.RangeStmt
		ast.Inspect(f, func(x ast.Node) bool {
			if r, ok := x.(*ast.RangeStmt); ok && strings.Contains(src(r.X), "RegisteredReplicas") && strings.Contains(src(r.Body), "MaxRevReplica") {
				loop = r
			}
			return true
		})
		if loop == nil {
			fail("registerReplica: election loop not found")
		}
		addStr("electionLoop", src(loop))
		pre := oneIf("registerReplica", f, "c.MaxRevReplica == \"\"")
		addStr("electionInit", src(pre))
		reb := oneIf("registerReplica", f, "register.RepState == \"rebuilding\"")
		addStr("electionSkipsRebuildingRegistrant", src(reb))
	}
	// 3. MultiWriterAt majorities
	{
		f := mw.fn("MultiWriterAt", "WriteAt")
		i := oneIf("MultiWriterAt.WriteAt", f, "len(m.writers)-replicaErrCount")
		addFn("mwWriteOk", "(w u re qe : Nat)", "Bool", tr("MultiWriterAt.WriteAt", i.Cond, map[string]string{
			"len(m.writers)": "w", "len(m.updaters)": "u", "replicaErrCount": "re", "quorumErrCount": "qe"}), "controller/multi_writer_at.go WriteAt "+hash(i.Cond))
		addStr("mwWriteReturns", src(i.Body)+" / "+src(f.Body.List[len(f.Body.List)-1]))
		for _, n := range []string{"Sync", "Unmap"} {
			g := mw.fn("MultiWriterAt", n)
			j := oneIf("MultiWriterAt."+n, g, "len(m.writers)-replicaErrCount")
			addFn("mw"+n+"Ok", "(w re : Nat)", "Bool", tr("MultiWriterAt."+n, j.Cond, map[string]string{
				"len(m.writers)": "w", "replicaErrCount": "re"}), "controller/multi_writer_at.go "+n+" "+hash(j.Cond))
		}
	}
	// 4. controller range checks
	for _, n := range []string{"WriteAt", "ReadAt"} {
		f := control.fn("Controller", n)
		i := oneIf("Controller."+n, f, "c.size", "off")
		addFn("ioRefused"+n, "(off len size : Int)", "Bool", tr("Controller."+n, i.Cond, map[string]string{
			"off": "off", "int64(len(b))": "len", "c.size": "size"}), "controller/control.go "+n+" "+hash(i.Cond))
	}
	// 5. RemoveIndex comparison
	{
		f := dd.fn("diffDisk", "RemoveIndex")
		i := oneIf("RemoveIndex", f, "d.location[i]")
		addFn("removeIndexShifts", "(loc idx : Nat)", "Bool", tr("RemoveIndex", i.Cond, map[string]string{
			"d.location[i]": "loc", "uint16(index)": "idx"}), "replica/diff_disk.go RemoveIndex "+hash(i.Cond))
		addStr("removeIndexBody", src(i.Body))
		var rng *ast.RangeStmt
		ast.Inspect(f, func(x ast.Node) bool {
			if r, ok := x.(*ast.RangeStmt); ok {
				rng = r
			}
			return true
		})
		if rng == nil {
			fail("RemoveIndex: SnapIndx recomputation loop not found")
		}
		addStr("removeIndexSnapIndx", src(rng))
	}
	// 6. chain length limit
	{
		f := rep.fn("Replica", "createDisk")
		i := oneIf("createDisk", f, "maxChainLen")
		addFn("chainTooLong", "(active maxLen : Nat)", "Bool", tr("createDisk", i.Cond, map[string]string{
			"len(r.activeDiskData)": "active", "maxChainLen": "maxLen"}), "replica/replica.go createDisk "+hash(i.Cond))
		g := rep.fn("Replica", "openLiveChain")
		j := oneIf("openLiveChain", g, "maxChainLen")
		addFn("liveChainTooLong", "(chain maxLen : Nat)", "Bool", tr("openLiveChain", j.Cond, map[string]string{
			"len(chain)": "chain", "maxChainLen": "maxLen"}), "replica/replica.go openLiveChain "+hash(j.Cond))
		dupGuard := ""
		for _, st := range f.Body.List {
			if i, ok := st.(*ast.IfStmt); ok && i.Init != nil && strings.Contains(src(i.Init), "r.diskData[newSnapName]") {
				dupGuard = src(i.Init) + " ; " + src(i.Cond)
			}
		}
		if dupGuard == "" {
			fail("createDisk: duplicate-name guard not found")
		}
		addStr("createDiskDupGuard", dupGuard)
	}
	// 7. punch requests of fullWriteAt / preload / UpdateLUNMap: guard and first argument
	{
		var calls []string
		f := dd.fn("diffDisk", "fullWriteAt")
		for _, i := range ifs(f, "shouldCreateHoles()") {
			ast.Inspect(i.Body, func(x ast.Node) bool {
				if c, ok := x.(*ast.CallExpr); ok && src(c.Fun) == "sendToCreateHole" {
					calls = append(calls, src(i.Cond)+" => "+src(c))
				}
				return true
			})
		}
		addStr("fullWritePunch", strings.Join(calls, " ;; "))
		calls = nil
		g := backup.fn("", "preload")
		for _, i := range ifs(g, "shouldCreateHoles()") {
			ast.Inspect(i.Body, func(x ast.Node) bool {
				if c, ok := x.(*ast.CallExpr); ok && src(c.Fun) == "sendToCreateHole" {
					calls = append(calls, src(i.Cond)+" => "+src(c))
				}
				return true
			})
		}
		addStr("preloadPunch", strings.Join(calls, " ;; "))
		lk := dd.fn("diffDisk", "lookup")
		addStr("lookupBody", src(lk.Body))
	}
	// 8. guards at the top of the replica engine methods
	{
		guard := func(f *file, recv, name string) {
			fd := f.fn(recv, name)
			var gs []string
			for _, st := range fd.Body.List {
				i, ok := st.(*ast.IfStmt)
				if !ok {
					continue
				}
				c := src(i.Cond)
				b := src(i.Body)
				if strings.Contains(b, "return") && (strings.Contains(c, "mode") || strings.Contains(c, "r.info.") || strings.Contains(c, "s.r == nil") || strings.Contains(c, "s.r != nil") || strings.Contains(c, "readOnly") || strings.Contains(c, "Size >") || strings.Contains(c, "state")) {
					gs = append(gs, c)
				}
			}
			addStr("guard_"+recv+"_"+name, strings.Join(gs, " ; "))
		}
		for _, n := range []string{"RemoveDiffDisk", "ReplaceDisk", "PrepareRemoveDisk", "Resize", "WriteAt"} {
			guard(rep, "Replica", n)
		}
		guard(revc, "Replica", "SetRevisionCounter")
		for _, n := range []string{"Open", "Reload", "Snapshot", "RemoveDiffDisk", "ReplaceDisk", "PrepareRemoveDisk", "Resize", "Revert", "Close", "Sync", "Unmap", "WriteAt", "ReadAt", "SetReplicaMode", "SetCheckpoint", "SetRevisionCounter", "SetRebuilding", "UpdateCloneInfo"} {
			guard(server, "Server", n)
		}
		// Replica.WriteAt: mode test precedes the data write
		fd := rep.fn("Replica", "WriteAt")
		body := src(fd.Body)
		im, iw := strings.Index(body, "mode != types.RW && mode != types.WO"), strings.Index(body, "r.volume.WriteAt")
		addStr("replicaWriteModeBeforeData", fmt.Sprint(im >= 0 && iw >= 0 && im < iw))
		addStr("replicaWriteCounter", src(fd.Body.List[len(fd.Body.List)-2]))
		inc := revc.fn("Replica", "increaseRevisionCounter")
		addStr("increaseRevisionCounter", src(inc.Body))
		get := revc.fn("Replica", "GetRevisionCounter")
		addStr("getRevisionCounter", src(get.Body))
	}
	// 9. REST action table of the replica
	{
		f := model.fn("", "NewReplica")
		var sw *ast.SwitchStmt
		ast.Inspect(f, func(x ast.Node) bool {
			if s, ok := x.(*ast.SwitchStmt); ok && src(s.Tag) == "state" {
				sw = s
			}
			return true
		})
		if sw == nil {
			fail("NewReplica: switch on state not found")
		}
		var rows []string
		for _, cc := range sw.Body.List {
			c := cc.(*ast.CaseClause)
			var acts []string
			for _, st := range c.Body {
				a, ok := st.(*ast.AssignStmt)
				if !ok || len(a.Lhs) != 1 || !strings.HasPrefix(src(a.Lhs[0]), "actions[") || src(a.Rhs[0]) != "true" {
					fail("NewReplica: unexpected statement in state table: %s", src(st))
				}
				acts = append(acts, strings.Trim(strings.TrimSuffix(strings.TrimPrefix(src(a.Lhs[0]), "actions["), "]"), "\""))
			}
			sort.Strings(acts)
			acts = uniq(acts)
			rows = append(rows, fmt.Sprintf("(%s, [%s])", leanStr(strings.TrimPrefix(src(c.List[0]), "replica.")), joinQ(acts)))
		}
		facts = append(facts, fact{"replicaActions", "", "List (String × List String)", "[" + strings.Join(rows, ",\n   ") + "]", "replica/rest/model.go NewReplica"})
		// routed actions: every action handler goes through checkAction
		r := router.fn("", "NewRouter")
		var routed []string
		ast.Inspect(r, func(x ast.Node) bool {
			if kv, ok := x.(*ast.KeyValueExpr); ok {
				if bl, ok := kv.Key.(*ast.BasicLit); ok && bl.Kind == token.STRING && strings.HasPrefix(src(kv.Value), "s.") {
					routed = append(routed, strings.Trim(bl.Value, "\""))
				}
			}
			return true
		})
		sort.Strings(routed)
		facts = append(facts, fact{"routedActions", "", "List String", "[" + joinQ(routed) + "]", "replica/rest/router.go NewRouter"})
		addStr("actionsGated", fmt.Sprint(strings.Contains(src(r.Body), "Queries(\"action\", name).Handler(f(schemas, checkAction(s, action)))")))
		ca := router.fn("", "checkAction")
		addStr("checkAction", src(ca.Body))
	}
	// 10. controller: snapshot / checkpoint / add preconditions, error handling
	{
		f := control.fn("Controller", "Snapshot")
		addStr("snapshotRefusal", src(oneIf("Snapshot", f, "c.RWReplicaCount").Cond))
		g := control.fn("Controller", "UpdateCheckpoint")
		addStr("checkpointCond", src(oneIf("UpdateCheckpoint", g, "rwReplicaCount ==").Cond))
		addStr("checkpointBody", src(oneIf("UpdateCheckpoint", g, "rwReplicaCount ==").Body))
		h := control.fn("Controller", "setReplicaModeNoLock")
		addStr("setModeReevaluates", fmt.Sprint(strings.Contains(src(h.Body.List[len(h.Body.List)-1]), "c.UpdateVolStatus()")))
		r := control.fn("Controller", "RemoveReplicaNoLock")
		tail := r.Body.List[len(r.Body.List)-3:]
		addStr("removeReplicaTail", src(tail[0])+" ; "+src(tail[1])+" ; "+src(tail[2]))
		hd := control.fn("Controller", "handleErrorNoLock")
		addStr("handleErrorNoLock", src(hd.Body))
		rb := repl.fn("replicator", "RemoveBackend")
		addStr("removeBackendTail", src(rb.Body.List[len(rb.Body.List)-3])+" ; "+src(rb.Body.List[len(rb.Body.List)-2])+" ; "+src(rb.Body.List[len(rb.Body.List)-1]))
		brw := repl.fn("replicator", "buildReadWriters")
		var loops []string
		for _, st := range brw.Body.List {
			if rs, ok := st.(*ast.RangeStmt); ok {
				loops = append(loops, src(rs))
			}
		}
		addStr("buildReadWriters", strings.Join(loops, " ;; "))
		for _, n := range []string{"WriteAt", "Sync", "Unmap", "ReadAt"} {
			fd := repl.fn("replicator", n)
			var idx []string
			ast.Inspect(fd, func(x ast.Node) bool {
				if a, ok := x.(*ast.AssignStmt); ok && strings.Contains(src(a.Lhs[0]), "rrors[") {
					idx = append(idx, src(a))
				}
				return true
			})
			addStr("errorAttribution"+n, strings.Join(idx, " ; "))
		}
		ca := control.fn("Controller", "canAdd")
		addStr("canAdd", src(ca.Body))
		anl := control.fn("Controller", "addReplicaNoLock")
		addStr("addReplicaNoLockRechecks", fmt.Sprint(strings.HasPrefix(src(anl.Body.List[0]), "if ok, err := c.canAdd(address); !ok")))
		// AddReplica's two critical sections: which checks are made on which side of Create
		{
			var calls []string
			ast.Inspect(control.fn("Controller", "addReplica"), func(x ast.Node) bool {
				if c, ok := x.(*ast.CallExpr); ok {
					switch s := src(c.Fun); s {
					case "c.Lock", "c.Unlock", "c.canAdd", "c.verifyReplicationFactor", "c.factory.Create", "c.addReplicaNoLock", "newBackend.Close":
						calls = append(calls, s)
					}
				}
				return true
			})
			addStr("addReplicaOrder", strings.Join(calls, " ; "))
		}
		// the widening of sub-block writes while a WO replica is attached (C07)
		if wf := control.fn("Controller", "widenForWONoLock"); wf != nil {
			addStr("widenForWO", src(wf.Body))
		} else {
			addStr("widenForWO", "absent")
		}
		{
			var calls []string
			ast.Inspect(control.fn("Controller", "WriteAt"), func(x ast.Node) bool {
				if c, ok := x.(*ast.CallExpr); ok {
					if s := src(c.Fun); s == "c.widenForWONoLock" || s == "c.backend.WriteAt" {
						calls = append(calls, src(c))
					}
				}
				return true
			})
			addStr("writeWidensForWO", strings.Join(calls, " ; "))
		}
		vr := rebuild.fn("Controller", "VerifyRebuildReplica")
		var order []string
		ast.Inspect(vr, func(x ast.Node) bool {
			if c, ok := x.(*ast.CallExpr); ok {
				s := src(c.Fun)
				if s == "c.backend.SetReplicaMode" || s == "c.backend.SetRevisionCounter" || s == "c.setReplicaModeNoLock" || s == "reflect.DeepEqual" || s == "c.backend.GetRevisionCounter" || s == "c.UpdateVolStatus" || s == "c.UpdateCheckpoint" {
					order = append(order, src(c))
				}
			}
			return true
		})
		addStr("verifyOrder", strings.Join(order, " ; "))
		addStr("verifyChainGuard", src(oneIf("VerifyRebuildReplica", vr, "len(chain) < indx+1").Cond))
		var slices []string
		ast.Inspect(vr, func(x ast.Node) bool {
			if s, ok := x.(*ast.SliceExpr); ok {
				slices = append(slices, src(s))
			}
			return true
		})
		addStr("verifySlices", strings.Join(slices, " ; "))
	}
	// 10b. clone: the order of the steps of the clone procedure and the status protocol (C19)
	{
		calls := func(fd *ast.FuncDecl, want map[string]bool) string {
			var out []string
			ast.Inspect(fd, func(x ast.Node) bool {
				if c, ok := x.(*ast.CallExpr); ok {
					if s := src(c.Fun); want[s] {
						if strings.HasSuffix(s, "SetCloneStatus") || strings.HasSuffix(s, "SetRebuilding") {
							out = append(out, src(c))
						} else {
							out = append(out, s)
						}
					}
				}
				return true
			})
			return strings.Join(out, " ; ")
		}
		// the replica's side of an addition and of a promotion (C09, whole-volume model): the controller
		// attaches the replica (CreateReplica) before the replica marks itself as rebuilding, and makes it
		// RW (VerifyRebuildReplica) before the replica clears the mark
		addStr("syncAddOrder", calls(syncf.fn("Task", "AddReplica"), map[string]bool{
			"t.checkAndResetFailedRebuild": true, "t.client.CreateReplica": true, "toClient.SetRebuilding": true,
			"t.client.PrepareRebuild": true, "t.syncFiles": true, "t.reloadAndVerify": true}))
		addStr("syncVerifyOrder", calls(syncf.fn("Task", "reloadAndVerify"), map[string]bool{
			"repClient.ReloadReplica": true, "s.UpdateLUNMap": true, "t.client.VerifyRebuildReplica": true,
			"repClient.SetRebuilding": true}))
		// which part of the two chains the rebuild compares and transfers: everything ABOVE the newcomer's
		// checkpoint (exclusive) — below it the two directories may differ in layout (C07)
		{
			var cuts []string
			ast.Inspect(syncf.fn("Task", "isRevisionCountAndChainSame"), func(x ast.Node) bool {
				if a, ok := x.(*ast.AssignStmt); ok && len(a.Rhs) == 1 {
					if _, ok := a.Rhs[0].(*ast.SliceExpr); ok {
						cuts = append(cuts, src(a))
					}
				}
				if r, ok := x.(*ast.ReturnStmt); ok {
					cuts = append(cuts, src(r))
				}
				return true
			})
			addStr("syncCheckpointCut", strings.Join(cuts, " ; "))
		}
		addStr("cloneReplicaOrder", calls(syncf.fn("Task", "CloneReplica"), map[string]bool{
			"toClient.SetRebuilding": true, "t.syncFiles": true, "toClient.UpdateCloneInfo": true,
			"toClient.ReloadReplica": true, "s.UpdateLUNMap": true}))
		appf := parse(*repo, "app/replica.go")
		addStr("appCloneOrder", calls(appf.fn("", "CloneReplica"), map[string]bool{
			"task.CloneReplica": true, "s.Replica().SetCloneStatus": true}))
		addStr("cloneStatusOrder", calls(appf.fn("", "startReplica"), map[string]bool{
			"s.Replica().SetCloneStatus": true, "CloneReplica": true}))
		// when a (re)started clone replica clones: whenever the persisted status is not `completed` — in
		// particular again after a start that died in the middle (`inProgress`)
		{
			var conds []string
			ast.Inspect(appf.fn("", "startReplica"), func(x ast.Node) bool {
				switch n := x.(type) {
				case *ast.IfStmt:
					if strings.Contains(src(n.Cond), "status") || strings.Contains(src(n.Cond), "replicaType") {
						conds = append(conds, "if "+src(n.Cond))
					}
				case *ast.SwitchStmt:
					conds = append(conds, "switch "+src(n.Tag))
				case *ast.CaseClause:
					var l []string
					for _, e := range n.List {
						l = append(l, src(e))
					}
					conds = append(conds, "case "+strings.Join(l, ","))
				}
				return true
			})
			addStr("cloneRestartCond", strings.Join(conds, " ; "))
		}
		ads := control.fn("Controller", "addReplicaDuringStartNoLock")
		var conds []string
		ast.Inspect(ads, func(x ast.Node) bool {
			if i, ok := x.(*ast.IfStmt); ok && strings.Contains(src(i.Cond), "status ==") {
				conds = append(conds, src(i.Cond))
			}
			return true
		})
		addStr("cloneStatusLoop", strings.Join(conds, " ; "))
		uci := parse(*repo, "replica/replica.go").fn("Replica", "UpdateCloneInfo")
		addStr("updateCloneInfo", src(uci.Body))
	}
	// 11. cleaner filter
	{
		f := syncf.fn("", "GetDeleteCandidateChain")
		var conds []string
		for _, i := range ifs(f) {
			conds = append(conds, src(i.Cond))
		}
		addStr("cleanerConds", strings.Join(conds, " ; "))
		var slices []string
		ast.Inspect(f, func(x ast.Node) bool {
			if s, ok := x.(*ast.SliceExpr); ok {
				slices = append(slices, src(s))
			}
			return true
		})
		addStr("cleanerSlices", strings.Join(slices, " ; "))
	}

	// Start: the replication-factor guard, the loop over the addresses, the revision fence
	{
		f := control.fn("Controller", "Start")
		i := oneIf("Start", f, "len(addresses) > c.ReplicationFactor")
		addFn("startOverRF", "(n rf : Nat)", "Bool", tr("Start", i.Cond, map[string]string{
			"len(addresses)": "n", "c.ReplicationFactor": "rf"}), "controller/control.go Start "+hash(i.Cond))
		var loops []string
		guardBeforeReset := false
		for _, st := range f.Body.List {
			if st == ast.Stmt(i) {
				guardBeforeReset = true
			}
			if strings.HasPrefix(src(st), "c.reset()") && st.Pos() < i.Pos() {
				guardBeforeReset = false
			}
			if r, ok := st.(*ast.RangeStmt); ok {
				x := src(r.X)
				if x == "addresses" || x == "c.replicas" || x == "revisionCounters" {
					loops = append(loops, src(r))
				}
			}
		}
		addStr("startGuardBeforeReset", fmt.Sprint(guardBeforeReset))
		addStr("startLoops", strings.Join(loops, " ;; "))
		ads := control.fn("Controller", "addReplicaDuringStartNoLock")
		var order []string
		ast.Inspect(ads, func(x ast.Node) bool {
			if c, ok := x.(*ast.CallExpr); ok {
				t := src(c.Fun)
				for _, w := range []string{"c.factory.Create", "c.rmReplicaFromRegisteredReplicas", "c.addReplicaNoLock", "c.backend.GetCloneStatus", "c.RemoveReplicaNoLock", "c.backend.SetReplicaMode", "c.setReplicaModeNoLock"} {
					if t == w {
						order = append(order, src(c))
					}
				}
			}
			return true
		})
		addStr("startOneOrder", strings.Join(order, " ; "))
	}
	// createDisk: what happens when the rewrite of volume.meta reports an error
	{
		f := rep.fn("Replica", "createDisk")
		i := oneIfInit("createDisk", f, "r.encodeToFile(&info, volumeMetaData)")
		addStr("createDiskVolMetaFailure", src(i.Body))
		g := rep.fn("Replica", "revertDisk")
		j := oneIfInit("revertDisk", g, "r.encodeToFile(&info, volumeMetaData)")
		addStr("revertDiskVolMetaFailure", src(j.Body))
	}

	// Lock discipline of the controller's requests: the model takes one step per request because the
	// code holds Controller.Lock across it (AddReplica: two critical sections).  For each method the
	// lock statements in source order, and whether the first two statements are Lock + deferred Unlock.
	{
		revertf := parse(*repo, "controller/revert.go")
		type mref struct {
			f    *file
			name string
		}
		for _, m := range []mref{{control, "Snapshot"}, {control, "Resize"}, {control, "WriteAt"}, {control, "ReadAt"}, {control, "Sync"},
			{control, "Unmap"}, {control, "Start"}, {control, "RemoveReplica"}, {control, "SetReplicaMode"}, {rebuild, "VerifyRebuildReplica"},
			{control, "RegisterReplica"}, {control, "addReplica"}, {revertf, "Revert"}, {control, "monitoring"}} {
			fd := m.f.fn("Controller", m.name)
			var ops []string
			ast.Inspect(fd, func(x ast.Node) bool {
				switch n := x.(type) {
				case *ast.DeferStmt:
					t := src(n.Call)
					if t == "c.Unlock()" || t == "c.RUnlock()" {
						ops = append(ops, "defer "+t)
					}
					return false
				case *ast.ExprStmt:
					t := src(n.X)
					if t == "c.Lock()" || t == "c.Unlock()" || t == "c.RLock()" || t == "c.RUnlock()" {
						ops = append(ops, t)
					}
				}
				return true
			})
			whole := len(fd.Body.List) >= 2 && src(fd.Body.List[0]) == "c.Lock()" && src(fd.Body.List[1]) == "defer c.Unlock()" && len(ops) == 2
			addStr("locks_"+m.name, fmt.Sprintf("%s whole=%v", strings.Join(ops, ";"), whole))
		}
	}

	// the background cleaner: the loop that runs the actions PrepareRemoveDisk returned (a failed
	// coalesce must end it before the snapshot is unlinked), and what it compares before it starts
	{
		f := syncf.fn("Task", "InternalSnapshotCleaner")
		var loop *ast.RangeStmt
		ast.Inspect(f, func(x ast.Node) bool {
			if r, ok := x.(*ast.RangeStmt); ok && src(r.X) == "ops" {
				loop = r
			}
			return true
		})
		if loop == nil {
			fail("InternalSnapshotCleaner: the loop over the prepared actions was not found")
		}
		addStr("cleanerActionLoop", src(loop))
		var conds []string
		for _, i := range ifs(f) {
			if i.Pos() < loop.Pos() {
				conds = append(conds, src(i.Cond))
			}
		}
		addStr("cleanerPreconditions", strings.Join(conds, " ; "))
	}

	// the replica client's wait for a fold / a transfer run by the sync agent: which exit codes of the
	// child mean "still running", "done" and "failed" (a child killed by a signal reports -1)
	{
		cl := parse(*repo, "replica/client/client.go")
		f := cl.fn("ReplicaClient", "fileOperation")
		var parts []string
		ast.Inspect(f, func(x ast.Node) bool {
			switch n := x.(type) {
			case *ast.SwitchStmt:
				parts = append(parts, "switch "+src(n.Tag))
			case *ast.CaseClause:
				var l []string
				for _, e := range n.List {
					l = append(l, src(e))
				}
				parts = append(parts, "case "+strings.Join(l, ","))
			case *ast.IfStmt:
				if strings.Contains(src(n.Cond), "ExitCode") {
					parts = append(parts, "if "+src(n.Cond))
				}
			}
			return true
		})
		addStr("clientFileOpExit", strings.Join(parts, " ; "))
	}

	// RemoveDiffDisk / ReplaceDisk: the chain is re-linked (removeDiskNode) before the files are unlinked
	{
		for _, n := range []string{"RemoveDiffDisk", "ReplaceDisk"} {
			f := rep.fn("Replica", n)
			var order []string
			ast.Inspect(f, func(x ast.Node) bool {
				if c, ok := x.(*ast.CallExpr); ok {
					t := src(c.Fun)
					if t == "r.removeDiskNode" || t == "r.rmDisk" || t == "r.hardlinkDisk" || t == "r.holeDrainer" {
						order = append(order, src(c))
					}
				}
				return true
			})
			addStr("order_"+n, strings.Join(order, " ; "))
		}
		// removeDiskNode: the top-level statements after the metadata updates (the parent of the head is
		// refreshed BEFORE the node is cut out of the active chain)
		{
			f := rep.fn("Replica", "removeDiskNode")
			var tail []string
			for _, st := range f.Body.List {
				t := src(st)
				if strings.Contains(t, "activeDiskData") || strings.Contains(t, "r.info.Parent") || strings.Contains(t, "RemoveIndex") || strings.Contains(t, "delete(r.diskData") {
					if len(t) > 160 {
						t = t[:160]
					}
					tail = append(tail, strings.Join(strings.Fields(t), " "))
				}
			}
			addStr("removeDiskNodeTail", strings.Join(tail, " ; "))
		}
	}

	// the wire frame of the data-path RPC: the fields Wire.Write sends and Wire.Read expects, in order,
	// with their widths (from the types in rpc.Message) and the byte order
	{
		wire := parse(*repo, "rpc/wire.go")
		typesf := parse(*repo, "rpc/types.go")
		widths := map[string]int{"uint16": 2, "uint32": 4, "int32": 4, "uint64": 8, "int64": 8}
		ftype := map[string]string{}
		ast.Inspect(typesf.ast, func(x ast.Node) bool {
			if ts, ok := x.(*ast.TypeSpec); ok && ts.Name.Name == "Message" {
				if st, ok := ts.Type.(*ast.StructType); ok {
					for _, fl := range st.Fields.List {
						for _, n := range fl.Names {
							ftype[n.Name] = src(fl.Type)
						}
					}
				}
			}
			return true
		})
		layout := func(fn string, call string) string {
			f := wire.fn("Wire", fn)
			var fields []string
			ast.Inspect(f, func(x ast.Node) bool {
				c, ok := x.(*ast.CallExpr)
				if !ok || src(c.Fun) != call || len(c.Args) != 3 {
					return true
				}
				if src(c.Args[1]) != "binary.LittleEndian" {
					fail("Wire.%s: byte order %s", fn, src(c.Args[1]))
				}
				a := strings.TrimPrefix(src(c.Args[2]), "&")
				switch {
				case strings.HasPrefix(a, "msg."):
					n := strings.TrimPrefix(a, "msg.")
					w, ok := widths[ftype[n]]
					if !ok {
						fail("Wire.%s: field %s has type %q", fn, n, ftype[n])
					}
					fields = append(fields, fmt.Sprintf("(%s, %d)", leanStr(n), w))
				case a == "uint32(len(msg.Data))" || a == "length":
					fields = append(fields, "(\"len\", 4)")
				default:
					fail("Wire.%s: unexpected operand %s", fn, a)
				}
				return true
			})
			return "[" + strings.Join(fields, ", ") + "]"
		}
		addFn("wireWrite", "", "List (String × Nat)", layout("Write", "binary.Write"), "rpc/wire.go Wire.Write")
		addFn("wireRead", "", "List (String × Nat)", layout("Read", "binary.Read"), "rpc/wire.go Wire.Read")
		rd := wire.fn("Wire", "Read")
		addStr("wireMagicCheck", src(oneIf("Wire.Read", rd, "msg.MagicVersion != MagicVersion")))
	}

	// ---- emit ---------------------------------------------------------------------------
	var b strings.Builder
	b.WriteString("/- GENERATED by /verif/extract from /repo's working tree. Do not edit. -/\nnamespace Jiva.Gen\n\n")
	for _, f := range facts {
		fmt.Fprintf(&b, "/-- %s -/\ndef %s %s : %s :=\n  %s\n\n", f.origin, f.name, f.params, f.ty, f.body)
	}
	b.WriteString("/-- load-bearing statements as canonical source text -/\ndef strFacts : List (String × String) :=\n  [")
	for i, s := range strFacts {
		if i > 0 {
			b.WriteString(",\n   ")
		}
		fmt.Fprintf(&b, "(%s, %s)", leanStr(s[0]), leanStr(s[1]))
	}
	b.WriteString("]\n\n/-- short digests of the statement facts (what `Tie.lean` compares) -/\ndef factDigests : List (String × String) :=\n  [")
	for i, s := range strFacts {
		if i > 0 {
			b.WriteString(",\n   ")
		}
		fmt.Fprintf(&b, "(%s, %s)", leanStr(s[0]), leanStr(fmt.Sprintf("%x", sha256.Sum256([]byte(s[1])))[:16]))
	}
	b.WriteString("]\n\nend Jiva.Gen\n")
	if *out == "" {
		fmt.Print(b.String())
		return
	}
	if err := os.WriteFile(filepath.Join(*out, "Facts.lean"), []byte(b.String()), 0644); err != nil {
		fail("%v", err)
	}
	// the same facts for the driver script (diagnostics: which fact changed, old vs new text)
	js := map[string]string{}
	for _, f := range facts {
		js[f.name] = f.body
	}
	for _, s := range strFacts {
		js[s[0]] = s[1]
	}
	jb, _ := json.MarshalIndent(js, "", " ")
	os.WriteFile(filepath.Join(*out, "facts.json"), jb, 0644)
	fmt.Printf("extract: %d translated definitions, %d statement facts\n", len(facts), len(strFacts))
	analyseLocks(*repo, *out)
}

func uniq(l []string) []string {
	var out []string
	for i, s := range l {
		if i == 0 || s != l[i-1] {
			out = append(out, s)
		}
	}
	return out
}

func joinQ(l []string) string {
	var q []string
	for _, s := range l {
		q = append(q, leanStr(s))
	}
	return strings.Join(q, ", ")
}
