// locks.go: the lock discipline of the management paths, regenerated from the source (C14: "no
// request leaves a lock held or dead-locks the process").
//
// For every function of the controller, its REST server, the replica and its REST server that
// touches a mutex, the distinct sequences of lock events along its control-flow paths are computed
// (if / switch / select branches, loops taken zero times or once, returns, deferred unlocks run at
// the exit, calls of other analysed functions that take a lock).  They are written as data to
// Generated/Locks.lean; `Properties/C14.lean` proves — by evaluation in the kernel — that every
// sequence is balanced: nothing is unlocked that is not held, nothing is locked twice, no callee
// locks what the caller holds, and nothing is held at the exit.
//
// The analysis is syntactic (go/ast only).  What it cannot follow is listed, never guessed:
// function values, interface calls, goto, and expressions whose type it cannot resolve.
package main

import (
	"fmt"
	"go/ast"
	"go/parser"
	"go/token"
	"os"
	"path/filepath"
	"sort"
	"strings"
)

type lfunc struct {
	pkg, recvType, recvName, name string
	decl                          *ast.FuncDecl
	imports                       map[string]string // alias -> package key
}

func (f *lfunc) key() string {
	if f.recvType != "" {
		return f.pkg + "." + f.recvType + "." + f.name
	}
	return f.pkg + "." + f.name
}

type lev struct {
	kind int // 0 acq 1 rel 2 racq 3 rrel 4 callW 5 callR
	lock string
}

var (
	lfuncs   = map[string]*lfunc{}
	lstructs = map[string]map[string]string{} // "pkg.Type" -> field -> type ("pkg.Type", "sync.Mutex", "sync.RWMutex", "")
	lembeds  = map[string]string{}            // "pkg.Type" -> "sync.Mutex" / "sync.RWMutex" when embedded
	lskipped = map[string]string{}            // function -> why it is not analysed
)

var lockPkgs = map[string]string{
	"controller": "controller", "controller/rest": "crest", "replica": "replica", "replica/rest": "rrest",
}

func pkgKeyOfImport(path string) string {
	for dir, k := range lockPkgs {
		if strings.HasSuffix(path, "/jiva/"+dir) {
			return k
		}
	}
	if path == "sync" {
		return "sync"
	}
	return ""
}

func typeString(e ast.Expr, pkg string, imports map[string]string) string {
	switch t := e.(type) {
	case *ast.StarExpr:
		return typeString(t.X, pkg, imports)
	case *ast.Ident:
		return pkg + "." + t.Name
	case *ast.SelectorExpr:
		if id, ok := t.X.(*ast.Ident); ok {
			if k, ok := imports[id.Name]; ok && k != "" {
				return k + "." + t.Sel.Name
			}
		}
	}
	return ""
}

func loadLockPackages(repo string) {
	for dir, pk := range lockPkgs {
		ents, err := os.ReadDir(filepath.Join(repo, dir))
		if err != nil {
			fail("locks: %v", err)
		}
		for _, e := range ents {
			n := e.Name()
			if !strings.HasSuffix(n, ".go") || strings.HasSuffix(n, "_test.go") || n == "verif_hooks.go" {
				continue
			}
			af, err := parser.ParseFile(fset, filepath.Join(repo, dir, n), nil, 0)
			if err != nil {
				fail("locks: parse %s/%s: %v", dir, n, err)
			}
			imports := map[string]string{}
			for _, im := range af.Imports {
				p := strings.Trim(im.Path.Value, `"`)
				alias := p[strings.LastIndex(p, "/")+1:]
				if im.Name != nil {
					alias = im.Name.Name
				}
				imports[alias] = pkgKeyOfImport(p)
			}
			for _, d := range af.Decls {
				switch x := d.(type) {
				case *ast.GenDecl:
					for _, sp := range x.Specs {
						ts, ok := sp.(*ast.TypeSpec)
						if !ok {
							continue
						}
						st, ok := ts.Type.(*ast.StructType)
						if !ok {
							continue
						}
						tn := pk + "." + ts.Name.Name
						lstructs[tn] = map[string]string{}
						for _, fl := range st.Fields.List {
							ty := typeString(fl.Type, pk, imports)
							if len(fl.Names) == 0 {
								if ty == "sync.Mutex" || ty == "sync.RWMutex" {
									lembeds[tn] = ty
								}
								continue
							}
							for _, nm := range fl.Names {
								lstructs[tn][nm.Name] = ty
							}
						}
					}
				case *ast.FuncDecl:
					if x.Body == nil {
						continue
					}
					f := &lfunc{pkg: pk, name: x.Name.Name, decl: x, imports: imports}
					if x.Recv != nil && len(x.Recv.List) == 1 {
						f.recvType = strings.TrimPrefix(src(x.Recv.List[0].Type), "*")
						if len(x.Recv.List[0].Names) == 1 {
							f.recvName = x.Recv.List[0].Names[0].Name
						}
					}
					lfuncs[f.key()] = f
				}
			}
		}
	}
}

// ---- per-function analysis ---------------------------------------------------------------------

type lscope struct {
	f    *lfunc
	vars map[string]string // identifier -> "pkg.Type"
}

func newScope(f *lfunc) *lscope {
	s := &lscope{f: f, vars: map[string]string{}}
	if f.recvName != "" {
		s.vars[f.recvName] = f.pkg + "." + f.recvType
	}
	if f.decl.Type.Params != nil {
		for _, p := range f.decl.Type.Params.List {
			ty := typeString(p.Type, f.pkg, f.imports)
			for _, n := range p.Names {
				s.vars[n.Name] = ty
			}
		}
	}
	return s
}

func (s *lscope) typeOf(e ast.Expr) string {
	switch x := e.(type) {
	case *ast.Ident:
		return s.vars[x.Name]
	case *ast.SelectorExpr:
		if t := s.typeOf(x.X); t != "" {
			if fs, ok := lstructs[t]; ok {
				return fs[x.Sel.Name]
			}
		}
	case *ast.ParenExpr:
		return s.typeOf(x.X)
	case *ast.StarExpr:
		return s.typeOf(x.X)
	case *ast.UnaryExpr:
		if x.Op == token.AND {
			return s.typeOf(x.X)
		}
	}
	return ""
}

// lockName: the mutex an expression `X` in `X.Lock()` denotes, by the type that owns it.
func (s *lscope) lockName(x ast.Expr) string {
	t := s.typeOf(x)
	if t == "sync.Mutex" || t == "sync.RWMutex" {
		if sel, ok := x.(*ast.SelectorExpr); ok {
			if owner := s.typeOf(sel.X); owner != "" {
				return owner + "." + sel.Sel.Name
			}
		}
		return "?" + s.f.key() + ":" + src(x)
	}
	if t != "" && lembeds[t] != "" {
		return t
	}
	return "?" + s.f.key() + ":" + src(x)
}

var lockMethods = map[string]int{"Lock": 0, "Unlock": 1, "RLock": 2, "RUnlock": 3}

// acquires: the locks a function takes (itself or through analysed callees), as check-only events
var acquires = map[string][]lev{}

func (s *lscope) callee(c *ast.CallExpr) string {
	switch fn := c.Fun.(type) {
	case *ast.Ident:
		k := s.f.pkg + "." + fn.Name
		if _, ok := lfuncs[k]; ok {
			return k
		}
	case *ast.SelectorExpr:
		if t := s.typeOf(fn.X); t != "" {
			k := t + "." + fn.Sel.Name
			if _, ok := lfuncs[k]; ok {
				return k
			}
		}
		if id, ok := fn.X.(*ast.Ident); ok {
			if pk, ok := s.f.imports[id.Name]; ok && pk != "" {
				k := pk + "." + fn.Sel.Name
				if _, ok := lfuncs[k]; ok {
					return k
				}
			}
		}
	}
	return ""
}

var exitCalls = map[string]bool{"logrus.Fatalf": true, "logrus.Fatal": true, "log.Fatal": true, "log.Fatalf": true, "os.Exit": true, "panic": true}

type lstate struct {
	evs      []lev
	deferred [][]lev // LIFO
}

func (st lstate) key() string {
	var b strings.Builder
	for _, e := range st.evs {
		fmt.Fprintf(&b, "%d%s;", e.kind, e.lock)
	}
	b.WriteString("|")
	for _, d := range st.deferred {
		for _, e := range d {
			fmt.Fprintf(&b, "%d%s;", e.kind, e.lock)
		}
		b.WriteString("/")
	}
	return b.String()
}

func (st lstate) with(e ...lev) lstate {
	n := lstate{evs: append(append([]lev{}, st.evs...), e...), deferred: st.deferred}
	return n
}

func (st lstate) withDefer(d []lev) lstate {
	nd := append(append([][]lev{}, st.deferred...), d)
	return lstate{evs: st.evs, deferred: nd}
}

func dedupe(l []lstate) []lstate {
	seen := map[string]bool{}
	var out []lstate
	for _, s := range l {
		k := s.key()
		if !seen[k] {
			seen[k] = true
			out = append(out, s)
		}
	}
	return out
}

type lwalker struct {
	s         *lscope
	finished  []lstate // paths that reached a return / the end
	exited    int      // paths that ended in Fatalf / os.Exit / panic
	unsupp    string
	direct    map[string]bool // locks this function takes itself (for the summaries)
	summaries bool            // first pass: only collect `direct` and callees
	callees   map[string]bool
}

// events of an expression: lock calls and calls of locking functions, in source order
func (w *lwalker) exprEvents(e ast.Node) (evs []lev, exits bool) {
	if e == nil {
		return nil, false
	}
	ast.Inspect(e, func(n ast.Node) bool {
		switch x := n.(type) {
		case *ast.FuncLit:
			return false // a function value: analysed separately when started with `go`
		case *ast.CallExpr:
			if exitCalls[src(x.Fun)] {
				exits = true
			}
			if sel, ok := x.Fun.(*ast.SelectorExpr); ok {
				if k, ok := lockMethods[sel.Sel.Name]; ok && len(x.Args) == 0 {
					name := w.s.lockName(sel.X)
					if !strings.HasPrefix(name, "?") || strings.Contains(strings.ToLower(src(sel.X)), "lock") || w.s.typeOf(sel.X) != "" {
						evs = append(evs, lev{k, name})
						if k == 0 || k == 2 {
							w.direct[fmt.Sprintf("%d|%s", k, name)] = true
						}
						return true
					}
				}
			}
			if cal := w.s.callee(x); cal != "" {
				w.callees[cal] = true
				if !w.summaries {
					for _, a := range acquires[cal] {
						evs = append(evs, a)
					}
				}
			}
		}
		return true
	})
	return evs, exits
}

func (w *lwalker) stmts(list []ast.Stmt, in []lstate) (out []lstate, brk []lstate) {
	cur := in
	for i, st := range list {
		if len(cur) == 0 {
			break
		}
		var b []lstate
		cur, b = w.stmt(st, cur, list[i+1:])
		brk = append(brk, b...)
		cur = dedupe(cur)
	}
	return cur, dedupe(brk)
}

// stmt returns the states that fall through and those that left by `break` (of the innermost
// switch / select / loop) — `continue` is treated like falling out of the loop body.
func (w *lwalker) stmt(st ast.Stmt, in []lstate, rest []ast.Stmt) (out []lstate, brk []lstate) {
	apply := func(n ast.Node, in []lstate) ([]lstate, bool) {
		evs, exits := w.exprEvents(n)
		var o []lstate
		for _, s := range in {
			o = append(o, s.with(evs...))
		}
		if exits {
			w.exited += len(o)
			return nil, true
		}
		return o, false
	}
	switch x := st.(type) {
	case nil:
		return in, nil
	case *ast.ExprStmt, *ast.AssignStmt, *ast.IncDecStmt, *ast.SendStmt, *ast.DeclStmt:
		if as, ok := st.(*ast.AssignStmt); ok && as.Tok == token.DEFINE && len(as.Lhs) == len(as.Rhs) {
			for i, l := range as.Lhs {
				if id, ok := l.(*ast.Ident); ok {
					if t := w.s.typeOf(as.Rhs[i]); t != "" {
						w.s.vars[id.Name] = t
					}
				}
			}
		}
		o, _ := apply(st, in)
		return o, nil
	case *ast.GoStmt:
		// the arguments are evaluated here; the body runs elsewhere
		var o []lstate = in
		for _, a := range x.Call.Args {
			o, _ = apply(a, o)
		}
		return o, nil
	case *ast.DeferStmt:
		var d []lev
		if fl, ok := x.Call.Fun.(*ast.FuncLit); ok {
			// a deferred closure: its lock events, in order, on its straight-line reading
			d, _ = w.exprEvents(fl.Body)
		} else {
			d, _ = w.exprEvents(x.Call)
		}
		var o []lstate
		for _, s := range in {
			o = append(o, s.withDefer(d))
		}
		return o, nil
	case *ast.ReturnStmt:
		o, exited := apply(st, in)
		if !exited {
			w.finished = append(w.finished, o...)
		}
		return nil, nil
	case *ast.BlockStmt:
		return w.stmts(x.List, in)
	case *ast.LabeledStmt:
		return w.stmt(x.Stmt, in, rest)
	case *ast.IfStmt:
		cur := in
		if x.Init != nil {
			cur, _ = w.stmt(x.Init, cur, nil)
		}
		cur, exited := apply(x.Cond, cur)
		if exited {
			return nil, nil
		}
		thn, b1 := w.stmts(x.Body.List, cur)
		var els, b2 []lstate
		if x.Else != nil {
			els, b2 = w.stmt(x.Else, cur, nil)
		} else {
			els = cur
		}
		return dedupe(append(thn, els...)), append(b1, b2...)
	case *ast.SwitchStmt, *ast.TypeSwitchStmt, *ast.SelectStmt:
		cur := in
		var body *ast.BlockStmt
		switch y := st.(type) {
		case *ast.SwitchStmt:
			if y.Init != nil {
				cur, _ = w.stmt(y.Init, cur, nil)
			}
			cur, _ = apply(y.Tag, cur)
			body = y.Body
		case *ast.TypeSwitchStmt:
			if y.Init != nil {
				cur, _ = w.stmt(y.Init, cur, nil)
			}
			cur, _ = w.stmt(y.Assign, cur, nil)
			body = y.Body
		case *ast.SelectStmt:
			body = y.Body
		}
		var o []lstate
		hasDefault := false
		for _, cl := range body.List {
			var list []ast.Stmt
			c2 := cur
			switch c := cl.(type) {
			case *ast.CaseClause:
				if c.List == nil {
					hasDefault = true
				}
				for _, e := range c.List {
					c2, _ = apply(e, c2)
				}
				list = c.Body
			case *ast.CommClause:
				if c.Comm == nil {
					hasDefault = true
				} else {
					c2, _ = w.stmt(c.Comm, c2, nil)
				}
				list = c.Body
			}
			f, b := w.stmts(list, c2)
			o = append(o, f...)
			o = append(o, b...) // `break` leaves the switch
		}
		if _, isSel := st.(*ast.SelectStmt); !hasDefault && !isSel {
			o = append(o, cur...)
		}
		return dedupe(o), nil
	case *ast.ForStmt:
		cur := in
		if x.Init != nil {
			cur, _ = w.stmt(x.Init, cur, nil)
		}
		cur, _ = apply(x.Cond, cur)
		once, b := w.stmts(x.Body.List, cur)
		if x.Post != nil {
			once, _ = w.stmt(x.Post, once, nil)
		}
		o := append([]lstate{}, once...)
		o = append(o, b...)
		if x.Cond != nil { // zero iterations are possible only with a condition
			o = append(o, cur...)
		}
		return dedupe(o), nil
	case *ast.RangeStmt:
		cur, _ := apply(x.X, in)
		once, b := w.stmts(x.Body.List, cur)
		o := append(append(append([]lstate{}, once...), b...), cur...)
		return dedupe(o), nil
	case *ast.BranchStmt:
		switch x.Tok {
		case token.BREAK:
			return nil, in
		case token.CONTINUE:
			return in, nil // the rest of the body is skipped: approximated by falling through the loop end
		case token.GOTO:
			w.unsupp = "goto"
			return nil, nil
		}
		return in, nil
	case *ast.EmptyStmt:
		return in, nil
	}
	w.unsupp = fmt.Sprintf("statement %T", st)
	return in, nil
}

func analyseLocks(repo, out string) {
	loadLockPackages(repo)
	keys := make([]string, 0, len(lfuncs))
	for k := range lfuncs {
		keys = append(keys, k)
	}
	sort.Strings(keys)
	// pass 1: which locks each function takes itself, and whom it calls
	direct := map[string]map[string]bool{}
	calls := map[string]map[string]bool{}
	for _, k := range keys {
		f := lfuncs[k]
		w := &lwalker{s: newScope(f), direct: map[string]bool{}, callees: map[string]bool{}, summaries: true}
		w.stmts(f.decl.Body.List, []lstate{{}})
		direct[k], calls[k] = w.direct, w.callees
	}
	// transitive closure: a call of f may take every lock f or its callees take
	for changed := true; changed; {
		changed = false
		for _, k := range keys {
			for c := range calls[k] {
				for d := range direct[c] {
					if !direct[k][d] {
						direct[k][d] = true
						changed = true
					}
				}
			}
		}
	}
	for _, k := range keys {
		var l []string
		for d := range direct[k] {
			l = append(l, d)
		}
		sort.Strings(l)
		for _, d := range l {
			p := strings.SplitN(d, "|", 2)
			kind := 4
			if p[0] == "2" {
				kind = 5
			}
			acquires[k] = append(acquires[k], lev{kind, p[1]})
		}
	}
	// pass 2: the event sequences of every function that touches a lock itself
	type res struct {
		name  string
		paths [][]lev
	}
	var results []res
	lockIDs := map[string]int{}
	var lockNames []string
	id := func(n string) int {
		if i, ok := lockIDs[n]; ok {
			return i
		}
		lockIDs[n] = len(lockNames)
		lockNames = append(lockNames, n)
		return lockIDs[n]
	}
	for _, k := range keys {
		f := lfuncs[k]
		w := &lwalker{s: newScope(f), direct: map[string]bool{}, callees: map[string]bool{}}
		end, _ := w.stmts(f.decl.Body.List, []lstate{{}})
		w.finished = append(w.finished, end...)
		if w.unsupp != "" {
			touches := false
			for _, st := range w.finished {
				if len(st.evs) > 0 || len(st.deferred) > 0 {
					touches = true
				}
			}
			if touches || len(direct[k]) > 0 {
				lskipped[k] = w.unsupp
			}
			continue
		}
		seen := map[string]bool{}
		var paths [][]lev
		interesting := false
		for _, st := range w.finished {
			evs := append([]lev{}, st.evs...)
			for i := len(st.deferred) - 1; i >= 0; i-- {
				evs = append(evs, st.deferred[i]...)
			}
			for _, e := range evs {
				if e.kind <= 3 {
					interesting = true
				}
			}
			key := fmt.Sprint(evs)
			if !seen[key] {
				seen[key] = true
				paths = append(paths, evs)
			}
		}
		if !interesting {
			continue // only calls of locking functions, never holding a lock itself
		}
		sort.Slice(paths, func(i, j int) bool { return fmt.Sprint(paths[i]) < fmt.Sprint(paths[j]) })
		results = append(results, res{k, paths})
	}
	var b strings.Builder
	b.WriteString("/- GENERATED by /verif/extract (locks.go) from /repo's working tree. Do not edit. -/\nnamespace Jiva.Gen\n\n")
	b.WriteString("/-- the distinct lock-event sequences of every function that handles a mutex: (kind, lock) with kind\n    0 Lock, 1 Unlock, 2 RLock, 3 RUnlock, 4 / 5 a call of a function that takes the write / read lock -/\n")
	b.WriteString("def lockPaths : List (String × List (List (Nat × Nat))) :=\n  [")
	npaths := 0
	for i, r := range results {
		if i > 0 {
			b.WriteString(",\n   ")
		}
		var ps []string
		for _, p := range r.paths {
			var es []string
			for _, e := range p {
				es = append(es, fmt.Sprintf("(%d, %d)", e.kind, id(e.lock)))
			}
			ps = append(ps, "["+strings.Join(es, ", ")+"]")
			npaths++
		}
		fmt.Fprintf(&b, "(%s, [%s])", leanStr(r.name), strings.Join(ps, ", "))
	}
	b.WriteString("]\n\ndef lockNames : List String :=\n  [" + joinQ(lockNames) + "]\n\n")
	var sk []string
	for k, why := range lskipped {
		sk = append(sk, k+": "+why)
	}
	sort.Strings(sk)
	b.WriteString("/-- functions that handle a lock but use a construct the path enumeration does not follow -/\ndef lockSkipped : List String :=\n  [" + joinQ(sk) + "]\n\nend Jiva.Gen\n")
	if err := os.WriteFile(filepath.Join(out, "Locks.lean"), []byte(b.String()), 0644); err != nil {
		fail("%v", err)
	}
	fmt.Printf("extract: lock discipline: %d functions, %d distinct event sequences, %d locks, %d not analysed\n", len(results), npaths, len(lockNames), len(sk))
}
