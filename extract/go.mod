module jivaverif/extract

go 1.21
