//go:build verif
// +build verif

// Package stack runs real replicas behind their real REST and RPC servers on loopback addresses,
// so that a real controller with the real remote backend can drive them in-process.  It mirrors the
// few lines of app/replica.go that wire replica.Server to rest.NewRouter and rpc.NewServer; the
// listeners outlive a sequence and are re-pointed at the next replica.Server with Set.
package stack

import (
	"strings"
	"fmt"
	"io"
	"net"
	"net/http"
	"os"
	"os/exec"
	"strconv"
	"sync"
	"sync/atomic"
	"syscall"
	"time"

	"github.com/docker/docker/pkg/reexec"
	"github.com/openebs/jiva/replica"
	"github.com/openebs/jiva/replica/rest"
	"github.com/openebs/jiva/rpc"
	"github.com/openebs/jiva/sync/agent"
	"github.com/openebs/sparse-tools/cli/sfold"
	"github.com/openebs/sparse-tools/cli/ssync"
	"github.com/sirupsen/logrus"
)

// Endpoint is one replica address: control on ip:9502, data on ip:9503.
type Endpoint struct {
	IP     string
	cur    atomic.Value // *holder
	mu     sync.Mutex
	conns  map[net.Conn]bool
	dataLn *net.TCPListener
	agent  *exec.Cmd
}

type holder struct {
	s *replica.Server
	h http.Handler
}

var (
	mu  sync.Mutex
	eps = map[string]*Endpoint{}
)

// Addr is the controller-side address of the endpoint.
func (e *Endpoint) Addr() string { return "tcp://" + e.IP + ":9502" }

// Up returns the endpoint for ip, creating its listeners on first use.
func Up(ip string) (*Endpoint, error) {
	mu.Lock()
	defer mu.Unlock()
	if e, ok := eps[ip]; ok {
		return e, nil
	}
	e := &Endpoint{IP: ip, conns: map[net.Conn]bool{}}
	cl, err := net.Listen("tcp", ip+":9502")
	if err != nil {
		return nil, err
	}
	da, _ := net.ResolveTCPAddr("tcp", ip+":9503")
	dl, err := net.ListenTCP("tcp", da)
	if err != nil {
		cl.Close()
		return nil, err
	}
	e.dataLn = dl
	go http.Serve(cl, http.HandlerFunc(func(w http.ResponseWriter, r *http.Request) {
		h, _ := e.cur.Load().(*holder)
		if h == nil || h.h == nil {
			http.Error(w, "no replica", 503)
			return
		}
		h.h.ServeHTTP(w, r)
	}))
	go func() {
		for {
			conn, err := dl.AcceptTCP()
			if err != nil {
				return
			}
			h, _ := e.cur.Load().(*holder)
			if h == nil || h.s == nil {
				conn.Close()
				continue
			}
			e.mu.Lock()
			e.conns[conn] = true
			e.mu.Unlock()
			// replica/rpc/server.go: one rpc.Server per accepted connection
			go func(conn net.Conn, s *replica.Server) {
				server := rpc.NewServer(conn, s)
				server.Handle()
				e.mu.Lock()
				delete(e.conns, conn)
				e.mu.Unlock()
			}(conn, h.s)
		}
	}()
	eps[ip] = e
	return e, nil
}

// Set points the endpoint at s (nil: nothing is served) and drops the data connections of the
// previous server.
func (e *Endpoint) Set(s *replica.Server) {
	if s == nil {
		e.cur.Store(&holder{})
	} else {
		e.cur.Store(&holder{s: s, h: rest.NewRouter(rest.NewServer(s))})
	}
	e.mu.Lock()
	for c := range e.conns {
		c.Close()
	}
	e.mu.Unlock()
}

// WaitIdle waits until no data connection is left.
func (e *Endpoint) WaitIdle(d time.Duration) error {
	end := time.Now().Add(d)
	for time.Now().Before(end) {
		e.mu.Lock()
		n := len(e.conns)
		e.mu.Unlock()
		if n == 0 {
			return nil
		}
		time.Sleep(time.Millisecond)
	}
	return fmt.Errorf("data connections still open on %s", e.IP)
}

// ---- the sync agent (sync/agent) and ssync, run as children of the harness binary the way
// main.go / app/replica.go run them: re-exec of the own binary, cwd = replica directory ----------

func agentMain() {
	// argv: verif-agent LISTEN START END ; cwd is the replica directory
	start, _ := strconv.Atoi(os.Args[2])
	end, _ := strconv.Atoi(os.Args[3])
	if os.Getenv("VERIF_AGENT_LOG") == "" {
		logrus.SetOutput(io.Discard)
	}
	srv := agent.NewServer(start, end)
	if err := http.ListenAndServe(os.Args[1], agent.NewRouter(srv)); err != nil {
		fmt.Fprintln(os.Stderr, "verif-agent:", err)
		os.Exit(1)
	}
}

// Init must be the first thing main does: it turns the process into ssync or the sync agent when it
// was re-executed as one of them (and then does not return).
func Init() {
	// ssync is what the sync agent runs for a file transfer.  A marker file in the sender's working
	// directory (the source replica's directory) makes ONE transfer of a snapshot data file end the way
	// a transfer cut in the middle does: the second half of the file never reaches the destination (it
	// stays a hole there) and the sender exits with an error.
	reexec.Register("ssync-real", ssync.Main)
	reexec.Register("ssync", func() {
		args := os.Args[1:]
		src := ""
		if len(args) > 0 && !strings.HasPrefix(args[len(args)-1], "-") {
			src = args[len(args)-1]
		}
		daemon := false
		for _, a := range args {
			if a == "-daemon" {
				daemon = true
			}
		}
		target := os.Getenv("VERIF_SSYNC_FAULT_TARGET")
		if _, err := os.Stat(".verif-ssync-fault"); err != nil || daemon || target == "" || !strings.HasSuffix(src, ".img") {
			ssync.Main()
			return
		}
		os.Remove(".verif-ssync-fault")
		cmd := reexec.Command(append([]string{"ssync-real"}, args...)...)
		cmd.Stdout, cmd.Stderr = os.Stdout, os.Stderr
		cmd.Run()
		if st, err := os.Stat(target + "/" + src); err == nil {
			os.Truncate(target+"/"+src, st.Size()/2/4096*4096)
			os.Truncate(target+"/"+src, st.Size())
		}
		os.Exit(1)
	})
	// sfold is what the sync agent runs for a "fold" (coalesce) request; a marker file in the agent's
	// working directory (the replica directory) makes it fail the way a full disk or a killed child does
	reexec.Register("sfold", func() {
		if b, err := os.ReadFile(".verif-fold-fault"); err == nil {
			if strings.TrimSpace(string(b)) == "signal" {
				// killed in the middle (the OOM killer, an operator): the agent then reports exit status -1
				syscall.Kill(os.Getpid(), syscall.SIGKILL)
				time.Sleep(time.Second)
			}
			os.Exit(1)
		}
		sfold.Main()
	})
	reexec.Register("verif-agent", agentMain)
	if reexec.Init() {
		os.Exit(0)
	}
}

// StartAgent (re)starts the endpoint's sync agent on ip:9504 with dir as its working directory.
func (e *Endpoint) StartAgent(dir string, portStart int) error {
	e.StopAgent()
	cmd := reexec.Command("verif-agent", e.IP+":9504", strconv.Itoa(portStart), strconv.Itoa(portStart+7))
	cmd.Dir = dir
	cmd.SysProcAttr = &syscall.SysProcAttr{Pdeathsig: syscall.SIGKILL}
	cmd.Stdout = io.Discard
	cmd.Stderr = io.Discard
	if lf := os.Getenv("VERIF_AGENT_LOG"); lf != "" {
		if f, err := os.OpenFile(lf, os.O_CREATE|os.O_APPEND|os.O_WRONLY, 0644); err == nil {
			cmd.Stdout, cmd.Stderr = f, f
		}
	}
	if err := cmd.Start(); err != nil {
		return err
	}
	e.agent = cmd
	for i := 0; i < 400; i++ {
		c, err := net.DialTimeout("tcp", e.IP+":9504", 100*time.Millisecond)
		if err == nil {
			c.Close()
			return nil
		}
		time.Sleep(10 * time.Millisecond)
	}
	return fmt.Errorf("sync agent on %s did not come up", e.IP)
}

// StopAgent kills the endpoint's sync agent (and with it its ssync children).
func (e *Endpoint) StopAgent() {
	if e.agent != nil && e.agent.Process != nil {
		e.agent.Process.Kill()
		e.agent.Wait()
	}
	e.agent = nil
}

// PortBase returns the start of this process's private range for ssync receivers.
func PortBase() int { return 12000 + (os.Getpid()%1000)*20 }

// ---- gates: the harness can hold a matching REST request before it is handled, or its response
// after it was handled, to schedule the steps of a real multi-request procedure -------------------

// Gate holds the first request for which Match is true.
type Gate struct {
	Match   func(r *http.Request) bool
	After   bool          // hold the response (the handler has run) instead of the request
	Reached chan struct{} // closed when a request arrived at the gate
	release chan struct{}
	once    sync.Once
}

// NewGate makes an armed gate.
func NewGate(after bool, match func(r *http.Request) bool) *Gate {
	return &Gate{Match: match, After: after, Reached: make(chan struct{}), release: make(chan struct{})}
}

// Release lets the held request (or any later one) through.
func (g *Gate) Release() { g.once.Do(func() { close(g.release) }) }

// Action matches POST …?action=name.
func Action(name string) func(r *http.Request) bool {
	return func(r *http.Request) bool { return r.Method == "POST" && r.URL.Query().Get("action") == name }
}

type gated struct {
	mu    sync.Mutex
	gates []*Gate
	h     http.Handler
}

func (g *gated) ServeHTTP(w http.ResponseWriter, r *http.Request) {
	g.mu.Lock()
	var hit *Gate
	for _, x := range g.gates {
		select {
		case <-x.Reached:
			continue // already used
		default:
		}
		if x.Match(r) {
			hit = x
			break
		}
	}
	g.mu.Unlock()
	if hit != nil && !hit.After {
		close(hit.Reached)
		<-hit.release
	}
	g.h.ServeHTTP(w, r)
	if hit != nil && hit.After {
		close(hit.Reached)
		<-hit.release
	}
}

// SetGated points the endpoint at s like Set, with gates on its REST requests.
func (e *Endpoint) SetGated(s *replica.Server, gates ...*Gate) {
	e.cur.Store(&holder{s: s, h: &gated{gates: gates, h: rest.NewRouter(rest.NewServer(s))}})
	e.mu.Lock()
	for c := range e.conns {
		c.Close()
	}
	e.mu.Unlock()
}

// Control is a controller's REST endpoint (ip:9501).
type Control struct {
	IP  string
	cur atomic.Value // http.Handler
}

var ctls = map[string]*Control{}

// UpControl returns the controller endpoint for ip, creating its listener on first use.
func UpControl(ip string) (*Control, error) {
	mu.Lock()
	defer mu.Unlock()
	if c, ok := ctls[ip]; ok {
		return c, nil
	}
	c := &Control{IP: ip}
	ln, err := net.Listen("tcp", ip+":9501")
	if err != nil {
		return nil, err
	}
	go http.Serve(ln, http.HandlerFunc(func(w http.ResponseWriter, r *http.Request) {
		h, _ := c.cur.Load().(*gated)
		if h == nil || h.h == nil {
			http.Error(w, "no controller", 503)
			return
		}
		h.ServeHTTP(w, r)
	}))
	ctls[ip] = c
	return c, nil
}

// URL is what sync.NewTask / the controller client take.
func (c *Control) URL() string { return "http://" + c.IP + ":9501" }

// Set serves h (nil: nothing) behind the gates.
func (c *Control) Set(h http.Handler, gates ...*Gate) {
	c.cur.Store(&gated{gates: gates, h: h})
}
