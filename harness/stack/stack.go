//go:build verif
// +build verif

// Package stack runs real replicas behind their real REST and RPC servers on loopback addresses,
// so that a real controller with the real remote backend can drive them in-process.  It mirrors the
// few lines of app/replica.go that wire replica.Server to rest.NewRouter and rpc.NewServer; the
// listeners outlive a sequence and are re-pointed at the next replica.Server with Set.
package stack

import (
	"fmt"
	"net"
	"net/http"
	"sync"
	"sync/atomic"
	"time"

	"github.com/openebs/jiva/replica"
	"github.com/openebs/jiva/replica/rest"
	"github.com/openebs/jiva/rpc"
)

// Endpoint is one replica address: control on ip:9502, data on ip:9503.
type Endpoint struct {
	IP     string
	cur    atomic.Value // *holder
	mu     sync.Mutex
	conns  map[net.Conn]bool
	dataLn *net.TCPListener
}

type holder struct {
	s *replica.Server
	h http.Handler
}

var (
	mu  sync.Mutex
	eps = map[string]*Endpoint{}
)

// Addr is the controller-side address of the endpoint.
func (e *Endpoint) Addr() string { return "tcp://" + e.IP + ":9502" }

// Up returns the endpoint for ip, creating its listeners on first use.
func Up(ip string) (*Endpoint, error) {
	mu.Lock()
	defer mu.Unlock()
	if e, ok := eps[ip]; ok {
		return e, nil
	}
	e := &Endpoint{IP: ip, conns: map[net.Conn]bool{}}
	cl, err := net.Listen("tcp", ip+":9502")
	if err != nil {
		return nil, err
	}
	da, _ := net.ResolveTCPAddr("tcp", ip+":9503")
	dl, err := net.ListenTCP("tcp", da)
	if err != nil {
		cl.Close()
		return nil, err
	}
	e.dataLn = dl
	go http.Serve(cl, http.HandlerFunc(func(w http.ResponseWriter, r *http.Request) {
		h, _ := e.cur.Load().(*holder)
		if h == nil || h.h == nil {
			http.Error(w, "no replica", 503)
			return
		}
		h.h.ServeHTTP(w, r)
	}))
	go func() {
		for {
			conn, err := dl.AcceptTCP()
			if err != nil {
				return
			}
			h, _ := e.cur.Load().(*holder)
			if h == nil || h.s == nil {
				conn.Close()
				continue
			}
			e.mu.Lock()
			e.conns[conn] = true
			e.mu.Unlock()
			// replica/rpc/server.go: one rpc.Server per accepted connection
			go func(conn net.Conn, s *replica.Server) {
				server := rpc.NewServer(conn, s)
				server.Handle()
				e.mu.Lock()
				delete(e.conns, conn)
				e.mu.Unlock()
			}(conn, h.s)
		}
	}()
	eps[ip] = e
	return e, nil
}

// Set points the endpoint at s (nil: nothing is served) and drops the data connections of the
// previous server.
func (e *Endpoint) Set(s *replica.Server) {
	if s == nil {
		e.cur.Store(&holder{})
	} else {
		e.cur.Store(&holder{s: s, h: rest.NewRouter(rest.NewServer(s))})
	}
	e.mu.Lock()
	for c := range e.conns {
		c.Close()
	}
	e.mu.Unlock()
}

// WaitIdle waits until no data connection is left.
func (e *Endpoint) WaitIdle(d time.Duration) error {
	end := time.Now().Add(d)
	for time.Now().Before(end) {
		e.mu.Lock()
		n := len(e.conns)
		e.mu.Unlock()
		if n == 0 {
			return nil
		}
		time.Sleep(time.Millisecond)
	}
	return fmt.Errorf("data connections still open on %s", e.IP)
}
