module jivaverif/harness

go 1.21

require (
	github.com/docker/docker v17.12.0-ce-rc1.0.20200531234253-77e06fda0c94+incompatible
	github.com/docker/go-units v0.4.0
	github.com/openebs/jiva v0.0.0
	github.com/openebs/sparse-tools v1.1.0
	github.com/sirupsen/logrus v1.7.0
)

require (
	github.com/beorn7/perks v1.0.1 // indirect
	github.com/cespare/xxhash/v2 v2.1.1 // indirect
	github.com/cpuguy83/go-md2man/v2 v2.0.0-20190314233015-f79a8a8ca69d // indirect
	github.com/frostschutz/go-fibmap v0.0.0-20160825162329-b32c231bfe6a // indirect
	github.com/golang/protobuf v1.3.3 // indirect
	github.com/google/uuid v1.2.0 // indirect
	github.com/gorilla/context v1.1.1 // indirect
	github.com/gorilla/handlers v1.4.2 // indirect
	github.com/gorilla/mux v1.7.4 // indirect
	github.com/gorilla/websocket v1.4.1 // indirect
	github.com/gostor/gotgt v0.2.1-0.20210817044456-e5d5366e2b59 // indirect
	github.com/matttproud/golang_protobuf_extensions v1.0.1 // indirect
	github.com/natefinch/lumberjack v2.0.0+incompatible // indirect
	github.com/pkg/errors v0.9.1 // indirect
	github.com/prometheus/client_golang v1.5.1 // indirect
	github.com/prometheus/client_model v0.2.0 // indirect
	github.com/prometheus/common v0.9.1 // indirect
	github.com/prometheus/procfs v0.0.8 // indirect
	github.com/rancher/go-rancher v0.1.1-0.20190307222549-9756097e5e4c // indirect
	github.com/russross/blackfriday/v2 v2.0.1 // indirect
	github.com/satori/go.uuid v1.2.0 // indirect
	github.com/shurcooL/sanitized_anchor_name v1.0.0 // indirect
	github.com/urfave/cli v1.22.3 // indirect
	go.uber.org/atomic v1.6.0 // indirect
	go.uber.org/multierr v1.5.0 // indirect
	go.uber.org/zap v1.14.1 // indirect
	golang.org/x/sys v0.0.0-20210124154548-22da62e12c0c // indirect
)

replace github.com/openebs/jiva => /repo

replace github.com/frostschutz/go-fibmap => github.com/rancher/go-fibmap v0.0.0-20160418233256-5fc9f8c1ed47
