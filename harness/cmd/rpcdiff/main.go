//go:build verif

// rpcdiff: correspondence between the REAL rpc.Wire / rpc.Client and the Lean RPC model (`drv rpc`).
//
//	codec:  random frames through Wire.Write -> bytes == model encode; bytes -> Wire.Read == model
//	        decode; bad magic; truncation at every byte.
//	client: the real Client over loopback TCP against a scripted peer: concurrent requests, replies
//	        in a seeded permutation, the peer then closes or stalls; the observed arrival order is
//	        the model's schedule; completions and the close notification are compared.
package main

import (
	"bytes"
	"encoding/hex"
	"encoding/json"
	"flag"
	"fmt"
	"io"
	"math/rand"
	"net"
	"os"
	"os/exec"
	"sort"
	"strings"
	"sync"
	"time"

	"github.com/openebs/jiva/rpc"
	"github.com/openebs/jiva/types"
	"github.com/sirupsen/logrus"
)

var (
	seed    = flag.Int64("seed", 1, "seed")
	nseq    = flag.Int("n", 4, "client scenarios (each costs a few seconds when it poisons the connection)")
	seqLen  = flag.Int("len", 200, "codec frames")
	profile = flag.String("profile", "mix", "mix")
	drv     = flag.String("drv", "/verif/lean/.lake/build/bin/drv", "model driver")
	replay  = flag.String("replay", "", "replay file")
	outDir  = flag.String("out", "/verif/replays", "replay dir")
	tag     = flag.String("tag", "rpc", "tag")
	_       = flag.String("scratch", "", "unused")
)

type violation struct {
	Replay   string `json:"replay"`
	Request  string `json:"request"`
	Internal bool   `json:"internal_only"`
	Found    bool   `json:"failing_input_found"`
}
type result struct {
	Violations []violation    `json:"violations"`
	Sequences  int            `json:"sequences"`
	Requests   int            `json:"requests"`
	OpHist     map[string]int `json:"op_hist"`
	Refused    int            `json:"refused"`
	Mismatches []string       `json:"mismatches"`
	Samples    [][]string     `json:"samples"`
	Distinct   int            `json:"distinct_nontrivial"`
	Features   map[string]int `json:"features"`
}

func runModel(lines []string) ([]string, error) {
	cmd := exec.Command(*drv, "rpc")
	cmd.Stdin = strings.NewReader(strings.Join(lines, "\n") + "\n")
	var out bytes.Buffer
	cmd.Stdout = &out
	cmd.Stderr = os.Stderr
	if err := cmd.Run(); err != nil {
		return nil, err
	}
	return strings.Split(strings.TrimRight(out.String(), "\n"), "\n"), nil
}

// ---- codec --------------------------------------------------------------------------------

type bufConn struct {
	r *bytes.Reader
	w bytes.Buffer
}

func (b *bufConn) Read(p []byte) (int, error)         { return b.r.Read(p) }
func (b *bufConn) Write(p []byte) (int, error)        { return b.w.Write(p) }
func (b *bufConn) Close() error                       { return nil }
func (b *bufConn) LocalAddr() net.Addr                { return &net.TCPAddr{} }
func (b *bufConn) RemoteAddr() net.Addr               { return &net.TCPAddr{} }
func (b *bufConn) SetDeadline(t time.Time) error      { return nil }
func (b *bufConn) SetReadDeadline(t time.Time) error  { return nil }
func (b *bufConn) SetWriteDeadline(t time.Time) error { return nil }

func hexOrDash(b []byte) string {
	if len(b) == 0 {
		return "-"
	}
	return hex.EncodeToString(b)
}

func implEnc(seq, typ uint32, off, size int64, data []byte) string {
	c := &bufConn{r: bytes.NewReader(nil)}
	w := rpc.NewWire(c)
	if err := w.Write(&rpc.Message{MagicVersion: rpc.MagicVersion, Seq: seq, Type: typ, Offset: off, Size: size, Data: data}); err != nil {
		return "error"
	}
	return "hex " + hex.EncodeToString(c.w.Bytes())
}

func implDec(b []byte) string {
	c := &bufConn{r: bytes.NewReader(b)}
	w := rpc.NewWire(c)
	m, err := w.Read()
	if err != nil {
		if strings.Contains(err.Error(), "Wrong API version") {
			return "reject"
		}
		return "short"
	}
	// what is left: the bufio reader may have buffered ahead, so compute from lengths
	used := 30 + len(m.Data)
	return fmt.Sprintf("ok %d %d %d %d %s rest=%s", m.Seq, m.Type, uint64(m.Offset), uint64(m.Size), hexOrDash(m.Data), hexOrDash(b[used:]))
}

// ---- client scenarios ------------------------------------------------------------------------

type scenario struct {
	line string
	impl string
	feat []string
}

func clientScenario(rng *rand.Rand) scenario {
	ln, err := net.Listen("tcp", "127.0.0.1:0")
	if err != nil {
		return scenario{line: "cl", impl: "listen-failed"}
	}
	defer ln.Close()
	k := 1 + rng.Intn(24)
	if rng.Intn(4) == 0 {
		k = 32 + rng.Intn(33)
	}
	nreply := rng.Intn(k + 1)
	ending := []string{"close", "stall", "alive"}[rng.Intn(3)]
	if ending == "alive" {
		nreply = k
	}
	var feat []string
	feat = append(feat, "end-"+ending, fmt.Sprintf("k%d", (k+7)/8*8))

	type arrived struct {
		seq uint32
		id  int
		typ uint32
	}
	peerDone := make(chan []string, 1)
	replied := make(chan map[int]bool, 1)
	release := make(chan struct{})
	defer close(release)
	base := make(chan uint32, 1)
	go func() {
		conn, err := ln.Accept()
		if err != nil {
			peerDone <- nil
			return
		}
		w := rpc.NewWire(conn)
		var arr []arrived
		b := <-base
		for len(arr) < k {
			m, err := w.Read()
			if err != nil {
				break
			}
			arr = append(arr, arrived{m.Seq - b, int(m.Offset / 4096), m.Type})
		}
		var evs []string
		sort.Slice(arr, func(i, j int) bool { return arr[i].seq < arr[j].seq })
		for _, a := range arr {
			evs = append(evs, fmt.Sprintf("q%d", a.id))
		}
		perm := rng.Perm(len(arr))
		rep := map[int]bool{}
		for i := 0; i < nreply && i < len(arr); i++ {
			rep[arr[perm[i]].id] = true
		}
		replied <- rep
		for i := 0; i < nreply && i < len(arr); i++ {
			a := arr[perm[i]]
			rep := &rpc.Message{MagicVersion: rpc.MagicVersion, Seq: a.seq + b, Type: rpc.TypeResponse, Size: 0}
			if a.typ == rpc.TypeRead {
				rep.Data = bytes.Repeat([]byte{byte(a.id)}, 512)
				rep.Size = 512
			}
			if rng.Intn(10) == 0 { // a stray reply with a sequence number nobody waits for
				w.Write(&rpc.Message{MagicVersion: rpc.MagicVersion, Seq: a.seq + b + 100000, Type: rpc.TypeResponse})
				evs = append(evs, fmt.Sprintf("p%d:2:0", a.seq+100000))
			}
			w.Write(rep)
			evs = append(evs, fmt.Sprintf("p%d:2:%d", a.seq, rep.Size))
		}
		switch ending {
		case "close":
			conn.Close()
			evs = append(evs, "e")
		case "stall":
			if nreply < len(arr) {
				evs = append(evs, "e") // a request will exceed its deadline
			}
			time.Sleep(7 * time.Second)
			// the peer goes away only after the scenario has been evaluated: whether the client notices the
			// closed connection before or after `notified` is read must not be a race
			peerDone <- evs
			<-release
			conn.Close()
			return
		case "alive":
			time.Sleep(300 * time.Millisecond)
			conn.Close() // the client sees EOF: one transport error with nothing in flight
			evs = append(evs, "e")
		}
		peerDone <- evs
	}()

	// a controller holds one connection per replica: sometimes ANOTHER connection of this process has a
	// request that exceeded its deadline shortly before (its peer never answers).  What happens there
	// must not show on this connection — neither while that connection is still being torn down (its
	// pending requests are failed about two seconds after the deadline) nor afterwards.
	if rng.Intn(3) == 0 {
		if lnA, err := net.Listen("tcp", "127.0.0.1:0"); err == nil {
			defer lnA.Close()
			go func() {
				if ca, err := lnA.Accept(); err == nil {
					time.Sleep(12 * time.Second) // reads nothing, answers nothing
					ca.Close()
				}
			}()
			if connA, err := net.Dial("tcp", lnA.Addr().String()); err == nil {
				cA := rpc.NewClient(connA, make(chan struct{}, 16))
				go cA.ReadAt(make([]byte, 512), 0) // the read deadline is the short one (0.7 s here)
				if rng.Intn(2) == 0 {
					time.Sleep(900 * time.Millisecond) // the request has timed out, the teardown is pending
					feat = append(feat, "other-conn-timing-out")
				} else {
					time.Sleep(3300 * time.Millisecond) // the other connection has been torn down
					feat = append(feat, "other-conn-timed-out")
				}
			}
		}
	}
	conn, err := net.Dial("tcp", ln.Addr().String())
	if err != nil {
		return scenario{line: "cl", impl: "dial-failed"}
	}
	closeChan := make(chan struct{}, 16)
	c := rpc.NewClient(conn, closeChan)
	// sometimes the connection has already carried close to 2^32 requests: the sequence number wraps
	// while requests are pending (the peer reports sequence numbers relative to `base`)
	if rng.Intn(4) == 0 {
		b := uint32(1<<32 - 1 - uint64(rng.Intn(k+2)))
		rpc.VerifSetSeq(c, uint64(b))
		base <- b
		feat = append(feat, "sequence-number-wraps")
	} else {
		base <- 0
	}
	results := make([]string, k+2)
	took := make([]time.Duration, k+2)
	var wg sync.WaitGroup
	for id := 0; id < k; id++ {
		wg.Add(1)
		go func(id int) {
			defer wg.Done()
			var n int
			var err error
			t0 := time.Now()
			switch id % 3 {
			case 0:
				buf := make([]byte, 512)
				n, err = c.ReadAt(buf, int64(id)*4096)
				if err == nil {
					for _, b := range buf {
						if b != byte(id) {
							results[id] = "wrongdata"
							return
						}
					}
				}
			case 1:
				n, err = c.WriteAt(make([]byte, 512), int64(id)*4096)
				if err == nil {
					n = 0
				}
			case 2:
				n, err = c.Unmap(int64(id)*4096, 0)
			}
			if err != nil {
				results[id] = "err"
				took[id] = time.Since(t0)
			} else {
				results[id] = fmt.Sprintf("ok:2:%d", n)
			}
		}(id)
	}
	wg.Wait()
	evs := <-peerDone
	if ending == "stall" {
		// when must the connection have been declared broken?  0.7 s after the start if a read was
		// left unanswered (its deadline), otherwise only when the peer goes away after 7 s
		rep := <-replied
		trigger := 7 * time.Second
		for id := 0; id < k; id += 3 {
			if !rep[id] {
				trigger = 700 * time.Millisecond
			}
		}
		for id := 0; id < k; id++ {
			if results[id] == "err" && took[id] > trigger+3500*time.Millisecond {
				results[id] = "hang" // failed only at its own deadline / when the peer went away
			}
		}
	}
	late := 0
	if ending != "alive" && (ending == "close" || nreply < k) {
		// the connection is poisoned: later requests must fail at once
		time.Sleep(2500 * time.Millisecond)
		for j := 0; j < 2; j++ {
			id := k + j
			t0 := time.Now()
			_, err := c.ReadAt(make([]byte, 512), int64(id)*4096)
			if err == nil {
				results[id] = "ok-after-poison"
			} else if time.Since(t0) > 200*time.Millisecond {
				results[id] = "slow-err"
			} else {
				results[id] = "err"
			}
			evs = append(evs, fmt.Sprintf("q%d", id))
			late++
		}
		feat = append(feat, "poisoned")
	}
	if ending == "alive" {
		time.Sleep(900 * time.Millisecond)
	}
	notified := len(closeChan)
	var done []string
	for id := 0; id < k+late; id++ {
		if results[id] != "" {
			done = append(done, fmt.Sprintf("%d=%s", id, results[id]))
		}
	}
	return scenario{line: "cl " + strings.Join(evs, " "),
		impl: fmt.Sprintf("done %s notified=%d pending=0", strings.Join(done, ","), notified), feat: feat}
}

func main() {
	flag.Parse()
	logrus.SetOutput(io.Discard)
	types.RPCReadTimeout = 700 * time.Millisecond
	types.RPCWriteTimeout = 700 * time.Millisecond
	rpc.SetRPCTimeout()
	// reads have a short deadline, writes/unmaps a long one: once a read deadline poisons the
	// connection the in-flight writes must fail promptly, not at their own deadline
	rpc.VerifSetTimeouts(700*time.Millisecond, 9*time.Second)
	os.MkdirAll(*outDir, 0755)
	res := result{OpHist: map[string]int{}, Features: map[string]int{}}
	rng := rand.New(rand.NewSource(*seed))

	var lines, impl []string
	if *replay != "" {
		data, _ := os.ReadFile(*replay)
		for _, l := range strings.Split(string(data), "\n") {
			if strings.TrimSpace(l) == "" || strings.HasPrefix(l, "#") {
				continue
			}
			p := strings.Split(l, "\t")
			lines = append(lines, p[0])
			if strings.HasPrefix(p[0], "enc ") {
				var seq, typ uint32
				var off, size uint64
				var d string
				fmt.Sscanf(p[0], "enc %d %d %d %d %s", &seq, &typ, &off, &size, &d)
				b, _ := hex.DecodeString(strings.Trim(d, "-"))
				impl = append(impl, implEnc(seq, typ, int64(off), int64(size), b))
			} else if strings.HasPrefix(p[0], "dec ") {
				b, _ := hex.DecodeString(strings.TrimPrefix(p[0], "dec "))
				impl = append(impl, implDec(b))
			} else if len(p) > 1 {
				impl = append(impl, p[1]) // client scenarios are timing dependent: recorded observation
			}
		}
	} else {
		// codec
		for i := 0; i < *seqLen; i++ {
			seq, typ := rng.Uint32(), uint32(rng.Intn(10))
			if rng.Intn(8) == 0 {
				typ = rng.Uint32()
			}
			off, size := int64(rng.Uint64()), int64(rng.Uint64())
			if rng.Intn(3) == 0 {
				off, size = int64(rng.Intn(1<<20))*512, int64(rng.Intn(1<<16))
			}
			n := []int{0, 1, 7, 512, 4096, 70000}[rng.Intn(6)]
			if n > 0 {
				n = 1 + rng.Intn(n)
			}
			data := make([]byte, n)
			rng.Read(data)
			l := fmt.Sprintf("enc %d %d %d %d %s", seq, typ, uint64(off), uint64(size), hexOrDash(data))
			lines = append(lines, l)
			e := implEnc(seq, typ, off, size, data)
			impl = append(impl, e)
			res.OpHist["enc"]++
			frame, _ := hex.DecodeString(strings.TrimPrefix(e, "hex "))
			extra := make([]byte, rng.Intn(5))
			rng.Read(extra)
			full := append(append([]byte{}, frame...), extra...)
			switch rng.Intn(4) {
			case 0: // intact
			case 1: // truncated
				full = full[:rng.Intn(len(frame))]
				res.Features["truncated"]++
			case 2: // bad magic
				full[rng.Intn(2)] ^= byte(1 + rng.Intn(255))
				res.Features["bad-magic"]++
			case 3: // two frames back to back
				full = append(append([]byte{}, frame...), frame...)
				res.Features["two-frames"]++
			}
			lines = append(lines, "dec "+hexOrDash(full))
			if len(full) == 0 {
				lines[len(lines)-1] = "dec -"
			}
			impl = append(impl, implDec(full))
			res.OpHist["dec"]++
		}
		// client scenarios
		var wg sync.WaitGroup
		sc := make([]scenario, *nseq)
		for i := 0; i < *nseq; i++ {
			wg.Add(1)
			r := rand.New(rand.NewSource(*seed*7919 + int64(i)))
			go func(i int) { defer wg.Done(); sc[i] = clientScenario(r) }(i)
		}
		wg.Wait()
		for _, s := range sc {
			lines = append(lines, s.line)
			impl = append(impl, s.impl)
			res.OpHist["cl"]++
			for _, f := range s.feat {
				res.Features[f]++
			}
		}
	}
	res.Sequences = len(lines)
	res.Requests = len(lines)
	res.Distinct = len(lines)
	model, err := runModel(lines)
	if err != nil {
		fmt.Println(err)
		os.Exit(2)
	}
	if len(lines) > 3 {
		res.Samples = append(res.Samples, []string{lines[0][:min(120, len(lines[0]))] + " -> " + impl[0][:min(120, len(impl[0]))],
			lines[len(lines)-1][:min(200, len(lines[len(lines)-1]))] + " -> " + impl[len(impl)-1][:min(200, len(impl[len(impl)-1]))]})
	}
	for i := range lines {
		if i >= len(model) || impl[i] != model[i] {
			path := fmt.Sprintf("%s/%s-seed%d-line%d.replay", *outDir, *tag, *seed, i)
			os.WriteFile(path, []byte(fmt.Sprintf("# rpcdiff disagreement; request<TAB>impl<TAB>model\n%s\t%s\t%s\n", lines[i], impl[i], get(model, i))), 0644)
			res.Violations = append(res.Violations, violation{Replay: path, Request: strings.Fields(lines[i])[0], Found: true})
			res.Mismatches = append(res.Mismatches, fmt.Sprintf("%s\n   impl =%s\n   model=%s", trunc(lines[i]), trunc(impl[i]), trunc(get(model, i))))
		}
	}
	if *replay != "" {
		for _, m := range res.Mismatches {
			fmt.Println(m)
		}
		if len(res.Mismatches) > 0 {
			fmt.Println("DISAGREE")
			os.Exit(1)
		}
		fmt.Println("AGREE")
		return
	}
	json.NewEncoder(os.Stdout).Encode(res)
	if len(res.Mismatches) > 0 {
		os.Exit(1)
	}
}

func get(l []string, i int) string {
	if i < len(l) {
		return l[i]
	}
	return ""
}

func trunc(s string) string {
	if len(s) > 300 {
		return s[:300] + "…"
	}
	return s
}
