//go:build verif

// replicadiff: correspondence check between the REAL jiva replica engine and the
// Lean model driver (`drv replica`).  Generates seeded operation sequences online
// against the implementation, feeds the same request lines to the model and
// compares the observation streams line by line.
package main

import (
	"bufio"
	"bytes"
	"encoding/json"
	"flag"
	"fmt"
	"io"
	"jivaverif/harness/stack"
	"math/rand"
	"os"
	"os/exec"
	"strings"
	"time"

	"github.com/sirupsen/logrus"

	"jivaverif/harness/rep"
)

var (
	seed    = flag.Int64("seed", 1, "seed")
	nseq    = flag.Int("n", 20, "number of sequences")
	seqLen  = flag.Int("len", 25, "generator steps per sequence")
	profile = flag.String("profile", "mix", "mix|io|snapshots|delete|mgmt|resize|counter")
	drv     = flag.String("drv", "/verif/lean/.lake/build/bin/drv", "model driver")
	scratch = flag.String("scratch", "/var/tmp", "scratch root")
	replay  = flag.String("replay", "", "replay file (request lines)")
	outDir  = flag.String("out", "/verif/replays", "where failing replays go")
	tag     = flag.String("tag", "replica", "name used in replay files")
)

type violation struct {
	Replay   string `json:"replay"`
	Request  string `json:"request"`
	Internal bool   `json:"internal_only"`
	Found    bool   `json:"failing_input_found"`
}

type result struct {
	Violations []violation    `json:"violations"`
	Sequences  int            `json:"sequences"`
	Requests   int            `json:"requests"`
	OpHist     map[string]int `json:"op_hist"`
	Refused    int            `json:"refused"`
	Mismatches []string       `json:"mismatches"`
	Replays    []string       `json:"replays"`
	Samples    [][]string     `json:"samples"`
	Distinct   int            `json:"distinct_nontrivial"`
	Features   map[string]int `json:"features"`
}

func runModel(lines []string) ([]string, error) {
	cmd := exec.Command(*drv, "replica")
	cmd.Stdin = strings.NewReader(strings.Join(lines, "\n") + "\n")
	var out bytes.Buffer
	cmd.Stdout = &out
	cmd.Stderr = os.Stderr
	if err := cmd.Run(); err != nil {
		return nil, err
	}
	res := strings.Split(strings.TrimRight(out.String(), "\n"), "\n")
	return res, nil
}

func runImpl(lines []string) []string {
	dir, _ := os.MkdirTemp(*scratch, "jv-rep-")
	defer os.RemoveAll(dir)
	defer os.RemoveAll(dir + ".copy")
	im := &rep.Impl{Dir: dir}
	var out []string
	for _, l := range lines {
		out = append(out, im.Exec(l))
	}
	if im.S != nil {
		im.S.Close()
	}
	im.Cleanup()
	return out
}

// firstDiff returns the index of the first differing observation, -1 if none.
func firstDiff(a, b []string) int {
	for i := range a {
		if i >= len(b) || a[i] != b[i] {
			return i
		}
	}
	if len(b) != len(a) {
		return len(a)
	}
	return -1
}

func disagree(lines []string) (int, []string, []string) {
	impl := runImpl(lines)
	model, err := runModel(lines)
	if err != nil {
		return 0, impl, []string{"model-driver-failed: " + err.Error()}
	}
	for _, m := range model {
		if m == "inadmissible" {
			return -1, impl, model // outside the protocol: not a disagreement
		}
	}
	return firstDiff(impl, model), impl, model
}

// shrink: greedy removal of chunks while a disagreement remains.
func anyDiff(l []string) bool { d, _, _ := disagree(l); return d >= 0 }

// pDiff: some property-relevant observation differs
func pDiff(l []string) bool {
	d, impl, model := disagree(l)
	if d < 0 {
		return false
	}
	for i := range l {
		if i < len(model) && i < len(impl) && impl[i] != model[i] && !isInternal(l[i]) {
			return true
		}
	}
	return false
}

// shrinking re-executes the real code; sequences with rebuilds or clones take seconds per run, so
// the work per violation is bounded in time (the replay is then simply less minimal)
var shrinkBudget = 75 * time.Second

func shrink(lines []string, bad func([]string) bool) []string {
	cur := lines
	deadline := time.Now().Add(shrinkBudget)
	for chunk := len(cur) / 2; chunk >= 1; {
		changed := false
		for i := 1; i+chunk <= len(cur); { // keep line 0 (init)
			if time.Now().After(deadline) {
				return cur
			}
			cand := append(append([]string{}, cur[:i]...), cur[i+chunk:]...)
			if bad(cand) {
				cur = cand
				changed = true
			} else {
				i += chunk
			}
		}
		if !changed || chunk == 1 {
			if chunk == 1 && !changed {
				break
			}
			chunk = chunk / 2
			if chunk < 1 {
				chunk = 1
			}
		}
	}
	return cur
}

func isObs(l string) bool {
	w := strings.Fields(l)[0]
	return w == "holes" || w == "loc" || w == "meta" || w == "imeta" || w == "full" || w == "snapimg" || w == "r" || w == "cands"
}

// internal observables: a difference on these alone is a broken correspondence, not yet a
// failing input of the property
func isInternal(l string) bool {
	w := strings.Fields(l)[0]
	return w == "holes" || w == "loc" || w == "imeta"
}

// amplify: from a prefix on which only internal state diverges, look for a continuation on which
// a property-relevant observable (data read back, snapshot image, chain, counter, refusal)
// differs from the model.
func amplify(prefix []string, rng *rand.Rand, tries int) []string {
	deadline := time.Now().Add(shrinkBudget)
	for t := 0; t < tries && time.Now().Before(deadline); t++ {
		dir, _ := os.MkdirTemp(*scratch, "jv-amp-")
		g := &gstate{im: &rep.Impl{Dir: dir}, feat: map[string]bool{}, tagN: 900 + t*50, snapN: 900 + t*20, mode: "RW"}
		for _, l := range prefix {
			g.do(l)
		}
		if g.im.Rebuilding() && !g.im.Aborted() {
			// a rebuild is under way: queued punches are applied, the rebuild is completed, and the
			// replicas are compared with each other (volume image, chains, every snapshot image)
			for k := 0; k < 256 && g.applyOne(rng); k++ {
			}
			if !g.im.Swapped() {
				g.do("rbreload")
			}
			if !g.im.Mapped() {
				g.do("lunmap")
				for k := 0; k < 256 && g.applyOne(rng); k++ {
				}
			}
			if !g.im.Promoted() {
				g.do("rbpromote")
			}
			g.do("cmp")
			g.do("full")
			g.do("rbend")
			g.do("open p")
			g.do("mode RW")
			g.do("full")
			for _, d := range g.chain() {
				if d.uc && !d.rm {
					g.do("snapimg " + d.name)
				}
			}
		} else if g.im.Rebuilding() {
			g.do("rbend")
			g.do("open p")
			g.do("mode RW")
		}
		if g.im.S != nil && g.im.S.Replica() != nil {
			steps := 4 + rng.Intn(10)
			for i := 0; i < steps; i++ {
				switch rng.Intn(8) {
				case 0, 1, 2:
					g.write(rng)
				case 3:
					for k := 0; k < 64 && g.applyOne(rng); k++ {
					}
				case 4:
					g.snapN++
					g.do(fmt.Sprintf("snap x%d %s", g.snapN, []string{"u", "a"}[rng.Intn(2)]))
				case 5:
					g.do("reopen " + pn(rng))
					g.do("mode RW")
				case 6:
					if ch := g.chain(); len(ch) > 0 {
						g.do("revert " + ch[rng.Intn(len(ch))].name)
					}
				case 7:
					g.applyOne(rng)
				}
				g.do("full")
				for _, d := range g.chain() {
					if d.uc && !d.rm {
						g.do("snapimg " + d.name)
					}
				}
				g.do("meta")
			}
			g.im.S.Close()
		}
		g.im.Cleanup()
		os.RemoveAll(dir)
		os.RemoveAll(dir + ".copy")
		model, err := runModel(g.lines)
		if err != nil {
			continue
		}
		for i, l := range g.lines {
			if i < len(model) && g.outs[i] != model[i] && !isInternal(l) {
				return g.lines[:i+1]
			}
		}
	}
	return nil
}

func main() {
	stack.Init()
	flag.Parse()
	if os.Getenv("VERIF_LOG") == "" {
		logrus.SetOutput(io.Discard)
	}
	res := result{OpHist: map[string]int{}, Features: map[string]int{}}
	os.MkdirAll(*outDir, 0755)

	if *replay != "" {
		data, err := os.ReadFile(*replay)
		if err != nil {
			fmt.Println(err)
			os.Exit(2)
		}
		var lines []string
		for _, l := range strings.Split(string(data), "\n") {
			if i := strings.Index(l, "\t"); i >= 0 {
				l = l[:i]
			}
			if strings.TrimSpace(l) != "" && !strings.HasPrefix(l, "#") {
				lines = append(lines, l)
			}
		}
		d, impl, model := disagree(lines)
		for i := range lines {
			m := ""
			if i < len(model) {
				m = model[i]
			}
			mark := " "
			if i < len(impl) && impl[i] != m {
				mark = "!"
			}
			fmt.Printf("%s %-28s impl=%s model=%s\n", mark, lines[i], trunc(impl[i]), trunc(m))
		}
		if d >= 0 {
			fmt.Printf("DISAGREE at line %d\n", d)
			os.Exit(1)
		}
		fmt.Println("AGREE")
		return
	}

	seen := map[string]bool{}
	for s := 0; s < *nseq; s++ {
		rng := rand.New(rand.NewSource(*seed*1000003 + int64(s)))
		lines, impl, feat := generate(rng, *seqLen, *profile)
		res.Sequences++
		res.Requests += len(lines)
		for _, l := range lines {
			res.OpHist[strings.Fields(l)[0]]++
		}
		for _, o := range impl {
			if o == "refused" {
				res.Refused++
			}
		}
		for k := range feat {
			res.Features[k]++
		}
		key := fmt.Sprint(feat)
		if len(feat) >= 3 && !seen[strings.Join(lines, ";")] {
			seen[strings.Join(lines, ";")] = true
			res.Distinct++
		}
		_ = key
		model, err := runModel(lines)
		if err != nil {
			res.Mismatches = append(res.Mismatches, "model driver failed: "+err.Error())
			continue
		}
		if len(res.Samples) < 2 {
			var sm []string
			for i, l := range lines {
				if !isObs(l) || strings.HasPrefix(l, "r ") {
					sm = append(sm, l+" -> "+trunc(impl[i]))
				}
			}
			res.Samples = append(res.Samples, sm)
		}
		if d := firstDiff(impl, model); d >= 0 {
			// confirm on a fresh run (rules out nondeterminism)
			d2, _, _ := disagree(lines)
			v := violation{Request: lines[d], Found: true}
			small := lines[:min(len(lines), d+1)]
			if d2 >= 0 {
				if isInternal(lines[d]) {
					// only internal state differs so far: search for a continuation on which a
					// property-relevant observable differs, starting from the unshrunk prefix
					v.Internal = true
					if amp := amplify(small, rng, 40); amp != nil {
						small = shrink(amp, pDiff)
						v.Internal = false
					} else {
						small = shrink(small, anyDiff)
						v.Found = false
					}
				} else {
					small = shrink(small, pDiff)
				}
			}
			_, si, sm := disagree(small)
			path := fmt.Sprintf("%s/%s-seed%d-seq%d.replay", *outDir, *tag, *seed, s)
			v.Replay = path
			res.Violations = append(res.Violations, v)
			var b strings.Builder
			fmt.Fprintf(&b, "# replicadiff disagreement; profile=%s seed=%d seq=%d; request<TAB>impl<TAB>model\n", *profile, *seed, s)
			for i, l := range small {
				m := ""
				if i < len(sm) {
					m = sm[i]
				}
				fmt.Fprintf(&b, "%s\t%s\t%s\n", l, si[i], m)
			}
			os.WriteFile(path, []byte(b.String()), 0644)
			// the unshrunk sequence, for diagnosis (what the generator really produced)
			var fb strings.Builder
			fmt.Fprintf(&fb, "# unshrunk sequence of %s\n", path)
			for i, l := range lines {
				m := ""
				if i < len(model) {
					m = model[i]
				}
				fmt.Fprintf(&fb, "%s\t%s\t%s\n", l, trunc(impl[i]), trunc(m))
			}
			os.WriteFile(path+".full", []byte(fb.String()), 0644)
			res.Replays = append(res.Replays, path)
			res.Mismatches = append(res.Mismatches, fmt.Sprintf("seq %d line %d: %q impl=%s model=%s", s, d, lines[d], trunc(impl[d]), trunc(model[min(d, len(model)-1)])))
			// a broken tree makes most sequences disagree; three minimized replays per worker are
			// enough to report, and the time spent on shrinking stays bounded
			if len(res.Violations) >= 3 {
				break
			}
		}
	}
	w := bufio.NewWriter(os.Stdout)
	json.NewEncoder(w).Encode(res)
	w.Flush()
	if len(res.Mismatches) > 0 {
		os.Exit(1)
	}
}

func trunc(s string) string {
	if len(s) > 160 {
		return s[:160] + "…"
	}
	return s
}
