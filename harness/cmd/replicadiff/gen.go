//go:build verif

package main

import (
	"fmt"
	"math/rand"
	"os"
	"strings"

	"jivaverif/harness/rep"
)

type gstate struct {
	im     *rep.Impl
	lines  []string
	outs   []string
	feat   map[string]bool
	snapN  int
	tagN   int
	open   bool
	mode   string
	punchd bool
	clones int
}

func (g *gstate) do(l string) string {
	o := g.im.Exec(l)
	g.lines = append(g.lines, l)
	g.outs = append(g.outs, o)
	return o
}

type diskInfo struct {
	name   string
	uc, rm bool
}

// chain returns the snapshots (base first) with their flags.
func (g *gstate) chain() []diskInfo {
	r := g.im.S.Replica()
	if r == nil {
		return nil
	}
	act := r.VerifActive()
	disks := r.ListDisks()
	var out []diskInfo
	for i, n := range act {
		if i == len(act)-1 {
			break
		}
		d := disks[n]
		out = append(out, diskInfo{g.im.Unalias(strings.TrimSuffix(strings.TrimPrefix(n, "volume-snap-"), ".img")), d.UserCreated, d.Removed})
	}
	return out
}

func (g *gstate) nb() int {
	r := g.im.S.Replica()
	if r == nil {
		return 0
	}
	return len(r.VerifLocation())
}

func (g *gstate) observe(rng *rand.Rand, pFull, pImg float64) {
	if g.im.S.Replica() == nil {
		g.do("meta")
		return
	}
	g.do("holes")
	g.do("loc")
	g.do("meta")
	g.do("imeta")
	g.do("recs")
	if ch := g.chain(); len(ch) > 2 && rng.Intn(4) == 0 {
		if rng.Intn(7) == 0 {
			// a checkpoint that is not (or no longer) a member of the chain: nothing may be selected
			g.do("cands nosuch")
			g.feat["cands-checkpoint-not-in-chain"] = true
		} else {
			g.do("cands " + ch[rng.Intn(len(ch))].name)
		}
		g.feat["cands"] = true
	}
	if rng.Float64() < pFull {
		g.do("full")
	}
	if rng.Float64() < pImg {
		ch := g.chain()
		var cand []string
		for _, d := range ch {
			if d.uc && !d.rm {
				cand = append(cand, d.name)
			}
		}
		if len(cand) == 0 && !g.punchd {
			for _, d := range ch {
				cand = append(cand, d.name)
			}
		}
		if len(cand) > 0 {
			g.do("snapimg " + cand[rng.Intn(len(cand))])
			g.feat["snapimg"] = true
		}
	}
}

func (g *gstate) write(rng *rand.Rand) {
	units := g.nb() * 8
	if units == 0 {
		return
	}
	var off, n int
	switch rng.Intn(7) {
	case 0: // block aligned, 1..3 blocks
		b := rng.Intn(g.nb())
		k := 1 + rng.Intn(3)
		if b+k > g.nb() {
			k = g.nb() - b
		}
		off, n = b*8, k*8
		g.feat["w-aligned"] = true
	case 1: // inside one block
		b := rng.Intn(g.nb())
		s := rng.Intn(8)
		n = 1 + rng.Intn(8-s)
		off = b*8 + s
		g.feat["w-subblock"] = true
	case 2, 3: // straddling
		off = rng.Intn(units)
		n = 1 + rng.Intn(min(30, units-off))
		g.feat["w-straddle"] = true
	case 4: // whole volume
		off, n = 0, units
		g.feat["w-whole"] = true
	case 5: // first / last unit
		if rng.Intn(2) == 0 {
			off, n = 0, 1
		} else {
			off, n = units-1, 1
		}
	case 6: // unaligned start, aligned end or vice versa
		b := rng.Intn(g.nb())
		if rng.Intn(2) == 0 {
			off = b*8 + 1 + rng.Intn(7)
			n = (b+1)*8 - off + 8*rng.Intn(3)
		} else {
			off = b * 8
			n = 8*rng.Intn(3) + 1 + rng.Intn(7)
		}
		if off+n > units {
			n = units - off
		}
		g.feat["w-halfaligned"] = true
	}
	if n <= 0 {
		return
	}
	g.tagN++
	g.do(fmt.Sprintf("w %d %d %d", off, n, g.tagN))
}

func (g *gstate) applyOne(rng *rand.Rand) bool {
	p := g.im.Pending()
	if len(p) == 0 {
		return false
	}
	h := p[rng.Intn(len(p))]
	g.do(fmt.Sprintf("apply %d %d %d", h[0], h[1], h[2]))
	g.feat["apply"] = true
	return true
}

func weights(profile string) map[string]int {
	w := map[string]int{"write": 34, "read": 8, "snap": 12, "delete": 7, "invalid": 3, "revert": 3,
		"reopen": 6, "reload": 2, "closeopen": 1, "resize": 2, "punch": 4, "apply": 12, "drop": 1, "mode": 2, "setrev": 1, "ckpt": 1, "markuser": 2, "cw": 0, "rebuild": 0, "clone": 0}
	switch profile {
	case "io":
		w["write"], w["read"], w["delete"], w["invalid"] = 50, 15, 4, 0
	case "snapshots":
		w["snap"], w["apply"], w["punch"], w["revert"], w["reopen"] = 18, 18, 6, 5, 8
	case "delete":
		w["delete"], w["snap"], w["markuser"] = 20, 18, 6
	case "mgmt":
		w["invalid"], w["snap"], w["revert"], w["delete"], w["write"], w["ckpt"] = 15, 14, 8, 10, 15, 4
	case "resize":
		w["resize"], w["reopen"] = 12, 8
	case "rebuild":
		w["rebuild"], w["snap"], w["write"], w["apply"], w["punch"], w["reopen"], w["delete"] = 14, 14, 34, 10, 5, 4, 5
	case "rebuildreal":
		// SetRevisionCounter from outside is not part of this protocol: AddReplica skips the transfer
		// when chain and counter already agree
		w["rebuild"], w["snap"], w["write"], w["apply"], w["punch"], w["reopen"], w["delete"], w["setrev"] = 7, 14, 34, 10, 5, 4, 5, 0
	case "clone":
		w["clone"], w["snap"], w["write"], w["delete"], w["reopen"], w["setrev"], w["revert"] = 7, 20, 34, 8, 8, 2, 4
	case "cleaner":
		w["snap"], w["write"], w["delete"], w["markuser"], w["reopen"], w["apply"], w["punch"], w["revert"], w["resize"] = 34, 40, 3, 5, 4, 6, 4, 0, 0
	case "modes":
		w["mode"], w["closeopen"], w["reopen"], w["invalid"], w["setrev"], w["delete"], w["write"] = 12, 8, 8, 8, 5, 6, 30
	case "counter":
		w["mode"], w["setrev"], w["write"], w["reopen"], w["closeopen"], w["cw"] = 10, 6, 36, 8, 4, 8
	}
	return w
}

func pick(rng *rand.Rand, w map[string]int) string {
	keys := []string{"write", "read", "snap", "delete", "invalid", "revert", "reopen", "reload", "closeopen", "resize", "punch", "apply", "drop", "mode", "setrev", "ckpt", "markuser", "cw", "rebuild", "clone"}
	tot := 0
	for _, k := range keys {
		tot += w[k]
	}
	x := rng.Intn(tot)
	for _, k := range keys {
		if x < w[k] {
			return k
		}
		x -= w[k]
	}
	return "write"
}

func generate(rng *rand.Rand, steps int, profile string) ([]string, []string, map[string]bool) {
	dir, _ := os.MkdirTemp(*scratch, "jv-gen-")
	defer os.RemoveAll(dir)
	defer os.RemoveAll(dir + ".copy")
	g := &gstate{im: &rep.Impl{Dir: dir}, feat: map[string]bool{}}
	nb := 2 + rng.Intn(14)
	if rng.Intn(6) == 0 {
		nb = 16 + rng.Intn(24)
	}
	g.do(fmt.Sprintf("init 8 %d", nb))
	g.do("mode RW")
	g.mode = "RW"
	if profile == "mgmt" && rng.Intn(2) == 0 {
		// a small MAX_CHAIN_LENGTH: snapshots run into the limit, and every open must still succeed
		g.do(fmt.Sprintf("maxchain %d", 3+rng.Intn(5)))
		g.feat["chain-limit"] = true
	}
	if rng.Intn(3) != 0 {
		g.do("punch 1")
		g.punchd = true
	}
	w := weights(profile)
	pFull, pImg := 0.25, 0.15
	if profile == "snapshots" || profile == "delete" {
		pImg = 0.35
	}
	for st := 0; st < steps; st++ {
		if g.im.S.Replica() == nil {
			if profile == "modes" && rng.Intn(2) == 0 {
				// requests against a closed replica must all be refused and change nothing
				g.tagN++
				ops := []string{fmt.Sprintf("w 0 8 %d", g.tagN), "r 0 8", "snap zz u", "mark zz", "rm zz", "revert zz",
					"reopen p", "reload n", "resize 64", "mode RW", "setrev 5", "ckpt zz", fmt.Sprintf("cw 8 %d", g.tagN)}
				g.do(ops[rng.Intn(len(ops))])
				g.do("meta")
				g.feat["closed-request"] = true
				continue
			}
			g.do(fmt.Sprintf("open %s", pn(rng)))
			if profile == "modes" && rng.Intn(3) == 0 {
				g.mode = "INIT"
				g.feat["mode-INIT"] = true
			} else {
				g.do("mode RW")
				g.mode = "RW"
			}
			g.observe(rng, pFull, pImg)
			continue
		}
		switch pick(rng, w) {
		case "write":
			g.write(rng)
		case "read":
			units := g.nb() * 8
			off := rng.Intn(units)
			n := 1 + rng.Intn(min(40, units-off))
			g.do(fmt.Sprintf("r %d %d", off, n))
			continue
		case "snap":
			g.snapN++
			name := fmt.Sprintf("s%d", g.snapN)
			if ch := g.chain(); len(ch) > 0 && rng.Intn(12) == 0 {
				name = ch[rng.Intn(len(ch))].name // duplicate name: must be refused
				g.feat["dup-snap"] = true
			}
			ua := "a"
			if (profile != "cleaner" && rng.Intn(2) == 0) || (profile == "cleaner" && rng.Intn(5) == 0) {
				ua = "u"
				g.feat["user-snap"] = true
			} else {
				g.feat["auto-snap"] = true
			}
			g.do(fmt.Sprintf("snap %s %s", name, ua))
		case "delete":
			if g.mode != "RW" {
				if profile == "modes" {
					if ch := g.chain(); len(ch) > 0 {
						n := ch[rng.Intn(len(ch))].name
						g.do([]string{"mark " + n, "rm " + n, "setrev 9"}[rng.Intn(3)])
						g.feat["rw-only-in-"+g.mode] = true
					}
				} else {
					continue
				}
				break
			}
			ch := g.chain()
			// index k (1-based) eligible: 2 <= k <= top-2 = len(ch)-1; parent not retained user-created
			var cand []int
			for k := 2; k <= len(ch)-1; k++ {
				p := ch[k-2]
				if !(p.uc && !p.rm) {
					cand = append(cand, k)
				}
			}
			if len(cand) == 0 {
				continue
			}
			k := cand[rng.Intn(len(cand))]
			name := ch[k-1].name
			g.do("mark " + name)
			g.observe(rng, 0, 0)
			for rng.Intn(3) == 0 {
				g.write(rng)
			}
			// the reclaimer is not scheduled between the fold and the unlink (modelling assumption)
			g.do("coal " + name)
			g.observe(rng, 0.3, 0)
			for rng.Intn(3) == 0 {
				g.write(rng)
			}
			g.do("rm " + name)
			g.feat["delete"] = true
		case "cw":
			g.tagN++
			g.do(fmt.Sprintf("cw %d %d", 100+rng.Intn(300), g.tagN))
			g.feat["concurrent-writes"] = true
		case "clone":
			// a replica of a new volume is made as a clone of a snapshot of this one (a few seconds:
			// the real controller polls the clone status every 2 s)
			if g.mode != "RW" || g.clones >= 2 {
				continue
			}
			ch := g.chain()
			if len(ch) == 0 {
				continue
			}
			g.clones++
			g.do("recs")
			if rng.Intn(8) == 0 {
				g.do("clone nosuch")
				g.feat["clone-missing"] = true
			} else {
				k := rng.Intn(len(ch))
				if rng.Intn(5) == 0 {
					// the transfer of a snapshot file is cut in the middle: no clone may come of it
					g.do("clone " + ch[k].name + " fault")
					g.feat["clone-transfer-cut"] = true
				} else if rng.Intn(2) == 0 {
					g.do("clone " + ch[k].name + " late")
					g.feat["clone-status-late"] = true
				} else {
					g.do("clone " + ch[k].name)
				}
				g.feat["clone"] = true
				if k < len(ch)-1 {
					g.feat["clone-not-latest"] = true
				}
				if !ch[k].uc {
					g.feat["clone-auto-snap"] = true
				}
			}
		case "rebuild":
			// a second replica is added and rebuilt from this one while writes continue; afterwards the
			// rebuilt replica is the one under test
			if g.mode != "RW" || g.im.Rebuilding() {
				continue
			}
			g.snapN++
			// a rejoin with the old directory is synced only if the checkpoint recorded in that directory
			// names a member of the source's chain (the controller records full disk names)
			ckptOk := func() bool {
				ck := ""
				for _, f := range strings.Fields(g.im.Exec("meta")) {
					if strings.HasPrefix(f, "ckpt=") {
						ck = strings.TrimPrefix(f, "ckpt=")
					}
				}
				if ck == "" {
					return true
				}
				for _, c := range g.chain() {
					if "volume-snap-"+c.name+".img" == ck {
						return true
					}
				}
				return false
			}
			if profile == "rebuildreal" && rng.Intn(2) == 0 && (len(g.chain()) > 0 || ckptOk()) {
				// a replica leaves now and comes back later with its old directory: only what the source
				// wrote in between has to be transferred (nothing is deleted or reclaimed in between)
				if len(g.chain()) > 0 && (rng.Intn(2) == 0 || !ckptOk()) {
					ch := g.chain()
					g.do("ckpt volume-snap-" + ch[rng.Intn(len(ch))].name + ".img") // as the controller records it
				}
				// sometimes the source deletes, after the replica has left, the snapshot directly below the
				// checkpoint the leaver has recorded: below the checkpoint the two directories then differ in
				// layout (not in content), and the rebuild must leave that part of the newcomer alone
				diverge := ""
				if rng.Intn(2) == 0 {
					for len(g.chain()) < 3 { // the case needs a snapshot between the base and the checkpoint
						g.write(rng)
						g.snapN++
						g.do(fmt.Sprintf("snap s%d %s", g.snapN, []string{"u", "a"}[rng.Intn(2)]))
					}
					ch := g.chain()
					var cand []int
					for k := 2; k <= len(ch)-1; k++ {
						if p := ch[k-2]; !(p.uc && !p.rm) {
							cand = append(cand, k)
						}
					}
					if len(cand) > 0 {
						k := cand[rng.Intn(len(cand))]
						diverge = ch[k-1].name
						g.do("ckpt volume-snap-" + ch[k].name + ".img")
					}
				}
				g.do("close")
				g.do("stash")
				g.do("open p")
				g.do("mode RW")
				if diverge != "" {
					g.do("mark " + diverge)
					g.do("coal " + diverge)
					g.do("rm " + diverge)
					for rng.Intn(2) == 0 {
						g.write(rng)
					}
					g.snapN++
					g.do(fmt.Sprintf("rbbegin r%d stale real", g.snapN))
					for rng.Intn(2) == 0 {
						g.write(rng)
					}
					g.do("rbfinish")
					g.feat["rebuild-real-agents"] = true
					g.feat["rejoin-with-diverged-layout-below-checkpoint"] = true
					for rng.Intn(2) == 0 {
						g.write(rng)
					}
					g.do(fmt.Sprintf("r %d %d", 0, g.nb()*8))
					g.do("rbend")
					g.do("open p")
					g.do("mode RW")
					g.punchd = true
					break
				}
				for k := 0; k < 1+rng.Intn(4); k++ {
					switch rng.Intn(5) {
					case 0:
						g.snapN++
						g.do(fmt.Sprintf("snap s%d %s", g.snapN, []string{"u", "a"}[rng.Intn(2)]))
					case 1:
						g.do("reopen " + pn(rng))
						g.do("mode RW")
					default:
						g.write(rng)
					}
				}
				g.snapN++
				g.do(fmt.Sprintf("rbbegin r%d stale real", g.snapN))
				g.feat["rebuild-real-agents"] = true
				g.feat["rejoin-with-old-directory"] = true
			} else if profile == "rebuildreal" {
				g.do(fmt.Sprintf("rbbegin r%d real", g.snapN))
				g.feat["rebuild-real-agents"] = true
			} else {
				g.do(fmt.Sprintf("rbbegin r%d", g.snapN))
			}
			for rng.Intn(3) != 0 {
				g.write(rng)
			}
			if profile == "rebuildreal" && rng.Intn(6) == 0 {
				// the rebuild is interrupted: the newcomer's sync agent dies before the transfer; the
				// newcomer must stay out of the read path, I/O goes on, the controller is shut down
				g.do("rbabort")
				g.feat["rebuild-interrupted"] = true
				for rng.Intn(2) == 0 {
					g.write(rng)
				}
				g.do(fmt.Sprintf("r %d %d", 0, g.nb()*8))
				g.do("rbend")
				g.do("open p")
				g.do("mode RW")
				g.punchd = true
				break
			}
			g.do("rbreload")
			g.do("holes")
			g.do("loc")
			for rng.Intn(2) == 0 {
				g.write(rng)
				if rng.Intn(3) == 0 {
					g.do(fmt.Sprintf("r %d %d", 0, 1+rng.Intn(g.nb()*8)))
				}
			}
			if profile == "rebuild" && rng.Intn(3) == 0 {
				// a foreground write lands between UpdateLUNMap's preload pass and its merge
				g.tagN++
				u := g.nb() * 8
				off := rng.Intn(u)
				n := 1 + rng.Intn(min(24, u-off))
				if rng.Intn(2) == 0 { // whole blocks
					off = 8 * rng.Intn(g.nb())
					n = 8 * (1 + rng.Intn(min(3, g.nb()-off/8)))
				}
				g.do(fmt.Sprintf("lunmapw %d %d %d", off, n, g.tagN))
				g.feat["write-inside-UpdateLUNMap"] = true
			} else {
				g.do("lunmap")
			}
			g.do("holes")
			g.do("loc")
			for rng.Intn(3) == 0 {
				g.write(rng)
			}
			if profile == "rebuild" && rng.Intn(3) == 0 {
				// a foreground write reaches the promoted replica before it has cleared its rebuilding flag
				// (VerifyRebuildReplica, then the write, then SetRebuilding(false)): it is a write to an RW replica
				g.tagN++
				u := g.nb() * 8
				off := rng.Intn(u)
				g.do(fmt.Sprintf("rbpromotew %d %d %d", off, 1+rng.Intn(min(24, u-off)), g.tagN))
				g.feat["write-between-promotion-and-flag"] = true
			} else {
				g.do("rbpromote")
			}
			if rng.Intn(2) == 0 {
				g.do("full")
			}
			for rng.Intn(2) == 0 {
				g.write(rng) // all three replicas are RW now
				if rng.Intn(3) == 0 {
					g.snapN++
					g.do(fmt.Sprintf("csnap v%d", g.snapN)) // a volume snapshot through the controller
					g.feat["volume-snapshot"] = true
				}
			}
			g.do("cmp")
			if ch := g.chain(); len(ch) > 0 && rng.Intn(4) == 0 {
				// the volume is reverted through the controller
				g.do("crevert " + ch[rng.Intn(len(ch))].name)
				g.feat["volume-revert"] = true
				g.do("full")
				for rng.Intn(2) == 0 {
					g.write(rng)
				}
				g.do("cmp")
			}
			if rng.Intn(3) == 0 {
				// one of the three RW replicas dies; I/O goes on with the other two
				g.tagN++
				u := g.nb() * 8
				off := rng.Intn(u)
				g.do(fmt.Sprintf("killq %d %d %d", off, 1+rng.Intn(min(20, u-off)), g.tagN))
				g.feat["replica-killed"] = true
				for rng.Intn(2) == 0 {
					g.write(rng)
				}
				g.do("cmp")
			}
			g.do("meta")
			// the controller goes away (closing every replica); the rebuilt replica is opened again
			g.do("rbend")
			g.do("open p")
			g.do("mode RW")
			g.feat["rebuild"] = true
			g.punchd = true
		case "markuser":
			// the user deletes a user-created snapshot: only marks it; the cleaner may take it later
			if g.mode != "RW" {
				continue
			}
			ch := g.chain()
			var cand []string
			for k := 2; k <= len(ch)-1; k++ {
				if ch[k-1].uc && !ch[k-1].rm {
					cand = append(cand, ch[k-1].name)
				}
			}
			if len(cand) == 0 {
				continue
			}
			g.do("mark " + cand[rng.Intn(len(cand))])
			g.feat["mark-user"] = true
		case "invalid":
			ch := g.chain()
			if len(ch) >= 2 && g.mode != "RW" && rng.Intn(2) == 0 {
				// a step of the deletion flow sent to a replica that is not RW
				g.do("replace " + ch[len(ch)-2].name + " " + ch[len(ch)-1].name)
				g.feat["replace-not-rw"] = true
				break
			}
			switch rng.Intn(8) {
			case 7:
				// a second Open of an attached replica (open, dirty after writes, or rebuilding)
				g.do("open " + pn(rng))
				g.do("meta")
				g.feat["open-while-attached"] = true
			case 0:
				if len(ch) > 0 {
					g.do("mark " + ch[len(ch)-1].name) // latest
				}
			case 1:
				if len(ch) > 0 {
					g.do("mark " + ch[0].name) // base
				}
			case 2:
				g.do("mark nosuch")
			case 3:
				if len(ch) > 0 {
					g.do("rm " + ch[len(ch)-1].name)
				}
			case 4:
				g.do("revert nosuch")
			case 5:
				if g.nb() > 1 {
					g.do(fmt.Sprintf("resize %d", g.nb()-1))
				}
			case 6:
				g.do("rm nosuch")
			}
			g.feat["invalid"] = true
		case "revert":
			ch := g.chain()
			if len(ch) == 0 {
				continue
			}
			g.do("revert " + ch[rng.Intn(len(ch))].name)
			g.feat["revert"] = true
		case "reopen":
			g.do("reopen " + pn(rng))
			if profile == "modes" && rng.Intn(3) == 0 {
				g.mode = "INIT"
				g.feat["mode-INIT"] = true
			} else {
				g.do("mode RW")
				g.mode = "RW"
			}
			g.feat["reopen"] = true
		case "reload":
			g.do("reload " + pn(rng))
			g.punchd = true
			g.feat["reload"] = true
		case "closeopen":
			g.do("close")
			g.do("meta")
			continue
		case "resize":
			switch x := rng.Intn(7); {
			case x == 0 && g.nb() > 1:
				// a shrink by whole blocks: refused, nothing changes
				g.do(fmt.Sprintf("resize %d", g.nb()-1-rng.Intn(min(3, g.nb()-1))))
				g.feat["shrink-refused"] = true
			case x == 1:
				// a shrink that stays inside the last block (the size stays a multiple of the sector size)
				g.do(fmt.Sprintf("shrinkb %d", 512*(1+rng.Intn(7))))
				g.feat["shrink-inside-last-block"] = true
			default:
				g.do(fmt.Sprintf("resize %d", g.nb()+rng.Intn(4)))
			}
			g.feat["resize"] = true
		case "punch":
			on := rng.Intn(4) != 0
			if on {
				g.punchd = true
				g.do("punch 1")
			} else {
				g.do("punch 0")
			}
		case "apply":
			if !g.applyOne(rng) {
				continue
			}
		case "drop":
			g.do("drop")
		case "mode":
			m := []string{"RW", "WO", "RW"}[rng.Intn(3)]
			g.do("mode " + m)
			g.mode = m
			g.feat["mode-"+m] = true
			if profile == "modes" && rng.Intn(3) == 0 {
				// a replica marked as rebuilding (what a rebuild or a clone sets) still refuses a counter
				// update and a snapshot removal unless it is RW
				g.do("setrb 1")
				g.do(fmt.Sprintf("setrev %d", 1+rng.Intn(500)))
				g.do("meta")
				if ch := g.chain(); len(ch) >= 3 {
					g.do("mark " + ch[1].name)
				}
				g.do("setrb " + []string{"0", "1", "0"}[rng.Intn(3)])
				g.do("setrb 0")
				g.feat["marked-rebuilding"] = true
			}
		case "setrev":
			g.do(fmt.Sprintf("setrev %d", 1+rng.Intn(500)))
		case "ckpt":
			ch := g.chain()
			if len(ch) > 0 {
				g.do("ckpt " + ch[rng.Intn(len(ch))].name)
			}
		}
		g.observe(rng, pFull, pImg)
	}
	if g.im.Rebuilding() { // an unfinished rebuild: finish it
		if !g.im.Swapped() {
			g.do("rbreload")
			g.do("lunmap")
		}
		g.do("rbpromote")
		g.do("rbend")
		g.do("open p")
		g.do("mode RW")
	}
	if profile == "cleaner" && g.im.S.Replica() != nil {
		// the sequence ends with one tick of the REAL background cleaner; in half of the runs the
		// coalesce step (the sync agent's sfold child) fails
		if g.mode != "RW" {
			g.do("mode RW")
			g.mode = "RW"
		}
		for len(g.chain()) < 5 {
			g.write(rng)
			g.snapN++
			g.do(fmt.Sprintf("snap s%d a", g.snapN))
		}
		ch := g.chain()
		ck := ch[len(ch)-1-rng.Intn(2)].name
		mode := "ok"
		if rng.Intn(2) == 0 {
			mode = "fault"
			g.feat["cleaner-fold-fails"] = true
		}
		out := g.im.Exec(fmt.Sprintf("cleaner %s %s", ck, mode))
		picked := "-"
		if i := strings.Index(out, "picked="); i >= 0 {
			picked = out[i+len("picked="):]
		}
		// the pick is the environment's answer (the smallest file): it goes into the request line
		g.lines = append(g.lines, fmt.Sprintf("cleaner %s %s %s", ck, mode, picked))
		g.outs = append(g.outs, out)
		g.feat["real-cleaner-tick"] = true
		if picked != "-" {
			g.feat["cleaner-picked"] = true
		}
		g.do("meta")
		g.do("imeta")
		g.do("loc")
	}
	if g.im.S.Replica() != nil {
		g.do("full")
		for _, d := range g.chain() {
			if d.uc && !d.rm {
				g.do("snapimg " + d.name)
			}
		}
		g.do("reopen " + pn(rng))
		g.do("full")
		g.do("meta")
		g.im.S.Close()
	}
	g.im.Cleanup()
	return g.lines, g.outs, g.feat
}

func pn(rng *rand.Rand) string {
	if rng.Intn(2) == 0 {
		return "p"
	}
	return "n"
}
