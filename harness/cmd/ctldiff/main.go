//go:build verif

// ctldiff: correspondence check between the REAL controller.Controller (driven in-process with
// scripted backends, factory, frontend and HTTP replica endpoints) and the Lean controller model
// (`drv ctl`).  Every environment answer is decided by the generator, observed from the fakes
// and written into the request line, so model and implementation see the same environment.
package main

import (
	"bytes"
	"encoding/json"
	"flag"
	"fmt"
	"io"
	"math/rand"
	"net"
	"os"
	"os/exec"
	"regexp"
	"sort"
	"strings"
	"sync"
	"time"

	"github.com/openebs/jiva/controller"
	"github.com/openebs/jiva/types"
	"github.com/sirupsen/logrus"

	"jivaverif/harness/fake"
)

var (
	seed    = flag.Int64("seed", 1, "seed")
	nseq    = flag.Int("n", 20, "sequences")
	seqLen  = flag.Int("len", 25, "steps per sequence")
	profile = flag.String("profile", "mix", "mix|faults|membership|reads|election|snapshots")
	drv     = flag.String("drv", "/verif/lean/.lake/build/bin/drv", "model driver")
	replay  = flag.String("replay", "", "replay file")
	outDir  = flag.String("out", "/verif/replays", "replay dir")
	tag     = flag.String("tag", "ctl", "tag")
	_       = flag.String("scratch", "", "unused")
)

type violation struct {
	Replay   string `json:"replay"`
	Request  string `json:"request"`
	Internal bool   `json:"internal_only"`
	Found    bool   `json:"failing_input_found"`
}
type result struct {
	Violations []violation    `json:"violations"`
	Sequences  int            `json:"sequences"`
	Requests   int            `json:"requests"`
	OpHist     map[string]int `json:"op_hist"`
	Refused    int            `json:"refused"`
	Mismatches []string       `json:"mismatches"`
	Samples    [][]string     `json:"samples"`
	Distinct   int            `json:"distinct_nontrivial"`
	Features   map[string]int `json:"features"`
}

// ---- log hook: lets the harness wait for a monitoring goroutine to finish -----------------

type monHook struct {
	mu   sync.Mutex
	seen int
}

func (h *monHook) Levels() []logrus.Level { return logrus.AllLevels }
func (h *monHook) Fire(e *logrus.Entry) error {
	if strings.HasPrefix(e.Message, "Monitoring stopped") {
		h.mu.Lock()
		h.seen++
		h.mu.Unlock()
	}
	return nil
}
func (h *monHook) count() int { h.mu.Lock(); defer h.mu.Unlock(); return h.seen }

var hook = &monHook{}

// ---- the implementation under test -----------------------------------------------------

type impl struct {
	c       *controller.Controller
	w       *fake.World
	rf      int
	hosts   []string
	pending []*fake.Backend // backends whose monitor goroutine has not been fired
	fired   map[*fake.Backend]bool
}

func newImpl(rf int, hosts []string) *impl {
	os.Setenv("REPLICATION_FACTOR", fmt.Sprint(rf))
	w := fake.NewWorld()
	fake.SetWorld(w)
	c := controller.NewController(controller.WithName("v"), controller.WithBackend(&fake.Factory{W: w}),
		controller.WithFrontend(&fake.Frontend{W: w}, "127.0.0.1"), controller.WithRF(rf))
	return &impl{c: c, w: w, rf: rf, hosts: hosts}
}

func short(a string) string { return fake.Short(a) }

func bid(o interface{}) string {
	if b, ok := o.(*fake.Backend); ok {
		return fmt.Sprintf("%s#%d", b.Addr, b.ID)
	}
	return "?"
}

func (im *impl) state(res string) string {
	c := im.c
	var reps []string
	for _, r := range c.ListReplicas() {
		reps = append(reps, fmt.Sprintf("%s=%s", r.Address, r.Mode))
	}
	var bks []string
	for _, b := range c.VerifBackends() {
		id := -1
		if fb, ok := b.Backend.(*fake.Backend); ok {
			id = fb.ID
		}
		bks = append(bks, fmt.Sprintf("%s=%s#%d", b.Address, b.Mode, id))
	}
	sort.Strings(bks)
	var ws, rs []string
	for _, o := range c.VerifWriters() {
		ws = append(ws, bid(o))
	}
	for _, o := range c.VerifReaders() {
		rs = append(rs, bid(o))
	}
	sort.Strings(ws)
	sort.Strings(rs)
	var closed []string
	for _, a := range im.w.ClosedIDs() {
		closed = append(closed, fmt.Sprint(a))
	}
	sort.Strings(closed)
	var regs []string
	for a, r := range c.VerifRegistered() {
		reb := 0
		if r.RepState == "rebuilding" {
			reb = 1
		}
		regs = append(regs, fmt.Sprintf("%s:%d:%d", a, r.RevCount, reb))
	}
	sort.Strings(regs)
	var sigs []string
	for _, s := range im.w.Signals {
		p := strings.Split(s, ":")
		if len(p) >= 2 && p[1] == "start" {
			ok := "ok"
			if len(p) == 3 {
				ok = "fail"
			}
			sigs = append(sigs, p[0]+":"+ok)
		}
	}
	b2 := func(b bool) int {
		if b {
			return 1
		}
		return 0
	}
	sz := c.GetSize()
	if sz == 1<<63-1 {
		sz = 0
	}
	return fmt.Sprintf("%s ; replicas=%s ro=%d rw=%d ckpt=%s max=%s sig=%d size=%d front=%d ; calls=%s closed=%s signals=%s ; backends=%s writers=%s readers=%s avail=%d regs=%s",
		res, strings.Join(reps, ","), b2(c.ReadOnly), c.RWReplicaCount, c.Checkpoint, c.MaxRevReplica, b2(c.StartSignalled), sz, b2(c.VerifFrontendUp()),
		strings.Join(im.w.IDCalls(), ","), strings.Join(closed, ","), strings.Join(sigs, ","),
		strings.Join(bks, ","), strings.Join(ws, ","), strings.Join(rs, ","), b2(c.VerifAvailable()), strings.Join(regs, ","))
}

func runModel(lines []string) ([]string, error) {
	cmd := exec.Command(*drv, "ctl")
	cmd.Stdin = strings.NewReader(strings.Join(lines, "\n") + "\n")
	var out bytes.Buffer
	cmd.Stdout = &out
	cmd.Stderr = os.Stderr
	if err := cmd.Run(); err != nil {
		return nil, err
	}
	return strings.Split(strings.TrimRight(out.String(), "\n"), "\n"), nil
}

var callsRe = regexp.MustCompile(`calls=.*? closed=`) // (a call may carry an argument: "SetRevisionCounter 3")

// sameOut compares an observation of the implementation with the model's.  Two requests that
// overlapped in time are emitted in the order in which they took effect; the state between them
// cannot be observed ("*|": only the result is compared) and the call log of the second covers both
// ("~|": compared without the call log).
func sameOut(a, b string) bool {
	switch {
	case strings.HasPrefix(a, "*|"):
		a = strings.TrimPrefix(a, "*|")
		return strings.SplitN(a, " ; ", 2)[0] == strings.SplitN(b, " ; ", 2)[0]
	case strings.HasPrefix(a, "~|"):
		a = strings.TrimPrefix(a, "~|")
		return callsRe.ReplaceAllString(a, "calls=~ closed=") == callsRe.ReplaceAllString(b, "calls=~ closed=")
	}
	return a == b
}

func firstDiff(a, b []string) int {
	for i := range a {
		if i >= len(b) || !sameOut(a[i], b[i]) {
			return i
		}
	}
	if len(a) != len(b) {
		return len(a)
	}
	return -1
}

// pPartM: pPart that keeps the comparison marker of an overlapped request
func pPartM(s string) string {
	for _, m := range []string{"*|", "~|"} {
		if strings.HasPrefix(s, m) {
			return m + pPart(strings.TrimPrefix(s, m))
		}
	}
	return pPart(s)
}

// split an observation into its property-relevant part and the internal part
func pPart(s string) string {
	if i := strings.LastIndex(s, " ; backends="); i >= 0 {
		return s[:i]
	}
	return s
}

func waitMon(before int) {
	for i := 0; i < 2000 && hook.count() <= before; i++ {
		time.Sleep(time.Millisecond)
	}
}

func main() {
	flag.Parse()
	logrus.SetOutput(io.Discard)
	logrus.AddHook(hook)
	w := 1
	fmt.Sscan(os.Getenv("VERIF_WORKER"), &w)
	w = w%200 + 20
	// six loopback addresses private to this process; a set somebody else has bound (another check
	// running at the same time) is skipped
	var hosts []string
	for a := 0; a < 200 && len(hosts) == 0; a++ {
		third := (os.Getpid()+a*41)%250 + 1
		free := true
		for k := 1; k <= 6 && free; k++ {
			ln, err := net.Listen("tcp", fmt.Sprintf("127.%d.%d.%d:9502", w, third, k))
			if err != nil {
				free = false
			} else {
				ln.Close()
			}
		}
		if !free {
			continue
		}
		for k := 1; k <= 6; k++ {
			h := fmt.Sprintf("127.%d.%d.%d", w, third, k)
			if err := fake.Serve(h); err != nil {
				fmt.Fprintln(os.Stderr, "listen:", err)
				os.Exit(3)
			}
			hosts = append(hosts, h)
		}
	}
	if len(hosts) == 0 {
		fmt.Fprintln(os.Stderr, "listen: no free loopback addresses")
		os.Exit(3)
	}
	os.MkdirAll(*outDir, 0755)
	res := result{OpHist: map[string]int{}, Features: map[string]int{}}

	if *replay != "" {
		data, _ := os.ReadFile(*replay)
		var lines, impls []string
		for _, l := range strings.Split(string(data), "\n") {
			if strings.TrimSpace(l) == "" || strings.HasPrefix(l, "#") {
				continue
			}
			p := strings.Split(l, "\t")
			lines = append(lines, p[0])
			if len(p) > 1 {
				impls = append(impls, p[1])
			}
		}
		// the controller harness generates its environment online; a replay re-checks the recorded
		// implementation observations against the model of the current tree
		model, err := runModel(lines)
		if err != nil {
			fmt.Println(err)
			os.Exit(2)
		}
		bad := false
		for i := range lines {
			m := ""
			if i < len(model) {
				m = model[i]
			}
			mark := " "
			if i < len(impls) && impls[i] != m {
				mark = "!"
				bad = true
			}
			fmt.Printf("%s %s\n    recorded-impl=%s\n    model        =%s\n", mark, lines[i], get(impls, i), m)
		}
		if bad {
			fmt.Println("DISAGREE")
			os.Exit(1)
		}
		fmt.Println("AGREE")
		return
	}

	seen := map[string]bool{}
	for s := 0; s < *nseq; s++ {
		rng := rand.New(rand.NewSource(*seed*1000003 + int64(s)))
		lines, outs, feat := generate(rng, *seqLen, *profile, hosts)
		res.Sequences++
		res.Requests += len(lines)
		for _, l := range lines {
			res.OpHist[strings.Fields(l)[0]]++
		}
		for _, o := range outs {
			if strings.HasPrefix(o, "refused") {
				res.Refused++
			}
		}
		for k := range feat {
			res.Features[k]++
		}
		if k := strings.Join(lines, ";"); len(feat) >= 3 && !seen[k] {
			seen[k] = true
			res.Distinct++
		}
		if len(res.Samples) < 2 {
			var sm []string
			for i, l := range lines {
				o := outs[i]
				if j := strings.Index(o, " ; calls"); j > 0 {
					o = o[:j]
				}
				sm = append(sm, l+"  ->  "+o)
			}
			res.Samples = append(res.Samples, sm)
		}
		model, err := runModel(lines)
		if err != nil {
			res.Mismatches = append(res.Mismatches, "model driver failed: "+err.Error())
			continue
		}
		if d := firstDiff(outs, model); d >= 0 {
			// the environment is generated online, so the sequence is cut at the first difference
			// rather than re-executed; find out whether a property-relevant observable differs
			internal := true
			first := d
			for i := d; i < len(outs) && i < len(model); i++ {
				if !sameOut(pPartM(outs[i]), pPart(model[i])) {
					internal = false
					first = i
					break
				}
			}
			cut := first + 1
			path := fmt.Sprintf("%s/%s-seed%d-seq%d.replay", *outDir, *tag, *seed, s)
			var b strings.Builder
			fmt.Fprintf(&b, "# ctldiff disagreement; profile=%s seed=%d seq=%d; request<TAB>impl<TAB>model\n", *profile, *seed, s)
			for i := 0; i < cut && i < len(lines); i++ {
				fmt.Fprintf(&b, "%s\t%s\t%s\n", lines[i], outs[i], get(model, i))
			}
			os.WriteFile(path, []byte(b.String()), 0644)
			res.Violations = append(res.Violations, violation{Replay: path, Request: lines[min(first, len(lines)-1)], Internal: internal, Found: !internal})
			res.Mismatches = append(res.Mismatches, fmt.Sprintf("seq %d line %d: %q\n   impl =%s\n   model=%s", s, first, lines[min(first, len(lines)-1)], get(outs, first), get(model, first)))
		}
	}
	json.NewEncoder(os.Stdout).Encode(res)
	if len(res.Mismatches) > 0 {
		os.Exit(1)
	}
}

func get(l []string, i int) string {
	if i < len(l) {
		return l[i]
	}
	return ""
}

var _ = types.RW
