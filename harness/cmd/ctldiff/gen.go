//go:build verif

package main

import (
	"fmt"
	"math/rand"
	"sort"
	"strings"
	"time"

	"github.com/openebs/jiva/types"

	"jivaverif/harness/fake"
)

type gen struct {
	pFault    float64
	im        *impl
	rng       *rand.Rand
	lines     []string
	outs      []string
	feat      map[string]bool
	snapN     int
	adds      []*pendingAdd // AddReplica calls that are inside factory.Create
	unaligned bool
}

type pendingAdd struct {
	addr string
	host string
	gate chan struct{}
	done chan error
}

func full(h string) string { return "tcp://" + h + ":9502" }

func b01(b bool) string {
	if b {
		return "1"
	}
	return "0"
}

func (g *gen) emit(line, res string) {
	g.lines = append(g.lines, line)
	g.outs = append(g.outs, g.im.state(res))
}

func orDash(l []string) string {
	if len(l) == 0 {
		return "-"
	}
	return strings.Join(l, ",")
}

// ckEnv renders the answers the fakes gave to GetReplicaChain / SetCheckpoint during the request.
func (g *gen) ckEnv() string {
	var ch, sf []string
	seen := map[string]bool{}
	for _, a := range g.im.w.Answers {
		if strings.HasPrefix(a, "chain:") {
			kv := strings.TrimPrefix(a, "chain:")
			addr := kv[:strings.Index(kv, "=")]
			if !seen[addr] {
				seen[addr] = true
				ch = append(ch, kv)
			}
		}
		if strings.HasPrefix(a, "setck:") {
			kv := strings.TrimPrefix(a, "setck:")
			sf = append(sf, kv[:strings.Index(kv, "=")])
		}
	}
	sort.Strings(ch)
	sort.Strings(sf)
	c := "-"
	if len(ch) > 0 {
		c = strings.Join(ch, ";")
	}
	return c + " " + orDash(sf)
}

func (g *gen) rep(h string) *fake.Rep {
	a := full(h)
	if g.im.w.Reps[a] == nil {
		g.im.w.Reps[a] = &fake.Rep{Chain: []string{"volume-head-000.img"}, Rev: 1, Size: 1 << 20}
	}
	return g.im.w.Reps[a]
}

func (g *gen) replicas() []types.Replica { return g.im.c.ListReplicas() }

func (g *gen) nonErrBackends() []string {
	var out []string
	for _, b := range g.im.c.VerifBackends() {
		if b.Mode != types.ERR {
			out = append(out, b.Address)
		}
	}
	sort.Strings(out)
	return out
}

func (g *gen) rwBackends() []string {
	var out []string
	for _, b := range g.im.c.VerifBackends() {
		if b.Mode == types.RW {
			out = append(out, b.Address)
		}
	}
	sort.Strings(out)
	return out
}

// pickFails chooses which of the candidates fail the next call of method m.
func (g *gen) pickFails(cands []string, m string, pNone float64) []string {
	g.im.w.Script = map[string]string{}
	if len(cands) == 0 || g.rng.Float64() < pNone {
		return nil
	}
	k := 1
	x := g.rng.Float64()
	if x < 0.25 {
		k = 2
	}
	if x < 0.07 {
		k = len(cands)
	}
	perm := g.rng.Perm(len(cands))
	var out []string
	for i := 0; i < k && i < len(cands); i++ {
		out = append(out, cands[perm[i]])
		g.im.w.Script[cands[perm[i]]+":"+m] = "err"
	}
	sort.Strings(out)
	if len(out) > 0 {
		g.feat["fault-"+m] = true
	}
	return out
}

func classify(err error, refusedMarks ...string) string {
	if err == nil {
		return "ok"
	}
	for _, m := range refusedMarks {
		if strings.Contains(err.Error(), m) {
			return "refused"
		}
	}
	return "failed"
}

// ckFaults scripts failures of the calls UpdateCheckpoint makes at the end of a request.
func (g *gen) ckFaults(p float64) {
	for _, b := range g.im.c.VerifBackends() {
		if g.rng.Float64() < p {
			g.im.w.Script[b.Address+":SetCheckpoint"] = "err"
			g.feat["fault-SetCheckpoint"] = true
		}
		if g.rng.Float64() < p/3 {
			g.im.w.Script[b.Address+":GetReplicaChain"] = "err"
			g.feat["fault-GetReplicaChain"] = true
		}
	}
}

func (g *gen) doReg() {
	im := g.im
	h := im.hosts[g.rng.Intn(min(len(im.hosts), im.rf+1))]
	rev := 1 + g.rng.Intn(4)
	reb := g.rng.Float64() < 0.15
	sok := g.rng.Float64() < 0.85
	alive := g.rng.Float64() > 0.04
	uuid := "u-" + h
	if g.rng.Float64() < 0.05 {
		uuid = "u-" + im.hosts[g.rng.Intn(len(im.hosts))] // the same replica seen under another address
		g.feat["uuid-move"] = true
	}
	if g.rng.Float64() < 0.03 {
		uuid = ""
	}
	im.w.NoSignal, im.w.Dead = map[string]bool{}, map[string]bool{}
	for _, x := range im.hosts {
		im.w.NoSignal[x] = !sok
		im.w.Dead[x] = !alive
	}
	im.w.ResetLog()
	st := "closed"
	if reb {
		st = "rebuilding"
		g.feat["reg-rebuilding"] = true
	}
	err := im.c.RegisterReplica(types.RegReplica{Address: h, UUID: uuid, RevCount: int64(rev), RepType: "", RepState: st})
	g.rep(h).Rev = int64(rev)
	// the winner of the election loop is MaxRevReplica; only when the signal to it failed has it been
	// cleared, and then the target of that (last) signal was the winner.  (A signal may also have gone
	// to the previous leader registering again, before the loop ran.)
	el := im.c.MaxRevReplica
	if el == "" {
		for _, sg := range im.w.Signals {
			p := strings.Split(sg, ":")
			if len(p) >= 2 && p[1] == "start" {
				el = p[0]
			}
		}
	}
	if el == "" {
		el = "-"
	}
	u := uuid
	if u == "" {
		u = "-"
	}
	g.emit(fmt.Sprintf("reg %s %s %d %s | %s %s %s", h, u, rev, b01(reb), b01(sok), b01(alive), el), classify(err))
	g.feat["register"] = true
}

func (g *gen) doStart() {
	im := g.im
	h := im.c.MaxRevReplica
	if h == "" || g.rng.Float64() < 0.1 {
		h = im.hosts[g.rng.Intn(len(im.hosts))]
	}
	// the request names the elected replica first and, sometimes, further replicas (REST start with a
	// replica list): each is attached and made RW in turn, then the revision counters are compared
	hs := []string{h}
	x := g.rng.Float64()
	extra := 0
	switch {
	case x < 0.55:
	case x < 0.93:
		extra = 1 + g.rng.Intn(2)
	default:
		extra = im.rf // one more than the replication factor allows
		g.feat["start-over-rf"] = true
	}
	for _, o := range g.rng.Perm(len(im.hosts)) {
		if extra == 0 {
			break
		}
		if im.hosts[o] != h || g.rng.Float64() < 0.04 { // rarely the same address twice
			hs = append(hs, im.hosts[o])
			extra--
		}
	}
	if len(hs) > 1 {
		g.feat["start-multi"] = true
	}
	im.w.Script = map[string]string{}
	im.w.NoCreate = map[string]bool{}
	im.w.ModeFail = map[string][2]bool{}
	var addrs, envs []string
	seen := map[string]bool{}
	for i, hh := range hs {
		a := full(hh)
		addrs = append(addrs, a)
		r := g.rep(hh)
		if seen[a] {
			envs = append(envs, envs[len(envs)-1])
			continue
		}
		seen[a] = true
		createOk := g.rng.Float64() < 0.93
		setWoOk := g.rng.Float64() < 0.96
		setRwOk := g.rng.Float64() < 0.96
		revOk := g.rng.Float64() < 0.97
		clone := "NA"
		r.Clone = nil
		x := g.rng.Float64()
		if x < 0.05 {
			clone = "error"
			r.Clone = []string{"error"}
		} else if x < 0.08 {
			clone = "callfail"
			im.w.Script[a+":GetCloneStatus"] = "err"
		} else if x < 0.2 {
			clone = "completed"
			r.Clone = []string{"completed"}
		}
		if i > 0 {
			// the other replicas may have seen fewer or more writes than the elected one
			if g.rng.Float64() < 0.6 {
				r.Rev = int64(1 + g.rng.Intn(4))
				g.feat["start-rev-differs"] = true
			}
			r.Size = 1 << 20
			if g.rng.Float64() < 0.05 {
				r.Size = 2 << 20
				g.feat["start-size-mismatch"] = true
			}
		}
		im.w.NoCreate[a] = !createOk
		// SetReplicaMode is called twice (WO then RW): script by call count
		im.w.ModeFail[a] = [2]bool{!setWoOk, !setRwOk}
		rev := fmt.Sprint(r.Rev)
		if !revOk {
			im.w.Script[a+":GetRevisionCounter"] = "err"
			rev = "-"
		}
		envs = append(envs, fmt.Sprintf("%s:%d:%s:%s:%s:%s", b01(createOk), r.Size, b01(setWoOk), clone, b01(setRwOk), rev))
	}
	im.w.ResetLog()
	err := im.c.Start(addrs...)
	im.w.ModeFail = nil
	for _, hh := range hs {
		g.rep(hh).Size = 1 << 20
	}
	g.noteNewBackends()
	g.emit(fmt.Sprintf("start %s | %s %s", strings.Join(addrs, ","), strings.Join(envs, ";"), g.ckEnv()),
		classify(err, "Signalled replica to start", "replicas to start"))
	g.feat["start"] = true
}

func (g *gen) noteNewBackends() {
	// a monitoring goroutine exists exactly for the backends that got attached
	known := map[*fake.Backend]bool{}
	for _, b := range g.im.pending {
		known[b] = true
	}
	for _, vb := range g.im.c.VerifBackends() {
		if b, ok := vb.Backend.(*fake.Backend); ok && !known[b] && !g.im.fired[b] {
			g.im.pending = append(g.im.pending, b)
		}
	}
}

// hasErrBackend: replicator.RemainSnapshots type-asserts *remote.Remote for ERR backends (log
// line), which the fakes cannot satisfy; such entries are removed by their monitors first.
func (g *gen) hasErrBackend() bool {
	for g.doMon(true) {
	}
	for _, b := range g.im.c.VerifBackends() {
		if b.Mode == types.ERR {
			return true
		}
	}
	return false
}

func (g *gen) doAdd() {
	im := g.im
	if g.hasErrBackend() {
		return
	}
	h := im.hosts[g.rng.Intn(min(len(im.hosts), im.rf+2))]
	a := full(h)
	for _, p := range g.adds {
		if p.addr == a {
			return
		}
	}
	var wo string
	for _, r := range g.replicas() {
		if r.Mode == types.WO {
			wo = r.Address
		}
	}
	im.w.Script = map[string]string{}
	takeover := "-"
	r := g.rep(h)
	if wo != "" {
		woRev := im.w.Reps[wo].Rev
		if g.rng.Float64() < 0.4 {
			r.Rev = woRev + 1 + int64(g.rng.Intn(3))
		} else {
			r.Rev = woRev - int64(g.rng.Intn(2))
			if r.Rev < 1 {
				r.Rev = 1
			}
		}
		takeover = b01(r.Rev > woRev)
		if g.rng.Float64() < 0.08 {
			im.w.Script[a+":http:GET:"] = "err"
			takeover = "0"
		}
		g.feat["add-with-wo"] = true
		if takeover == "1" {
			g.feat["takeover"] = true
		}
	}
	createOk := g.rng.Float64() > g.pFault*0.6
	im.w.NoCreate = map[string]bool{a: !createOk}
	fails := g.pickFailsKeep(g.nonErrBackends(), "Snapshot", 1-g.pFault)
	newSnapOk := g.rng.Float64() < 0.95
	setWoOk := g.rng.Float64() < 0.96
	im.w.NewSnapFail = map[string]bool{a: !newSnapOk}
	im.w.ModeFail = map[string][2]bool{a: {!setWoOk, false}}
	r.Mode = ""
	g.snapN++
	g.ckFaults(g.pFault * 0.5)
	im.w.ResetLog()
	err := im.c.AddReplica(a)
	im.w.ModeFail, im.w.NewSnapFail = nil, nil
	g.noteNewBackends()
	g.emit(fmt.Sprintf("add %s | %s %s %s %s %s %s", a, takeover, b01(createOk), orDash(fails), b01(newSnapOk), b01(setWoOk), g.ckEnv()),
		classify(err, "is already added", "can only have one WO", "can't add", "Bad response", "Bad status")+"")
	g.feat["add"] = true
}

// takeoverAnswer prepares what hasGreaterRevisionCount will see for the newcomer h and returns it
func (g *gen) takeoverAnswer(h string) string {
	im := g.im
	a := full(h)
	var wo string
	for _, r := range g.replicas() {
		if r.Mode == types.WO {
			wo = r.Address
		}
	}
	takeover := "-"
	r := g.rep(h)
	if wo != "" {
		woRev := im.w.Reps[wo].Rev
		if g.rng.Float64() < 0.4 {
			r.Rev = woRev + 1 + int64(g.rng.Intn(3))
		} else {
			r.Rev = woRev - int64(g.rng.Intn(2))
			if r.Rev < 1 {
				r.Rev = 1
			}
		}
		takeover = b01(r.Rev > woRev)
		if g.rng.Float64() < 0.08 {
			im.w.Script[a+":http:GET:"] = "err"
			takeover = "0"
		}
		g.feat["add-with-wo"] = true
		if takeover == "1" {
			g.feat["takeover"] = true
		}
	}
	return takeover
}

// doAddPre starts an AddReplica and lets it run up to factory.Create, which the controller calls
// with its lock released; other requests are served while it sits there.
func (g *gen) doAddPre() {
	im := g.im
	if g.hasErrBackend() || len(g.adds) >= 2 {
		return
	}
	h := im.hosts[g.rng.Intn(min(len(im.hosts), im.rf+2))]
	a := full(h)
	for _, p := range g.adds {
		if p.addr == a {
			return
		}
	}
	im.w.Script = map[string]string{}
	takeover := g.takeoverAnswer(h)
	g.rep(h).Mode = ""
	p := &pendingAdd{addr: a, host: h, gate: make(chan struct{}), done: make(chan error, 1)}
	im.w.SetGate(a, p.gate)
	im.w.ResetLog()
	go func() { p.done <- im.c.AddReplica(a) }()
	res := ""
	select {
	case <-im.w.Entered:
		res = "ok"
		g.adds = append(g.adds, p)
		g.feat["add-in-create"] = true
	case err := <-p.done:
		im.w.SetGate(a, nil)
		res = classify(err, "is already added", "can only have one WO", "can't add", "Bad response", "Bad status")
		if res == "ok" {
			res = "returned-early"
		}
	}
	im.c.Lock()
	im.c.Unlock()
	g.emit(fmt.Sprintf("addpre %s | %s", a, takeover), res)
}

// doAddPost lets one pending AddReplica return from factory.Create and finish.
func (g *gen) doAddPost() {
	im := g.im
	if len(g.adds) == 0 || g.hasErrBackend() {
		return
	}
	idx := g.rng.Intn(len(g.adds))
	p := g.adds[idx]
	g.adds = append(g.adds[:idx], g.adds[idx+1:]...)
	a := p.addr
	if len(g.replicas()) > 0 {
		g.feat["add-overlap"] = true
	}
	im.w.Script = map[string]string{}
	takeover := g.takeoverAnswer(p.host)
	createOk := g.rng.Float64() > g.pFault*0.6
	im.w.NoCreate = map[string]bool{a: !createOk}
	fails := g.pickFailsKeep(g.nonErrBackends(), "Snapshot", 1-g.pFault)
	newSnapOk := g.rng.Float64() < 0.95
	setWoOk := g.rng.Float64() < 0.96
	im.w.NewSnapFail = map[string]bool{a: !newSnapOk}
	im.w.ModeFail = map[string][2]bool{a: {!setWoOk, false}}
	g.snapN++
	g.ckFaults(g.pFault * 0.5)
	im.w.ResetLog()
	close(p.gate)
	err := <-p.done
	im.w.SetGate(a, nil)
	im.w.ModeFail, im.w.NewSnapFail = nil, nil
	g.noteNewBackends()
	g.emit(fmt.Sprintf("addpost %s | %s %s %s %s %s %s", a, takeover, b01(createOk), orDash(fails), b01(newSnapOk), b01(setWoOk), g.ckEnv()),
		classify(err, "is already added", "can only have one WO", "can't add", "Bad response", "Bad status")+"")
	g.feat["add"] = true
}

// pickFailsKeep is pickFails without resetting the script
func (g *gen) pickFailsKeep(cands []string, m string, pNone float64) []string {
	saved := g.im.w.Script
	out := g.pickFails(cands, m, pNone)
	for k, v := range saved {
		g.im.w.Script[k] = v
	}
	return out
}

func (g *gen) doVerify() {
	im := g.im
	reps := g.replicas()
	if len(reps) == 0 {
		return
	}
	var target, src string
	for _, r := range reps {
		if r.Mode == types.WO && target == "" {
			target = r.Address
		}
	}
	for _, r := range reps {
		if r.Mode == types.RW {
			src = r.Address
			break
		}
	}
	if target == "" || g.rng.Float64() < 0.1 {
		target = reps[g.rng.Intn(len(reps))].Address
	}
	im.w.Script = map[string]string{}
	tr := im.w.Reps[target]
	// the harness plays the sync agent: usually the WO replica's snapshots have been copied
	if src != "" && tr != nil && g.rng.Float64() < 1-2.5*g.pFault {
		sr := im.w.Reps[src]
		tr.Chain = append([]string{tr.Chain[0]}, sr.Chain[1:]...)
		g.feat["synced"] = true
	} else if tr != nil && g.rng.Float64() < 0.3 && len(tr.Chain) > 1 {
		tr.Chain = tr.Chain[:len(tr.Chain)-1] // a shorter chain
		g.feat["short-chain"] = true
	}
	if src != "" && tr != nil {
		sr := im.w.Reps[src]
		switch g.rng.Intn(6) {
		case 0:
			tr.Checkpoint = ""
		case 1:
			if len(sr.Chain) > 1 {
				tr.Checkpoint = sr.Chain[1+g.rng.Intn(len(sr.Chain)-1)]
			}
		case 2:
			tr.Checkpoint = "volume-snap-nosuch.img"
		}
	}
	rwc, woc, ck, rev := "!", "!", "!", "-"
	if src != "" {
		if g.rng.Float64() < 0.05 {
			im.w.Script[src+":http:GET:"] = "err"
		} else {
			rwc = fake.EncChain(im.w.Reps[src].Chain)
		}
		if g.rng.Float64() < 0.04 {
			im.w.Script[src+":GetRevisionCounter"] = "err"
		} else {
			rev = fmt.Sprint(im.w.Reps[src].Rev)
		}
	}
	if tr != nil {
		if g.rng.Float64() < 0.05 {
			im.w.Script[target+":http:GET:"] = "err"
		} else {
			woc = fake.EncChain(tr.Chain)
			ck = tr.Checkpoint
			if ck == "" {
				ck = "-"
			}
		}
	}
	setRwOk := g.rng.Float64() < 0.95
	setRevOk := g.rng.Float64() < 0.95
	im.w.ModeFail = map[string][2]bool{target: {!setRwOk, false}}
	if !setRevOk {
		for k := 0; k < 40; k++ {
			im.w.Script[fmt.Sprintf("%s:SetRevisionCounter %d", target, k)] = "err"
		}
		im.w.RevFail = map[string]bool{target: true}
	}
	g.ckFaults(g.pFault)
	if g.rng.Float64() < g.pFault {
		im.w.Script[target+":SetCheckpoint"] = "err"
	}
	im.w.ResetLog()
	// sometimes a write arrives while the verification is inside its first call to a replica (it holds
	// the controller lock): the write must be served after the promotion — every RW replica, the promoted
	// one included, then counts it, and all RW replicas report the same count
	var wres chan string
	if !im.c.ReadOnly && len(im.w.Script) == 0 && setRwOk && setRevOk && g.rng.Float64() < 0.3 {
		wres = make(chan string, 1)
		launched := false
		im.w.OnHTTP = func(string) {
			launched = true
			go func() {
				k, err := im.c.WriteAt(make([]byte, 4096), 0)
				r := classify(err, "Mode: ReadOnly", "EOF:")
				if err == nil && k != 4096 {
					r = "failed"
				}
				wres <- r
			}()
			time.Sleep(80 * time.Millisecond)
		}
		defer func() {
			im.w.OnHTTP = nil
			if !launched {
				return
			}
			r := "hung"
			select {
			case r = <-wres:
			case <-time.After(10 * time.Second):
			}
			if r == "ok" && im.w.Reps[target] != nil {
				// the promoted replica was given the count N of an RW replica and then, RW itself, took the write:
				// it must report N+1 (like the replica the count was taken from)
				promoted := false
				for _, x := range im.c.ListReplicas() {
					if x.Address == target && x.Mode == types.RW {
						promoted = true
					}
				}
				given := int64(-1)
				for _, call := range im.w.TakeCalls() {
					if strings.HasPrefix(call, target+":SetRevisionCounter ") {
						fmt.Sscan(strings.TrimPrefix(call, target+":SetRevisionCounter "), &given)
					}
				}
				if got := im.w.Reps[target].Rev; promoted && given >= 0 && got != given+1 {
					r = fmt.Sprintf("ok-but-the-promoted-replica-reports-%d-after-being-given-%d-and-one-write", got, given)
				}
			}
			g.lines = append(g.lines, "w 0 4096 | - | -")
			g.outs = append(g.outs, "~|"+g.im.state(r))
			g.feat["verify-overlapped-by-write"] = true
		}()
	}
	res := func() (out string) {
		defer func() {
			if p := recover(); p != nil {
				out = "failed"
			}
		}()
		return classify(im.c.VerifyRebuildReplica(target), "")
	}()
	im.w.ModeFail, im.w.RevFail = nil, nil
	if res == "failed" {
		res = "refused"
	}
	if wres != nil {
		// the calls of the two requests are logged together: only the result of the verification is compared
		g.lines = append(g.lines, fmt.Sprintf("verify %s | %s %s %s %s %s %s %s", target, rwc, woc, ck, rev, b01(setRwOk), b01(setRevOk), g.ckEnv()))
		g.outs = append(g.outs, "*|"+res+" ; ")
		g.feat["verify"] = true
		if res == "ok" {
			g.feat["promoted"] = true
		}
		return
	}
	g.emit(fmt.Sprintf("verify %s | %s %s %s %s %s %s %s", target, rwc, woc, ck, rev, b01(setRwOk), b01(setRevOk), g.ckEnv()), res)
	g.feat["verify"] = true
	if res == "ok" {
		g.feat["promoted"] = true
	}
}

func (g *gen) doIO(kind string) {
	im := g.im
	fails := g.pickFails(g.nonErrBackends(), map[string]string{"w": "WriteAt", "sync": "Sync", "unmap": "Unmap"}[kind], 0.6)
	im.w.ResetLog()
	var res string
	switch kind {
	case "w":
		off, n := 4096*g.rng.Intn(8), 4096
		if g.rng.Float64() < 0.06 && im.c.GetSize() > 4096 && im.c.GetSize() < 1<<40 {
			off = int(im.c.GetSize()) - 2048 // straddles the end
		}
		if g.unaligned || g.rng.Float64() < 0.4 {
			// not block aligned: while a WO replica is attached the controller completes the
			// request from the RW replicas first
			off = 4096*g.rng.Intn(8) + 512*g.rng.Intn(8)
			n = 512 * (1 + g.rng.Intn(20))
			if g.rng.Float64() < 0.15 && im.c.GetSize() > 8192 && im.c.GetSize() < 1<<40 {
				off = int(im.c.GetSize()) - 512*(1+g.rng.Intn(12)) // ends at (or is cut by) the volume end
				n = int(im.c.GetSize()) - off
			}
			g.pickFailsKeep(g.rwBackends(), "ReadAt", 0.75)
			g.feat["w-unaligned"] = true
		}
		im.w.ResetLog()
		k, err := im.c.WriteAt(make([]byte, n), int64(off))
		res = classify(err, "Mode: ReadOnly", "EOF:")
		if err == nil && k != n {
			res = "failed"
		}
		var tried []string
		for _, a := range im.w.Answers {
			if strings.HasPrefix(a, "read:") {
				kv := strings.TrimPrefix(a, "read:")
				i := strings.LastIndex(kv, "=")
				tried = append(tried, kv[:i]+"="+kv[i+1:])
			}
		}
		if len(tried) > 0 {
			g.feat["w-widened"] = true
		}
		g.emit(fmt.Sprintf("w %d %d | %s | %s", off, n, orDash(fails), orDash(tried)), res)
	case "sync":
		_, err := im.c.Sync()
		g.emit("sync | "+orDash(fails), classify(err, "Mode: ReadOnly"))
	case "unmap":
		_, err := im.c.Unmap(0, 4096)
		g.emit("unmap | "+orDash(fails), classify(err, "Mode: ReadOnly"))
	}
	g.feat["io-"+kind] = true
}

func (g *gen) doRead() {
	im := g.im
	g.pickFails(g.rwBackends(), "ReadAt", 0.6)
	im.w.ResetLog()
	off, n := 4096*g.rng.Intn(8), 4096
	if g.rng.Float64() < 0.06 && im.c.GetSize() < 1<<40 {
		off = int(im.c.GetSize())
	}
	buf := make([]byte, n)
	// sometimes every RW replica fails this read while a request that promotes the rebuilding replica
	// (PUT mode RW) arrives during the read: ReadAt holds the controller lock across the read AND the
	// handling of its errors, so the promotion takes effect afterwards and the read fails; were the
	// lock dropped in between, the error handling would find an RW replica that was never asked
	var intruder string
	intruded, launched := false, false
	done := make(chan struct{})
	if off < int(im.c.GetSize()) && g.rng.Float64() < 0.25 {
		for _, r := range g.replicas() {
			if r.Mode == types.WO {
				intruder = r.Address
			}
		}
		if rw := g.rwBackends(); intruder != "" && len(rw) > 0 {
			for _, a := range rw {
				im.w.Script[a+":ReadAt"] = "err"
			}
			im.w.OnRead = func(string) {
				launched = true
				go func() { im.c.SetReplicaMode(intruder, types.RW); close(done) }()
				select {
				case <-done:
					intruded = true
				case <-time.After(100 * time.Millisecond):
				}
			}
		} else {
			intruder = ""
		}
	}
	k, err := im.c.ReadAt(buf, int64(off))
	im.w.OnRead = nil
	res := classify(err, "EOF:")
	if err == nil && k != n {
		// no error although nothing (or not everything) was read: a caller that trusts the error
		// alone takes the unfilled buffer for data — neither a success nor a reported failure
		res = fmt.Sprintf("short-read-without-error(%d of %d)", k, n)
	}
	var tried []string
	for _, a := range im.w.Answers {
		if strings.HasPrefix(a, "read:") {
			kv := strings.TrimPrefix(a, "read:")
			i := strings.LastIndex(kv, "=")
			tried = append(tried, kv[:i]+"="+kv[i+1:])
		}
	}
	readLine := fmt.Sprintf("r %d %d | %s", off, n, orDash(tried))
	if intruder != "" && launched {
		select {
		case <-done:
		case <-time.After(5 * time.Second):
		}
		first, second, r1, r2 := readLine, fmt.Sprintf("setmode %s RW", intruder), res, "ok"
		if intruded {
			first, second, r1, r2 = second, first, r2, r1
		}
		g.lines = append(g.lines, first)
		g.outs = append(g.outs, "*|"+r1+" ; ")
		g.lines = append(g.lines, second)
		g.outs = append(g.outs, "~|"+g.im.state(r2))
		g.feat["read-overlapped-by-promotion"] = true
	} else {
		g.emit(readLine, res)
	}
	g.feat["read"] = true
}

func (g *gen) doSnap() {
	im := g.im
	if g.hasErrBackend() {
		return
	}
	g.snapN++
	name := fmt.Sprintf("s%d", g.snapN)
	var lastRW string
	for _, r := range g.replicas() {
		if r.Mode == types.RW {
			lastRW = r.Address
		}
	}
	existing := "-"
	fails := g.pickFails(g.nonErrBackends(), "Snapshot", 0.7)
	if lastRW != "" {
		existing = "0"
		if g.rng.Float64() < 0.08 && len(im.w.Reps[lastRW].Chain) > 1 {
			name = strings.TrimSuffix(strings.TrimPrefix(im.w.Reps[lastRW].Chain[1], "volume-snap-"), ".img")
			existing = "1"
		} else if g.rng.Float64() < 0.05 {
			im.w.Script[lastRW+":http:GET:"] = "err"
			existing = "-"
		}
	}
	im.w.ResetLog()
	// sometimes another request arrives while Snapshot is inside its duplicate-name lookup (a REST
	// round trip to a replica): Snapshot holds the controller lock across the whole call, so the
	// other request must take effect after it — if it takes effect during the lookup, the guard
	// "all RF replicas are RW" was evaluated for a membership that no longer holds at the fan-out
	var intruder string
	intruded, launched := false, false
	done := make(chan struct{})
	if reps := g.replicas(); existing == "0" && len(reps) > 0 && im.c.RWReplicaCount == im.rf && g.rng.Float64() < 0.6 {
		intruder = reps[g.rng.Intn(len(reps))].Address
		im.w.OnHTTP = func(string) {
			launched = true
			go func() { im.c.RemoveReplica(intruder); close(done) }()
			select {
			case <-done:
				intruded = true
			case <-time.After(150 * time.Millisecond):
			}
		}
	}
	_, err := im.c.Snapshot(name)
	snapLine := fmt.Sprintf("snap %s | %s %s", name, existing, orDash(fails))
	snapRes := classify(err, "RWReplicaCount", "already exists")
	im.w.OnHTTP = nil
	if intruder != "" && launched {
		select {
		case <-done:
		case <-time.After(5 * time.Second):
		}
		first, second, r1, r2 := snapLine, "rm "+intruder, snapRes, "ok"
		if intruded {
			first, second, r1, r2 = second, first, r2, r1
		}
		g.lines = append(g.lines, first)
		g.outs = append(g.outs, "*|"+r1+" ; ")
		g.lines = append(g.lines, second)
		g.outs = append(g.outs, "~|"+g.im.state(r2))
		g.feat["snapshot-overlapped-by-remove"] = true
	} else {
		g.emit(snapLine, snapRes)
	}
	g.feat["snapshot"] = true
}

func (g *gen) doResize() {
	im := g.im
	if im.c.GetSize() <= 0 || im.c.GetSize() > 1<<40 {
		return
	}
	sz := im.c.GetSize() + 4096*int64(1+g.rng.Intn(4))
	if g.rng.Float64() < 0.15 {
		sz = im.c.GetSize() - 4096*int64(g.rng.Intn(2))
	}
	fails := g.pickFails(g.nonErrBackends(), "Resize", 0.7)
	// a replica that is already larger than the requested size refuses the request (it grew in an earlier
	// resize that failed elsewhere and left the controller's size unchanged): that is the environment's answer too
	for _, a := range g.nonErrBackends() {
		if rep := im.w.Reps[a]; rep != nil && rep.Size > sz {
			dup := false
			for _, f := range fails {
				dup = dup || f == a
			}
			if !dup {
				fails = append(fails, a)
				g.feat["resize-refused-by-a-larger-replica"] = true
			}
		}
	}
	sort.Strings(fails)
	im.w.ResetLog()
	err := im.c.Resize("v", fmt.Sprint(sz))
	res := classify(err, "Size can only", "same as size")
	if res == "ok" {
		// every replica that took the request has exactly the size that was asked for
		for _, r := range g.replicas() {
			if rep := im.w.Reps[r.Address]; rep != nil && r.Mode != types.ERR && rep.Size != sz {
				res = fmt.Sprintf("ok-but-replica-%s-has-size-%d", short(r.Address), rep.Size)
			}
		}
	}
	g.emit(fmt.Sprintf("resize %d | %s", sz, orDash(fails)), res)
	g.feat["resize"] = true
}

func (g *gen) doMon(prompt bool) bool {
	im := g.im
	if len(im.pending) == 0 {
		return false
	}
	// prefer monitors of backends that were closed or marked ERR (they fire by themselves in production)
	idx := g.rng.Intn(len(im.pending))
	if prompt {
		idx = -1
		stopped := map[string]bool{}
		for _, a := range im.w.Stops {
			stopped[a] = true
		}
		for i, b := range im.pending {
			if stopped[b.Addr] {
				idx = i
				break
			}
		}
		if idx < 0 {
			return false
		}
	}
	b := im.pending[idx]
	im.pending = append(im.pending[:idx], im.pending[idx+1:]...)
	im.fired[b] = true
	withErr := !prompt && g.rng.Float64() < 0.4
	im.w.Script = map[string]string{}
	im.w.ResetLog()
	before := hook.count()
	if withErr {
		b.Mon <- fmt.Errorf("ping failed")
	} else {
		b.Mon <- nil
	}
	waitMon(before)
	im.c.Lock()
	im.c.Unlock()
	g.emit(fmt.Sprintf("mon %s %s", b.Addr, b01(withErr)), "ok")
	g.feat["monitor"] = true
	return true
}

// generate runs one sequence.  A panic inside the controller (an index out of range, a division by
// zero in the fan-out) must not take the harness down: the sequence ends there, the last line says
// so, and the model — which never panics — disagrees with it, so the sequence becomes the replay.
func generate(rng *rand.Rand, steps int, profile string, hosts []string) (lines []string, outs []string, feat map[string]bool) {
	var g *gen
	defer func() {
		if r := recover(); r != nil && g != nil {
			msg := strings.SplitN(fmt.Sprint(r), "\n", 2)[0]
			lines = append(g.lines, "panic")
			outs = append(g.outs, "the controller panicked in the request that followed: "+msg)
			feat = g.feat
		}
	}()
	return generateInner(rng, steps, profile, hosts, &g)
}

func generateInner(rng *rand.Rand, steps int, profile string, hosts []string, gp **gen) ([]string, []string, map[string]bool) {
	rf := 1 + rng.Intn(5)
	if rng.Intn(3) == 0 {
		rf = 3
	}
	im := newImpl(rf, hosts)
	im.fired = map[*fake.Backend]bool{}
	g := &gen{im: im, rng: rng, feat: map[string]bool{}}
	*gp = g
	g.lines = append(g.lines, fmt.Sprintf("init %d", rf))
	g.outs = append(g.outs, "ok")
	g.feat[fmt.Sprintf("rf%d", rf)] = true
	w := map[string]int{"reg": 10, "start": 6, "add": 12, "verify": 12, "rm": 3, "setmode": 3, "w": 18, "sync": 4, "unmap": 3, "r": 10, "snap": 5, "resize": 3, "mon": 8, "addpre": 4, "addpost": 6}
	switch profile {
	case "faults":
		w["w"], w["sync"], w["unmap"], w["r"] = 30, 8, 6, 14
	case "membership":
		w["add"], w["verify"], w["rm"], w["setmode"], w["mon"] = 14, 16, 6, 6, 12
		w["addpre"], w["addpost"] = 10, 12
	case "reads":
		w["r"], w["add"], w["verify"] = 30, 14, 14
	case "election":
		w["reg"], w["start"], w["rm"], w["w"] = 40, 14, 8, 6
	case "snapshots":
		w["snap"], w["resize"], w["add"], w["verify"] = 18, 8, 14, 14
	}
	keys := []string{"reg", "start", "add", "verify", "rm", "setmode", "w", "sync", "unmap", "r", "snap", "resize", "mon", "addpre", "addpost"}
	g.pFault = 0.12
	if rng.Float64() < 0.65 {
		// prelude: bring the volume up and grow the membership with few faults, so that the
		// random part starts from states with several RW replicas (and possibly one rebuilding)
		g.pFault = 0.02
		want := 1 + rng.Intn(rf)
		for i := 0; i < 40 && len(g.replicas()) == 0; i++ {
			if im.c.StartSignalled {
				g.doStart()
			} else {
				g.doReg()
			}
		}
		for i := 0; i < 4*rf && len(g.replicas()) > 0; i++ {
			nrw, nwo := 0, 0
			for _, r := range g.replicas() {
				if r.Mode == types.RW {
					nrw++
				} else if r.Mode == types.WO {
					nwo++
				}
			}
			if nwo > 0 {
				g.doVerify()
			} else if nrw < want || (nrw < rf && len(g.replicas()) < rf && rng.Float64() < 0.5 && i < 3*rf) {
				g.doAdd()
				if nrw >= want {
					break // leave one replica rebuilding
				}
			} else {
				break
			}
		}
		g.feat["prelude"] = true
		g.pFault = 0.12
	}
	for st := 0; st < steps; st++ {
		nrep := len(g.replicas())
		// bootstrap quickly most of the time
		if nrep == 0 && rng.Float64() < 0.8 {
			if im.c.StartSignalled && rng.Float64() < 0.7 {
				g.doStart()
			} else {
				g.doReg()
			}
			continue
		}
		tot := 0
		for _, k := range keys {
			tot += w[k]
		}
		x := rng.Intn(tot)
		op := "w"
		for _, k := range keys {
			if x < w[k] {
				op = k
				break
			}
			x -= w[k]
		}
		switch op {
		case "reg":
			g.doReg()
		case "start":
			g.doStart()
		case "add":
			g.doAdd()
		case "addpre":
			g.doAddPre()
		case "addpost":
			g.doAddPost()
		case "verify":
			g.doVerify()
		case "rm":
			im.w.Script = map[string]string{}
			im.w.ResetLog()
			a := full(hosts[rng.Intn(len(hosts))])
			if reps := g.replicas(); len(reps) > 0 && rng.Float64() < 0.8 {
				a = reps[rng.Intn(len(reps))].Address
			}
			// sometimes a write arrives while the removal holds the controller lock (it is inside the
			// backend's Close): the write must be decided on the state the removal leaves — if the
			// volume has lost its quorum by then it is refused, whatever the state was when it arrived
			var wres chan string
			if !im.c.ReadOnly && rng.Float64() < 0.3 {
				wres = make(chan string, 1)
				launched := false
				im.w.OnClose = func(string) {
					launched = true
					go func() {
						k, err := im.c.WriteAt(make([]byte, 4096), 0)
						r := classify(err, "Mode: ReadOnly", "EOF:")
						if err == nil && k != 4096 {
							r = "failed"
						}
						wres <- r
					}()
					time.Sleep(80 * time.Millisecond)
				}
				im.c.RemoveReplica(a)
				im.w.OnClose = nil
				if !launched {
					wres = nil
				}
			} else {
				im.c.RemoveReplica(a)
			}
			if wres != nil {
				r := "hung"
				select {
				case r = <-wres:
				case <-time.After(10 * time.Second):
				}
				g.lines = append(g.lines, "rm "+a)
				g.outs = append(g.outs, "*|ok ; ")
				g.lines = append(g.lines, "w 0 4096 | - | -")
				g.outs = append(g.outs, "~|"+g.im.state(r))
				g.feat["remove-overlapped-by-write"] = true
			} else {
				g.emit("rm "+a, "ok")
			}
			g.feat["remove"] = true
		case "setmode":
			im.w.Script = map[string]string{}
			im.w.ResetLog()
			a := full(hosts[rng.Intn(len(hosts))])
			if reps := g.replicas(); len(reps) > 0 && rng.Float64() < 0.85 {
				a = reps[rng.Intn(len(reps))].Address
			}
			m := []types.Mode{types.RW, types.ERR, types.ERR, types.WO}[rng.Intn(4)]
			err := im.c.SetReplicaMode(a, m)
			g.emit(fmt.Sprintf("setmode %s %s", a, m), classify(err, "Can not set to mode"))
			g.feat["setmode-"+string(m)] = true
			if m == types.ERR && rng.Float64() < 0.4 {
				// a late or duplicate request for a replica that is already marked ERR (its monitor
				// has not removed it yet), then I/O
				im.w.ResetLog()
				m2 := []types.Mode{types.RW, types.RW, types.ERR}[rng.Intn(3)]
				err := im.c.SetReplicaMode(a, m2)
				g.emit(fmt.Sprintf("setmode %s %s", a, m2), classify(err, "Can not set to mode"))
				g.feat["setmode-on-ERR"] = true
				if !im.c.ReadOnly {
					g.doIO("w")
				}
				g.doRead()
			}
		case "w", "sync", "unmap":
			if im.c.ReadOnly && rng.Float64() > 0.04 {
				continue // refused requests sleep 1 s each
			}
			g.doIO(op)
		case "r":
			g.doRead()
		case "snap":
			g.doSnap()
		case "resize":
			g.doResize()
		case "mon":
			g.doMon(false)
		}
		// a rebuild is running and the volume is writable: sub-block writes are widened by the controller
		if !im.c.ReadOnly && rng.Float64() < 0.5 {
			for _, r := range g.replicas() {
				if r.Mode == types.WO {
					g.unaligned = true
					g.doIO("w")
					g.unaligned = false
					break
				}
			}
		}
		// monitors of closed / ERR-marked backends fire by themselves; do that promptly most of the time
		for rng.Float64() < 0.8 && g.doMon(true) {
		}
	}
	for g.doMon(true) {
	}
	for len(g.adds) > 0 { // no AddReplica is left inside Create
		for g.hasErrBackend() && g.doMon(false) {
		}
		n := len(g.adds)
		g.doAddPost()
		if len(g.adds) == n {
			break
		}
		for g.doMon(true) {
		}
	}
	for _, p := range g.adds {
		close(p.gate)
		<-p.done
	}
	return g.lines, g.outs, g.feat
}
