//go:build verif

// crashdiff: crash and fault enumeration for the replica directory (C08).
// A victim process opens a prepared replica directory and performs ONE operation on a locked OS
// thread under strace.  From the clean trace the harness takes the ordered list of mutating
// file-system calls the operation issued; then, for every such call, the victim is re-run on a fresh
// copy of the directory (a) killed on entry of that call, (b) with that call failing with ENOSPC,
// (c) with EIO.  After each run the directory is opened by the real replica code and its chain,
// attributes, revision counter, size and full data are compared with the state before and the state
// after the operation.  The clean call list is also compared with the Lean crash model's program
// for that operation (`drv crash`), and the model's verdict for every prefix is compared with what
// the real recovery found.
package main

import (
	"bytes"
	"encoding/json"
	"flag"
	"fmt"
	"io"
	"math/rand"
	"os"
	"os/exec"
	"path/filepath"
	"regexp"
	"runtime"
	"sort"
	"strings"
	"sync"

	"github.com/openebs/jiva/replica"
	"github.com/sirupsen/logrus"

	"jivaverif/harness/rep"
)

var (
	seed    = flag.Int64("seed", 1, "seed")
	nseq    = flag.Int("n", 2, "pre-states")
	_       = flag.Int("len", 0, "unused")
	profile = flag.String("profile", "all", "all | write (only data writes: what a replica answers when a call of a write fails) | snap (only snapshots)")
	drv     = flag.String("drv", "/verif/lean/.lake/build/bin/drv", "model driver")
	replay  = flag.String("replay", "", "replay file")
	outDir  = flag.String("out", "/verif/replays", "replay dir")
	tag     = flag.String("tag", "crash", "tag")
	scratch = flag.String("scratch", "/var/tmp", "scratch root")
	victim  = flag.String("victim", "", "internal: directory to operate on")
	vop     = flag.String("op", "", "internal: operation line")
)

type violation struct {
	Replay   string `json:"replay"`
	Request  string `json:"request"`
	Internal bool   `json:"internal_only"`
	Found    bool   `json:"failing_input_found"`
}
type result struct {
	Violations []violation    `json:"violations"`
	Sequences  int            `json:"sequences"`
	Requests   int            `json:"requests"`
	OpHist     map[string]int `json:"op_hist"`
	Refused    int            `json:"refused"`
	Mismatches []string       `json:"mismatches"`
	Samples    [][]string     `json:"samples"`
	Distinct   int            `json:"distinct_nontrivial"`
	Features   map[string]int `json:"features"`
}

// ---- victim ---------------------------------------------------------------------------------

func runVictim(dir, op string) {
	runtime.LockOSThread()
	logrus.SetOutput(io.Discard)
	im := &rep.Impl{Dir: dir, BS: 8, S: replica.NewServer("127.0.0.1:9502", dir, 512, "")}
	if o := im.Exec("open p"); o != "ok" {
		fmt.Println("VICTIM open-failed")
		os.Exit(4)
	}
	im.Exec("mode RW")
	os.Stat("/jv-mark-begin")
	out := im.Exec(op)
	os.Stat("/jv-mark-end")
	fmt.Println("VICTIM " + out)
	os.Exit(0) // no Close: the directory stays exactly as the operation left it
}

// ---- harness --------------------------------------------------------------------------------

const traced = "openat,write,pwrite64,rename,renameat,renameat2,link,linkat,unlink,unlinkat,fsync,fdatasync,truncate,ftruncate,fallocate,newfstatat,stat"

var mutating = map[string]bool{"openat": true, "write": true, "pwrite64": true, "rename": true, "renameat": true, "renameat2": true,
	"link": true, "linkat": true, "unlink": true, "unlinkat": true, "fsync": true, "fdatasync": true, "truncate": true, "ftruncate": true, "fallocate": true}

type call struct {
	name string
	nth  int    // occurrence number of this syscall name on the victim's main thread (strace's `when`)
	text string // canonical rendering
}

var lineRe = regexp.MustCompile(`^(\d+)\s+(\w+)\((.*)\)\s+= (-?\d+|\?)`)

func copyDir(src string) string {
	dst, _ := os.MkdirTemp(*scratch, "jv-crash-")
	os.Remove(dst)
	if out, err := exec.Command("cp", "-a", "--sparse=always", src, dst).CombinedOutput(); err != nil {
		panic(fmt.Sprintf("cp: %v %s", err, out))
	}
	return dst
}

// strace the victim; inject = "" for a clean run.
func straceVictim(dir, op, inject string) (trace string, out string, killed bool) {
	tf, _ := os.CreateTemp(*scratch, "jv-trace-")
	tf.Close()
	defer os.Remove(tf.Name())
	args := []string{"-f", "-o", tf.Name(), "-e", "trace=" + traced}
	if inject != "" {
		args = append(args, "-e", "inject="+inject)
	}
	args = append(args, os.Args[0], "-victim", dir, "-op", op)
	cmd := exec.Command("strace", args...)
	cmd.Env = append(os.Environ(), "GOMAXPROCS=1")
	var ob bytes.Buffer
	cmd.Stdout = &ob
	cmd.Stderr = io.Discard
	err := cmd.Run()
	data, _ := os.ReadFile(tf.Name())
	return string(data), ob.String(), err != nil && !strings.Contains(ob.String(), "VICTIM")
}

// opCalls extracts the mutating calls the operation issued (between the two markers) on the main thread.
func opCalls(trace, dir string) []call {
	var mainPid string
	counts := map[string]int{}
	in := false
	var out []call
	fds := map[string]string{}
	for _, l := range strings.Split(trace, "\n") {
		m := lineRe.FindStringSubmatch(l)
		if m == nil {
			continue
		}
		if mainPid == "" {
			mainPid = m[1]
		}
		if m[1] != mainPid {
			continue
		}
		name, args, ret := m[2], m[3], m[4]
		if strings.Contains(args, "/jv-mark-begin") {
			in = true
			continue
		}
		if strings.Contains(args, "/jv-mark-end") {
			in = false
			continue
		}
		if !mutating[name] {
			continue
		}
		counts[name]++
		if name == "openat" && ret != "?" && ret != "-1" {
			if q := regexp.MustCompile(`"([^"]*)"`).FindStringSubmatch(args); q != nil {
				fds[ret] = q[1]
			}
		}
		if !in {
			continue
		}
		// only calls that concern the replica directory
		txt := canon(name, args, dir, fds)
		if txt == "" {
			continue
		}
		out = append(out, call{name, counts[name], txt})
	}
	return out
}

func base(p, dir string) string {
	p = strings.TrimPrefix(p, dir+"/")
	if p == dir {
		return "."
	}
	return p
}

func canon(name, args, dir string, fds map[string]string) string {
	paths := regexp.MustCompile(`"([^"]*)"`).FindAllStringSubmatch(args, -1)
	inDir := func(p string) bool { return strings.HasPrefix(p, dir) }
	switch name {
	case "openat":
		if len(paths) == 0 || !inDir(paths[0][1]) {
			return ""
		}
		if !strings.Contains(args, "O_CREAT") && !strings.Contains(args, "O_TRUNC") {
			return "" // plain open: not a mutation
		}
		return "create " + base(paths[0][1], dir)
	case "rename", "renameat", "renameat2":
		if len(paths) < 2 || !inDir(paths[0][1]) {
			return ""
		}
		return "rename " + base(paths[0][1], dir) + " " + base(paths[1][1], dir)
	case "link", "linkat":
		if len(paths) < 2 || !inDir(paths[0][1]) {
			return ""
		}
		return "link " + base(paths[0][1], dir) + " " + base(paths[1][1], dir)
	case "unlink", "unlinkat":
		if len(paths) == 0 || !inDir(paths[0][1]) {
			return ""
		}
		if strings.Contains(args, "AT_REMOVEDIR") {
			return "" // os.Remove tries rmdir after a failed unlink: not a separate step of the protocol
		}
		return "unlink " + base(paths[0][1], dir)
	case "truncate":
		if len(paths) == 0 || !inDir(paths[0][1]) {
			return ""
		}
		return "truncate " + base(paths[0][1], dir)
	case "write", "pwrite64", "fsync", "fdatasync", "ftruncate", "fallocate":
		fd := strings.TrimSpace(strings.SplitN(args, ",", 2)[0])
		p, ok := fds[fd]
		if !ok || !inDir(p) {
			return ""
		}
		kind := name
		if name == "pwrite64" {
			kind = "write"
		}
		if name == "fdatasync" {
			kind = "fsync"
		}
		return kind + " " + base(p, dir)
	}
	return ""
}

// observe opens a copy of the directory with the real replica code and renders what a user sees.
func observe(dir string) string {
	cp := copyDir(dir)
	defer os.RemoveAll(cp)
	defer os.RemoveAll(cp + ".copy")
	im := &rep.Impl{Dir: cp, BS: 8, S: replica.NewServer("127.0.0.1:9502", cp, 512, "")}
	if o := im.Exec("open p"); o != "ok" {
		return "UNOPENABLE"
	}
	im.Exec("mode RW")
	var parts []string
	meta := im.Exec("meta")
	parts = append(parts, meta)
	parts = append(parts, im.Exec("full"))
	// every retained user snapshot
	for _, f := range strings.Fields(meta) {
		if strings.HasPrefix(f, "chain=") {
			uc := ""
			for _, g := range strings.Fields(meta) {
				if strings.HasPrefix(g, "uc=") {
					uc = strings.TrimPrefix(g, "uc=")
				}
			}
			names := strings.Split(strings.TrimPrefix(f, "chain="), ",")
			ucs := strings.Split(uc, ",")
			for i, n := range names {
				if n != "" && i+1 < len(ucs) && ucs[i+1] == "1" {
					parts = append(parts, "img:"+n+"="+im.Exec("snapimg "+n))
				}
			}
		}
	}
	im.Exec("close")
	replica.VerifDropHoles()
	return strings.Join(parts, "\n")
}

// sameModulo: equality of observations, ignoring the head number and — for data operations — the
// revision counter and the units of the range being written.
func normalize(o string) string {
	o = regexp.MustCompile(`head=\d+ `).ReplaceAllString(o, "")
	o = regexp.MustCompile(`mode=\w+ `).ReplaceAllString(o, "")
	return o
}

type prestate struct {
	name  string
	lines []string
}

func prestates(rng *rand.Rand, n int) []prestate {
	out := []prestate{
		{"two-snapshots", []string{"init 8 6", "mode RW", "w 0 16 1", "snap s1 u", "w 8 16 2", "snap s2 a", "w 3 20 3", "ckpt s1"}},
		{"deletable", []string{"init 8 6", "mode RW", "w 0 48 1", "snap s1 a", "w 0 8 2", "snap s2 a", "w 8 8 3", "snap s3 u", "w 16 8 4", "snap s4 a", "w 1 3 5"}},
	}
	for i := 0; len(out) < n; i++ {
		var l []string
		nb := 4 + rng.Intn(6)
		l = append(l, fmt.Sprintf("init 8 %d", nb), "mode RW")
		for s := 1; s <= 2+rng.Intn(3); s++ {
			for k := 0; k < 1+rng.Intn(3); k++ {
				off := rng.Intn(nb * 8)
				l = append(l, fmt.Sprintf("w %d %d %d", off, 1+rng.Intn(nb*8-off), 10*s+k))
			}
			l = append(l, fmt.Sprintf("snap s%d %s", s, []string{"u", "a"}[rng.Intn(2)]))
		}
		l = append(l, fmt.Sprintf("w %d %d 99", rng.Intn(nb*4), 1+rng.Intn(nb*4)))
		out = append(out, prestate{fmt.Sprintf("random%d", i), l})
	}
	return out[:n]
}

func build(p prestate) string {
	dir, _ := os.MkdirTemp(*scratch, "jv-pre-")
	im := &rep.Impl{Dir: dir}
	for _, l := range p.lines {
		im.Exec(l)
	}
	im.Exec("close")
	replica.VerifDropHoles()
	return dir
}

func opsFor(p prestate, dir string) []string {
	ops := []string{"snap c1 u", "snap c2 a", "resize 12", "ckpt s1", "w 5 9 77", "mark s2", "revert s1", "close"}
	if *profile == "write" {
		return []string{"w 5 9 77", "w 8 16 78"}
	}
	if *profile == "snap" {
		return []string{"snap c1 u", "snap c2 a"}
	}
	if p.name == "deletable" {
		ops = append(ops, "PRE:mark s2;coal s2|rm s2")
	}
	return ops
}

func main() {
	flag.Parse()
	if *victim != "" {
		runVictim(*victim, *vop)
		return
	}
	logrus.SetOutput(io.Discard)
	os.MkdirAll(*outDir, 0755)
	res := result{OpHist: map[string]int{}, Features: map[string]int{}}
	rng := rand.New(rand.NewSource(*seed))
	w, nw := 0, 1
	fmt.Sscanf(os.Getenv("VERIF_WORKER"), "%d", &w)
	fmt.Sscanf(os.Getenv("VERIF_WORKERS"), "%d", &nw)

	type job struct {
		pre  prestate
		op   string
		prep []string
	}
	var jobs []job
	for _, p := range prestates(rng, *nseq) {
		for _, op := range opsFor(p, "") {
			j := job{pre: p, op: op}
			if strings.HasPrefix(op, "PRE:") {
				q := strings.SplitN(strings.TrimPrefix(op, "PRE:"), "|", 2)
				j.prep = strings.Split(q[0], ";")
				j.op = q[1]
			}
			jobs = append(jobs, j)
		}
	}
	if *replay != "" {
		data, _ := os.ReadFile(*replay)
		var pre prestate
		var op string
		var prep []string
		for _, l := range strings.Split(string(data), "\n") {
			switch {
			case strings.HasPrefix(l, "pre: "):
				pre.lines = strings.Split(strings.TrimPrefix(l, "pre: "), " ; ")
				pre.name = "replay"
			case strings.HasPrefix(l, "prep: ") && len(l) > 6:
				prep = strings.Split(strings.TrimPrefix(l, "prep: "), " ; ")
			case strings.HasPrefix(l, "op: "):
				op = strings.TrimPrefix(l, "op: ")
			}
		}
		jobs = []job{{pre, op, prep}}
		w, nw = 0, 1
	}

	var mu sync.Mutex
	for ji, j := range jobs {
		if ji%nw != w%nw {
			continue
		}
		pre := build(j.pre)
		// preparation steps that belong to the protocol but are not under test
		if len(j.prep) > 0 {
			im := &rep.Impl{Dir: pre, BS: 8, S: replica.NewServer("127.0.0.1:9502", pre, 512, "")}
			im.Exec("open p")
			im.Exec("mode RW")
			for _, l := range j.prep {
				im.Exec(l)
			}
			im.Exec("close")
			replica.VerifDropHoles()
		}
		rawOld := observe(pre)
		old := normalize(rawOld)
		clean := copyDir(pre)
		trace, vout, _ := straceVictim(clean, j.op, "")
		calls := opCalls(trace, clean)
		newObs := normalize(observe(clean))
		opRes := strings.TrimSpace(strings.TrimPrefix(strings.TrimSpace(vout), "VICTIM "))
		os.RemoveAll(clean)
		res.Sequences++
		res.OpHist[strings.Fields(j.op)[0]]++
		var texts []string
		for _, c := range calls {
			texts = append(texts, c.text)
		}
		if os.Getenv("VERIF_TRACE") != "" {
			fmt.Fprintf(os.Stderr, "TRACE pre=%s op=%s -> %s\n  %s\n", j.pre.name, j.op, opRes, strings.Join(texts, "\n  "))
		}
		if len(res.Samples) < 2 {
			res.Samples = append(res.Samples, append([]string{"pre=" + j.pre.name + " op=" + j.op + " -> " + opRes}, texts...))
		}
		fail := func(kind, detail string, point int) {
			mu.Lock()
			defer mu.Unlock()
			path := fmt.Sprintf("%s/%s-%s-%d.replay", *outDir, *tag, strings.ReplaceAll(j.op, " ", "_"), len(res.Violations))
			body := fmt.Sprintf("# crashdiff: %s\npre: %s\nprep: %s\nop: %s\npoint: %d of %d (%s)\ncalls:\n  %s\n--- detail ---\n%s\n",
				kind, strings.Join(j.pre.lines, " ; "), strings.Join(j.prep, " ; "), j.op, point, len(calls), func() string {
					if point >= 0 && point < len(calls) {
						return calls[point].text
					}
					return "-"
				}(), strings.Join(texts, "\n  "), detail)
			os.WriteFile(path, []byte(body), 0644)
			res.Violations = append(res.Violations, violation{Replay: path, Request: strings.Fields(j.op)[0] + ":" + kind, Found: true})
			res.Mismatches = append(res.Mismatches, fmt.Sprintf("pre=%s op=%q point=%d: %s", j.pre.name, j.op, point, kind))
		}
		// the call sequence of the chain-changing operations is the one the Lean crash model
		// (Model/Crash.lean, theorems c08_snapshot / c08_remove) is about
		if line, ok := crashModelLine(rawOld, j.op); ok && opRes == "ok" {
			if exp, ok := crashModelCalls(line); ok {
				if exp != strings.Join(texts, ";") {
					fail("the file-system calls of the operation are not the sequence of the crash model",
						"implementation:\n  "+strings.Join(texts, "\n  ")+"\n--- model ("+line+"):\n  "+strings.ReplaceAll(exp, ";", "\n  "), -1)
				}
				res.Features["crash-model-trace-tie"]++
			}
		}
		// the state a completed operation must leave behind, according to the Lean replica model
		if exp, ok := modelExpect(j.pre.lines, j.prep, j.op); ok {
			got := strings.SplitN(newObs, "\nimg:", 2)[0]
			if normalize(exp) != got {
				fail("after a clean run and a reopen the directory is not in the state the model specifies", "implementation:\n"+got+"\n--- model:\n"+normalize(exp), -1)
			}
			res.Features["model-tie"]++
		}
		if newObs == "UNOPENABLE" || old == "UNOPENABLE" {
			fail("directory cannot be reopened after a clean run", newObs, -1)
		}
		// durability lint: the last directory update of a successful operation is followed by an fsync of the directory
		if opRes == "ok" {
			lastDirUpd, lastSync := -1, -1
			for i, c := range calls {
				f := strings.Fields(c.text)[0]
				if f == "rename" || f == "link" || f == "unlink" || f == "create" {
					lastDirUpd = i
				}
				if c.text == "fsync ." {
					lastSync = i
				}
			}
			if lastDirUpd >= 0 && lastSync < lastDirUpd {
				fail("a directory update of a successful operation is not followed by a directory flush", "", lastDirUpd)
			}
			res.Features["durability-lint"]++
		}
		isWrite := strings.HasPrefix(j.op, "w ")
		okState := func(o string) bool {
			if o == old || o == newObs {
				return true
			}
			if isWrite {
				// an in-flight write may be partially applied (Properties/C08Data.lean: c08_torn_live,
				// c08_torn_snapshots): the metadata is as before or as after, every snapshot image is
				// unchanged, every unit outside the blocks of the request reads as before, and every
				// block of the request is entirely old or entirely as the completed write left it
				if stripData(o) != stripData(old) && stripData(o) != stripData(newObs) {
					return false
				}
				return tornOk(old, newObs, o, j.op)
			}
			return false
		}
		// (a) process death on entry of every mutating call, and right after the last one
		for i := 0; i <= len(calls); i++ {
			if i == len(calls) {
				break // the clean run is the "after the last call" point
			}
			c := calls[i]
			d := copyDir(pre)
			straceVictim(d, j.op, fmt.Sprintf("%s:signal=SIGKILL:when=%d", c.name, c.nth))
			o := normalize(observe(d))
			os.RemoveAll(d)
			res.Requests++
			res.Features["kill"]++
			if !okState(o) {
				fail("after process death the directory is neither the state before nor the state after", "recovered:\n"+o+"\n--- before:\n"+old+"\n--- after:\n"+newObs, i)
			}
		}
		// (b) a single failing call
		for i, c := range calls {
			if (c.name == "fsync" || c.name == "fdatasync") && os.Getenv("VERIF_NO_FSYNC_FAULTS") != "" {
				continue
			}
			for _, errno := range []string{"ENOSPC", "EIO"} {
				if errno == "EIO" && i%2 == 1 {
					continue
				}
				d := copyDir(pre)
				ftrace, vo, _ := straceVictim(d, j.op, fmt.Sprintf("%s:error=%s:when=%d", c.name, errno, c.nth))
				r := strings.TrimSpace(strings.TrimPrefix(strings.TrimSpace(vo), "VICTIM "))
				var ftexts []string
				for _, fc := range opCalls(ftrace, d) {
					ftexts = append(ftexts, fc.text)
				}
				if os.Getenv("VERIF_TRACE") != "" {
					fmt.Fprintf(os.Stderr, "FAULT pre=%s op=%s point=%d (%s %s) -> %s\n  %s\n", j.pre.name, j.op, i, c.text, errno, r, strings.Join(ftexts, "\n  "))
				}
				o := normalize(observe(d))
				os.RemoveAll(d)
				res.Requests++
				res.Features["fault-"+errno]++
				// the error handling of the chain-changing operations is the one the Lean model
				// (Model/CrashFail.lean, theorems c08_*_fault) is about: same calls, same result
				if line, ok := crashModelLine(rawOld, j.op); ok && opRes == "ok" && i < len(ftexts) {
					if exp, ok := crashModelCalls(fmt.Sprintf("%s fail %d", line, i)); ok {
						got := append([]string{}, ftexts...)
						got[i] = "!" + got[i]
						gr := "err"
						if r == "ok" {
							gr = "ok"
						}
						if g := strings.Join(got, ";") + " => " + gr; g != exp {
							fail("with a failing "+c.text+" ("+errno+") the calls or the result of the operation differ from the crash model's error handling",
								"implementation:\n  "+strings.ReplaceAll(g, ";", "\n  ")+"\n--- model ("+line+" fail "+fmt.Sprint(i)+"):\n  "+strings.ReplaceAll(exp, ";", "\n  "), i)
						}
						res.Features["fault-model-trace-tie"]++
					}
				}
				switch {
				case o == "UNOPENABLE":
					fail("a failing "+c.text+" ("+errno+") left a directory that cannot be reopened; operation reported "+r, o, i)
				case r == "ok" && o != newObs:
					// also for a data write: a write that is reported as applied is on disk, completely
					fail("operation reported success although "+c.text+" failed ("+errno+") and the state is not the new one", "recovered:\n"+o+"\n--- after:\n"+newObs, i)
				case r != "ok" && !okState(o):
					fail("operation reported failure ("+errno+" on "+c.text+") and the state is neither old nor new", "recovered:\n"+o+"\n--- before:\n"+old, i)
				}
			}
		}
		os.RemoveAll(pre)
		res.Distinct++
	}
	_ = filepath.Join
	_ = sort.Strings
	if *replay != "" {
		for _, m := range res.Mismatches {
			fmt.Println(m)
		}
		if len(res.Mismatches) > 0 {
			fmt.Println("DISAGREE")
			os.Exit(1)
		}
		fmt.Println("AGREE")
		return
	}
	json.NewEncoder(os.Stdout).Encode(res)
	if len(res.Mismatches) > 0 {
		os.Exit(1)
	}
}

// modelExpect runs pre-state, preparation and the operation through the Lean replica model and
// returns what a reopen must show (metadata line and full volume).
// crashModelLine builds the request of `drv crash` for an operation on the observed pre-state.
func crashModelLine(obs, op string) (string, bool) {
	var names []string
	head := -1
	for _, f := range strings.Fields(strings.SplitN(obs, "\n", 2)[0]) {
		if strings.HasPrefix(f, "chain=") {
			for _, n := range strings.Split(strings.TrimPrefix(f, "chain="), ",") {
				if n != "" {
					names = append(names, "volume-snap-"+n+".img")
				}
			}
		}
		if strings.HasPrefix(f, "head=") {
			fmt.Sscanf(strings.TrimPrefix(f, "head="), "%d", &head)
		}
	}
	if head < 0 {
		return "", false
	}
	headFile := fmt.Sprintf("volume-head-%03d.img", head)
	dash := func(s string) string {
		if s == "" {
			return "-"
		}
		return s
	}
	w := strings.Fields(op)
	switch w[0] {
	case "snap":
		parent := ""
		if len(names) > 0 {
			parent = names[len(names)-1]
		}
		return fmt.Sprintf("snapshot %s volume-head-%03d.img volume-snap-%s.img %s", headFile, head+1, w[1], dash(parent)), true
	case "revert":
		target := "volume-snap-" + w[1] + ".img"
		for _, n := range names {
			if n == target {
				return fmt.Sprintf("revert %s volume-head-%03d.img %s", headFile, head+1, target), true
			}
		}
	case "rm":
		target := "volume-snap-" + w[1] + ".img"
		for k, n := range names {
			if n != target || k == 0 {
				continue
			}
			child := headFile
			if k+1 < len(names) {
				child = names[k+1]
			}
			grand := ""
			if k >= 2 {
				grand = names[k-2]
			}
			return fmt.Sprintf("remove %s %s %s %s", target, child, names[k-1], dash(grand)), true
		}
	}
	return "", false
}

func crashModelCalls(line string) (string, bool) {
	cmd := exec.Command(*drv, "crash")
	cmd.Stdin = strings.NewReader(line + "\n")
	var out bytes.Buffer
	cmd.Stdout = &out
	if err := cmd.Run(); err != nil {
		return "", false
	}
	o := strings.TrimSpace(out.String())
	return o, o != "" && o != "bad-op"
}

func modelExpect(pre, prep []string, op string) (string, bool) {
	lines := append(append(append([]string{}, pre...), prep...), op)
	if op == "close" {
		lines = append(lines, "open p")
	} else {
		lines = append(lines, "reopen p")
	}
	lines = append(lines, "mode RW", "meta", "full")
	cmd := exec.Command(*drv, "replica")
	cmd.Stdin = strings.NewReader(strings.Join(lines, "\n") + "\n")
	var out bytes.Buffer
	cmd.Stdout = &out
	if err := cmd.Run(); err != nil {
		return "", false
	}
	o := strings.Split(strings.TrimSpace(out.String()), "\n")
	if len(o) < 2 {
		return "", false
	}
	return o[len(o)-2] + "\n" + o[len(o)-1], true
}

// tornOk: the data lines of an observation after process death during `w off len tag`
func tornOk(old, done, got, op string) bool {
	lines := func(o string) (vol []string, imgs []string) {
		for i, l := range strings.Split(o, "\n") {
			if i == 1 && strings.HasPrefix(l, "data ") {
				vol = strings.Split(strings.TrimPrefix(l, "data "), ",")
			}
			if strings.HasPrefix(l, "img:") {
				imgs = append(imgs, l)
			}
		}
		return
	}
	vo, io := lines(old)
	vd, _ := lines(done)
	vg, ig := lines(got)
	if strings.Join(io, "\n") != strings.Join(ig, "\n") {
		return false // a snapshot image changed
	}
	if len(vo) == 0 || len(vo) != len(vg) || len(vd) != len(vg) {
		return false
	}
	var off, n, tag int
	fmt.Sscanf(op, "w %d %d %d", &off, &n, &tag)
	const bs = 8
	for b := 0; b*bs < len(vg); b++ {
		lo, hi := b*bs, min((b+1)*bs, len(vg))
		sameOld, sameNew := true, true
		for u := lo; u < hi; u++ {
			if vg[u] != vo[u] {
				sameOld = false
			}
			if vg[u] != vd[u] {
				sameNew = false
			}
		}
		touched := n > 0 && b >= off/bs && b <= (off+n-1)/bs
		if !sameOld && !(touched && sameNew) {
			return false
		}
	}
	return true
}

// stripData keeps the metadata line only without the revision counter (for in-flight writes)
func stripData(o string) string {
	l := strings.SplitN(o, "\n", 2)[0]
	return regexp.MustCompile(`rev=\d+ `).ReplaceAllString(l, "")
}
