//go:build verif

// clusterdiff: the whole volume — the REAL controller.Controller, restarted at every `stop`, over
// replica stand-ins that keep what a replica directory keeps across a stop (the writes it applied
// while RW, its revision counter, its rebuilding flag) — against the Lean model Model/Cluster.lean
// (`drv cluster`).  Every request line goes to both; every answer (result, who is attached in which
// mode, every directory's counter / flag / writes, the acknowledged writes) is compared.
//
// Beside the comparison the engine checks the property itself on the implementation side: after
// every step, every replica the controller lists as RW holds every write that was acknowledged
// (C09: "a volume whose replicas all stopped and came back serves every acknowledged write again").
package main

import (
	"bufio"
	"encoding/json"
	"flag"
	"fmt"
	"io"
	"math/rand"
	"net"
	"os"
	"os/exec"
	"path/filepath"
	"sort"
	"strconv"
	"strings"
	"time"

	"github.com/openebs/jiva/controller"
	"github.com/openebs/jiva/types"
	"github.com/sirupsen/logrus"

	"jivaverif/harness/fake"
)

var (
	nSeq    = flag.Int("n", 20, "number of sequences")
	seqLen  = flag.Int("len", 30, "generator steps per sequence")
	seed    = flag.Int64("seed", 1, "seed")
	outDir  = flag.String("out", "/verif/replays", "where failing replays go")
	tag     = flag.String("tag", "cluster", "name used in replay files")
	drv     = flag.String("drv", "/verif/lean/.lake/build/bin/drv", "model driver")
	replay  = flag.String("replay", "", "replay file (request lines)")
	profile = flag.String("profile", "healthy", "healthy (every stop finds a quorum RW) | any (stops at any time)")
)

type result struct {
	Violations []map[string]interface{} `json:"violations"`
	Sequences  int                      `json:"sequences"`
	Requests   int                      `json:"requests"`
	OpHist     map[string]int           `json:"op_hist"`
	Refused    int                      `json:"refused"`
	Mismatches []string                 `json:"mismatches"`
	Replays    []string                 `json:"replays"`
	Samples    [][]string               `json:"samples"`
	Distinct   int                      `json:"distinct_nontrivial"`
	Features   map[string]int           `json:"features"`
}

// ---- the implementation side ------------------------------------------------------------

type impl struct {
	rf, n     int
	hosts     []string
	w         *fake.World
	c         *controller.Controller
	up        bool
	acked     []int
	next      int
	nextSnap  int
	unhealthy []int // steps at which a stop found the volume without a quorum of RW, not rebuilding replicas
	step      int
}

func (im *impl) addr(i int) string { return "tcp://" + im.hosts[i] + ":9502" }
func (im *impl) rep(i int) *fake.Rep { return im.w.Reps[im.addr(i)] }

func (im *impl) index(a string) int {
	for i := 0; i < im.n; i++ {
		if a == im.addr(i) || a == im.hosts[i] {
			return i
		}
	}
	return -1
}

func (im *impl) newController() {
	os.Setenv("REPLICATION_FACTOR", fmt.Sprint(im.rf))
	im.c = controller.NewController(controller.WithName("v"), controller.WithBackend(&fake.Factory{W: im.w}),
		controller.WithFrontend(&fake.Frontend{W: im.w}, "127.0.0.1"), controller.WithRF(im.rf))
	im.up = false
}

func newImpl(rf, n int, hosts []string) *impl {
	im := &impl{rf: rf, n: n, hosts: hosts, w: fake.NewWorld()}
	fake.SetWorld(im.w)
	for i := 0; i < n; i++ {
		im.w.Reps[im.addr(i)] = &fake.Rep{Chain: []string{"volume-head-000.img"}, Rev: 0, Size: 1 << 20}
	}
	im.newController()
	return im
}

// members: index -> mode, as the controller lists them
func (im *impl) members() map[int]types.Mode {
	out := map[int]types.Mode{}
	for _, r := range im.c.ListReplicas() {
		if i := im.index(r.Address); i >= 0 {
			out[i] = r.Mode
		}
	}
	return out
}

func (im *impl) state(res string) string {
	mem := im.members()
	var keys []int
	for i := range mem {
		keys = append(keys, i)
	}
	sort.Ints(keys)
	var ms []string
	for _, i := range keys {
		ms = append(ms, fmt.Sprintf("%d:%s", i, mem[i]))
	}
	var ds []string
	for i := 0; i < im.n; i++ {
		r := im.rep(i)
		var l []string
		for _, w := range r.Log {
			l = append(l, fmt.Sprint(w))
		}
		var sn []string
		for k := 0; k < im.nextSnap; k++ {
			if c, ok := r.Snaps[fmt.Sprintf("s%d", k)]; ok {
				var cs []string
				for _, w := range c {
					cs = append(cs, fmt.Sprint(w))
				}
				sn = append(sn, fmt.Sprintf("%d=%s", k, strings.Join(cs, ".")))
			}
		}
		ds = append(ds, fmt.Sprintf("%d:%s:%s:%s", r.Rev, b01(r.Rebuilding), strings.Join(l, "."), strings.Join(sn, ",")))
	}
	var as []string
	for _, w := range im.acked {
		as = append(as, fmt.Sprint(w))
	}
	return fmt.Sprintf("%s up=%s members=%s disks=%s acked=%s", res, b01(im.up), strings.Join(ms, ","), strings.Join(ds, ";"), strings.Join(as, ","))
}

func b01(b bool) string {
	if b {
		return "1"
	}
	return "0"
}

func ints(s string) []int {
	var out []int
	if s == "-" || s == "" {
		return out
	}
	for _, x := range strings.Split(s, ",") {
		if v, err := strconv.Atoi(x); err == nil {
			out = append(out, v)
		}
	}
	return out
}

func has(l []int, x int) bool {
	for _, y := range l {
		if y == x {
			return true
		}
	}
	return false
}

// exec runs one request on the real controller; it returns the request line completed with what the
// environment answered (the replica the election ended on) and the observation line
func (im *impl) exec(line string) (string, string) {
	im.step++
	f := strings.Fields(line)
	switch f[0] {
	case "reg":
		i, _ := strconv.Atoi(f[1])
		r := im.rep(i)
		st := "closed"
		if r.Rebuilding {
			st = "rebuilding"
		}
		im.w.ResetLog()
		im.c.RegisterReplica(types.RegReplica{Address: im.hosts[i], UUID: fmt.Sprintf("u%d", i), RevCount: r.Rev, RepType: "", RepState: st})
		e := "-"
		if k := im.index(im.c.MaxRevReplica); k >= 0 && !r.Rebuilding {
			e = fmt.Sprint(k)
		}
		res := "ok"
		for _, s := range im.w.Signals {
			p := strings.Split(s, ":")
			if len(p) >= 2 && p[1] == "start" && !im.up {
				k := im.index(p[0])
				// the signalled replica does what a replica does: it asks the controller to start with it
				if err := im.c.Start(im.addr(k)); err != nil {
					res = "start-failed:" + err.Error()
				} else {
					im.up = true
					res = fmt.Sprintf("leader %d", k)
				}
			}
		}
		return fmt.Sprintf("reg %d | %s", i, e), im.state(res)
	case "w":
		fails, applied := ints(f[1]), ints(f[3])
		im.w.Script = map[string]string{}
		for _, x := range fails {
			v := "err"
			if has(applied, x) {
				v = "errapplied"
			}
			im.w.Script[im.addr(x)+":WriteAt"] = v
		}
		im.w.CurW = im.next
		im.w.ResetLog()
		k, err := im.c.WriteAt(make([]byte, 4096), 0)
		im.w.Script = map[string]string{}
		res := "ok"
		switch {
		case err != nil && strings.Contains(err.Error(), "Mode: ReadOnly"):
			return line, im.state("refused")
		case err != nil || k != 4096:
			res = "failed"
		}
		if res == "ok" {
			im.acked = append(im.acked, im.next)
		}
		im.next++
		return line, im.state(res)
	case "add":
		i, _ := strconv.Atoi(f[1])
		r := im.rep(i)
		r.Mode = ""
		if err := im.c.AddReplica(im.addr(i)); err != nil {
			return line, im.state("refused")
		}
		return line, im.state("ok")
	case "setrb":
		// the replica's next step in sync.Task.AddReplica: it marks itself as rebuilding; what it held is
		// no longer what counts (the transfer overwrites it)
		i, _ := strconv.Atoi(f[1])
		if im.members()[i] != types.WO {
			return line, im.state("refused")
		}
		im.rep(i).Rebuilding = true
		im.rep(i).Log = nil
		im.rep(i).Snaps = nil
		return line, im.state("ok")
	case "promote":
		i, _ := strconv.Atoi(f[1])
		src, _ := strconv.Atoi(f[2])
		mem := im.members()
		if mem[i] != types.WO || mem[src] != types.RW {
			return line, im.state("refused")
		}
		// the sync agent's part: the snapshots (and with them every write) of the source are copied (C07)
		tr, sr := im.rep(i), im.rep(src)
		tr.Chain = append([]string{tr.Chain[0]}, sr.Chain[1:]...)
		log := append([]int{}, sr.Log...)
		if err := im.c.VerifyRebuildReplica(im.addr(i)); err != nil {
			return line, im.state("verify-failed:" + err.Error())
		}
		tr.Log = log
		tr.Snaps = map[string][]int{}
		for k, v := range sr.Snaps {
			tr.Snaps[k] = append([]int{}, v...)
		}
		return line, im.state("ok")
	case "rbdone":
		i, _ := strconv.Atoi(f[1])
		if im.members()[i] != types.RW || !im.rep(i).Rebuilding {
			return line, im.state("refused")
		}
		im.rep(i).Rebuilding = false
		return line, im.state("ok")
	case "rm":
		i, _ := strconv.Atoi(f[1])
		if _, ok := im.members()[i]; !ok {
			return line, im.state("refused")
		}
		im.c.RemoveReplica(im.addr(i))
		return line, im.state("ok")
	case "regq":
		// a quorum (arbiter) replica registers: no data, never elected; with a controller that has just started
		// it must not change when the election happens
		im.w.ResetLog()
		im.c.RegisterReplica(types.RegReplica{Address: "127.0.250.250", UUID: "uq", RevCount: 0, RepType: "quorum", RepState: "closed"})
		res := "ok"
		for _, s := range im.w.Signals {
			if strings.HasSuffix(s, ":start") {
				res = "signalled-" + s
			}
		}
		return line, im.state(res)
	case "snap":
		// a user-created volume snapshot through the real controller
		if _, err := im.c.Snapshot(fmt.Sprintf("s%d", im.nextSnap)); err != nil {
			return line, im.state("refused")
		}
		im.nextSnap++
		return line, im.state("ok")
	case "stop":
		good := 0
		for i, m := range im.members() {
			if m == types.RW && !im.rep(i).Rebuilding {
				good++
			}
		}
		healthy := good >= im.rf/2+1
		if !healthy {
			im.unhealthy = append(im.unhealthy, im.step)
		}
		old := im.c
		go old.Shutdown()
		for i := 0; i < im.n; i++ {
			im.rep(i).Mode = ""
		}
		time.Sleep(2 * time.Millisecond)
		im.newController()
		return line, im.state("ok") + " healthy=" + b01(healthy)
	}
	return line, "bad-op"
}

// lostAck: an acknowledged write that a replica listed as RW does not hold
func (im *impl) lostAck() string {
	if !im.up {
		return ""
	}
	for i, m := range im.members() {
		if m != types.RW {
			continue
		}
		for _, w := range im.acked {
			if !has(im.rep(i).Log, w) {
				return fmt.Sprintf("acknowledged write %d is not held by replica %d, which is RW (reads are served from it)", w, i)
			}
		}
	}
	return ""
}

// ---- the model side ---------------------------------------------------------------------------

func runModel(lines []string) ([]string, error) {
	cmd := exec.Command(*drv, "cluster")
	cmd.Stdin = strings.NewReader(strings.Join(lines, "\n") + "\n")
	out, err := cmd.Output()
	if err != nil {
		return nil, fmt.Errorf("model driver: %v", err)
	}
	res := strings.Split(strings.TrimRight(string(out), "\n"), "\n")
	if len(res) != len(lines) {
		return nil, fmt.Errorf("model driver answered %d lines for %d requests", len(res), len(lines))
	}
	return res, nil
}

// ---- generator ------------------------------------------------------------------------------------

type gen struct {
	im    *impl
	rng   *rand.Rand
	lines []string
	outs  []string
	feat  map[string]bool
	lost  string
}

func (g *gen) do(line string) string {
	l, o := g.im.exec(line)
	g.lines = append(g.lines, l)
	g.outs = append(g.outs, o)
	if g.lost == "" {
		if s := g.im.lostAck(); s != "" {
			g.lost = fmt.Sprintf("step %d (%s): %s", len(g.lines), l, s)
		}
	}
	return o
}

func generate(rng *rand.Rand, hosts []string, steps int, anyStop bool) *gen {
	rf := []int{1, 2, 3, 3, 3, 3, 4, 5}[rng.Intn(8)]
	im := newImpl(rf, rf, hosts)
	g := &gen{im: im, rng: rng, feat: map[string]bool{}}
	g.lines = append(g.lines, fmt.Sprintf("init %d %d", rf, rf))
	g.outs = append(g.outs, "ok")
	registered := map[int]bool{}
	for st := 0; st < steps; st++ {
		mem := im.members()
		if !im.up {
			var cands []int
			for i := 0; i < rf; i++ {
				if !registered[i] {
					cands = append(cands, i)
				}
			}
			if len(cands) == 0 {
				break // everybody registered and nobody could be elected
			}
			if !registered[-1] && rng.Intn(4) == 0 {
				registered[-1] = true
				g.do("regq")
				g.feat["quorum-replica-registers"] = true
				continue
			}
			i := cands[rng.Intn(len(cands))]
			registered[i] = true
			o := g.do(fmt.Sprintf("reg %d", i))
			if strings.HasPrefix(o, "leader") {
				g.feat["election"] = true
				if len(im.acked) > 0 {
					g.feat["election-after-acks"] = true
				}
			}
			continue
		}
		var rws, wos, all []int
		for i := 0; i < rf; i++ {
			switch mem[i] {
			case types.RW:
				rws = append(rws, i)
				all = append(all, i)
			case types.WO:
				wos = append(wos, i)
				all = append(all, i)
			}
		}
		good := 0
		for _, i := range rws {
			if !im.rep(i).Rebuilding {
				good++
			}
		}
		stop := func() {
			g.do("stop")
			registered = map[int]bool{}
			g.feat["stop"] = true
			if good < rf/2+1 {
				g.feat["unhealthy-stop"] = true
			}
		}
		if len(all) == 0 {
			if !anyStop {
				break // nothing left and this profile only stops in good health
			}
			stop()
			continue
		}
		x := rng.Float64()
		switch {
		case len(wos) > 0 && len(rws) > 0 && x < 0.35:
			if !im.rep(wos[0]).Rebuilding && rng.Float64() < 0.7 {
				g.do(fmt.Sprintf("setrb %d", wos[0]))
				continue
			}
			g.do(fmt.Sprintf("promote %d %d", wos[0], rws[0]))
			g.feat["promote"] = true
		case x < 0.45:
			var pend []int
			for _, i := range rws {
				if im.rep(i).Rebuilding {
					pend = append(pend, i)
				}
			}
			if len(pend) > 0 {
				g.do(fmt.Sprintf("rbdone %d", pend[rng.Intn(len(pend))]))
				continue
			}
			fallthrough
		case len(wos) == 0 && len(all) < rf && len(rws) > 0 && x < 0.6:
			var cands []int
			for i := 0; i < rf; i++ {
				if _, ok := mem[i]; !ok {
					cands = append(cands, i)
				}
			}
			if len(wos) == 0 && len(all) < rf && len(rws) > 0 && len(cands) > 0 {
				k := cands[rng.Intn(len(cands))]
				o := g.do(fmt.Sprintf("add %d", k))
				g.feat["add"] = true
				// the replica marks itself as rebuilding right away — most of the time
				if strings.HasPrefix(o, "ok") && rng.Float64() < 0.85 {
					g.do(fmt.Sprintf("setrb %d", k))
				} else {
					g.feat["attached-not-yet-marked"] = true
				}
			}
		case x < 0.86:
			if len(rws) < rf/2+1 && rng.Float64() < 0.85 {
				continue // read-only: the refusal sleeps for a second; only now and then
			}
			var fails, applied []string
			if rng.Float64() < 0.35 {
				for _, i := range all {
					if rng.Float64() < 0.4 {
						fails = append(fails, fmt.Sprint(i))
						if rng.Float64() < 0.3 {
							applied = append(applied, fmt.Sprint(i))
							g.feat["failed-but-applied"] = true
						}
					}
				}
			}
			o := g.do(fmt.Sprintf("w %s | %s", orDash(fails), orDash(applied)))
			if len(fails) > 0 {
				g.feat["write-with-failures"] = true
				if strings.HasPrefix(o, "ok") {
					g.feat["acked-despite-failure"] = true
				}
				if len(wos) > 0 && strings.HasPrefix(o, "ok") {
					g.feat["acked-with-wo-in-majority"] = true
				}
			}
			if strings.HasPrefix(o, "refused") {
				g.feat["write-refused-read-only"] = true
			}
		case x < 0.89 && (len(rws) == rf || rng.Float64() < 0.1):
			o := g.do("snap")
			if strings.HasPrefix(o, "ok") {
				g.feat["volume-snapshot"] = true
			} else {
				g.feat["volume-snapshot-refused"] = true
			}
		case x < 0.92:
			g.do(fmt.Sprintf("rm %d", all[rng.Intn(len(all))]))
			g.feat["remove"] = true
		default:
			if anyStop || good >= rf/2+1 {
				stop()
			}
		}
	}
	return g
}

func orDash(l []string) string {
	if len(l) == 0 {
		return "-"
	}
	return strings.Join(l, ",")
}

// ---- main -----------------------------------------------------------------------------------------

func probeHosts() []string {
	w := 1
	fmt.Sscan(os.Getenv("VERIF_WORKER"), &w)
	w = w%200 + 20
	for a := 0; a < 200; a++ {
		third := (os.Getpid()+a*41)%250 + 1
		free := true
		for k := 1; k <= 5 && free; k++ {
			ln, err := net.Listen("tcp", fmt.Sprintf("127.%d.%d.%d:9502", w, third, k))
			if err != nil {
				free = false
			} else {
				ln.Close()
			}
		}
		if !free {
			continue
		}
		var hosts []string
		for k := 1; k <= 5; k++ {
			h := fmt.Sprintf("127.%d.%d.%d", w, third, k)
			if err := fake.Serve(h); err != nil {
				fmt.Fprintln(os.Stderr, "listen:", err)
				os.Exit(3)
			}
			hosts = append(hosts, h)
		}
		return hosts
	}
	fmt.Fprintln(os.Stderr, "listen: no free loopback addresses")
	os.Exit(3)
	return nil
}

// check compares the two answer streams and the property; it returns what to report ("" = nothing)
func check(lines, outs, model []string, lost string, unhealthy []int) (string, int) {
	for i := range lines {
		if outs[i] != model[i] {
			return fmt.Sprintf("disagreement at step %d: %s\n#   implementation: %s\n#   model:          %s", i, lines[i], outs[i], model[i]), i
		}
	}
	if lost != "" {
		if len(unhealthy) > 0 {
			return fmt.Sprintf("lost-ack/unhealthy-stop (the stop at step %v found fewer than a quorum of replicas RW and not rebuilding): %s", unhealthy, lost), len(lines) - 1
		}
		return "lost-ack/healthy-stops (every stop found a quorum of replicas RW and not rebuilding): " + lost, len(lines) - 1
	}
	return "", -1
}

func writeReplay(name, what string, lines, outs []string) string {
	p := filepath.Join(*outDir, name)
	var b strings.Builder
	for _, l := range strings.Split(what, "\n") {
		if !strings.HasPrefix(l, "#") {
			l = "# " + l
		}
		b.WriteString(l + "\n")
	}
	b.WriteString("# requests (replay: clusterdiff -replay <this file>); after the tab: what the real controller and the replica stand-ins showed\n")
	for i, l := range lines {
		b.WriteString(l + "\t" + outs[i] + "\n")
	}
	os.WriteFile(p, []byte(b.String()), 0644)
	return p
}

func main() {
	flag.Parse()
	logrus.SetOutput(io.Discard)
	hosts := probeHosts()
	os.MkdirAll(*outDir, 0755)
	res := result{OpHist: map[string]int{}, Features: map[string]int{}}

	if *replay != "" {
		data, err := os.ReadFile(*replay)
		if err != nil {
			fmt.Println(err)
			os.Exit(2)
		}
		var reqs []string
		sc := bufio.NewScanner(strings.NewReader(string(data)))
		sc.Buffer(make([]byte, 1<<20), 1<<20)
		for sc.Scan() {
			l := sc.Text()
			if strings.TrimSpace(l) == "" || strings.HasPrefix(l, "#") {
				continue
			}
			reqs = append(reqs, strings.Split(l, "\t")[0])
		}
		var im *impl
		g := &gen{feat: map[string]bool{}}
		for _, l := range reqs {
			f := strings.Fields(l)
			if f[0] == "init" {
				rf, _ := strconv.Atoi(f[1])
				n, _ := strconv.Atoi(f[2])
				im = newImpl(rf, n, hosts)
				g.im = im
				g.lines, g.outs = append(g.lines, l), append(g.outs, "ok")
				continue
			}
			if im == nil {
				fmt.Println("replay does not start with init")
				os.Exit(2)
			}
			if f[0] == "reg" {
				l = "reg " + f[1] // what the election ended on is observed again
			}
			g.do(l)
		}
		model, err := runModel(g.lines)
		if err != nil {
			fmt.Println(err)
			os.Exit(2)
		}
		what, _ := check(g.lines, g.outs, model, g.lost, im.unhealthy)
		for i := range g.lines {
			fmt.Printf("%s\n    impl : %s\n    model: %s\n", g.lines[i], g.outs[i], model[i])
		}
		if what != "" {
			fmt.Println("VIOLATION: " + what)
			os.Exit(1)
		}
		fmt.Println("replay agrees; no acknowledged write lost")
		return
	}

	rng := rand.New(rand.NewSource(*seed))
	seen := map[string]bool{}
	for s := 0; s < *nSeq; s++ {
		g := generate(rand.New(rand.NewSource(rng.Int63())), hosts, *seqLen, *profile == "any")
		res.Sequences++
		res.Requests += len(g.lines)
		for _, l := range g.lines {
			res.OpHist[strings.Fields(l)[0]]++
		}
		for _, o := range g.outs {
			if strings.HasPrefix(o, "refused") {
				res.Refused++
			}
		}
		for k := range g.feat {
			res.Features[k]++
		}
		key := strings.Join(g.lines, "\n")
		if len(g.feat) >= 3 && !seen[key] {
			seen[key] = true
			res.Distinct++
		}
		if len(res.Samples) < 2 {
			var smp []string
			for i, l := range g.lines {
				o := g.outs[i]
				if len(o) > 160 {
					o = o[:160] + "…"
				}
				smp = append(smp, l+" -> "+o)
			}
			res.Samples = append(res.Samples, smp)
		}
		model, err := runModel(g.lines)
		if err != nil {
			res.Violations = append(res.Violations, map[string]interface{}{"replay": nil, "request": err.Error(), "failing_input_found": false})
			continue
		}
		what, _ := check(g.lines, g.outs, model, g.lost, g.im.unhealthy)
		if what != "" && len(res.Replays) < 3 {
			p := writeReplay(fmt.Sprintf("%s-seed%d-seq%d.replay", *tag, *seed, s), what, g.lines, g.outs)
			res.Replays = append(res.Replays, p)
			res.Mismatches = append(res.Mismatches, what)
			res.Violations = append(res.Violations, map[string]interface{}{"replay": p, "request": strings.SplitN(what, "\n", 2)[0], "failing_input_found": true})
		}
	}
	b, _ := json.Marshal(res)
	fmt.Println(string(b))
}
