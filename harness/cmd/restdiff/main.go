//go:build verif

// restdiff: the management APIs of the replica and of the controller, request by request.
// Every request is sent to the REAL router in a child process (so a fatal runtime error or a
// deadlock cannot take the harness down) against a freshly prepared state; the child reports
// status, whether the handler panicked, whether the server lock is free afterwards and whether a
// well-formed follow-up request is still served.  For the replica the answer to an action request
// is also compared with the Lean model of the action table (`drv rest`): 404 iff the action is not
// offered in that state.
package main

import (
	"sync"
	"log"
	"bufio"
	"bytes"
	"encoding/base64"
	"encoding/json"
	"flag"
	"fmt"
	"io"
	"math/rand"
	"net/http"
	"net/http/httptest"
	"os"
	"os/exec"
	"sort"
	"strings"
	"time"

	"github.com/openebs/jiva/controller"
	crest "github.com/openebs/jiva/controller/rest"
	"github.com/openebs/jiva/replica"
	rrest "github.com/openebs/jiva/replica/rest"
	"github.com/openebs/jiva/types"
	"github.com/sirupsen/logrus"

	"jivaverif/harness/fake"
)

var (
	seed    = flag.Int64("seed", 1, "seed")
	nseq    = flag.Int("n", 0, "extra random requests (0 = the deterministic matrix only)")
	_       = flag.Int("len", 0, "unused")
	profile = flag.String("profile", "all", "all|replica|controller")
	drv     = flag.String("drv", "/verif/lean/.lake/build/bin/drv", "model driver")
	replay  = flag.String("replay", "", "replay file")
	outDir  = flag.String("out", "/verif/replays", "replay dir")
	tag     = flag.String("tag", "rest", "tag")
	scratch = flag.String("scratch", "/var/tmp", "scratch root")
	child   = flag.String("child", "", "internal: run the requests of this file")
	shard   = flag.String("shard", "", "internal: i/n")
)

type violation struct {
	Replay   string `json:"replay"`
	Request  string `json:"request"`
	Internal bool   `json:"internal_only"`
	Found    bool   `json:"failing_input_found"`
}
type result struct {
	Violations []violation    `json:"violations"`
	Sequences  int            `json:"sequences"`
	Requests   int            `json:"requests"`
	OpHist     map[string]int `json:"op_hist"`
	Refused    int            `json:"refused"`
	Mismatches []string       `json:"mismatches"`
	Samples    [][]string     `json:"samples"`
	Distinct   int            `json:"distinct_nontrivial"`
	Features   map[string]int `json:"features"`
}

// a request line:  <target> <state> <METHOD> <path> <bodyclass> [<action>]
type reqSpec struct {
	Target, State, Method, Path, Body, Action string
}

func (r reqSpec) String() string {
	a := r.Action
	if a == "" {
		a = "-"
	}
	return fmt.Sprintf("%s %s %s %s %s %s", r.Target, r.State, r.Method, r.Path, r.Body, a)
}

func parseSpec(l string) reqSpec {
	w := strings.Fields(l)
	for len(w) < 6 {
		w = append(w, "-")
	}
	a := w[5]
	if a == "-" {
		a = ""
	}
	return reqSpec{w[0], w[1], w[2], w[3], w[4], a}
}

var replicaActions = []string{"start", "reload", "updatecloneinfo", "snapshot", "open", "close", "resize", "removedisk",
	"replacedisk", "setrebuilding", "setlogging", "create", "revert", "prepareremovedisk", "setrevisioncounter",
	"setreplicamode", "setcheckpoint", "setreplicacounter", "nosuchaction"}
var replicaStates = []string{"initial", "closed", "open", "dirty", "rebuilding"}
var bodies = []string{"valid", "empty", "truncated", "wrongtypes", "big", "edge1", "edge2", "edge3"}

// edge bodies: well-formed JSON of the right types whose VALUES are the unusual ones — negative, zero and
// huge numbers, numbers that are no numbers, empty names, names with a path in them, unknown enum
// members, the names of the head and of files that do not exist
func edgeBody(k int, action string) string {
	num := []string{"-4096", "9223372036854775807", "0"}[k]
	num2 := []string{"-1", "18446744073709551616", "4097"}[k]
	name := []string{"", "../../etc/x/volume-snap-s1.img", "volume-head-003.img"}[k]
	name2 := []string{"volume-snap-nosuch.img", "s1", "volume-snap-s3.img"}[k]
	mode := []string{"", "rw", "INIT"}[k]
	switch action {
	case "snapshot":
		return fmt.Sprintf(`{"name":%q,"usercreated":true,"created":""}`, name)
	case "removedisk", "prepareremovedisk":
		return fmt.Sprintf(`{"name":%q}`, []string{name, name2, "volume-head-003.img"}[k])
	case "replacedisk":
		return fmt.Sprintf(`{"target":%q,"source":%q}`, name2, name)
	case "revert":
		return fmt.Sprintf(`{"name":%q,"created":"t"}`, []string{name, name2, "volume-head-003.img"}[k])
	case "resize":
		return fmt.Sprintf(`{"name":"v","size":%q}`, []string{num, num2, "12Q"}[k])
	case "create":
		return fmt.Sprintf(`{"size":%q}`, []string{num, num, num2}[k])
	case "setrebuilding":
		return `{"rebuilding":false}`
	case "setreplicamode":
		return fmt.Sprintf(`{"mode":%q}`, mode)
	case "setrevisioncounter", "setreplicacounter":
		return fmt.Sprintf(`{"counter":%q}`, []string{num2, num, "seven"}[k])
	case "setcheckpoint":
		return fmt.Sprintf(`{"snapshotName":%q}`, []string{name, name2, "volume-head-003.img"}[k])
	case "start":
		return fmt.Sprintf(`{"Action":%q}`, []string{"", "stop", "START"}[k])
	case "updatecloneinfo":
		return fmt.Sprintf(`{"snapname":%q,"revisioncounter":%q}`, []string{"", "nosuch", "s1"}[k], num2)
	case "setlogging":
		return `{"logtofile":{"enable":true,"maxlogfilesize":-1,"retentionperiod":-1,"maxbackups":-1}}`
	case "c-start":
		return []string{`{"replicas":[]}`, `{"replicas":["", "tcp://:0", "notanaddress"]}`, wip(`{"replicas":["tcp://127.%W%.9.9:9502","tcp://127.%W%.9.9:9502"]}`)}[k]
	case "c-snapshot", "c-deleteSnapshot", "c-revert":
		return fmt.Sprintf(`{"name":%q}`, []string{"", "../x", "volume-head-001.img"}[k])
	case "c-resize":
		return fmt.Sprintf(`{"name":%q,"size":%q}`, []string{"", "v", "w"}[k], []string{"-1", "99999999999999999999", "1Q"}[k])
	case "c-register":
		return []string{`{"Address":"","UUID":"","RevCount":"-1","RepType":"","RepState":""}`,
			wip(`{"Address":"127.%W%.9.1","UUID":"other","RevCount":"99999999999999999999","RepType":"quorum","RepState":"rebuilding"}`),
			wip(`{"Address":"127.%W%.9.8","UUID":"u1","RevCount":"x","RepType":"Backend","RepState":"open"}`)}[k]
	case "c-replica":
		return fmt.Sprintf(`{"address":%q}`, []string{"", "tcp://", wip("tcp://127.%W%.9.1:9502")}[k])
	case "c-update":
		return fmt.Sprintf(`{"mode":%q}`, mode)
	case "c-timeout":
		return fmt.Sprintf(`{"timeout":%q}`, []string{"-5", "99999999999999999999", "soon"}[k])
	}
	return `{}`
}

// every worker process uses its own loopback addresses for the fake replica endpoints
func wip(s string) string {
	w := 0
	fmt.Sscanf(os.Getenv("VERIF_WORKER"), "%d", &w)
	return strings.ReplaceAll(s, "%W%", fmt.Sprint(40+w%200))
}

func validBody(action string) string {
	return wip(validBody0(action))
}

func validBody0(action string) string {
	switch action {
	case "snapshot":
		return `{"name":"snapx","usercreated":true,"created":"t"}`
	case "removedisk", "prepareremovedisk":
		return `{"name":"volume-snap-s2.img"}`
	case "replacedisk":
		return `{"target":"volume-snap-s1.img","source":"volume-snap-s2.img"}`
	case "revert":
		return `{"name":"volume-snap-s1.img","created":"t"}`
	case "resize":
		return `{"name":"v","size":"65536"}`
	case "create":
		return `{"size":"32768"}`
	case "setrebuilding":
		return `{"rebuilding":true}`
	case "setreplicamode":
		return `{"mode":"RW"}`
	case "setrevisioncounter":
		return `{"counter":"7"}`
	case "setcheckpoint":
		return `{"snapshotName":"volume-snap-s1.img"}`
	case "start":
		return `{"Action":"start"}`
	case "updatecloneinfo":
		return `{"snapname":"s1","revisioncounter":"3"}`
	case "setlogging":
		return `{"logtofile":{"enable":false}}`
	// controller
	case "c-start":
		return `{"replicas":["tcp://127.%W%.9.9:9502"]}`
	case "c-snapshot", "c-deleteSnapshot":
		return `{"name":"s9"}`
	case "c-revert":
		return `{"name":"s1"}`
	case "c-resize":
		return `{"name":"v","size":"2097152"}`
	case "c-register":
		return `{"Address":"127.%W%.9.8","UUID":"u8","RevCount":"3","RepType":"Backend","RepState":"closed"}`
	case "c-replica":
		return `{"address":"tcp://127.%W%.9.7:9502"}`
	case "c-update":
		return `{"mode":"ERR"}`
	case "c-timeout":
		return `{"timeout":"1"}`
	}
	return `{}`
}

func body(class, action string) io.Reader {
	switch class {
	case "valid":
		return strings.NewReader(validBody(action))
	case "empty":
		return nil
	case "truncated":
		v := validBody(action)
		return strings.NewReader(v[:len(v)/2])
	case "wrongtypes":
		return strings.NewReader(`{"name":12,"size":{"a":1},"usercreated":"x","rebuilding":"y","mode":[1],"counter":5,"replicas":"q","address":7,"Address":{},"timeout":3,"snapshotName":9,"target":1,"source":2,"Action":4}`)
	case "edge1", "edge2", "edge3":
		return strings.NewReader(edgeBody(int(class[4]-'1'), action))
	case "big":
		return io.MultiReader(strings.NewReader(`{"name":"`), bytes.NewReader(bytes.Repeat([]byte("a"), 1<<20)), strings.NewReader(`"}`))
	}
	return nil
}

func matrix(rng *rand.Rand, extra int) []reqSpec {
	var out []reqSpec
	// replica: every (state, action) with the valid body; the other body classes on a rotating subset
	i := 0
	for _, st := range replicaStates {
		for _, a := range replicaActions {
			out = append(out, reqSpec{"replica", st, "POST", "/v1/replicas/1?action=" + a, "valid", a})
			out = append(out, reqSpec{"replica", st, "POST", "/v1/replicas/1?action=" + a, bodies[1+i%4], a})
			for _, e := range []string{"edge1", "edge2", "edge3"} {
				out = append(out, reqSpec{"replica", st, "POST", "/v1/replicas/1?action=" + a, e, a})
			}
			i++
		}
		for _, g := range []string{"/v1/replicas", "/v1/replicas/1", "/v1/replicas/1/volusage", "/v1/stats", "/v1/rebuildinfo", "/ping", "/v1", "/v1/schemas", "/v1/replicas/zz", "/nosuch"} {
			out = append(out, reqSpec{"replica", st, "GET", g, "empty", ""})
		}
		out = append(out, reqSpec{"replica", st, "DELETE", "/v1/replicas/1", "empty", ""})
		out = append(out, reqSpec{"replica", st, "DELETE", "/v1/delete", "empty", ""})
		out = append(out, reqSpec{"replica", st, "PUT", "/v1/replicas/1", "valid", ""})
		out = append(out, reqSpec{"replica", st, "POST", "/v1/replicas/1", "valid", ""})
	}
	// start requests in a row (the action queue has five slots)
	out = append(out, reqSpec{"replica", "open", "POST", "/v1/replicas/1?action=start", "valid", "start-x7"})
	// controller
	id := base64.StdEncoding.EncodeToString([]byte(wip("tcp://127.%W%.9.1:9502")))
	id2 := base64.StdEncoding.EncodeToString([]byte(wip("tcp://127.%W%.9.2:9502")))
	bad := "!!!!" // not base64
	for _, st := range []string{"empty", "started", "rebuilding", "rebuilding-long", "full"} {
		type rt struct{ m, p, a string }
		routes := []rt{
			{"GET", "/v1/volumes", ""}, {"GET", "/v1/volumes/dg==", ""}, {"GET", "/v1/volumes/zz", ""}, {"GET", "/v1/stats", ""}, {"GET", "/v1/checkpoint", ""},
			{"POST", "/v1/volumes/dg==?action=start", "c-start"}, {"POST", "/v1/volumes/dg==?action=snapshot", "c-snapshot"},
			{"POST", "/v1/volumes/dg==?action=shutdown", ""}, {"GET", "/metrics", ""},
			{"POST", "/v1/volumes/dg==?action=revert", "c-revert"}, {"POST", "/v1/volumes/dg==?action=resize", "c-resize"},
			{"POST", "/v1/volumes/dg==?action=setlogging", "setlogging"}, {"POST", "/v1/volumes/dg==?action=nosuch", ""},
			{"DELETE", "/v1/volumes/dg==?action=deleteSnapshot", "c-deleteSnapshot"},
			{"GET", "/v1/replicas", ""}, {"GET", "/v1/replicas/" + id, ""}, {"GET", "/v1/replicas/" + bad, ""}, {"GET", "/v1/replicas/bm9zdWNo", ""},
			{"POST", "/v1/register", "c-register"}, {"POST", "/v1/replicas", "c-replica"}, {"POST", "/v1/quorumreplicas", "c-replica"},
			{"POST", "/v1/replicas/" + id + "?action=preparerebuild", ""}, {"POST", "/v1/replicas/" + id + "?action=verifyrebuild", ""},
			{"POST", "/v1/replicas/bm9zdWNo?action=verifyrebuild", ""}, {"POST", "/v1/replicas/" + id2 + "?action=verifyrebuild", ""},
			{"POST", "/v1/replicas/" + id2 + "?action=preparerebuild", ""}, {"PUT", "/v1/replicas/" + id2, "c-update"}, {"DELETE", "/v1/replicas/" + id2, ""},
			{"DELETE", "/v1/replicas/bm9zdWNo", ""}, {"PUT", "/v1/replicas/" + id, "c-update"}, {"PUT", "/v1/replicas/" + bad, "c-update"},
			{"POST", "/v1/journal", ""}, {"POST", "/v1/delete", ""}, {"POST", "/timeout", "c-timeout"}, {"GET", "/nosuch", ""},
		}
		for _, r := range routes {
			for _, b := range bodies {
				if r.m == "GET" && b != "empty" {
					continue
				}
				out = append(out, reqSpec{"controller", st, r.m, r.p, b, r.a})
			}
		}
	}
	// pairs: a state-changing request first (valid body), then every other request (valid body) — a
	// handler may rely on something an earlier request has undone (a cached count, an entry it deleted)
	for _, st := range []string{"started", "rebuilding", "full"} {
		var ctlRoutes []reqSpec
		for _, r := range out {
			if r.Target == "controller" && r.State == st && r.Body == "valid" && r.Method != "GET" {
				ctlRoutes = append(ctlRoutes, r)
			}
		}
		for _, pre := range ctlRoutes {
			for _, r := range ctlRoutes {
				out = append(out, reqSpec{"controller", st + "+" + pre.Method + "|" + pre.Path + "|" + orDash(pre.Action), r.Method, r.Path, "valid", r.Action})
			}
			out = append(out, reqSpec{"controller", st + "+" + pre.Method + "|" + pre.Path + "|" + orDash(pre.Action), "GET", "/v1/replicas", "empty", ""})
		}
	}
	// concurrent clients: a read of the resource against an action
	for _, a := range []string{"setreplicamode", "snapshot", "setrebuilding", "setrevisioncounter", "setcheckpoint", "close"} {
		out = append(out, reqSpec{"replica", "open", "STRESS", "/v1/replicas/1?action=" + a, "valid", a})
	}
	out = append(out, reqSpec{"controller", "full", "STRESS", "/v1/volumes/dg==?action=snapshot", "valid", "c-snapshot"})
	out = append(out, reqSpec{"controller", "started", "STRESS", "/v1/register", "valid", "c-register"})
	// overlapping adds of one address (both inside factory.Create at the same time), then every state-changing route
	for _, st := range []string{"started", "full"} {
		for _, ovl := range []string{"OVL-dd", "OVL-qq", "OVL-dq"} {
			id7 := base64.StdEncoding.EncodeToString([]byte(wip("tcp://127.%W%.9.7:9502")))
			for _, r := range []reqSpec{
				{"controller", "", "PUT", "/v1/replicas/" + id7, "valid", "c-update"}, {"controller", "", "DELETE", "/v1/replicas/" + id7, "valid", ""},
				{"controller", "", "POST", "/v1/replicas", "valid", "c-replica"}, {"controller", "", "POST", "/v1/quorumreplicas", "valid", "c-replica"},
				{"controller", "", "POST", "/v1/replicas/" + id7 + "?action=verifyrebuild", "valid", ""},
				{"controller", "", "POST", "/v1/volumes/dg==?action=snapshot", "valid", "c-snapshot"}, {"controller", "", "GET", "/v1/replicas", "empty", ""},
				{"controller", "", "POST", "/v1/volumes/dg==?action=shutdown", "valid", ""}} {
				out = append(out, reqSpec{"controller", st + "+" + ovl + "|-|-", r.Method, r.Path, r.Body, r.Action})
			}
		}
	}
	for _, st := range []string{"closed", "open", "rebuilding"} {
		for _, pre := range replicaActions {
			for _, a := range replicaActions {
				out = append(out, reqSpec{"replica", st + "+POST|/v1/replicas/1?action=" + pre + "|" + pre, "POST", "/v1/replicas/1?action=" + a, "valid", a})
			}
		}
	}
	for i := 0; i < extra; i++ {
		st := replicaStates[rng.Intn(len(replicaStates))]
		a := replicaActions[rng.Intn(len(replicaActions))]
		out = append(out, reqSpec{"replica", st, "POST", "/v1/replicas/1?action=" + a, bodies[rng.Intn(len(bodies))], a})
	}
	return out
}

// ---- child: perform the requests ----------------------------------------------------------

func setupReplica(state string) (*replica.Server, http.Handler, func()) {
	dir, _ := os.MkdirTemp(*scratch, "jv-rest-")
	s := replica.NewServer("127.0.0.1:9502", dir, 512, "")
	cleanup := func() {
		if s.Replica() != nil {
			s.Replica().VerifSyncDrainer()
			s.Close()
		}
		os.RemoveAll(dir)
	}
	if state != "initial" {
		s.Create(16 * 4096)
	}
	if state == "open" || state == "dirty" || state == "rebuilding" {
		s.Open()
		s.Replica().VerifSyncDrainer()
		s.SetReplicaMode("RW")
		s.Snapshot("s1", true, "t")
		s.Snapshot("s2", false, "t")
		s.Snapshot("s3", false, "t") // s2 is a middle member with a child: it can be removed
		// Open leaves the in-memory dirty flag as it was persisted (clean) only until the first write
	}
	if state == "dirty" || state == "rebuilding" {
		s.WriteAt(make([]byte, 4096), 0)
	}
	if state == "rebuilding" {
		s.SetRebuilding(true)
	}
	if state == "open" {
		// a snapshot marks the replica dirty; reopen to get the clean "open" state
		s.Close()
		s.Open()
		s.Replica().VerifSyncDrainer()
		s.SetReplicaMode("RW")
	}
	return s, rrest.NewRouter(rrest.NewServer(s)), cleanup
}

// the scripted world of the controller under test (the overlap pairs hold factory.Create through it)
var ctlWorld *fake.World

func setupController(state string) (*controller.Controller, http.Handler, func()) {
	os.Setenv("REPLICATION_FACTOR", "3")
	w := fake.NewWorld()
	ctlWorld = w
	fake.SetWorld(w)
	c := controller.NewController(controller.WithName("v"), controller.WithBackend(&fake.Factory{W: w}),
		controller.WithFrontend(&fake.Frontend{W: w}, "127.0.0.1"), controller.WithRF(3))
	if state != "empty" {
		c.RegisterReplica(types.RegReplica{Address: wip("127.%W%.9.1"), UUID: "u1", RevCount: 3, RepState: "closed"})
		c.RegisterReplica(types.RegReplica{Address: wip("127.%W%.9.2"), UUID: "u2", RevCount: 3, RepState: "closed"})
		w.Reps[wip("tcp://127.%W%.9.1:9502")] = &fake.Rep{Chain: []string{"volume-head-001.img", "volume-snap-s1.img"}, Rev: 3, Size: 1 << 20}
		c.Start(wip("tcp://127.%W%.9.1:9502"))
	}
	if state == "rebuilding-long" {
		// the healthy replica has a long chain, the one being rebuilt a short one
		w.Reps[wip("tcp://127.%W%.9.1:9502")].Chain = []string{"volume-head-007.img", "volume-snap-s7.img", "volume-snap-s6.img",
			"volume-snap-s5.img", "volume-snap-s4.img", "volume-snap-s3.img", "volume-snap-s2.img", "volume-snap-s1.img"}
	}
	if state == "rebuilding" || state == "rebuilding-long" {
		w.Reps[wip("tcp://127.%W%.9.2:9502")] = &fake.Rep{Chain: []string{"volume-head-000.img"}, Rev: 1, Size: 1 << 20}
		c.AddReplica(wip("tcp://127.%W%.9.2:9502"))
	}
	if state == "full" {
		// all three replicas RW: the state in which snapshots, checkpoints and deletions are accepted
		for _, h := range []string{"127.%W%.9.2", "127.%W%.9.7"} {
			a := wip("tcp://" + h + ":9502")
			w.Reps[a] = &fake.Rep{Chain: []string{"volume-head-000.img"}, Rev: 1, Size: 1 << 20}
			c.AddReplica(a)
			// the sync agent's part, then the promotion
			w.Reps[a].Chain = append([]string{w.Reps[a].Chain[0]}, w.Reps[wip("tcp://127.%W%.9.1:9502")].Chain[1:]...)
			c.VerifyRebuildReplica(a)
		}
	}
	return c, crest.NewRouter(crest.NewServer(c)), func() {}
}

func orDash(s string) string {
	if s == "" {
		return "-"
	}
	return s
}

// splitState: "started+POST|/v1/volumes/dg==?action=shutdown|-" = the state "started" after that request
func splitState(st string) (string, []string) {
	i := strings.Index(st, "+")
	if i < 0 {
		return st, nil
	}
	p := strings.SplitN(st[i+1:], "|", 3)
	if len(p) != 3 {
		return st[:i], nil
	}
	if p[2] == "-" {
		p[2] = ""
	}
	return st[:i], p
}

func classify(code int) string {
	switch {
	case code == 404:
		return "404"
	case code >= 200 && code < 300:
		return "2xx"
	case code >= 400 && code < 500:
		return "4xx"
	case code >= 500:
		return "5xx"
	}
	return fmt.Sprint(code)
}

func doOne(r reqSpec, out *bufio.Writer) {
	done := make(chan string, 1)
	go func() {
		var h http.Handler
		var cleanup func()
		var tryLock func() bool
		var follow string
		base, pre := splitState(r.State)
		switch r.Target {
		case "replica":
			s, hh, cl := setupReplica(base)
			h, cleanup = hh, cl
			tryLock = func() bool {
				if s.TryLock() {
					s.Unlock()
					return true
				}
				return false
			}
			follow = "/v1/replicas/1"
		default:
			c, hh, cl := setupController(base)
			h, cleanup = hh, cl
			tryLock = func() bool {
				if c.TryLock() {
					c.Unlock()
					return true
				}
				return false
			}
			follow = "/v1/volumes"
		}
		srv := httptest.NewUnstartedServer(h)
		var srvLog bytes.Buffer
		srv.Config.ErrorLog = log.New(&srvLog, "", 0)
		srv.Start()
		defer srv.Close()
		cl := &http.Client{Timeout: 6 * time.Second}
		if pre != nil && strings.HasPrefix(pre[0], "OVL-") && r.Target == "controller" {
			// two add requests for the SAME address overlapping: both are held inside factory.Create (the
			// controller calls it outside its lock), then both are let go; the main request follows
			addr := wip("tcp://127.%W%.9.7:9502")
			send := func(path string, done chan struct{}) {
				defer close(done)
				if req, err := http.NewRequest("POST", srv.URL+path, body("valid", "c-replica")); err == nil {
					req.Header.Set("Content-Type", "application/json")
					if resp, err := cl.Do(req); err == nil {
						io.Copy(io.Discard, resp.Body)
						resp.Body.Close()
					}
				}
			}
			paths := map[string][2]string{"OVL-dd": {"/v1/replicas", "/v1/replicas"}, "OVL-qq": {"/v1/quorumreplicas", "/v1/quorumreplicas"},
				"OVL-dq": {"/v1/replicas", "/v1/quorumreplicas"}}[pre[0]]
			var gates []chan struct{}
			var dones []chan struct{}
			for _, p := range paths {
				g, d := make(chan struct{}), make(chan struct{})
				ctlWorld.SetGate(addr, g)
				go send(p, d)
				select {
				case <-ctlWorld.Entered:
					gates = append(gates, g)
				case <-d: // refused before it reached Create
					ctlWorld.SetGate(addr, nil)
				case <-time.After(3 * time.Second):
					ctlWorld.SetGate(addr, nil)
				}
				dones = append(dones, d)
			}
			for _, g := range gates {
				close(g)
			}
			for _, d := range dones {
				select {
				case <-d:
				case <-time.After(5 * time.Second):
				}
			}
		} else if pre != nil {
			// the earlier request of a pair; what it answers is judged where it is sent alone
			if req, err := http.NewRequest(pre[0], srv.URL+pre[1], body("valid", pre[2])); err == nil {
				req.Header.Set("Content-Type", "application/json")
				if resp, err := cl.Do(req); err == nil {
					io.Copy(io.Discard, resp.Body)
					resp.Body.Close()
				}
			}
		}
		if r.Method == "STRESS" {
			// requests are not only sent one after the other: for a second, six clients alternate a read of the
			// resource with the action; nothing may hang, and the lock must be free afterwards
			stop := time.Now().Add(1200 * time.Millisecond)
			var mu sync.Mutex
			worst := "2xx"
			var wg sync.WaitGroup
			for k := 0; k < 6; k++ {
				wg.Add(1)
				go func(k int) {
					defer wg.Done()
					c2 := &http.Client{Timeout: 5 * time.Second}
					for i := 0; time.Now().Before(stop); i++ {
						var req *http.Request
						if (i+k)%2 == 0 {
							req, _ = http.NewRequest("GET", srv.URL+follow, nil)
						} else {
							req, _ = http.NewRequest("POST", srv.URL+r.Path, body("valid", r.Action))
							req.Header.Set("Content-Type", "application/json")
						}
						resp, err := c2.Do(req)
						if err != nil {
							mu.Lock()
							if strings.Contains(err.Error(), "Timeout") || strings.Contains(err.Error(), "deadline") {
								worst = "hang"
							} else if worst != "hang" {
								worst = "panic"
							}
							mu.Unlock()
							return
						}
						io.Copy(io.Discard, resp.Body)
						resp.Body.Close()
					}
				}(k)
			}
			wg.Wait()
			lock := "free"
			if !tryLock() {
				time.Sleep(300 * time.Millisecond)
				if !tryLock() {
					lock = "held"
				}
			}
			fstatus := "-"
			if lock == "free" && worst != "hang" {
				if resp, err := cl.Get(srv.URL + follow); err != nil {
					fstatus = "dead"
				} else {
					io.Copy(io.Discard, resp.Body)
					resp.Body.Close()
					fstatus = classify(resp.StatusCode)
				}
				cleanup()
			}
			done <- fmt.Sprintf("status=%s lock=%s followup=%s retry=-", worst, lock, fstatus)
			return
		}
		n := 1
		if strings.HasPrefix(r.Action, "start-x") {
			fmt.Sscan(strings.TrimPrefix(r.Action, "start-x"), &n)
		}
		status := ""
		for i := 0; i < n; i++ {
			act := r.Action
			if n > 1 {
				act = "start"
			}
			req, err := http.NewRequest(r.Method, srv.URL+r.Path, body(r.Body, act))
			if err != nil {
				status = "badreq"
				break
			}
			if r.Body != "empty" {
				req.Header.Set("Content-Type", "application/json")
			}
			resp, err := cl.Do(req)
			if err != nil {
				if strings.Contains(err.Error(), "Timeout") || strings.Contains(err.Error(), "deadline") {
					status = "hang"
				} else {
					status = "panic" // net/http recovered a handler panic and dropped the connection
					time.Sleep(20 * time.Millisecond)
					if strings.Contains(srvLog.String(), "types.Backend is *fake.Backend, not *remote.Remote") {
						// replicator.RemainSnapshots type-asserts the backend of an ERR replica to *remote.Remote for a
						// log line; in a controller process every backend is one, the scripted backend of this
						// harness is not: an artifact of the harness, not a finding
						status = "artifact-scripted-backend"
					}
				}
				break
			}
			io.Copy(io.Discard, resp.Body)
			resp.Body.Close()
			status = classify(resp.StatusCode)
		}
		// the same request once more (a client that retries): it may be refused, it must not panic or hang
		retry := "-"
		if status != "panic" && status != "hang" && status != "badreq" && n == 1 {
			if req, err := http.NewRequest(r.Method, srv.URL+r.Path, body(r.Body, r.Action)); err == nil {
				if r.Body != "empty" {
					req.Header.Set("Content-Type", "application/json")
				}
				resp, err := cl.Do(req)
				switch {
				case err == nil:
					io.Copy(io.Discard, resp.Body)
					resp.Body.Close()
					retry = classify(resp.StatusCode)
				case strings.Contains(err.Error(), "Timeout") || strings.Contains(err.Error(), "deadline"):
					retry = "hang"
				default:
					retry = "panic"
					time.Sleep(20 * time.Millisecond)
					if strings.Contains(srvLog.String(), "types.Backend is *fake.Backend, not *remote.Remote") {
						retry = "artifact-scripted-backend"
					}
				}
			}
		}
		lock := "free"
		if !tryLock() {
			time.Sleep(300 * time.Millisecond)
			if !tryLock() {
				lock = "held"
			}
		}
		fstatus := "-"
		if lock == "free" {
			resp, err := cl.Get(srv.URL + follow)
			if err != nil {
				fstatus = "dead"
			} else {
				io.Copy(io.Discard, resp.Body)
				resp.Body.Close()
				fstatus = classify(resp.StatusCode)
			}
			cleanup()
		}
		done <- fmt.Sprintf("status=%s lock=%s followup=%s retry=%s", status, lock, fstatus, retry)
	}()
	select {
	case s := <-done:
		fmt.Fprintf(out, "%s\t%s\n", r.String(), s)
	case <-time.After(20 * time.Second):
		fmt.Fprintf(out, "%s\tstatus=wedged lock=? followup=?\n", r.String())
		out.Flush()
		os.Exit(3)
	}
	out.Flush()
}

func runChild(file string) {
	logrus.SetOutput(io.Discard)
	// as the replica process does (app/replica.go): without the reclaimer goroutine a replica object that
	// a REQUEST creates (open, reload, revert) blocks in its next close / removedisk
	go replica.CreateHoles()
	for _, h := range []string{"127.%W%.9.1", "127.%W%.9.2", "127.%W%.9.7", "127.%W%.9.8", "127.%W%.9.9"} {
		for i := 0; i < 50; i++ { // the previous child of this worker may still hold the port
			if fake.Serve(wip(h)) == nil {
				break
			}
			time.Sleep(100 * time.Millisecond)
		}
	}
	data, _ := os.ReadFile(file)
	out := bufio.NewWriter(os.Stdout)
	for _, l := range strings.Split(string(data), "\n") {
		if strings.TrimSpace(l) == "" {
			continue
		}
		doOne(parseSpec(l), out)
	}
}

// ---- parent ---------------------------------------------------------------------------------

func runBatch(specs []reqSpec) map[string]string {
	res := map[string]string{}
	pending := specs
	for len(pending) > 0 {
		f, _ := os.CreateTemp(*scratch, "jv-restreq-")
		for _, s := range pending {
			fmt.Fprintln(f, s.String())
		}
		f.Close()
		cmd := exec.Command(os.Args[0], "-child", f.Name(), "-scratch", *scratch)
		var out, errb bytes.Buffer
		cmd.Stdout, cmd.Stderr = &out, &errb
		err := cmd.Run()
		os.Remove(f.Name())
		got := 0
		for _, l := range strings.Split(out.String(), "\n") {
			p := strings.SplitN(l, "\t", 2)
			if len(p) == 2 {
				res[p[0]] = p[1]
				got++
			}
		}
		if got >= len(pending) {
			break
		}
		// the child died on request number `got`
		if err != nil && got < len(pending) {
			victim := pending[got]
			if _, ok := res[victim.String()]; !ok {
				why := "crashed"
				if strings.Contains(errb.String(), "fatal error") {
					why = "fatal:" + firstLine(errb.String(), "fatal error")
				} else if strings.Contains(errb.String(), "panic:") {
					why = "panic:" + firstLine(errb.String(), "panic:")
				}
				res[victim.String()] = "status=" + why + " lock=? followup=dead"
			}
			pending = pending[got+1:]
		} else {
			break
		}
	}
	return res
}

func firstLine(s, needle string) string {
	for _, l := range strings.Split(s, "\n") {
		if strings.Contains(l, needle) {
			return strings.ReplaceAll(strings.TrimSpace(l), " ", "_")
		}
	}
	return ""
}

func modelGate(specs []reqSpec) map[string]string {
	var lines []string
	var keys []string
	for _, s := range specs {
		if s.Target == "replica" && s.Action != "" && !strings.HasPrefix(s.Action, "start-x") && s.Method == "POST" && !strings.Contains(s.State, "+") {
			lines = append(lines, s.State+" "+s.Action)
			keys = append(keys, s.String())
		}
	}
	cmd := exec.Command(*drv, "rest")
	cmd.Stdin = strings.NewReader(strings.Join(lines, "\n") + "\n")
	var out bytes.Buffer
	cmd.Stdout = &out
	cmd.Run()
	res := map[string]string{}
	for i, l := range strings.Split(strings.TrimSpace(out.String()), "\n") {
		if i < len(keys) {
			res[keys[i]] = l
		}
	}
	return res
}

func main() {
	flag.Parse()
	if *child != "" {
		runChild(*child)
		return
	}
	os.MkdirAll(*outDir, 0755)
	res := result{OpHist: map[string]int{}, Features: map[string]int{}}
	var specs []reqSpec
	if *replay != "" {
		data, _ := os.ReadFile(*replay)
		for _, l := range strings.Split(string(data), "\n") {
			if strings.TrimSpace(l) == "" || strings.HasPrefix(l, "#") {
				continue
			}
			specs = append(specs, parseSpec(strings.SplitN(l, "\t", 2)[0]))
		}
	} else {
		all := matrix(rand.New(rand.NewSource(*seed)), *nseq)
		// shard by worker
		w, n := 0, 1
		fmt.Sscanf(os.Getenv("VERIF_WORKER"), "%d", &w)
		if *shard != "" {
			fmt.Sscanf(*shard, "%d/%d", &w, &n)
		} else if os.Getenv("VERIF_WORKERS") != "" {
			fmt.Sscanf(os.Getenv("VERIF_WORKERS"), "%d", &n)
		}
		for i, s := range all {
			if i%n == w%n && (*profile == "all" || *profile == s.Target) {
				specs = append(specs, s)
			}
		}
	}
	got := runBatch(specs)
	gate := modelGate(specs)
	keys := make([]string, 0, len(got))
	for k := range got {
		keys = append(keys, k)
	}
	sort.Strings(keys)
	for _, s := range specs {
		k := s.String()
		o := got[k]
		res.Requests++
		res.OpHist[s.Target+":"+s.Method]++
		res.Features[s.Target+"-"+s.State]++
		res.Features["body-"+s.Body]++
		bad := ""
		st := field(o, "status")
		switch {
		case o == "":
			bad = "no result (harness)"
		case strings.HasPrefix(st, "fatal") || st == "crashed" || strings.HasPrefix(st, "panic:"):
			bad = "the process died: " + st
		case st == "panic":
			bad = "the handler panicked (connection dropped)"
		case st == "hang" || st == "wedged":
			bad = "the request never returned"
		case field(o, "retry") == "panic":
			bad = "the handler panicked when the same request was sent again (connection dropped)"
		case field(o, "retry") == "hang":
			bad = "the same request sent again never returned"
		case field(o, "lock") == "held":
			bad = "the server lock is still held after the request"
		case field(o, "followup") != "2xx":
			bad = "a well-formed follow-up request is not served: " + field(o, "followup")
		}
		if bad == "" {
			if g, ok := gate[k]; ok {
				ok := (g == "gated" && st == "404") || (g == "unrouted" && (st == "404" || st == "4xx")) || (g == "served" && st != "404")
				if !ok {
					bad = fmt.Sprintf("action table: model says %s, implementation answered %s", g, st)
				}
			}
		}
		if st == "404" {
			res.Refused++
		}
		if len(res.Samples) < 1 {
			res.Samples = append(res.Samples, []string{})
		}
		if len(res.Samples[0]) < 12 {
			res.Samples[0] = append(res.Samples[0], k+" -> "+o)
		}
		if bad != "" {
			path := fmt.Sprintf("%s/%s-%d.replay", *outDir, *tag, len(res.Violations))
			os.WriteFile(path, []byte(fmt.Sprintf("# restdiff: %s\n%s\t%s\n", bad, k, o)), 0644)
			res.Violations = append(res.Violations, violation{Replay: path, Request: s.Target + ":" + s.Method + ":" + s.Path + ":" + s.Body + "@" + s.State, Found: true})
			res.Mismatches = append(res.Mismatches, k+" -> "+o+"  ("+bad+")")
		}
	}
	res.Sequences = res.Requests
	res.Distinct = res.Requests
	if *replay != "" {
		for _, k := range keys {
			fmt.Println(k, "->", got[k])
		}
		if len(res.Mismatches) > 0 {
			fmt.Println(strings.Join(res.Mismatches, "\n"))
			fmt.Println("DISAGREE")
			os.Exit(1)
		}
		fmt.Println("AGREE")
		return
	}
	json.NewEncoder(os.Stdout).Encode(res)
	if len(res.Mismatches) > 0 {
		os.Exit(1)
	}
}

func field(o, name string) string {
	for _, f := range strings.Fields(o) {
		if strings.HasPrefix(f, name+"=") {
			return strings.TrimPrefix(f, name+"=")
		}
	}
	return ""
}
