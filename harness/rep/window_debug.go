//go:build verif && debug

package rep

// the repository's debug build is what makes inject.AddUpdateLUNMapTimeout sleep
const lunmapWindow = true
