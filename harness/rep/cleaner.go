//go:build verif

package rep

import (
	"encoding/json"
	"fmt"
	"net"
	"net/http"
	"os"
	"strings"
	"time"

	"github.com/openebs/jiva/replica"
	replicaClient "github.com/openebs/jiva/replica/client"
	jsync "github.com/openebs/jiva/sync"

	"jivaverif/harness/stack"
)

// cleaner runs the REAL background cleaner (sync.Task.InternalSnapshotCleaner) for one tick against
// this replica: a controller endpoint that reports the checkpoint, the real sync agent with the
// real sfold as its child for the coalesce step.  With fault the fold fails.  The answer names the
// snapshot the cleaner picked (the one it marked removed / deleted), "-" if none.  The replica is
// reopened on a fresh Server object afterwards, which also ends the cleaner goroutine.
var foldFaults int

func (im *Impl) cleaner(ck string, fault bool) string {
	r := im.rep()
	if r == nil || r.VerifMode() != "RW" || im.rb != nil {
		return "refused"
	}
	ckDisk := snapFile(im.real(ck))
	if err := im.S.SetCheckpoint(ckDisk); err != nil {
		return "refused"
	}
	ips := workerIPs()
	ep, err := stack.Up(ips[0])
	if err != nil {
		return "stack-failed " + err.Error()
	}
	if err := ep.StartAgent(im.Dir, stack.PortBase()); err != nil {
		return "agent-failed " + err.Error()
	}
	defer ep.StopAgent()
	// the controller: GET /v1/checkpoint
	ln, err := net.Listen("tcp", "127.0.0.1:0")
	if err != nil {
		return "listen-failed"
	}
	defer ln.Close()
	mux := http.NewServeMux()
	mux.HandleFunc("/v1/checkpoint", func(w http.ResponseWriter, rq *http.Request) {
		json.NewEncoder(w).Encode(map[string]string{"type": "checkpoint", "snapshot": ckDisk})
	})
	go http.Serve(ln, mux)
	marker := im.Dir + "/.verif-fold-fault"
	os.Remove(marker)
	if fault {
		// the fold fails: by an exit status, or killed by a signal (every other time)
		foldFaults++
		os.WriteFile(marker, []byte([]string{"exit", "signal"}[foldFaults%2]), 0644)
	}
	defer os.Remove(marker)
	before := im.diskFlags()
	saved := jsync.SnapshotRetentionCount
	jsync.SnapshotRetentionCount = 1
	defer func() { jsync.SnapshotRetentionCount = saved }()
	repClient, err := replicaClient.NewReplicaClient(ep.Addr())
	if err != nil {
		return "client-failed " + err.Error()
	}
	task := jsync.NewTask("http://" + ln.Addr().String())
	go task.InternalSnapshotCleaner(im.S, repClient)
	// the first tick comes after sync.SnapshotDeletionInterval (a constant: 60 s)
	time.Sleep(jsync.SnapshotDeletionInterval + 1500*time.Millisecond)
	picked := "-"
	for i := 0; i < 100; i++ { // the tick's work (mark, fold by a child process, unlink) takes a moment
		after := im.diskFlags()
		for n, f := range before {
			if a, ok := after[n]; !ok || a != f {
				picked = n
			}
		}
		if picked != "-" && (fault || after[picked] == "") {
			break
		}
		time.Sleep(50 * time.Millisecond)
	}
	time.Sleep(300 * time.Millisecond)
	// a fresh Server object on the same directory: the cleaner goroutine sees a closed replica from now on
	old := im.S
	if err := old.Close(); err != nil {
		return "close-failed"
	}
	replica.VerifDropHoles()
	os.Remove(marker)
	im.S = replica.NewServer("127.0.0.1:9502", im.Dir, 512, "")
	im.S.SetPreload(true)
	if err := im.S.Open(); err != nil {
		return "reopen-failed " + err.Error()
	}
	im.afterNew()
	im.S.SetReplicaMode("RW")
	if picked != "-" {
		picked = im.unalias(strings.TrimSuffix(strings.TrimPrefix(picked, "volume-snap-"), ".img"))
	}
	return fmt.Sprintf("cleaner picked=%s", picked)
}

// diskFlags: every snapshot of the live chain with its removed flag ("" when absent)
func (im *Impl) diskFlags() map[string]string {
	out := map[string]string{}
	r := im.rep()
	if r == nil {
		return out
	}
	disks := r.ListDisks()
	for _, n := range r.VerifActive() {
		if d, ok := disks[n]; ok {
			out[n] = fmt.Sprintf("rm=%v", d.Removed)
		}
	}
	return out
}
