//go:build verif && !debug

package rep

const lunmapWindow = false
