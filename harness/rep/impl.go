//go:build verif

// Package rep executes line-protocol requests against the REAL jiva replica
// (replica.Server on a scratch directory) and renders canonical observations.
package rep

import (
	"encoding/binary"
	"fmt"
	"os"
	"os/exec"
	"sort"
	"strconv"
	"strings"
	"sync"
	"sync/atomic"

	"github.com/openebs/jiva/replica"
	jsync "github.com/openebs/jiva/sync"
	"github.com/openebs/jiva/types"
	"github.com/openebs/sparse-tools/sparse"
)

const Unit = 512
const Blk = 4096

type Impl struct {
	// a replica that rejoined with its old directory keeps its OWN metadata for the snapshots up to
	// its checkpoint (they are not transferred): the recorded per-snapshot counters are then the
	// rejoiner's, which the model (one copy of the metadata) does not track — not observed afterwards
	recsUnknown bool
	Dir         string
	S   *replica.Server
	BS  int // units per block (8)
	// rebuild: the other replica of the pair (the target before the swap, the source after it)
	Peer     *replica.Server
	PeerDir  string
	rb       *rebuild
	Base     string            // the directory the sequence started in
	alias    map[string]string // name used on the line -> name the controller generated
	cleanups []string
}

// Rebuilding reports whether a controller is attached (between rbbegin and rbend).
func (im *Impl) Rebuilding() bool { return im.rb != nil }

// Swapped reports whether the rebuilt replica has become the replica under test.
func (im *Impl) Swapped() bool { return im.rb != nil && im.rb.swapped }

// Mapped / Promoted / Aborted: how far the rebuild has got.
func (im *Impl) Mapped() bool   { return im.rb != nil && im.rb.mapped }
func (im *Impl) Promoted() bool { return im.rb != nil && im.rb.promoted }
func (im *Impl) Aborted() bool  { return im.rb != nil && im.rb.aborted }

// Cleanup removes the directories of replicas created for rebuilds.
func (im *Impl) Cleanup() {
	if im.rb != nil {
		im.rbEnd()
	}
	if im.S != nil && im.S.Replica() != nil { // nothing stays open (background goroutines watching it stop)
		im.S.Replica().VerifSyncDrainer()
		im.S.Close()
	}
	for _, d := range im.cleanups {
		os.RemoveAll(d)
		os.RemoveAll(d + ".copy")
	}
}

func cpSparse(src, dst string) error {
	os.Remove(dst)
	out, err := exec.Command("cp", "--sparse=always", "--preserve=mode", src, dst).CombinedOutput()
	if err != nil {
		return fmt.Errorf("cp %s: %v %s", src, err, out)
	}
	return nil
}

type foldOps struct{}

func (foldOps) UpdateFoldFileProgress(progress int, done bool, err error) {}

func snapFile(n string) string { return "volume-snap-" + n + ".img" }

func (im *Impl) rep() *replica.Replica { return im.S.Replica() }

func (im *Impl) afterNew() {
	if r := im.rep(); r != nil {
		r.VerifSyncDrainer()
	}
}

func res(err error) string {
	if err != nil {
		return "refused"
	}
	return "ok"
}

func Payload(off, n, tag int) []byte {
	buf := make([]byte, n*Unit)
	for j := 0; j < n; j++ {
		v := uint64(tag*1000000 + j + 1)
		for k := 0; k < Unit/8; k++ {
			binary.LittleEndian.PutUint64(buf[j*Unit+k*8:], v)
		}
	}
	return buf
}

func Decode(buf []byte) string {
	out := make([]string, 0, len(buf)/Unit)
	for j := 0; j+Unit <= len(buf); j += Unit {
		v := binary.LittleEndian.Uint64(buf[j:])
		torn := false
		for k := 1; k < Unit/8; k++ {
			if binary.LittleEndian.Uint64(buf[j+k*8:]) != v {
				torn = true
			}
		}
		if torn {
			out = append(out, "999999999")
		} else {
			out = append(out, strconv.FormatUint(v, 10))
		}
	}
	return "data " + strings.Join(out, ",")
}

func (im *Impl) nbUnits() int {
	r := im.rep()
	if r == nil {
		return 0
	}
	return len(r.VerifLocation()) * im.BS
}

func (im *Impl) readAll(s *replica.Server, units int) string {
	buf := make([]byte, units*Unit)
	if units == 0 {
		return "data "
	}
	if _, err := s.ReadAt(buf, 0); err != nil {
		return "refused"
	}
	return Decode(buf)
}

// Pending returns the queued punch requests as runs (file index, first block, blocks).
func (im *Impl) Pending() [][3]int {
	r := im.rep()
	if r == nil {
		return nil
	}
	var out [][3]int
	for _, h := range r.VerifPendingHoles() {
		out = append(out, [3]int{h.FileIndex, int(h.Offset / Blk), int(h.Len / Blk)})
	}
	return out
}

// Exec runs one request line and returns the canonical observation.
func (im *Impl) Exec(line string) (out string) {
	defer func() {
		if p := recover(); p != nil {
			out = fmt.Sprintf("panic %v", p)
		}
		out = im.unalias(out)
	}()
	w := strings.Fields(line)
	if len(w) == 0 {
		return ""
	}
	if im.rb != nil && !im.rbAllows(w[0]) {
		return "inadmissible"
	}
	if w[0] != "rbbegin" {
		for i := 1; i < len(w); i++ {
			w[i] = im.real(w[i])
		}
	}
	atoi := func(s string) int { n, _ := strconv.Atoi(s); return n }
	switch w[0] {
	case "init":
		im.BS = atoi(w[1])
		nb := atoi(w[2])
		types.ShouldPunchHoles = false
		types.MaxChainLength = 0
		replica.VerifDropHoles()
		im.S = replica.NewServer("127.0.0.1:9502", im.Dir, 512, "")
		if err := im.S.Create(int64(nb * Blk)); err != nil {
			return "refused"
		}
		if err := im.S.Open(); err != nil {
			return "refused"
		}
		im.afterNew()
		return "ok"
	case "mode":
		return res(im.S.SetReplicaMode(w[1]))
	case "w":
		off, n, tag := atoi(w[1]), atoi(w[2]), atoi(w[3])
		if im.rep() == nil || off+n > im.nbUnits() {
			return "refused"
		}
		if im.rb != nil {
			return im.rbWrite(off, n, tag)
		}
		_, err := im.S.WriteAt(Payload(off, n, tag), int64(off*Unit))
		return res(err)
	case "cw":
		// n whole-block writes issued from 4 goroutines while 3 pollers read the counter;
		// block i%nb always gets the same payload, so the result does not depend on the order
		n, tag := atoi(w[1]), atoi(w[2])
		r := im.rep()
		if r == nil || (r.VerifMode() != "RW" && r.VerifMode() != "WO") {
			return "refused"
		}
		nb := len(r.VerifLocation())
		var wg sync.WaitGroup
		var failed int32
		stop := make(chan struct{})
		for p := 0; p < 3; p++ {
			go func() {
				for {
					select {
					case <-stop:
						return
					default:
						r.GetRevisionCounter()
					}
				}
			}()
		}
		for g := 0; g < 4; g++ {
			wg.Add(1)
			go func(g int) {
				defer wg.Done()
				for i := g; i < n; i += 4 {
					b := i % nb
					buf := Payload(0, im.BS*(b+1), tag)[b*im.BS*Unit:]
					if _, err := im.S.WriteAt(buf, int64(b*Blk)); err != nil {
						atomic.AddInt32(&failed, 1)
					}
				}
			}(g)
		}
		wg.Wait()
		close(stop)
		if failed > 0 {
			return "refused"
		}
		return "ok"
	case "r":
		off, n := atoi(w[1]), atoi(w[2])
		if im.rep() == nil || off+n > im.nbUnits() {
			return "refused"
		}
		buf := make([]byte, n*Unit)
		if n > 0 {
			if _, err := im.S.ReadAt(buf, int64(off*Unit)); err != nil {
				return "refused"
			}
		}
		return Decode(buf)
	case "full":
		if im.rep() == nil {
			return "refused"
		}
		return im.readAll(im.S, im.nbUnits())
	case "snap":
		return res(im.S.Snapshot(w[1], w[2] == "u", "t"))
	case "mark":
		_, err := im.S.PrepareRemoveDisk(w[1])
		return res(err)
	case "coal":
		r := im.rep()
		if r == nil {
			return "refused"
		}
		d, ok := r.ListDisks()[snapFile(w[1])]
		if !ok || d.Parent == "" {
			return "refused"
		}
		return res(sparse.FoldFile(im.Dir+"/"+snapFile(w[1]), im.Dir+"/"+d.Parent, foldOps{}))
	case "rm":
		return res(im.S.RemoveDiffDisk(snapFile(w[1])))
	case "revert":
		r := im.rep()
		if r == nil {
			return "refused"
		}
		if _, ok := r.ListDisks()[snapFile(w[1])]; !ok {
			return "refused"
		}
		replica.VerifDropHoles()
		err := im.S.Revert(snapFile(w[1]), "t")
		im.afterNew()
		return res(err)
	case "reopen":
		if im.rep() == nil {
			return "refused"
		}
		im.S.SetPreload(w[1] == "p")
		if err := im.S.Close(); err != nil {
			return "refused"
		}
		err := im.S.Open()
		im.afterNew()
		return res(err)
	case "reload":
		if im.rep() == nil {
			return "refused"
		}
		replica.VerifDropHoles()
		im.S.SetPreload(w[1] == "p")
		err := im.S.Reload()
		im.afterNew()
		return res(err)
	case "close":
		return res(im.S.Close())
	case "open":
		// the real guard decides, also when a replica is already attached (open, dirty or rebuilding):
		// an accepted second Open replaces the instance and resets its mode
		before := im.rep()
		if before == nil {
			im.S.SetPreload(w[1] == "p")
		}
		err := im.S.Open()
		if before != nil && err != nil && im.rep() == before {
			return "refused"
		}
		im.afterNew()
		return res(err)
	case "resize":
		nb := atoi(w[1])
		return res(im.S.Resize(strconv.Itoa(nb * Blk)))
	case "shrinkb":
		// a size d bytes below the current one (0 < d < 4096)
		r := im.rep()
		if r == nil {
			return "refused"
		}
		return res(im.S.Resize(strconv.Itoa(len(r.VerifLocation())*Blk - atoi(w[1]))))
	case "punch":
		types.ShouldPunchHoles = w[1] == "1"
		return "ok"
	case "apply":
		f, b, n := atoi(w[1]), atoi(w[2]), atoi(w[3])
		r := im.rep()
		if r == nil {
			return "ok"
		}
		for j := 0; j < n; j++ {
			if _, err := r.VerifPunchBlock(f, int64(b+j)); err != nil {
				return "refused"
			}
		}
		return "ok"
	case "drop":
		replica.VerifDropHoles()
		return "ok"
	case "setrb":
		if im.rb != nil {
			return "refused"
		}
		return res(im.S.SetRebuilding(w[1] == "1"))
	case "setrev":
		return res(im.S.SetRevisionCounter(int64(atoi(w[1]))))
	case "cleaner":
		return im.cleaner(w[1], len(w) > 2 && w[2] == "fault")
	case "ckpt":
		// request lines name the add-time snapshots of earlier rebuilds by their aliases; the replica
		// must record the real disk name, as the controller would
		arg := w[1]
		for a, r := range im.alias {
			if arg == a {
				arg = r
			}
			arg = strings.ReplaceAll(arg, "volume-snap-"+a+".img", "volume-snap-"+r+".img")
		}
		return res(im.S.SetCheckpoint(arg))
	case "rbbegin":
		has := func(f string) bool {
			for _, x := range w[2:] {
				if x == f {
					return true
				}
			}
			return false
		}
		return im.rbBegin(w[1], has("real"), has("stale"))
	case "stash":
		return im.stash()
	case "rbabort":
		return im.rbAbort()
	case "rbfinish":
		return im.rbFinish()
	case "rbreload":
		return im.rbReload()
	case "lunmap":
		return im.rbLunmap()
	case "lunmapw":
		return im.rbLunmapW(atoi(w[1]), atoi(w[2]), atoi(w[3]))
	case "rbpromote":
		return im.rbPromote()
	case "rbpromotew":
		off, n, tag := atoi(w[1]), atoi(w[2]), atoi(w[3])
		if im.rep() == nil || off+n > im.nbUnits() || im.rb == nil || im.rb.real {
			return "inadmissible"
		}
		return im.rbPromoteW(off, n, tag)
	case "rbend":
		return im.rbEnd()
	case "cmp":
		return im.rbCompare()
	case "csnap":
		return im.rbSnapshot(w[1])
	case "crevert":
		return im.rbRevert(w[1])
	case "killq":
		off, n, tag := atoi(w[1]), atoi(w[2]), atoi(w[3])
		if im.rep() == nil || off+n > im.nbUnits() {
			return "inadmissible"
		}
		return im.rbKillQ(off, n, tag)
	case "clone":
		return im.clone(w[1], len(w) > 2 && w[2] == "late", len(w) > 2 && w[2] == "fault")
	case "maxchain":
		types.MaxChainLength = atoi(w[1])
		return "ok"
	case "replace":
		// ReplaceDisk is a step of the legacy deletion flow, only ever sent to an RW replica; the
		// harness sends it in the other modes, where it must be refused without effect
		if r := im.rep(); r != nil && r.VerifMode() == "RW" {
			return "inadmissible"
		}
		return res(im.S.ReplaceDisk(snapFile(w[1]), snapFile(w[2])))
	case "recs":
		r := im.rep()
		if r == nil {
			return "recs closed"
		}
		if im.recsUnknown {
			return "recs ?"
		}
		act := r.VerifActive()
		disks := r.ListDisks()
		var out []string
		for _, n := range act[:len(act)-1] {
			out = append(out, fmt.Sprint(disks[n].RevisionCounter))
		}
		return "recs " + strings.Join(out, ",")
	case "holes":
		set := map[[2]int]bool{}
		for _, h := range im.Pending() {
			for j := 0; j < h[2]; j++ {
				set[[2]int{h[0], h[1] + j}] = true
			}
		}
		var ps [][2]int
		// duplicates are kept in the model as separate list entries; count them
		cnt := map[[2]int]int{}
		for _, h := range im.Pending() {
			for j := 0; j < h[2]; j++ {
				cnt[[2]int{h[0], h[1] + j}]++
			}
		}
		for p, c := range cnt {
			for ; c > 0; c-- {
				ps = append(ps, p)
			}
		}
		sort.Slice(ps, func(i, j int) bool {
			if ps[i][0] != ps[j][0] {
				return ps[i][0] < ps[j][0]
			}
			return ps[i][1] < ps[j][1]
		})
		var ss []string
		for _, p := range ps {
			ss = append(ss, fmt.Sprintf("%d:%d", p[0], p[1]))
		}
		return "holes " + strings.Join(ss, " ")
	case "loc":
		r := im.rep()
		if r == nil {
			return "loc closed"
		}
		var ss []string
		for _, v := range r.VerifLocation() {
			ss = append(ss, strconv.Itoa(int(v)))
		}
		return "loc " + strings.Join(ss, ",")
	case "meta":
		return im.meta()
	case "imeta":
		r := im.rep()
		if r == nil {
			return "imeta closed"
		}
		return fmt.Sprintf("imeta snapidx=%d marks=%s", r.VerifSnapIndx(), b2s(r.VerifUserCreated()))
	case "cands":
		return im.cands(w[1])
	case "snapimg":
		return im.snapImage(w[1])
	}
	return "bad-op"
}

func b2s(bs []bool) string {
	var ss []string
	for _, b := range bs {
		if b {
			ss = append(ss, "1")
		} else {
			ss = append(ss, "0")
		}
	}
	return strings.Join(ss, ",")
}

func (im *Impl) meta() string {
	r := im.rep()
	if r == nil {
		return "meta closed"
	}
	act := r.VerifActive() // base first, head last
	disks := r.ListDisks()
	uc := []bool{false}
	rm := []bool{false}
	var names []string
	for i, n := range act {
		d := disks[n]
		uc = append(uc, d.UserCreated)
		rm = append(rm, d.Removed)
		if i < len(act)-1 {
			names = append(names, strings.TrimSuffix(strings.TrimPrefix(n, "volume-snap-"), ".img"))
		}
	}
	head := act[len(act)-1]
	hn, _ := strconv.Atoi(strings.TrimSuffix(strings.TrimPrefix(head, "volume-head-"), ".img"))
	info := r.Info()
	return fmt.Sprintf("meta top=%d nb=%d uc=%s rm=%s chain=%s head=%d rev=%d mode=%s open=true ckpt=%s",
		len(act), len(r.VerifLocation()), b2s(uc), b2s(rm),
		strings.Join(names, ","), hn, r.GetRevisionCounter(), r.VerifMode(), info.Checkpoint)
}

// cands: the background cleaner's candidate list for a checkpoint (sorted by name; the
// implementation orders by size, which is irrelevant to safety).
func (im *Impl) cands(ck string) string {
	r := im.rep()
	if r == nil {
		return "cands closed"
	}
	l, err := jsync.GetDeleteCandidateChain(r, snapFile(ck))
	if err != nil {
		return "refused"
	}
	var ns []string
	for _, n := range l {
		ns = append(ns, im.unalias(strings.TrimSuffix(strings.TrimPrefix(n, "volume-snap-"), ".img")))
	}
	sort.Strings(ns)
	return "cands " + strings.Join(ns, ",")
}

// snapImage: the image of a snapshot as the system itself defines it — revert a
// hole-preserving copy of the directory to it and read the volume.
func (im *Impl) snapImage(name string) string {
	r := im.rep()
	if r == nil {
		return "refused"
	}
	if _, ok := r.ListDisks()[snapFile(name)]; !ok {
		return "refused"
	}
	units := im.nbUnits()
	cp := im.Dir + ".copy"
	os.RemoveAll(cp)
	if out, err := exec.Command("cp", "-a", "--sparse=always", im.Dir, cp).CombinedOutput(); err != nil {
		return "cp-failed " + string(out)
	}
	defer os.RemoveAll(cp)
	saved := types.ShouldPunchHoles
	types.ShouldPunchHoles = false
	defer func() { types.ShouldPunchHoles = saved }()
	s := replica.NewServer("127.0.0.1:9502", cp, 512, "")
	// NewServer re-makes replica.ActionChannel; harmless here
	if err := s.Open(); err != nil {
		return "copy-open-failed"
	}
	s.Replica().VerifKeepDrainer()
	if err := s.Revert(snapFile(name), "t"); err != nil {
		return "copy-revert-failed"
	}
	s.Replica().VerifKeepDrainer()
	out := im.readAll(s, units)
	s.Close()
	return out
}
