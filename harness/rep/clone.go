//go:build verif

package rep

import (
	"encoding/json"
	"fmt"
	"net"
	"net/http"
	"os"
	"strings"
	"time"

	"github.com/openebs/jiva/app"
	"github.com/openebs/jiva/backend/dynamic"
	"github.com/openebs/jiva/backend/remote"
	"github.com/openebs/jiva/controller"
	"github.com/openebs/jiva/replica"
	"github.com/openebs/jiva/types"

	"jivaverif/harness/fake"
	"jivaverif/harness/stack"
)

// clone <snap>: a replica of a NEW volume is started as a clone of snapshot <snap> of the replica
// under test, the way app/replica.go does it, with everything real:
//
//   - the clone replica (type "clone") behind its REST, RPC and sync-agent endpoints;
//   - the new volume's controller (real Controller, real remote backend, RF 1), whose Start opens the
//     clone replica and polls its clone status while holding the controller lock;
//   - app.CloneReplica -> sync.Task.CloneReplica: source lookup through the source controller's
//     GET /v1/replicas (a stub: that one answer is all the source controller contributes), the real
//     file transfer (sync agents and ssync as child processes), UpdateCloneInfo, Reload,
//     UpdateLUNMap, SetRebuilding(false), status "completed";
//   - the lines of startReplica around that call ("inProgress" before, "error" on failure) are
//     repeated here (T1 fact cloneStatusOrder).
//
// Observed: the status the clone ends with, how the new controller lists it, its chain, its revision
// counter and the image read through the new controller.
func (im *Impl) clone(name string, late, fault bool) (out string) {
	if im.rep() == nil || im.rb != nil {
		return "refused"
	}
	os.Setenv("REPLICATION_FACTOR", "1")
	// source and clone are different processes in production: the package-level switches the clone
	// flips (Reload turns hole punching on) must not leak into the replica under test
	punch := types.ShouldPunchHoles
	defer func() { types.ShouldPunchHoles = punch }()
	ips := workerIPs()
	var eps [3]*stack.Endpoint
	for i, ip := range ips {
		ep, err := stack.Up(ip)
		if err != nil {
			return "stack-failed " + err.Error()
		}
		eps[i] = ep
	}
	size := int64(len(im.rep().VerifLocation()) * Blk)
	im.Pending() // everything queued so far is the source's: keep it on the pending list
	base := stack.PortBase()
	eps[0].Set(im.S)
	defer eps[0].Set(nil)
	dirT := im.Dir + fmt.Sprintf(".c%d", len(im.cleanups))
	// a transfer cut in the middle (see stack.Init): the sender of the first snapshot data file reports
	// an error and the second half of that file never arrives (the agent's children inherit the
	// environment it is started with)
	os.Remove(im.Dir + "/.verif-ssync-fault")
	if fault {
		os.Setenv("VERIF_SSYNC_FAULT_TARGET", dirT)
		os.WriteFile(im.Dir+"/.verif-ssync-fault", nil, 0644)
		defer os.Remove(im.Dir + "/.verif-ssync-fault")
		defer os.Unsetenv("VERIF_SSYNC_FAULT_TARGET")
	}
	if err := eps[0].StartAgent(im.Dir, base); err != nil {
		return "agent-failed " + err.Error()
	}
	defer eps[0].StopAgent()

	// the source volume's controller: GET /v1/replicas
	ln, err := net.Listen("tcp", ips[1]+":9501")
	if err != nil {
		return "stub-failed " + err.Error()
	}
	mux := http.NewServeMux()
	mux.HandleFunc("/v1/replicas", func(w http.ResponseWriter, r *http.Request) {
		json.NewEncoder(w).Encode(map[string]interface{}{
			// the source volume also has a replica that is being rebuilt; a replica added for a rebuild is listed
			// last.  The clone must be taken from the RW one (nothing serves a replica at that second address)
			"data": []map[string]string{{"address": eps[0].Addr(), "mode": "RW"}, {"address": "tcp://" + ips[1] + ":9502", "mode": "WO"}},
		})
	})
	stub := &http.Server{Handler: mux}
	go stub.Serve(ln)
	defer stub.Close()

	os.RemoveAll(dirT)
	os.MkdirAll(dirT, 0700)
	im.cleanups = append(im.cleanups, dirT)
	t := replica.NewServer(ips[2]+":9502", dirT, 512, "clone")
	if err := t.Create(size); err != nil {
		return "t-create-failed"
	}
	eps[2].Set(t)
	defer eps[2].Set(nil)
	if err := eps[2].StartAgent(dirT, base+10); err != nil {
		return "agent-failed " + err.Error()
	}
	defer eps[2].StopAgent()

	w := fake.NewWorld()
	c2 := controller.NewController(controller.WithName("clone"),
		controller.WithBackend(dynamic.New(map[string]types.BackendFactory{"tcp": remote.New()})),
		controller.WithFrontend(&fake.Frontend{W: w}, "127.0.0.1"), controller.WithRF(1))
	c2.MaxRevReplica = ips[2]
	startErr := make(chan error, 1)
	go func() { startErr <- c2.Start(eps[2].Addr()) }()
	defer func() {
		c2.Shutdown()
		if t.Replica() != nil {
			t.Replica().VerifKeepDrainer()
			t.Close()
		}
		if r := im.rep(); r != nil {
			r.VerifKeepOwnHoles()
		}
	}()
	// startReplica: wait until the controller has opened the replica
	for i := 0; t.Replica() == nil; i++ {
		if i > 5000 {
			return "clone-never-opened"
		}
		time.Sleep(time.Millisecond)
	}
	t.Replica().VerifKeepDrainer()
	// what the new controller reports while the clone is being made: the replica must not be RW
	// before its status says completed (the mode is read first: the status only moves forward)
	early := "ok"
	stopPoll := make(chan struct{})
	pollDone := make(chan struct{})
	go func() {
		defer close(pollDone)
		for {
			select {
			case <-stopPoll:
				return
			default:
			}
			rw := false
			for _, r := range c2.ListReplicas() {
				if r.Mode == types.RW {
					rw = true
				}
			}
			if r := t.Replica(); rw && r != nil {
				if st := r.GetCloneStatus(); st != "completed" && st != "NA" {
					early = "rw-while-" + st
				}
			}
			time.Sleep(2 * time.Millisecond)
		}
	}()
	stopPolling := func() {
		select {
		case <-stopPoll:
		default:
			close(stopPoll)
			<-pollDone
		}
	}
	defer stopPolling()
	if late {
		// app/replica.go notices that the controller has opened the replica only at its next 2 s tick:
		// the controller's first status poll then still sees the empty status
		time.Sleep(300 * time.Millisecond)
	}
	if err := t.Replica().SetCloneStatus("inProgress"); err != nil {
		return "set-status-failed"
	}
	cerr := app.CloneReplica(t, "tcp://"+ips[2]+":9502", ips[1], name)
	if t.Replica() != nil {
		t.Replica().VerifKeepDrainer()
	}
	if cerr != nil && t.Replica() != nil {
		t.Replica().SetCloneStatus("error")
	}
	var serr error
	select {
	case serr = <-startErr:
	case <-time.After(60 * time.Second):
		return "start-hung"
	}
	stopPolling()
	status := ""
	if t.Replica() != nil {
		status = t.Replica().GetCloneStatus()
	}
	var modes []string
	for _, r := range c2.ListReplicas() {
		modes = append(modes, string(r.Mode))
	}
	res := "ok"
	if cerr != nil {
		res = "failed"
	}
	out = fmt.Sprintf("clone %s start=%s status=%s early=%s modes=%s", res, res2(serr), status, early, strings.Join(modes, ","))
	if cerr != nil || t.Replica() == nil {
		return out
	}
	act := t.Replica().VerifActive()
	var names []string
	for _, n := range act[:len(act)-1] {
		names = append(names, strings.TrimSuffix(strings.TrimPrefix(n, "volume-snap-"), ".img"))
	}
	buf := make([]byte, size)
	if _, err := c2.ReadAt(buf, 0); err != nil {
		return out + " read-failed"
	}
	return out + fmt.Sprintf(" rev=%d chain=%s %s", t.Replica().GetRevisionCounter(), strings.Join(names, ","), Decode(buf))
}

func res2(err error) string {
	if err != nil {
		return "failed"
	}
	return "ok"
}
