// Package fake provides scripted implementations of jiva's BackendFactory,
// Backend and Frontend plus tiny HTTP replica endpoints, so the REAL
// controller.Controller can be driven in-process with every environment
// answer under the control of the harness.
package fake

import (
	"encoding/json"
	"fmt"
	"net"
	"net/http"
	"sort"
	"strings"
	"sync"

	units "github.com/docker/go-units"
	"github.com/openebs/jiva/types"
)

// Rep is the scripted state of one fake replica (keyed by backend address).
type Rep struct {
	Chain      []string // head first
	Checkpoint string
	Rev        int64
	Mode       string
	Size       int64
	Clone      []string // statuses returned by successive GetCloneStatus calls; last one repeats
	headN      int
	// what the whole-volume engine (clusterdiff) keeps of a replica directory besides the counter: the
	// writes it applied while RW (ids, in order) and the persisted rebuilding flag
	Log        []int
	Rebuilding bool
	Snaps      map[string][]int // user-created snapshot name -> the writes it froze
}

type World struct {
	mu          sync.Mutex
	NextID      int
	Answers     []string          // per-request log of environment answers (chains, set-checkpoint results, reads, http)
	Calls       []string          // "addr:method" in call order since ResetLog
	Closed      []string          // addresses whose backend got Close()
	Stops       []string          // addresses whose backend got StopMonitoring()
	Signals     []string          // "addr:action[:fail]"
	Script      map[string]string // "addr:method" -> "err" | "zero" ; absent = ok
	Reps        map[string]*Rep
	Backends    map[string]*Backend // latest backend created per address
	NoCreate    map[string]bool     // Factory.Create fails for addr
	NoSignal    map[string]bool     // SignalToAdd fails for short addr
	Dead        map[string]bool     // VerifyReplicaAlive false for short addr
	servers     []*http.Server
	idCalls     []string
	All         []*Backend
	closedIDs   []int
	ModeFail    map[string][2]bool // addr -> {first SetReplicaMode call fails, second fails}
	modeCalls   map[string]int
	NewSnapFail map[string]bool // Snapshot on the backend of addr that is not yet attached fails
	RevFail     map[string]bool
	AttachedIDs map[int]bool
	FrontUp     bool
	// Gate[addr], when set, makes Factory.Create(addr) announce itself on Entered and wait until
	// the channel is closed (the controller calls Create outside its lock)
	Gate    map[string]chan struct{}
	Entered chan string
	// OnHTTP, when set, is called (once, then cleared) when a replica's REST endpoint receives a request:
	// the harness uses it to issue another controller request while the controller is inside that call
	OnHTTP func(addr string)
	// OnRead: the same for a backend's ReadAt (called once, then cleared, before the answer is given)
	OnRead func(addr string)
	// OnClose: the same for a backend's Close (the controller closes a backend under its lock)
	OnClose func(addr string)
	// CurW: the id of the write request in flight (clusterdiff)
	CurW int
}

func NewWorld() *World {
	return &World{Script: map[string]string{}, Reps: map[string]*Rep{}, Backends: map[string]*Backend{},
		NoCreate: map[string]bool{}, NoSignal: map[string]bool{}, Dead: map[string]bool{},
		Gate: map[string]chan struct{}{}, Entered: make(chan string, 16)}
}

func (w *World) log(addr, m string) string {
	w.mu.Lock()
	defer w.mu.Unlock()
	w.Calls = append(w.Calls, addr+":"+m)
	return w.Script[addr+":"+m]
}

func (w *World) ResetLog() {
	w.mu.Lock()
	w.Calls, w.Signals, w.Answers, w.idCalls = nil, nil, nil, nil
	w.modeCalls = nil
	w.mu.Unlock()
}

// TakeCalls returns the calls logged since the last reset, sorted (fan-out order is not deterministic).
func (w *World) TakeCalls() []string {
	w.mu.Lock()
	defer w.mu.Unlock()
	out := append([]string{}, w.Calls...)
	sort.Strings(out)
	return out
}

func (w *World) rep(addr string) *Rep {
	w.mu.Lock()
	defer w.mu.Unlock()
	r := w.Reps[addr]
	if r == nil {
		r = &Rep{Chain: []string{"volume-head-000.img"}, Rev: 1, Size: 1 << 20}
		w.Reps[addr] = r
	}
	return r
}

// ---- Backend ---------------------------------------------------------------

type Backend struct {
	w    *World
	Addr string
	ID   int
	Mon  types.MonitorChannel
}

func (w *World) answer(s string) {
	w.mu.Lock()
	w.Answers = append(w.Answers, s)
	w.mu.Unlock()
}

// IDCalls returns "id:Method" for the logged calls of the mutating / I/O methods.
func (w *World) IDCalls() []string {
	w.mu.Lock()
	defer w.mu.Unlock()
	out := append([]string{}, w.idCalls...)
	sort.Strings(out)
	return out
}

func (b *Backend) note(m string) string {
	b.w.mu.Lock()
	b.w.idCalls = append(b.w.idCalls, fmt.Sprintf("%d:%s", b.ID, m))
	b.w.mu.Unlock()
	return b.w.log(b.Addr, m)
}

func fail(s string) error {
	if s == "err" {
		return fmt.Errorf("scripted failure")
	}
	return nil
}

func (b *Backend) WriteAt(p []byte, off int64) (int, error) {
	s := b.note("WriteAt")
	if s == "err" {
		return 0, fail(s)
	}
	if s == "zero" {
		return 0, nil
	}
	r := b.w.rep(b.Addr)
	b.w.mu.Lock()
	if r.Mode == "RW" {
		r.Rev++
		r.Log = append(r.Log, b.w.CurW)
	}
	b.w.mu.Unlock()
	if s == "errapplied" {
		// the write was applied, the reply is lost
		return 0, fmt.Errorf("scripted failure after the write was applied")
	}
	return len(p), nil
}
func (b *Backend) ReadAt(p []byte, off int64) (int, error) {
	b.w.mu.Lock()
	hook := b.w.OnRead
	b.w.OnRead = nil
	b.w.mu.Unlock()
	if hook != nil {
		hook(b.Addr)
	}
	s := b.note("ReadAt")
	if s == "err" {
		b.w.answer("read:" + b.Addr + "=f")
		return 0, fail(s)
	}
	b.w.answer("read:" + b.Addr + "=o")
	for i := range p {
		p[i] = b.Addr[len(b.Addr)-6] // marks who served it
	}
	return len(p), nil
}
func (b *Backend) Close() error {
	b.w.mu.Lock()
	hook := b.w.OnClose
	b.w.OnClose = nil
	b.w.mu.Unlock()
	if hook != nil {
		hook(b.Addr)
	}
	b.note("Close")
	b.w.mu.Lock()
	b.w.Closed = append(b.w.Closed, b.Addr)
	b.w.closedIDs = append(b.w.closedIDs, b.ID)
	b.w.mu.Unlock()
	b.StopMonitoring()
	return nil
}
func (b *Backend) Sync() (int, error) {
	s := b.note("Sync")
	if s == "err" {
		return -1, fail(s)
	}
	return 0, nil
}
func (b *Backend) Unmap(o, l int64) (int, error) {
	s := b.note("Unmap")
	if s == "err" {
		return -1, fail(s)
	}
	return 0, nil
}
func (b *Backend) Snapshot(name string, user bool, created string) error {
	s := b.note("Snapshot")
	b.w.mu.Lock()
	if b.w.NewSnapFail[b.Addr] && b.w.Backends[b.Addr] == b && !b.attached() {
		s = "err"
	}
	b.w.mu.Unlock()
	if s == "err" {
		return fail(s)
	}
	r := b.w.rep(b.Addr)
	b.w.mu.Lock()
	if user {
		if r.Snaps == nil {
			r.Snaps = map[string][]int{}
		}
		r.Snaps[name] = append([]int{}, r.Log...)
	}
	r.headN++
	r.Chain = append([]string{fmt.Sprintf("volume-head-%03d.img", r.headN), "volume-snap-" + name + ".img"}, r.Chain[1:]...)
	b.w.mu.Unlock()
	return nil
}
func (b *Backend) GetReplicaChain() ([]string, error) {
	s := b.w.log(b.Addr, "GetReplicaChain")
	if s == "err" {
		b.w.answer("chain:" + b.Addr + "=!")
		return nil, fail(s)
	}
	r := b.w.rep(b.Addr)
	b.w.mu.Lock()
	ch := append([]string{}, r.Chain...)
	b.w.mu.Unlock()
	b.w.answer("chain:" + b.Addr + "=" + EncChain(ch))
	return ch, nil
}
func (b *Backend) SetCheckpoint(n string) error {
	s := b.note("SetCheckpoint")
	if s == "err" {
		b.w.answer("setck:" + b.Addr + "=fail")
		return fail(s)
	}
	r := b.w.rep(b.Addr)
	b.w.mu.Lock()
	r.Checkpoint = n
	b.w.mu.Unlock()
	return nil
}
// Resize: the stand-in reads the size the way replica.Replica.Resize does and keeps it
func (b *Backend) Resize(name, size string) error {
	if err := fail(b.note("Resize")); err != nil {
		return err
	}
	n, err := units.RAMInBytes(size)
	if err != nil {
		return err
	}
	r := b.w.rep(b.Addr)
	b.w.mu.Lock()
	defer b.w.mu.Unlock()
	if r.Size > n {
		return fmt.Errorf("Previous size %d is greater than %d", r.Size, n)
	}
	r.Size = n
	return nil
}
func (b *Backend) Size() (int64, error) {
	s := b.w.log(b.Addr, "Size")
	if s == "err" {
		return 0, fail(s)
	}
	return b.w.rep(b.Addr).Size, nil
}
func (b *Backend) SectorSize() (int64, error) { return 512, fail(b.w.log(b.Addr, "SectorSize")) }
func (b *Backend) RemainSnapshots() (int, error) {
	s := b.w.log(b.Addr, "RemainSnapshots")
	if s == "err" {
		return 0, fail(s)
	}
	return 100, nil
}
func (b *Backend) GetRevisionCounter() (int64, error) {
	s := b.w.log(b.Addr, "GetRevisionCounter")
	if s == "err" {
		return 0, fail(s)
	}
	r := b.w.rep(b.Addr)
	b.w.mu.Lock()
	defer b.w.mu.Unlock()
	return r.Rev, nil
}
func (b *Backend) GetCloneStatus() (string, error) {
	s := b.w.log(b.Addr, "GetCloneStatus")
	if s == "err" {
		return "", fail(s)
	}
	r := b.w.rep(b.Addr)
	b.w.mu.Lock()
	defer b.w.mu.Unlock()
	if len(r.Clone) == 0 {
		return "NA", nil
	}
	st := r.Clone[0]
	if len(r.Clone) > 1 {
		r.Clone = r.Clone[1:]
	}
	return st, nil
}
func (b *Backend) GetVolUsage() (types.VolUsage, error) { return types.VolUsage{}, nil }
func (b *Backend) SetReplicaMode(m types.Mode) error {
	s := b.note("SetReplicaMode")
	b.w.mu.Lock()
	if b.w.modeCalls == nil {
		b.w.modeCalls = map[string]int{}
	}
	n := b.w.modeCalls[b.Addr]
	b.w.modeCalls[b.Addr] = n + 1
	mf, has := b.w.ModeFail[b.Addr]
	b.w.mu.Unlock()
	if has && n < 2 && mf[n] {
		s = "err"
	}
	if s == "err" {
		return fail(s)
	}
	r := b.w.rep(b.Addr)
	b.w.mu.Lock()
	r.Mode = string(m)
	b.w.mu.Unlock()
	return nil
}
func (b *Backend) SetRevisionCounter(c int64) error {
	s := b.note(fmt.Sprintf("SetRevisionCounter %d", c))
	if b.w.RevFail[b.Addr] {
		s = "err"
	}
	if s == "err" {
		return fail(s)
	}
	r := b.w.rep(b.Addr)
	b.w.mu.Lock()
	r.Rev = c
	b.w.mu.Unlock()
	return nil
}
func (b *Backend) SetRebuilding(v bool) error              { return fail(b.w.log(b.Addr, "SetRebuilding")) }
func (b *Backend) GetMonitorChannel() types.MonitorChannel { return b.Mon }
func (b *Backend) StopMonitoring() {
	b.w.mu.Lock()
	b.w.Stops = append(b.w.Stops, b.Addr)
	b.w.mu.Unlock()
}

// SetGate installs (or with nil removes) the gate of Factory.Create for addr.
func (w *World) SetGate(addr string, g chan struct{}) {
	w.mu.Lock()
	defer w.mu.Unlock()
	if g == nil {
		delete(w.Gate, addr)
	} else {
		w.Gate[addr] = g
	}
}

// ---- Factory ---------------------------------------------------------------

type Factory struct{ W *World }

func (f *Factory) Create(address string) (types.Backend, error) {
	f.W.log(address, "Create")
	f.W.mu.Lock()
	g := f.W.Gate[address]
	delete(f.W.Gate, address) // one call only: the AddReplica the harness has just started
	f.W.mu.Unlock()
	if g != nil {
		f.W.Entered <- address
		<-g
	}
	if f.W.NoCreate[address] {
		return nil, fmt.Errorf("scripted create failure")
	}
	f.W.mu.Lock()
	b := &Backend{w: f.W, Addr: address, ID: f.W.NextID, Mon: make(types.MonitorChannel, 5)}
	f.W.NextID++
	f.W.Backends[address] = b
	f.W.All = append(f.W.All, b)
	f.W.mu.Unlock()
	return b, nil
}
func (f *Factory) SignalToAdd(addr, action string) error {
	f.W.mu.Lock()
	defer f.W.mu.Unlock()
	if f.W.NoSignal[addr] {
		f.W.Signals = append(f.W.Signals, addr+":"+action+":fail")
		return fmt.Errorf("scripted signal failure")
	}
	f.W.Signals = append(f.W.Signals, addr+":"+action)
	return nil
}
func (f *Factory) VerifyReplicaAlive(addr string) bool {
	f.W.mu.Lock()
	defer f.W.mu.Unlock()
	return !f.W.Dead[addr]
}

// ---- Frontend --------------------------------------------------------------

type Frontend struct{ W *World }

func (f *Frontend) Startup(name, fip, cip string, size, ss int64, rw types.IOs) error {
	f.W.FrontUp = true
	return nil
}
func (f *Frontend) Shutdown() error { f.W.FrontUp = false; return nil }
func (f *Frontend) State() types.State {
	if f.W.FrontUp {
		return types.StateUp
	}
	return types.StateDown
}
func (f *Frontend) Stats() types.Stats  { return types.Stats{} }
func (f *Frontend) Resize(uint64) error { return nil }

// ---- HTTP replica endpoints -------------------------------------------------

var (
	curMu sync.Mutex
	cur   *World
)

// SetWorld selects the world the HTTP endpoints answer from.
func SetWorld(w *World) {
	curMu.Lock()
	cur = w
	curMu.Unlock()
}

func world() *World {
	curMu.Lock()
	defer curMu.Unlock()
	return cur
}

// Serve starts a fake replica control endpoint on host:9502 answering
// GET /v1/replicas/1 and POST ?action=revert from the scripted state of "tcp://host:9502"
// in the current world.
func Serve(host string) error {
	addr := "tcp://" + host + ":9502"
	ln, err := net.Listen("tcp", host+":9502")
	if err != nil {
		return err
	}
	mux := http.NewServeMux()
	mux.HandleFunc("/v1/replicas/1", func(rw http.ResponseWriter, rq *http.Request) {
		w := world()
		if w == nil {
			http.Error(rw, "no world", 500)
			return
		}
		w.mu.Lock()
		hook := w.OnHTTP
		w.OnHTTP = nil
		w.mu.Unlock()
		if hook != nil {
			hook(addr)
		}
		s := w.log(addr, "http:"+rq.Method+":"+rq.URL.Query().Get("action"))
		if s == "err" {
			w.answer(fmt.Sprintf("httpfail:%s", addr))
			http.Error(rw, "scripted", 500)
			return
		}
		r := w.rep(addr)
		w.answer(fmt.Sprintf("http:%s", addr))
		w.mu.Lock()
		out := map[string]interface{}{
			"type": "replica", "id": "1",
			"actions":         map[string]string{"revert": "http://" + host + ":9502/v1/replicas/1?action=revert"},
			"chain":           r.Chain,
			"checkpoint":      r.Checkpoint,
			"revisioncounter": fmt.Sprint(r.Rev),
			"replicamode":     r.Mode,
			"state":           "open",
		}
		w.mu.Unlock()
		json.NewEncoder(rw).Encode(out)
	})
	srv := &http.Server{Handler: mux}
	go srv.Serve(ln)
	return nil
}

func (w *World) Shutdown() {}

// EncChain renders a chain for the line protocol ("-" = empty).
func EncChain(ch []string) string {
	if len(ch) == 0 {
		return "-"
	}
	return strings.Join(ch, "+")
}

func Short(addr string) string {
	return strings.TrimSuffix(strings.TrimPrefix(addr, "tcp://"), ":9502")
}

// attached: whether the controller already fans I/O out to this backend (set by the harness
// through Attached; a backend created by AddReplica is not attached while it takes its snapshot).
func (b *Backend) attached() bool { return b.w.AttachedIDs[b.ID] }

// ClosedIDs returns the ids of the backends that received Close().
func (w *World) ClosedIDs() []int {
	w.mu.Lock()
	defer w.mu.Unlock()
	var out []int
	for _, b := range w.All {
		for _, a := range w.closedIDs {
			if a == b.ID {
				out = append(out, b.ID)
				break
			}
		}
	}
	return out
}
