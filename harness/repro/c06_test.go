//go:build verif

package repro

import (
	"bytes"
	"os"
	"os/exec"
	"testing"

	"github.com/openebs/jiva/replica"
	"github.com/openebs/jiva/types"
)

const blk = 4096

func fill(b byte, n int) []byte { return bytes.Repeat([]byte{b}, n*blk) }

func newServer(t *testing.T, dir string, blocks int64) *replica.Server {
	s := replica.NewServer("127.0.0.1:9502", dir, 512, "")
	if err := s.Create(blocks * blk); err != nil {
		t.Fatal(err)
	}
	if err := s.Open(); err != nil {
		t.Fatal(err)
	}
	s.Replica().VerifSyncDrainer()
	if err := s.SetReplicaMode("RW"); err != nil {
		t.Fatal(err)
	}
	return s
}

// snapImage returns the image of snapshot `name` obtained by reverting a
// hole-preserving copy of the replica directory.
func snapImage(t *testing.T, dir, name string, blocks int64) []byte {
	cp := dir + ".copy"
	os.RemoveAll(cp)
	if out, err := exec.Command("cp", "-a", "--sparse=always", dir, cp).CombinedOutput(); err != nil {
		t.Fatalf("cp: %v %s", err, out)
	}
	defer os.RemoveAll(cp)
	s := replica.NewServer("127.0.0.1:9502", cp, 512, "")
	if err := s.Open(); err != nil {
		t.Fatal(err)
	}
	s.Replica().VerifSyncDrainer()
	if err := s.Revert("volume-snap-"+name+".img", "now"); err != nil {
		t.Fatal(err)
	}
	s.Replica().VerifSyncDrainer()
	buf := make([]byte, blocks*blk)
	if _, err := s.ReadAt(buf, 0); err != nil {
		t.Fatal(err)
	}
	s.Close()
	replica.VerifDropHoles()
	return buf
}

// Defect (a): fullWriteAt punched the file of the *next* run at the offsets
// of the run it had just closed; a user snapshot's file could be hit.
func TestC06FullWritePunchesRightFile(t *testing.T) {
	dir, _ := os.MkdirTemp("/var/tmp", "jv-c06-")
	defer os.RemoveAll(dir)
	types.ShouldPunchHoles = true
	defer func() { types.ShouldPunchHoles = false }()
	s := newServer(t, dir, 4)
	// epoch s1: blocks 0,1
	s.WriteAt(fill(0x10, 1), 0)
	s.WriteAt(fill(0x11, 1), blk)
	s.Snapshot("s1", true, "t")
	s.Replica().VerifSyncDrainer()
	// epoch s2: block 0 only
	s.WriteAt(fill(0x20, 1), 0)
	s.Snapshot("s2", false, "t")
	s.Replica().VerifSyncDrainer()
	before := snapImage(t, dir, "s1", 4)
	// head: one 2-block write; block 0 is owned by s2's file, block 1 by s1's
	s.WriteAt(append(fill(0x30, 1), fill(0x31, 1)...), 0)
	for len(s.Replica().VerifPendingHoles()) > 0 {
		if err := replica.VerifApplyHole(0); err != nil {
			t.Fatal(err)
		}
	}
	after := snapImage(t, dir, "s1", 4)
	s.Close()
	if !bytes.Equal(before, after) {
		t.Fatalf("user snapshot s1 changed: block0 %x -> %x, block1 %x -> %x", before[0], after[0], before[blk], after[blk])
	}
}
