//go:build verif

package repro

import (
	"bytes"
	"io"
	"os"
	"os/exec"
	"path/filepath"
	"strings"
	"testing"

	"github.com/openebs/jiva/backend/dynamic"
	"github.com/openebs/jiva/backend/remote"
	"github.com/openebs/jiva/controller"
	"github.com/openebs/jiva/replica"
	"github.com/openebs/jiva/types"

	"jivaverif/harness/fake"
	"jivaverif/harness/stack"
)

func cp(t *testing.T, from, to string) {
	in, err := os.Open(from)
	if err != nil {
		t.Fatal(err)
	}
	defer in.Close()
	out, err := os.Create(to)
	if err != nil {
		t.Fatal(err)
	}
	defer out.Close()
	if _, err := io.Copy(out, in); err != nil {
		t.Fatal(err)
	}
}

// C07: a write smaller than the replica's 4 KiB block that reaches a replica while it is being
// rebuilt (mode WO) must not leave the rebuilt replica with different data from the source.
func TestC07SubBlockWriteDuringRebuild(t *testing.T) {
	os.Setenv("REPLICATION_FACTOR", "3")
	go replica.CreateHoles() // app/replica.go
	const size = 64 * 1024
	base := t.TempDir()
	dirS, dirT := filepath.Join(base, "s"), filepath.Join(base, "t")
	os.MkdirAll(dirS, 0700)
	os.MkdirAll(dirT, 0700)
	epS, err := stack.Up("127.77.1.1")
	if err != nil {
		t.Fatal(err)
	}
	epT, err := stack.Up("127.77.1.2")
	if err != nil {
		t.Fatal(err)
	}
	S := replica.NewServer(epS.IP+":9502", dirS, 512, "")
	T := replica.NewServer(epT.IP+":9502", dirT, 512, "")
	if err := S.Create(size); err != nil {
		t.Fatal(err)
	}
	if err := T.Create(size); err != nil {
		t.Fatal(err)
	}
	// app/replica.go marks a replica that is not a clone once it has been opened
	if err := S.Open(); err != nil {
		t.Fatal(err)
	}
	S.Replica().SetCloneStatus("NA")
	S.Close()
	// a second healthy replica, identical to the first (quorum needs two of three)
	dirQ := filepath.Join(base, "q")
	if out, err := exec.Command("cp", "-a", "--sparse=always", dirS, dirQ).CombinedOutput(); err != nil {
		t.Fatalf("%v %s", err, out)
	}
	epQ, err := stack.Up("127.77.1.3")
	if err != nil {
		t.Fatal(err)
	}
	Q := replica.NewServer(epQ.IP+":9502", dirQ, 512, "")
	epQ.Set(Q)
	defer epQ.Set(nil)
	epS.Set(S)
	epT.Set(T)
	defer epS.Set(nil)
	defer epT.Set(nil)

	w := fake.NewWorld()
	c := controller.NewController(controller.WithName("v"), controller.WithBackend(dynamic.New(map[string]types.BackendFactory{"tcp": remote.New()})),
		controller.WithFrontend(&fake.Frontend{W: w}, "127.0.0.1"), controller.WithRF(3))
	c.MaxRevReplica = epS.IP
	if err := c.Start(epS.Addr(), epQ.Addr()); err != nil {
		t.Fatal(err)
	}
	defer c.Shutdown()
	old := bytes.Repeat([]byte{0xAA}, 4096)
	if _, err := c.WriteAt(old, 4096); err != nil {
		t.Fatal(err)
	}

	// sync.AddReplica: the new replica joins in WO, both take the same snapshot
	T.SetPreload(false)
	if err := c.AddReplica(epT.Addr()); err != nil {
		t.Fatal(err)
	}
	T.SetPreload(true)
	if err := T.SetRebuilding(true); err != nil {
		t.Fatal(err)
	}
	// a 512-byte write (the iSCSI block size) while the rebuild is running
	if _, err := c.WriteAt(bytes.Repeat([]byte{0xBB}, 512), 4096+1024); err != nil {
		t.Fatal(err)
	}

	// the file sync: S's snapshots and the head's metadata go to T
	sChain, _ := S.Replica().Chain()
	tChain, _ := T.Replica().Chain()
	for _, f := range sChain[1:] {
		cp(t, filepath.Join(dirS, f), filepath.Join(dirT, f))
		cp(t, filepath.Join(dirS, f+".meta"), filepath.Join(dirT, f+".meta"))
	}
	cp(t, filepath.Join(dirS, sChain[0]+".meta"), filepath.Join(dirT, tChain[0]+".meta"))
	T.SetPreload(false)
	if err := T.Reload(); err != nil {
		t.Fatal(err)
	}
	T.SetPreload(true)
	if err := T.UpdateLUNMap(); err != nil {
		t.Fatal(err)
	}
	if err := c.VerifyRebuildReplica(epT.Addr()); err != nil {
		t.Fatal(err)
	}
	if err := T.SetRebuilding(false); err != nil {
		t.Fatal(err)
	}
	for _, r := range c.ListReplicas() {
		if r.Mode != types.RW {
			t.Fatalf("replica %v is %v", r.Address, r.Mode)
		}
	}
	bs, bt := make([]byte, size), make([]byte, size)
	if _, err := S.ReadAt(bs, 0); err != nil {
		t.Fatal(err)
	}
	if _, err := T.ReadAt(bt, 0); err != nil {
		t.Fatal(err)
	}
	if !bytes.Equal(bs, bt) {
		for i := range bs {
			if bs[i] != bt[i] {
				t.Fatalf("rebuilt replica differs from its source at byte %d: source %#x, rebuilt %#x (chain %s)",
					i, bs[i], bt[i], strings.Join(tChain, ","))
			}
		}
	}
}
