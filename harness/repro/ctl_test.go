//go:build verif

package repro

import (
	"os"
	"testing"

	"github.com/openebs/jiva/controller"
	"github.com/openebs/jiva/types"

	"jivaverif/harness/fake"
)

func newCtl(t *testing.T, rf string) (*controller.Controller, *fake.World) {
	os.Setenv("REPLICATION_FACTOR", rf)
	w := fake.NewWorld()
	n := 0
	for _, c := range rf {
		n = int(c - '0')
	}
	c := controller.NewController(controller.WithName("v"), controller.WithBackend(&fake.Factory{W: w}),
		controller.WithFrontend(&fake.Frontend{W: w}, "127.0.0.1"), controller.WithRF(n))
	return c, w
}

func reg(c *controller.Controller, a string, rev int64, st string) {
	c.RegisterReplica(types.RegReplica{Address: a, UUID: "u-" + a, RevCount: rev, RepType: "", RepState: st})
}

// Defect (d): election assigned the registering address instead of the
// iterated key and did not skip replicas in the middle of a rebuild.
func TestC09ElectsHighestNonRebuilding(t *testing.T) {
	c, w := newCtl(t, "3")
	reg(c, "A", 5, "closed")
	reg(c, "B", 10, "rebuilding")
	reg(c, "C", 3, "closed")
	if len(w.Signals) == 0 {
		t.Fatal("no start signal")
	}
	last := w.Signals[len(w.Signals)-1]
	if last != "A:start" {
		t.Fatalf("signalled %v, want A:start (signals %v)", last, w.Signals)
	}
}

func TestC09ElectsHighestAmongEarlier(t *testing.T) {
	c, w := newCtl(t, "3")
	reg(c, "A", 5, "closed")
	reg(c, "B", 3, "closed") // majority reached here: A has the highest count
	last := w.Signals[len(w.Signals)-1]
	if last != "A:start" {
		t.Fatalf("signalled %v, want A:start", w.Signals)
	}
	c2, w2 := newCtl(t, "5")
	reg(c2, "A", 5, "closed")
	reg(c2, "B", 9, "closed")
	reg(c2, "C", 3, "closed")
	if l := w2.Signals[len(w2.Signals)-1]; l != "B:start" {
		t.Fatalf("signalled %v, want B:start", w2.Signals)
	}
}

func start3(t *testing.T) (*controller.Controller, *fake.World) {
	c, w := newCtl(t, "3")
	reg(c, "A", 5, "closed")
	reg(c, "B", 5, "closed")
	if err := c.Start("tcp://A:9502"); err != nil {
		t.Fatal(err)
	}
	return c, w
}

// Defect (c): replicas marked ERR on the Resize/Snapshot error path without
// re-evaluating the volume status; until the monitor goroutine wins the lock
// the controller keeps accepting writes with fewer than a quorum RW.
func TestC03ReevaluatesOnErrMark(t *testing.T) {
	os.Setenv("REPLICATION_FACTOR", "3")
	w := fake.NewWorld()
	c := controller.NewController(controller.WithName("v"), controller.WithBackend(&fake.Factory{W: w}),
		controller.WithFrontend(&fake.Frontend{W: w}, "127.0.0.1"), controller.WithRF(3))
	reg(c, "A", 5, "closed")
	reg(c, "B", 5, "closed")
	w.Reps["tcp://A:9502"] = &fake.Rep{Chain: []string{"volume-head-000.img"}, Rev: 5, Size: 1 << 20}
	if err := c.Start("tcp://A:9502"); err != nil {
		t.Fatal(err)
	}
	for _, a := range []string{"tcp://B:9502", "tcp://C:9502"} {
		w.Reps[a] = &fake.Rep{Chain: []string{"volume-head-000.img"}, Rev: 5, Size: 1 << 20}
		if err := c.AddReplica(a); err != nil {
			t.Fatal(err)
		}
		// promote directly (chain verification needs the HTTP fakes; not the point here)
		c.SetReplicaMode(a, types.RW)
	}
	c.Lock()
	c.UpdateVolStatus()
	c.Unlock()
	if c.ReadOnly || c.RWReplicaCount != 3 {
		t.Fatalf("setup: ro=%v rw=%d", c.ReadOnly, c.RWReplicaCount)
	}
	w.Script["tcp://B:9502:Resize"] = "err"
	w.Script["tcp://C:9502:Resize"] = "err"
	c.Resize("v", "2M")
	nrw := 0
	for _, r := range c.ListReplicas() {
		if r.Mode == types.RW {
			nrw++
		}
	}
	// monitors have not fired yet (legal schedule): status must already be re-evaluated
	if nrw < 2 && !c.ReadOnly {
		w.ResetLog()
		n, err := c.WriteAt(make([]byte, 4096), 0)
		t.Fatalf("only %d RW replica(s) of RF 3 but volume not read-only (RWReplicaCount=%d); write returned n=%d err=%v calls=%v",
			nrw, c.RWReplicaCount, n, err, w.TakeCalls())
	}
}

func TestC09ElectsHighestAfterSignalFailure(t *testing.T) {
	c, w := newCtl(t, "3")
	w.NoSignal["B"] = true
	reg(c, "A", 5, "closed")
	reg(c, "B", 9, "closed") // elected, signal fails, B dropped
	reg(c, "C", 3, "closed")
	if l := w.Signals[len(w.Signals)-1]; l != "A:start" {
		t.Fatalf("signalled %v, want A:start", w.Signals)
	}
}

// Defect (h): the range check `off+int64(len(b)) > c.size` overflows for offsets near 2^63 and
// lets the I/O through to the replicas.
func TestC01RangeCheckOverflow(t *testing.T) {
	c, w := newCtl(t, "1")
	reg(c, "A", 5, "closed")
	if err := c.Start("tcp://A:9502"); err != nil || c.ReadOnly {
		t.Fatalf("setup: %v ro=%v", err, c.ReadOnly)
	}
	w.ResetLog()
	off := int64(1<<63 - 1 - 100)
	n, err := c.WriteAt(make([]byte, 4096), off)
	if err == nil || n != 0 || len(w.TakeCalls()) != 0 {
		t.Fatalf("write at offset %d beyond the volume reached the replicas: n=%d err=%v calls=%v", off, n, err, w.TakeCalls())
	}
	w.ResetLog()
	n, err = c.ReadAt(make([]byte, 4096), off)
	if err == nil || len(w.TakeCalls()) != 0 {
		t.Fatalf("read at offset %d beyond the volume reached the replicas: n=%d err=%v calls=%v", off, n, err, w.TakeCalls())
	}
}

// C18: AddReplica drops the controller lock around factory.Create; the replication factor is
// verified only before that window.  Two additions overlapping there — the first one completing its
// rebuild before the second Create returns — leave the volume with more data replicas than RF.
func TestC18ConcurrentAddsExceedRF(t *testing.T) {
	os.Setenv("REPLICATION_FACTOR", "3")
	w := fake.NewWorld()
	c := controller.NewController(controller.WithName("v"), controller.WithBackend(&fake.Factory{W: w}),
		controller.WithFrontend(&fake.Frontend{W: w}, "127.0.0.1"), controller.WithRF(3))
	reg(c, "A", 5, "closed")
	reg(c, "B", 5, "closed")
	for _, a := range []string{"A", "B", "C", "D"} {
		w.Reps["tcp://"+a+":9502"] = &fake.Rep{Chain: []string{"volume-head-000.img"}, Rev: 5, Size: 1 << 20}
	}
	if err := c.Start("tcp://A:9502"); err != nil {
		t.Fatal(err)
	}
	if err := c.AddReplica("tcp://B:9502"); err != nil {
		t.Fatal(err)
	}
	c.SetReplicaMode("tcp://B:9502", types.RW)
	// C and D are added concurrently: both pass the checks, both sit in Create
	res := map[string]chan error{}
	gates := map[string]chan struct{}{}
	for _, a := range []string{"tcp://C:9502", "tcp://D:9502"} {
		gates[a] = make(chan struct{})
		w.SetGate(a, gates[a]) // Create takes the gate out of the world: keep our own reference
		ch := make(chan error, 1)
		res[a] = ch
		go func(a string) { ch <- c.AddReplica(a) }(a)
		<-w.Entered
	}
	close(gates["tcp://C:9502"])
	if err := <-res["tcp://C:9502"]; err != nil {
		t.Fatal(err)
	}
	c.SetReplicaMode("tcp://C:9502", types.RW) // C's rebuild completes
	close(gates["tcp://D:9502"])
	err := <-res["tcp://D:9502"]
	if n := len(c.ListReplicas()); n > 3 {
		t.Fatalf("%d data replicas with replication factor 3 (second AddReplica returned %v): %v", n, err, c.ListReplicas())
	}
}

// Defect (o): Start attaches every address it is given without looking at the replication factor:
// a start request listing four replicas leaves four RW data replicas with RF 3.
func TestC18StartExceedsRF(t *testing.T) {
	c, _ := newCtl(t, "3")
	reg(c, "A", 5, "closed")
	reg(c, "B", 5, "closed")
	err := c.Start("tcp://A:9502", "tcp://B:9502", "tcp://C:9502", "tcp://D:9502")
	n := len(c.ListReplicas())
	if n > 3 {
		t.Fatalf("Start returned %v and left %d data replicas with RF 3: %v", err, n, c.ListReplicas())
	}
	if err == nil {
		t.Fatalf("Start with more addresses than the replication factor must be refused")
	}
}


// Defect (q): a request that does not cover whole blocks is first completed from the RW replicas while a
// WO replica is attached.  When that read fails on an RW replica the replica is dropped — and with RF 3,
// two RW replicas and one WO, the volume has then lost its quorum — but the write went on and was fanned
// out to (and acknowledged by) the one RW replica left and the rebuilding one.
func TestC03WideningReadCostsQuorum(t *testing.T) {
	os.Setenv("REPLICATION_FACTOR", "3")
	w := fake.NewWorld()
	c := controller.NewController(controller.WithName("v"), controller.WithBackend(&fake.Factory{W: w}),
		controller.WithFrontend(&fake.Frontend{W: w}, "127.0.0.1"), controller.WithRF(3))
	reg(c, "A", 5, "closed")
	reg(c, "B", 5, "closed")
	for _, a := range []string{"A", "B", "C"} {
		w.Reps["tcp://"+a+":9502"] = &fake.Rep{Chain: []string{"volume-head-000.img"}, Rev: 5, Size: 1 << 20}
	}
	if err := c.Start("tcp://A:9502"); err != nil {
		t.Fatal(err)
	}
	if err := c.AddReplica("tcp://B:9502"); err != nil {
		t.Fatal(err)
	}
	c.SetReplicaMode("tcp://B:9502", types.RW)
	if err := c.AddReplica("tcp://C:9502"); err != nil { // C stays WO: a rebuild is in progress
		t.Fatal(err)
	}
	if c.ReadOnly {
		t.Fatal("setup: read-only with two RW replicas of three")
	}
	// every read fails on A; the reader rotation asks it first within two requests
	for i := 0; i < 4 && len(c.ListReplicas()) == 3; i++ {
		w.Script = map[string]string{"tcp://A:9502:ReadAt": "err"}
		w.ResetLog()
		n, err := c.WriteAt(make([]byte, 512), 512) // not a whole block
		if len(c.ListReplicas()) == 3 {
			continue // the read was served by the other replica first
		}
		wrote := false
		for _, call := range w.TakeCalls() {
			if len(call) > 8 && call[len(call)-8:] == ":WriteAt" {
				wrote = true
			}
		}
		if !c.ReadOnly {
			t.Fatalf("one RW replica of RF 3 left and the volume is not read-only")
		}
		if err == nil || wrote {
			t.Fatalf("the write went on after the widening read had cost the volume its quorum: n=%d err=%v calls=%v replicas=%v",
				n, err, w.TakeCalls(), c.ListReplicas())
		}
		return
	}
	t.Skip("no widening read failed (reader rotation)")
}
