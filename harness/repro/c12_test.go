//go:build verif

package repro

import (
	"os"
	"testing"

	"github.com/openebs/jiva/replica"
)

// Defect (f): Snapshot with a name already in the chain failed in linkDisk
// and the deferred cleanup unlinked the *existing* snapshot's files.
func TestC12DuplicateSnapshotNameKeepsChain(t *testing.T) {
	dir, _ := os.MkdirTemp("/var/tmp", "jv-c12-")
	defer os.RemoveAll(dir)
	s := newServer(t, dir, 4)
	s.WriteAt(fill(0x10, 1), 0)
	if err := s.Snapshot("s1", true, "t"); err != nil {
		t.Fatal(err)
	}
	s.WriteAt(fill(0x20, 1), 0)
	if err := s.Snapshot("s1", true, "t"); err == nil {
		t.Fatal("duplicate snapshot name accepted")
	}
	for _, f := range []string{"volume-snap-s1.img", "volume-snap-s1.img.meta"} {
		if _, err := os.Stat(dir + "/" + f); err != nil {
			t.Fatalf("refused snapshot removed %s: %v", f, err)
		}
	}
	s.Replica().VerifSyncDrainer()
	s.Close()
	s2 := replica.NewServer("127.0.0.1:9502", dir, 512, "")
	if err := s2.Open(); err != nil {
		t.Fatalf("reopen after refused snapshot: %v", err)
	}
	s2.Replica().VerifSyncDrainer()
	s2.Close()
}
