//go:build verif

package repro

import (
	"bytes"
	"os"
	"testing"
)

// Defect (p): Replica.WriteAt applied the data and only then looked at the
// mode, so a write arriving while the replica was open but neither RW nor WO
// (mode INIT, e.g. right after Open) changed the volume and returned an error.
func TestC17WriteInInitModeChangesNothing(t *testing.T) {
	dir, _ := os.MkdirTemp("/var/tmp", "jv-c17-")
	defer os.RemoveAll(dir)
	s := newServer(t, dir, 4) // leaves the replica RW
	s.WriteAt(fill(0x10, 1), 0)
	s.Close()
	if err := s.Open(); err != nil { // mode is INIT again
		t.Fatal(err)
	}
	s.Replica().VerifSyncDrainer()
	if _, err := s.WriteAt(fill(0x77, 1), 0); err == nil {
		t.Fatal("write accepted in mode INIT")
	}
	buf := make([]byte, blk)
	s.ReadAt(buf, 0)
	s.Close()
	if !bytes.Equal(buf, fill(0x10, 1)) {
		t.Fatalf("refused write changed the data: block 0 now %x", buf[0])
	}
}
