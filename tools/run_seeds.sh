#!/bin/bash
# usage: run_seeds.sh [ID...]  -- applies each seeded change to /repo, runs the quick check of the
# property it breaks, undoes it; prints which checks report a violation
cd /verif
IDS=${@:-$(ls seeded)}
for id in $IDS; do
  prop=$(python3 -c "import json;print(json.load(open('seeded/$id/meta.json'))['breaks_property'])")
  if ! grep -q "\"property_id\": \"$prop\"" MANIFEST.json; then echo "$id: property $prop has no check yet"; continue; fi
  git -C /repo apply /verif/seeded/$id/patch.diff || { echo "$id: patch does not apply"; continue; }
  cp evidence/$prop.json /tmp/evidence-$prop.json.keep 2>/dev/null
  out=$(bin/check $prop 2>&1); rc=$?
  git -C /repo checkout -- .
  # the evidence of a run against a seeded tree must not replace the evidence of the unchanged tree
  cp /tmp/evidence-$prop.json.keep evidence/$prop.json 2>/dev/null; rm -f /tmp/evidence-$prop.json.keep
  echo "$id -> check $prop rc=$rc :: $(echo "$out" | grep -c '^VIOLATION') violation line(s); $(echo "$out" | grep '^VIOLATION' | head -1)"
done
git -C /repo status --short
# the engines in .build/bin were built from the seeded tree last: rebuild them from the restored tree
export GOFLAGS=-mod=mod GOPROXY=off GOSUMDB=off GOTOOLCHAIN=local
(cd /verif/harness && for e in cmd/*; do t=verif; [ $(basename $e) = replicadiff ] && t=verif,debug; go build -tags $t -o ../.build/bin/$(basename $e) ./$e; done)
(cd /verif/extract && go run . -repo /repo -out ../lean/JivaVerif/Generated >/dev/null)
