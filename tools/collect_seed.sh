#!/bin/bash
# usage: collect_seed.sh <ID> [<seedname>]   -- verifies a sub-agent's seeded change in its worktree and stores it under /verif/seeded/<seedname>
set -u
ID=$1; NAME=${2:-$1}; WT=/tmp/wt-$ID; OUT=/verif/seeded/$NAME
export GOFLAGS=-mod=mod GOPROXY=off GOSUMDB=off GOTOOLCHAIN=local
cd $WT || exit 2
CMD=$(grep -v '^#' seeded/demo_cmd.txt | grep 'go ' | tail -1)
echo "demo cmd: $CMD"
mkdir -p $OUT
( go build ./... && go test -vet=off -count=1 ./util/... ) > $OUT/build_and_tests.log 2>&1; BT=$?
timeout 300 bash -c "$CMD" > $OUT/demo_with_change.log 2>&1; W=$?
git apply -R seeded/patch.diff || { echo "cannot reverse patch"; exit 3; }
timeout 300 bash -c "$CMD" > $OUT/demo_without_change.log 2>&1; WO=$?
git apply seeded/patch.diff
cp seeded/patch.diff $OUT/patch.diff
cp seeded/notes.md $OUT/notes.md 2>/dev/null
echo "$CMD" > $OUT/demo_cmd.txt
mkdir -p $OUT/demo
git status --porcelain | grep '^??' | awk '{print $2}' | grep -v '^seeded/' | while read f; do mkdir -p $OUT/demo/$(dirname $f); cp -r $f $OUT/demo/$f; done
# a demonstration the sub-agent put under seeded/ itself (anything but the four deliverable files)
for f in $(ls seeded | grep -v -e '^patch.diff$' -e '^notes.md$' -e '^demo_cmd.txt$'); do mkdir -p $OUT/demo/seeded; cp -r seeded/$f $OUT/demo/seeded/; done
echo "build+tests=$BT with_change=$W without_change=$WO"
