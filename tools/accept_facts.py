#!/usr/bin/env python3
"""Accept the facts currently extracted from /repo as the expected ones (run after reviewing a
source change that is known to preserve the properties).  Writes lean/JivaVerif/Expected.lean and
lean/expected_facts.json."""
import hashlib, json, os, re, subprocess, sys
ROOT = os.path.dirname(os.path.dirname(os.path.abspath(__file__)))
gen = os.path.join(ROOT, "lean", "JivaVerif", "Generated")
env = dict(os.environ, GOFLAGS="-mod=mod", GOPROXY="off", GOSUMDB="off", GOTOOLCHAIN="local")
os.makedirs(gen, exist_ok=True)
subprocess.check_call(["go", "run", ".", "-repo", "/repo", "-out", gen], cwd=os.path.join(ROOT, "extract"), env=env)
facts = json.load(open(os.path.join(gen, "facts.json")))
json.dump(facts, open(os.path.join(ROOT, "lean", "expected_facts.json"), "w"), indent=1, sort_keys=True)
src = open(os.path.join(gen, "Facts.lean")).read()
m = re.search(r"def factDigests.*?\n  \[(.*?)\]\n", src, re.S)
out = "/- Expected digests of the statement facts: accepted by tools/accept_facts.py from a tree on which\n   the properties were established.  `Tie.lean` proves the regenerated digests equal to these. -/\nnamespace Jiva.Expected\n\ndef factDigests : List (String × String) :=\n  [" + m.group(1) + "]\n\nend Jiva.Expected\n"
open(os.path.join(ROOT, "lean", "JivaVerif", "Expected.lean"), "w").write(out)
print("accepted", len(facts), "facts")
