#!/usr/bin/env python3
"""Regenerates MANIFEST.json from bin/registry.py + tools/manifest_meta.json."""
import json, os, sys
ROOT = os.path.dirname(os.path.dirname(os.path.abspath(__file__)))
sys.path.insert(0, os.path.join(ROOT, "bin"))
from registry import PROPS
meta = json.load(open(os.path.join(ROOT, "tools", "manifest_meta.json")))
props = [json.loads(l)["id"] for l in open(os.path.join(ROOT, "properties.jsonl"))]
checks = []
for pid in props:
    if pid not in PROPS:
        continue
    m = meta["checks"][pid]
    checks.append({
        "property_id": pid,
        "quick_cmd": f"bin/check {pid} --tier quick",
        "thorough_cmd": f"bin/check {pid} --tier thorough",
        "evidence_file": f"/verif/evidence/{pid}.json",
        "replay_cmd_template": f"bin/check {pid} --replay {{path}}",
        "engine": ",".join(sorted({r["engine"] for r in PROPS[pid]["runs"]})),
        "level_claimed": {"category": m.get("category", "proof"), "text": m["text"], "design_ref": m.get("design_ref", "DESIGN.md §5 " + pid)},
        "level_note": m["note"],
        "technique": m["technique"],
    })
na = [{"property_id": p, "reason": meta["not_applicable"].get(p, "no check built yet in this round; planned, see DESIGN.md §5")} for p in props if p not in PROPS]
man = {
    "version": 1,
    "setup_cmd": "bin/setup",
    "hooks": {"guard": "verif", "enable": "go build -tags verif (harness module replaces github.com/openebs/jiva => /repo)",
              "baseline_off_cmd": "cd /repo && GOFLAGS=-mod=mod go build ./... && GOFLAGS=-mod=mod go test -vet=off -count=1 ./util/...",
              "source_commits": meta["hook_commits"], "add_only": True},
    "engines": meta["engines"],
    "checks": checks,
    "not_applicable": na,
    "notes": meta["notes"],
}
json.dump(man, open(os.path.join(ROOT, "MANIFEST.json"), "w"), indent=1)
print("checks:", [c["property_id"] for c in checks], "not_applicable:", [n["property_id"] for n in na])
