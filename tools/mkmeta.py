#!/usr/bin/env python3
"""usage: mkmeta.py <seed> <property> <needs_to_manifest...>  -- writes seeded/<seed>/meta.json after collect_seed.sh"""
import json, os, sys
seed, prop, needs = sys.argv[1], sys.argv[2], " ".join(sys.argv[3:])
d = os.path.join(os.path.dirname(os.path.dirname(os.path.abspath(__file__))), "seeded", seed)
cmd = open(os.path.join(d, "demo_cmd.txt")).read().strip()
def rc(log, want_fail):
    t = open(os.path.join(d, log)).read()
    failed = ("FAIL" in t) or ("panic:" in t)
    return failed if want_fail else not failed
meta = {"id": seed, "breaks_property": prop, "needs_to_manifest": needs,
  "produced_by": "independent sub-agent given only the property text and its own scratch worktree of /repo",
  "confirmed": {"build_and_stable_tests_pass_with_change": "ok" in open(os.path.join(d, "build_and_tests.log")).read(),
     "demo_fails_with_change": rc("demo_with_change.log", True), "demo_passes_without_change": rc("demo_without_change.log", False),
     "how": "tools/collect_seed.sh: go build ./... && go test ./util/... with the patch; demo_cmd with the patch (expect FAIL); git apply -R patch; demo_cmd (expect PASS)"},
  "demo_cmd": "export GOFLAGS=-mod=mod GOPROXY=off GOSUMDB=off GOTOOLCHAIN=local; " + cmd,
  "files": {"patch": "patch.diff", "demo": "demo/", "notes": "notes.md", "logs": ["demo_with_change.log", "demo_without_change.log", "build_and_tests.log"]}}
json.dump(meta, open(os.path.join(d, "meta.json"), "w"), indent=1)
print(seed, meta["confirmed"])
