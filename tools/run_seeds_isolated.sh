#!/bin/bash
# usage: run_seeds_isolated.sh <seed>...   -- like run_seeds.sh, but on private copies of /repo and /verif bind-mounted
# over the real paths in a mount namespace of its own, so that it can run beside other checks (which read /repo)
set -u
R=/var/tmp/seedns-repo-$$; V=/var/tmp/seedns-verif-$$
rm -rf $R $V
cp -a /repo $R && rsync -a --exclude replays --exclude .build /verif/ $V/ || exit 2
unshare -m bash -c "mount --bind $R /repo && mount --bind $V /verif && cd /verif && tools/run_seeds.sh $*"
rc=$?
mkdir -p /verif/replays/seed-runs && cp -r $V/replays/. /verif/replays/seed-runs/ 2>/dev/null
rm -rf $R $V
exit $rc
