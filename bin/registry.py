"""Registry: which Lean modules and which correspondence runs serve each property."""

ENGINES = ["replicadiff", "ctldiff", "rpcdiff", "restdiff", "crashdiff"]

FS = ["modelled: the file system is a sparse block map per file (pwrite of whole 4 KiB blocks, fallocate PUNCH_HOLE, holes read zero, FIEMAP reports exactly the allocated blocks)",
      "modelled: sparse.FoldFile (sfold) copies exactly the allocated blocks of the child onto the parent (third-party; exercised in-process by the harness)",
      "modelled: hole-punch requests are compared per (file, block); the reclaimer is an environment step scheduled by the harness; it is not scheduled between the fold and the unlink of the same snapshot, and requests queued on a replica object are dropped when that object is replaced (reload / revert)",
      "not covered: data races on unsynchronised fields (diffDisk.location under RLock, types.DrainOps), sub-512-byte I/O"]


def rep(profile, qn, ql, tn, tl, salt=0):
    return {"engine": "replicadiff", "profile": profile, "salt": salt,
            "quick": {"n": qn, "len": ql}, "thorough": {"n": tn, "len": tl, "timeout": 3000}}


PROPS = {
    "C01": {"lean": ["JivaVerif.Properties.C01"],
            "runs": [rep("io", 160, 30, 4000, 45), rep("mix", 96, 30, 3000, 45, 1)], "modelled": FS},
    "C06": {"lean": ["JivaVerif.Properties.C06"],
            "runs": [rep("snapshots", 192, 32, 5000, 45, 2)], "modelled": FS},
    "C10": {"lean": ["JivaVerif.Properties.C10"],
            "runs": [rep("counter", 160, 30, 3000, 45, 3)], "modelled": FS + [
                "modelled: the counter file is one 4 KiB O_DIRECT block rewritten by a single pwrite under revisionLock; concurrent writers are one atomic step each"]},
    "C11": {"lean": ["JivaVerif.Properties.C11"],
            "runs": [rep("delete", 192, 36, 5000, 50, 4)], "modelled": FS},
    "C16": {"lean": ["JivaVerif.Properties.C16"],
            "runs": [rep("resize", 160, 30, 3000, 45, 5)], "modelled": FS},
}
