"""Registry: which Lean modules and which correspondence runs serve each property."""

# T1: which regenerated facts each property's argument rests on (see extract/main.go, lean/JivaVerif/Tie.lean)
FACTS_FOR = {
    "C01": ["widenForWO", "writeWidensForWO", "ioRefusedWriteAt", "ioRefusedReadAt", "lookupBody", "removeIndexShifts", "removeIndexBody"],
    "C02": ["locks_WriteAt", "locks_Sync", "locks_Unmap", "mwWriteOk", "mwSyncOk", "mwUnmapOk", "mwWriteReturns", "handleErrorNoLock", "errorAttributionWriteAt",
            "errorAttributionSync", "errorAttributionUnmap", "buildReadWriters", "removeBackendTail", "removeReplicaTail"],
    "C03": ["locks_WriteAt", "locks_Sync", "locks_Unmap", "locks_SetReplicaMode", "locks_RemoveReplica", "locks_monitoring", "volStatusRW", "volStatusCounts", "setModeReevaluates", "removeReplicaTail"],
    "C04": ["locks_ReadAt", "buildReadWriters", "errorAttributionReadAt", "handleErrorNoLock", "startLoops", "startOneOrder"],
    "C05": ["locks_WriteAt", "locks_ReadAt", "locks_monitoring", "mwWriteOk", "mwSyncOk", "mwUnmapOk", "handleErrorNoLock", "errorAttributionWriteAt", "errorAttributionSync",
            "errorAttributionUnmap", "errorAttributionReadAt", "removeBackendTail", "removeReplicaTail"],
    "C06": ["fullWritePunch", "preloadPunch", "removeIndexSnapIndx", "lookupBody"],
    "C07": ["locks_VerifyRebuildReplica", "locks_addReplica", "verifyOrder", "verifyChainGuard", "verifySlices", "canAdd", "addReplicaNoLockRechecks", "addReplicaOrder", "writeWidensForWO", "widenForWO", "syncCheckpointCut", "syncAddOrder", "syncVerifyOrder"],
    "C09": ["locks_RegisterReplica", "locks_Start", "canSignal", "electionLoop", "electionInit", "electionSkipsRebuildingRegistrant", "startLoops", "startOneOrder", "syncAddOrder", "syncVerifyOrder", "mwWriteOk"],
    "C10": ["replicaWriteCounter", "increaseRevisionCounter", "getRevisionCounter", "guard_Replica_SetRevisionCounter", "verifyOrder"],
    "C11": ["cleanerActionLoop", "cleanerPreconditions", "cleanerConds", "cleanerSlices", "removeIndexShifts", "removeIndexBody", "removeIndexSnapIndx",
            "guard_Replica_PrepareRemoveDisk", "guard_Replica_RemoveDiffDisk", "clientFileOpExit"],
    "C12": ["order_RemoveDiffDisk", "order_ReplaceDisk", "createDiskDupGuard", "chainTooLong", "liveChainTooLong", "guard_Replica_RemoveDiffDisk", "guard_Replica_PrepareRemoveDisk", "removeDiskNodeTail"],
    "C13": ["locks_Snapshot", "locks_RemoveReplica", "locks_Revert", "snapshotRefusal", "checkpointCond", "checkpointBody", "removeReplicaTail"],
    "C14": ["actionsGated", "checkAction", "replicaActions", "routedActions", "verifyChainGuard", "verifySlices"],
    "C15": ["wireWrite", "wireRead", "wireMagicCheck"],
    "C16": ["locks_Resize", "guard_Replica_Resize", "guard_Server_Resize"],
    "C17": ["replicaWriteModeBeforeData", "replicaActions", "routedActions", "actionsGated", "checkAction",
            "guard_Replica_RemoveDiffDisk", "guard_Replica_ReplaceDisk", "guard_Replica_PrepareRemoveDisk",
            "guard_Replica_SetRevisionCounter", "guard_Replica_WriteAt", "guard_Server_Open", "guard_Server_WriteAt",
            "guard_Server_ReadAt", "guard_Server_Sync", "guard_Server_Unmap", "guard_Server_Snapshot",
            "guard_Server_RemoveDiffDisk", "guard_Server_ReplaceDisk", "guard_Server_PrepareRemoveDisk", "guard_Server_Revert",
            "guard_Server_SetReplicaMode", "guard_Server_SetRevisionCounter", "guard_Server_SetCheckpoint", "guard_Server_Reload"],
    "C08": ["order_RemoveDiffDisk", "order_ReplaceDisk", "createDiskVolMetaFailure", "revertDiskVolMetaFailure"],
    "C19": ["startOneOrder", "cloneReplicaOrder", "appCloneOrder", "cloneStatusOrder", "cloneStatusLoop", "updateCloneInfo", "cloneRestartCond"],
    "C18": ["locks_addReplica", "locks_RemoveReplica", "locks_SetReplicaMode", "locks_Start", "startOverRF", "startGuardBeforeReset", "startLoops", "buildReadWriters", "removeBackendTail", "canAdd", "addReplicaNoLockRechecks", "addReplicaOrder", "removeReplicaTail", "volStatusCounts"],
}

ENGINES = ["replicadiff", "ctldiff", "rpcdiff", "restdiff", "crashdiff", "clusterdiff"]

FS = ["modelled: the file system is a sparse block map per file (pwrite of whole 4 KiB blocks, fallocate PUNCH_HOLE, holes read zero, FIEMAP reports exactly the allocated blocks)",
      "modelled: sparse.FoldFile (sfold) copies exactly the allocated blocks of the child onto the parent (third-party; exercised in-process by the harness)",
      "modelled: hole-punch requests are compared per (file, block); the reclaimer is an environment step scheduled by the harness; it is not scheduled between the fold and the unlink of the same snapshot, and requests queued on a replica object are dropped when that object is replaced (reload / revert)",
      "not covered: data races on unsynchronised fields (diffDisk.location under RLock, types.DrainOps), sub-512-byte I/O"]


def rep(profile, qn, ql, tn, tl, salt=0):
    return {"engine": "replicadiff", "profile": profile, "salt": salt,
            "quick": {"n": qn, "len": ql}, "thorough": {"n": tn, "len": tl, "timeout": 3000}}


CTL = ["modelled: every environment answer (replica replies, start signal, liveness probe, map iteration order where it matters) is part of the request; theorems quantify over all of them",
       "modelled: quorum (updater) replicas are not modelled (quorumReplicaCount = 0); Start carries any number of addresses (REST start with a replica list), each with its own answers",
       "modelled: goroutine fan-out inside MultiWriterAt / Snapshot / Resize is replaced by its wg.Wait() summary; each request is one step because the code holds Controller.Lock across it — except AddReplica, which releases the lock around factory.Create and is modelled as its two critical sections (addPre / addPost) that interleave freely with every other request; the harness holds the real call inside Create with a gate in the scripted factory",
       "harness: real controller.Controller driven in-process with scripted types.BackendFactory / Backend / Frontend and HTTP replica endpoints on 127.x.y.z:9502; monitor goroutines are fired by the harness",
       "not covered: timers (ping ticker, 1 s read-only delay), data races, the vendored iSCSI frontend"]


def ctl(profile, qn, ql, tn, tl, salt=0):
    return {"engine": "ctldiff", "profile": profile, "salt": salt,
            "quick": {"n": qn, "len": ql}, "thorough": {"n": tn, "len": tl, "timeout": 3000}}


CTLMOD = ["JivaVerif.Properties.Controller"]

PROPS = {
    "C02": {"lean": CTLMOD + ["JivaVerif.Properties.C02Hist"], "prefixes": ["c02_", "c18_removed_silent", "ctl_reachable_inv", "removeAll_gone", "hinv_", "fanOut_ok_applied", "write_ok_applied"],
            "runs": [ctl("faults", 640, 30, 12000, 40, 11),
                     # 'applied' is what a replica ANSWERS: a write whose file-system call fails must be answered with an
                     # error (and one that is answered with success must be on disk) — the replica level of C02
                     {"engine": "crashdiff", "profile": "write", "salt": 42, "workers": 16, "split": False,
                      "quick": {"n": 2, "len": 0, "timeout": 600}, "thorough": {"n": 8, "len": 0, "timeout": 3000}}],
            "modelled": CTL + ["replica level: crashdiff (profile write) makes every file-system call of a data write fail in turn (and kills the process at each) on the real replica: a write the replica reports as applied is on disk, a write whose call failed is reported as failed"]},
    "C03": {"lean": CTLMOD, "prefixes": ["c03_", "ctl_reachable_inv", "stepWrite_fanOut", "readCalls_readOnly"],
            "runs": [ctl("membership", 480, 30, 9000, 40, 12)], "modelled": CTL},
    "C04": {"lean": CTLMOD + ["JivaVerif.Properties.C10Cluster"], "prefixes": ["c04_", "c18_consistent", "c09_start_fences_stale", "ctl_reachable_inv"],
            "runs": [ctl("reads", 480, 30, 9000, 40, 13),
                     {"engine": "clusterdiff", "profile": "healthy", "salt": 76, "quick": {"n": 96, "len": 40, "timeout": 900}, "thorough": {"n": 2000, "len": 50, "timeout": 3000}}],
            "modelled": CTL + ["volume level ('a successful read always reflects every acknowledged write'): c04_rw_replicas_hold_epoch_acks over the whole-volume model — ANY history, no hypothesis: every RW replica holds every write acknowledged since the volume was last started (for earlier ones: c09_restart_serves_acked); tie: clusterdiff compares what every directory holds after every step and checks the statement itself on the implementation side"]},
    "C05": {"lean": CTLMOD + ["JivaVerif.Properties.C02Hist", "JivaVerif.Properties.C10Cluster"], "prefixes": ["c05_", "c02_failed_detached", "c02_in_service_holds_acked", "c18_removed_silent", "ctl_reachable_inv"],
            "runs": [ctl("faults", 640, 30, 12000, 40, 14), dict(rep("rebuild", 160, 30, 1500, 40, 48), **{"thorough": {"n": 1500, "len": 40, "timeout": 6000}})], "modelled": CTL + [
                "integration: in the replicadiff rebuild profile one of three real RW replicas is killed (REST endpoint 503, data connections cut) behind the real remote backend / RPC client / monitoring; the write that follows must be acknowledged, the dead replica must leave the controller's list, and the survivors' images stay equal (requests killq, cmp)",
                "partial: that the detector fires (ping ticker, RPC deadline, TCP close) is runtime behaviour; the model takes 'the monitor fires' / 'the call returns an error' as events"]},
    "C08": {"lean": ["JivaVerif.Properties.C08", "JivaVerif.Properties.C08Fail", "JivaVerif.Properties.C08Data", "JivaVerif.Properties.C12"], "prefixes": ["c08_", "c12_reopen", "recovers_untouched", "encode_effect", "flow_ge", "flow_cases", "old_survives_"],
            "runs": [{"engine": "crashdiff", "profile": "all", "salt": 41, "workers": 16, "split": False,
                      "quick": {"n": 2, "len": 0, "timeout": 600}, "thorough": {"n": 24, "len": 0, "timeout": 6000}}],
            "modelled": ["proved (Lean, Model/Crash.lean): the metadata protocol of snapshot creation, snapshot removal and revert as the sequence of file-system calls the code issues; for EVERY prefix of that sequence (process death at any call boundary) the directory recovers to the chain before or the chain after, every member keeping its inode; every other metadata change is one encodeToFile, whose every prefix leaves the old or the new content; each program ends with a directory flush",
                         "tie of the call sequences: crashdiff renders the strace trace of the real operation (mutating calls, canonical names) and compares it, call by call, with the sequence `drv crash` prints for the same pre-state",
                         "proved (Lean, Model/CrashFail.lean, Properties/C08Fail.lean): the same operations WITH their error handling as trees (every call continues one way when it succeeds, another when it fails: the deferred clean-up of createDisk, the restore of volume.meta, rmDisk stopping at its first error, the probing open, Fatalf in removeDiskNode); for EVERY position of the one failing call: createDisk reports success only with the new chain recoverable and an error only with the old chain recoverable (c08_snapshot_fault; needed fix 8f81c09), revertDisk / RemoveDiffDisk / a single encodeToFile report success only with the new state and otherwise leave the old or the new state, never anything else (c08_revert_fault, c08_remove_fault, c08_update_fault)",
                         "tie of the error handling: crashdiff makes every mutating call of the real operation fail in turn (strace fault injection, ENOSPC and EIO, fsync included) and compares the calls the real code then issues, and the result it reports, with `drv crash … fail n` (trace / flow of the trees)",
                         "proved (Properties/C08Data.lean): a torn write — ANY subset of the blocks of a request reached the head file when the process died — leaves every snapshot layer untouched, every unit outside the blocks of the request as it was, and every block of the request entirely old or entirely as the completed write leaves it (c08_torn_snapshots, c08_torn_live, c08_torn_outside); assumption: a single 4 KiB block is written atomically; crashdiff checks exactly this statement on the reopened directory after killing the real process at every call of a write",
                         "enumerated, not proved: for sampled pre-states and every management / data operation, EVERY boundary between two mutating file-system calls (strace, kill on entry of the call) and EVERY single failing call is exercised against the real replica code; the recovered directory is opened by the real code and compared with the state before and after — this is what covers the data path (an in-flight write may be partially applied, nothing else may change), the revision-counter block, and the attributes the crash model leaves out (size, flags, counters)",
                         "tie to the Lean replica model: the state after a completed operation and a reopen must be the one the model specifies (chain, attributes, counter, size, data)",
                         "assumed: kernel atomicity of a single call (rename, link, unlink, O_SYNC write of a small record); power-loss reordering is out of scope (process death + the directory-flush check)",
                         "strace counts per tracee thread: the victim runs the operation on one locked OS thread with GOMAXPROCS=1"]},
    "C09": {"lean": CTLMOD + ["JivaVerif.Properties.C09Restart"], "prefixes": ["c09_", "maxRevCount_", "ctl_reachable_inv", "inv_step", "inv_run", "countP_overlap", "legalLeader_spec"],
            "runs": [ctl("election", 480, 30, 9000, 40, 15),
                     {"engine": "clusterdiff", "profile": "healthy", "salt": 71, "quick": {"n": 320, "len": 40, "timeout": 900}, "thorough": {"n": 6000, "len": 50, "timeout": 3000}},
                     {"engine": "clusterdiff", "profile": "any", "salt": 72, "quick": {"n": 320, "len": 40, "timeout": 900}, "thorough": {"n": 6000, "len": 50, "timeout": 3000}},
                     # what the whole-volume model takes from the replica level is re-checked here as well: the counter
                     # counts applied writes and SetRevisionCounter sets it, also to a lower value (the promotion of a
                     # replica that was ahead)
                     rep("counter", 96, 30, 1500, 45, 74)],
            "modelled": CTL + [
                "partial: the replica-side registration loop (sync.AddReplica, 5 s ticker) is modelled as 'registration may repeat'",
                "the last sentence of C09 (stop and restart) is stated over the whole-volume model Model/Cluster.lean: replica directories (writes held, persisted counter, persisted rebuilding flag) under one controller whose gate, acknowledgement rule and election are the controller model's; c09_restart_serves_acked is proved for every history whose stops find a quorum of replicas RW and not rebuilding; c09_unhealthy_stop_loses_ack shows the hypothesis is needed (known finding, DESIGN 6.3)",
                "tie of the whole-volume model: clusterdiff drives the REAL controller (restarted at every stop; registration, election, Start, WriteAt with failing and failed-but-applied replicas, AddReplica, VerifyRebuildReplica, RemoveReplica) over replica stand-ins that keep the persisted state of a replica directory, and compares every step with `drv cluster`; beside that it checks on the implementation side that every replica listed RW holds every acknowledged write",
                "assumed in the whole-volume model (proved / tied at the replica level, not here): an RW replica counts each write it applies and a WO replica does not (C10), a promoted replica holds what its source holds (C07) and takes its counter (c10_promotion); the addition (attach, then SetRebuilding(true)) and the promotion (VerifyRebuildReplica, then SetRebuilding(false)) are two steps each, in the order T1 syncAddOrder / syncVerifyOrder pin"]},
    "C13": {"lean": CTLMOD + ["JivaVerif.Properties.C13Cluster"], "prefixes": ["c13_", "ctl_reachable_inv", "invS_step", "invS_run"],
            "runs": [ctl("snapshots", 480, 30, 9000, 40, 16), dict(rep("rebuild", 160, 30, 1500, 40, 38), **{"thorough": {"n": 1500, "len": 40, "timeout": 6000}}),
                     {"engine": "clusterdiff", "profile": "healthy", "salt": 75, "quick": {"n": 160, "len": 45, "timeout": 900}, "thorough": {"n": 3000, "len": 50, "timeout": 3000}},
                     # 'taken on all replicas': what a replica ANSWERS to a snapshot request must be true — a snapshot one of
                     # whose file-system calls failed is either there or reported as failed (the replica level of C13)
                     {"engine": "crashdiff", "profile": "snap", "salt": 43, "workers": 16, "split": False,
                      "quick": {"n": 2, "len": 0, "timeout": 600}, "thorough": {"n": 8, "len": 0, "timeout": 3000}}],
            "modelled": CTL + [
                "volume level ('identical content on every replica'): c13_snapshot_identical_on_all_replicas over the whole-volume model Model/Cluster.lean — for ANY history every volume snapshot a replica directory holds is the volume's content at the moment it was taken (ghost `taken`), whether the directory was attached then or got the snapshot through a rebuild; tie: clusterdiff takes user-created volume snapshots through the real Controller.Snapshot and compares, per directory, which snapshots it holds and the writes frozen in each","data half: in the rebuild profile, once all three real replicas are RW, volume snapshots are taken through the real controller between foreground writes and the chains and volume images of the three replicas are compared with each other (request cmp) and with the model"]},
    "C18": {"lean": CTLMOD + ["JivaVerif.Properties.C18Cluster"], "prefixes": ["c18_", "c07_single_wo", "ctl_reachable_inv", "run_rf", "step_rf", "invM_step", "countP_range_update"],
            "runs": [ctl("membership", 480, 30, 9000, 40, 17)], "modelled": CTL},
    "C01": {"lean": ["JivaVerif.Properties.C01"],
            "runs": [rep("io", 480, 30, 8000, 45), rep("mix", 320, 30, 6000, 45, 1),
                     dict(rep("rebuild", 96, 30, 800, 40, 58), **{"thorough": {"n": 800, "len": 40, "timeout": 6000}})],
            "modelled": FS + ["the path through the controller (range check, the widening of sub-block writes while a WO replica is attached) is exercised by the rebuild profile: real controller, real remote backend, three real replicas; every write is read back through the controller and from each replica"]},
    "C06": {"lean": ["JivaVerif.Properties.C06"],
            "runs": [rep("snapshots", 640, 32, 10000, 45, 2),
                     dict(rep("rebuild", 96, 30, 800, 40, 68), **{"thorough": {"n": 800, "len": 40, "timeout": 6000}})],
            "modelled": FS + ["'rebuild bookkeeping … leaves every retained user-created snapshot byte-identical': the rebuild profile (reload without preload, UpdateLUNMap with and without a foreground write inside its window, promotion) is run for C06 as well; snapshot images are compared after it"]},
    "C07": {"lean": ["JivaVerif.Properties.C07", "JivaVerif.Properties.Controller"],
            "prefixes": ["c07_", "sameWrites_", "c10_promotion", "ctl_reachable_inv"],
            "runs": [dict(rep("rebuild", 320, 30, 2000, 40, 8), **{"thorough": {"n": 2000, "len": 40, "timeout": 6000}}), ctl("membership", 320, 30, 6000, 40, 18),
                     dict(rep("rebuildreal", 16, 25, 192, 30, 28), **{"quick": {"n": 16, "len": 25, "timeout": 900}, "thorough": {"n": 192, "len": 30, "timeout": 6000}})],
            "modelled": FS + CTL + [
                "harness (rebuild profile): a REAL controller with the REAL remote backend drives three REAL replicas behind their REST and RPC servers on loopback addresses (harness/stack); the harness plays the sync agent only: it copies the source's snapshot files (holes preserved) and head metadata under the newcomer, reloads it without preload and calls UpdateLUNMap, as sync.syncFiles / reloadAndVerify do",
                "profile rebuildreal: the WHOLE procedure is run by the real sync.Task.AddReplica against the real controller REST server — registration check, CreateReplica, SetRebuilding, PrepareRebuild (head metadata transfer), the chain / counter comparison, syncFiles with the real sync agents and ssync child processes, ReloadReplica, SyncDir, UpdateLUNMap, VerifyRebuildReplica, SetRebuilding(false); the harness only holds three of its REST requests (preparerebuild, the response of reload, verifyrebuild) to place foreground writes in between; profile rebuild (25 times faster) replaces the transfer by a sparse copy and calls Reload / UpdateLUNMap / VerifyRebuildReplica itself in the order of sync.reloadAndVerify",
                "an interrupted transfer is covered only as far as the controller's gate goes (c07_gate: no promotion without equal chains; the replica stays WO / is dropped)",
                "modelled: the rebuilt replica's image is computed by the model from the source's state (c07_identical / c07_rebuild justify this); crash points of the rebuilding or source process are not enumerated here (C08 covers the replica directory, C02/C05 the controller's reaction)"]},
    "C19": {"lean": ["JivaVerif.Properties.C19"], "prefixes": ["c19_"],
            "runs": [dict(rep("clone", 32, 26, 800, 32, 9), **{"quick": {"n": 32, "len": 26, "timeout": 900}, "thorough": {"n": 800, "len": 32, "timeout": 6000}})],
            "modelled": FS + [
                "harness (clone profile): after a generated history on the source replica a replica of a NEW volume is started as a clone of one of its snapshots with the real code end to end: real clone replica behind REST/RPC/sync-agent endpoints, real controller of the new volume (real remote backend) whose Start opens the replica and polls the clone status, app.CloneReplica -> sync.Task.CloneReplica with the real sync agents and ssync as child processes (re-exec of the harness binary, as main.go does); the source volume's controller is a stub answering GET /v1/replicas; the lines of app.startReplica around the call (status inProgress before, error on failure) are repeated by the harness and pinned by the T1 fact cloneStatusOrder",
                "observed: final clone status, how the new controller lists the replica, that it never lists it RW before the status says completed (sampled every 2 ms), chain, revision counter, and the image read through the new controller; compared with the model (image = view of the snapshot, counter = the one recorded in the snapshot's metadata, which the model now tracks through snapshot / delete / revert / reopen)",
                "modelled: the polling loop of addReplicaDuringStartNoLock by the status it ends on (T1 fact cloneStatusLoop pins the loop conditions); two failures are exercised: 'snapshot not found', and a transfer cut in the middle (request 'clone <snap> fault': the sender of the first snapshot data file, the real ssync run as a child, delivers only the first half and exits with an error; the model answers that such a clone fails: status error, never listed RW); a crash of the source or clone process during the copy is not injected"]},
    "C10": {"lean": ["JivaVerif.Properties.C10", "JivaVerif.Properties.C10Cluster"],
            "runs": [rep("counter", 320, 30, 5000, 45, 3),
                     {"engine": "clusterdiff", "profile": "healthy", "salt": 73, "quick": {"n": 160, "len": 40, "timeout": 900}, "thorough": {"n": 3000, "len": 50, "timeout": 3000}},
                     # 'does not change for writes applied while rebuilding … set equal to the source's when promoted': the
                     # rebuild on the real stack, incl. a write between the promotion and the replica's SetRebuilding(false)
                     dict(rep("rebuild", 96, 30, 800, 40, 78), **{"thorough": {"n": 800, "len": 40, "timeout": 6000}}),
                     # the controller's half of the promotion (the count is read and given under ONE hold of the lock:
                     # a write arriving meanwhile is served afterwards and counted by the promoted replica too)
                     ctl("membership", 320, 30, 6000, 40, 79)],
            "modelled": FS + [
                "volume level ('all RW replicas of a volume report the same count'): c10_rw_replicas_agree over the whole-volume model Model/Cluster.lean, for ANY history incl. stops in any state; tie: clusterdiff (the real controller over replica stand-ins that count like the replica model: +1 per write applied while RW, SetRevisionCounter at promotion) compares every directory's counter after every step",
                "modelled: the counter file is one 4 KiB O_DIRECT block rewritten by a single pwrite under revisionLock; concurrent writers are one atomic step each"]},
    "C11": {"lean": ["JivaVerif.Properties.C11"],
            "runs": [rep("delete", 640, 36, 10000, 50, 4),
                     dict(rep("cleaner", 16, 18, 48, 22, 44), **{"search_for": ["cleanerActionLoop", "cleanerPreconditions", "cleanerConds", "cleanerSlices", "clientFileOpExit"],
                                                              "quick": {"n": 16, "len": 18, "timeout": 600}, "thorough": {"n": 48, "len": 22, "timeout": 1200}})],
            "modelled": FS + ["profile cleaner (thorough tier; in the quick tier only as the search for a failing input when one of the cleaner's T1 facts no longer checks — one run takes a minute because sync.SnapshotDeletionInterval is a constant): the REAL sync.Task.InternalSnapshotCleaner runs one tick against the replica — a controller endpoint reporting the checkpoint, the real sync agent with the real sfold child for the coalesce step, which is made to fail in half of the runs; which snapshot it picked, the chain, flags, data and snapshot images afterwards are compared with the model (pick legal, mark / fold / unlink, or only the mark when the fold failed)"]},
    "C12": {"lean": ["JivaVerif.Properties.C12"],
            "runs": [rep("mgmt", 480, 32, 6000, 45, 6),
                     {"engine": "crashdiff", "profile": "all", "salt": 42, "workers": 16, "split": False, "search_for": ["order_RemoveDiffDisk", "order_ReplaceDisk", "createDiskDupGuard"],
                      "quick": {"n": 2, "len": 0, "timeout": 600}, "thorough": {"n": 6, "len": 0, "timeout": 3000}}],
            "modelled": FS + [
                "the clause 'a failed operation leaves the chain as it was' under process death / a failing file-system call is C08's (crash model, crashdiff); crashdiff also runs for C12 in the thorough tier, and in the quick tier as the search for a failing input when the order of re-linking and unlinking in RemoveDiffDisk / ReplaceDisk (T1) no longer checks",
                "modelled: one copy of the chain metadata; that the *.meta files and the in-memory tables stay equal is checked by the correspondence runs (chain, attributes, data after every request and after reopen), not proved"]},
    "C17": {"lean": ["JivaVerif.Properties.C17", "JivaVerif.Properties.Rest"],
            "runs": [rep("modes", 480, 32, 6000, 45, 7),
                     {"engine": "restdiff", "profile": "replica", "salt": 32, "workers": 8, "split": False,
                      "quick": {"n": 0, "len": 0}, "thorough": {"n": 3000, "len": 0, "timeout": 3000}}],
            "modelled": FS + ["the REST action table is regenerated from replica/rest/model.go on every run (T1) and every (state, action) pair is sent to the real router (restdiff): 404 iff the model says gated"]},
    "C14": {"lean": ["JivaVerif.Properties.Rest", "JivaVerif.Properties.C14"], "prefixes": ["c14_", "c17_rest_gate", "c17_error_offers_nothing"],
            "explain": ["locks"],
            "level": "exploration",
            "runs": [{"engine": "restdiff", "profile": "all", "salt": 31, "workers": 8, "split": False,
                      "quick": {"n": 0, "len": 0}, "thorough": {"n": 4000, "len": 0, "timeout": 3000}}],
            "modelled": ["searched, not proved: handler panics, fatal runtime errors, deadlocks and leaked locks are looked for by sending every route x method x body class x state to the REAL routers, one request per fresh state, in child processes (a crash or hang is attributed to the request); finding nothing is not a proof",
                         "proved: the REST action gate over the regenerated action table; the chain comparison of VerifyRebuildReplica is total (no slice out of range)",
                         "proved on a model regenerated from the source on every run (extract/locks.go -> Generated/Locks.lean): for every function of the controller, the replica and their REST servers that handles a mutex, every distinct lock-event sequence along its control-flow paths (branches, loops taken zero times or once, deferred unlocks, calls of functions that take a lock) is balanced — nothing left held, nothing locked twice, nothing unlocked that is not held, no locking callee under the lock (c14_locks_balanced, evaluated by the kernel; c14_unlock_finds_held / c14_lock_finds_free / c14_nothing_held_at_exit say what acceptance means); syntactic analysis: function values and interface calls are not followed, goroutine bodies are not analysed, lock identity is by owning type",
                         "not covered: memory exhaustion by bodies larger than 1 MiB, net/http internals, handlers reached only with real sync agents (preparerebuild file transfer)"]},
    "C15": {"lean": ["JivaVerif.Properties.C15"],
            "runs": [{"engine": "rpcdiff", "profile": "mix", "salt": 21,
                      "quick": {"n": 48, "len": 150}, "thorough": {"n": 640, "len": 3000, "timeout": 3000}},
                     # '… and the failure is reported so that the replica is detached': the controller's side of a failed
                     # connection — the monitor event, with and without an error, on replicas in every mode
                     ctl("faults", 320, 30, 6000, 40, 22)],
            "modelled": ["modelled: the client loop is one goroutine; its events (request taken from the queue, frame read, transport error) are the model's steps; sequence numbers do not wrap (fewer than 2^32 requests per connection)",
                         "partial: that select/time.After fire, channel-capacity blocking (responses, closeChan), the unsynchronised read of Client.err in operation(), and requests queued at the moment the loop exits (they fail at their own deadline) are runtime behaviour outside the event model; the harness observes prompt failure with shortened deadlines (rpc/verif_hooks.go)",
                         "harness: real rpc.Wire on an in-memory conn; real rpc.Client over loopback TCP against a scripted peer"]},
    "C16": {"lean": ["JivaVerif.Properties.C16", "JivaVerif.Properties.Controller"], "prefixes": ["c16_", "ctl_reachable_inv"],
            "runs": [rep("resize", 480, 30, 6000, 45, 5), ctl("membership", 240, 30, 4000, 40, 19)],
            "modelled": FS + ["controller half: Controller.Resize (refusal of a size that is not larger; the fan-out to every replica that is not marked failed, the rebuilding one included — c16_ctl_grow_reaches_all; the error path) is the controller model's stepResize, tied by ctldiff"]},
}
