import JivaVerif.Drv.Replica
import JivaVerif.Drv.Controller
import JivaVerif.Drv.Rpc
def main (args : List String) : IO Unit := do
  match args with
  | ["replica"] => Jiva.Drv.replicaMain
  | ["ctl"] => Jiva.Drv.ctlMain
  | ["rpc"] => Jiva.Drv.rpcMain
  | _ => IO.eprintln "usage: drv replica|ctl|rpc"
