import JivaVerif.Drv.Replica
import JivaVerif.Drv.Controller
def main (args : List String) : IO Unit := do
  match args with
  | ["replica"] => Jiva.Drv.replicaMain
  | ["ctl"] => Jiva.Drv.ctlMain
  | _ => IO.eprintln "usage: drv replica|ctl"
