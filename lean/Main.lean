import JivaVerif.Drv.Replica
import JivaVerif.Drv.Controller
import JivaVerif.Drv.Rpc
import JivaVerif.Drv.Rest
import JivaVerif.Drv.Crash
import JivaVerif.Drv.Cluster
import JivaVerif.Model.Locks
import JivaVerif.Generated.Locks
def main (args : List String) : IO Unit := do
  match args with
  | ["replica"] => Jiva.Drv.replicaMain
  | ["ctl"] => Jiva.Drv.ctlMain
  | ["rpc"] => Jiva.Drv.rpcMain
  | ["rest"] => Jiva.Drv.restMain
  | ["crash"] => Jiva.Drv.crashMain
  | ["cluster"] => Jiva.Drv.clusterMain
  | ["locks"] =>
    -- the lock-event sequences the checker rejects, with the names of the locks (for the replay of C14)
    let evName := fun (k : Nat) => ["Lock", "Unlock", "RLock", "RUnlock", "call-of-a-function-that-Locks", "call-of-a-function-that-RLocks"].getD k "?"
    let off := Jiva.Locks.offenders Jiva.Gen.lockPaths
    for (f, p) in off do
      IO.println (f ++ ": " ++ " ; ".intercalate (p.map fun e => evName e.1 ++ " " ++ Jiva.Gen.lockNames.getD e.2 "?"))
    for s in Jiva.Gen.lockSkipped do IO.println ("not analysed: " ++ s)
    IO.println s!"functions={Jiva.Gen.lockPaths.length} sequences={(Jiva.Gen.lockPaths.map (·.2.length)).sum} rejected={off.length}"
  | _ => IO.eprintln "usage: drv replica|ctl|rpc|rest|crash|cluster|locks"
