import JivaVerif.Drv.Replica
def main (args : List String) : IO Unit := do
  match args with
  | ["replica"] => Jiva.Drv.replicaMain
  | _ => IO.eprintln "usage: drv replica"
