import JivaVerif.Drv.Replica
import JivaVerif.Drv.Controller
import JivaVerif.Drv.Rpc
import JivaVerif.Drv.Rest
import JivaVerif.Drv.Crash
def main (args : List String) : IO Unit := do
  match args with
  | ["replica"] => Jiva.Drv.replicaMain
  | ["ctl"] => Jiva.Drv.ctlMain
  | ["rpc"] => Jiva.Drv.rpcMain
  | ["rest"] => Jiva.Drv.restMain
  | ["crash"] => Jiva.Drv.crashMain
  | _ => IO.eprintln "usage: drv replica|ctl|rpc|rest|crash"
