import JivaVerif.Model.Cluster
import JivaVerif.Drv.Controller
/-! Line-protocol driver for the whole-volume model (`drv cluster`).

Requests: `init rf n`, `reg i | e` (`e`: the replica the election loop ended on, `-` = none),
`w fails | applied`, `add i`, `setrb i`, `promote i src`, `rbdone i`, `rm i`, `snap`, `regq`, `stop`.
Answer: result, then the observable state — which replicas are attached in which mode, and for every
directory its counter, its rebuilding flag, the writes it holds and the volume snapshots it holds — then the ghost part
(acknowledged writes, and whether this stop found the volume in good health). -/
namespace Jiva.Drv
open Jiva Cluster

def natList (s : String) : List Nat := (splitList s).filterMap (·.toNat?)

def parseClusterOp (n : Nat) (ws : List String) : Option Op :=
  match ws with
  | ["reg", i, "|", e] => do some (.reg (← i.toNat?) (← if e = "-" then some n else e.toNat?))
  | ["w", f, "|", a] => some (.write (natList f) (natList a))
  | ["add", i] => do some (.add (← i.toNat?))
  | ["setrb", i] => do some (.setrb (← i.toNat?))
  | ["promote", i, src] => do some (.promote (← i.toNat?) (← src.toNat?))
  | ["rbdone", i] => do some (.rbdone (← i.toNat?))
  | ["rm", i] => do some (.remove (← i.toNat?))
  | ["snap"] => some .snap
  | ["regq"] => some .regq
  | ["stop"] => some .stop
  | _ => none

def clusterOut : Cluster.Out → String
  | .ok => "ok" | .leader e => s!"leader {e}" | .failed => "failed" | .refused => "refused" | .envMismatch => "env-mismatch"

def showSys (s : Sys) (o : Cluster.Out) (healthy : String) : String :=
  let members := ",".intercalate (s.idx.filterMap fun i =>
    match (s.node i).att with
    | .rw => some s!"{i}:RW" | .wo => some s!"{i}:WO" | .none => none)
  let disks := ";".intercalate (s.idx.map fun i =>
    let nd := s.node i
    let snaps := ",".intercalate (nd.snaps.map fun p => s!"{p.1}={".".intercalate (p.2.map toString)}")
    s!"{nd.rev}:{if nd.rebuilding then 1 else 0}:{".".intercalate (nd.log.map toString)}:{snaps}")
  s!"{clusterOut o} up={if s.up then 1 else 0} members={members} disks={disks} acked={",".intercalate (s.acked.map toString)}{healthy}"

partial def clusterLoop (h : IO.FS.Stream) (out : IO.FS.Stream) (s : Sys) : IO Unit := do
  let line ← h.getLine
  if line.isEmpty then return ()
  let ws := (line.trimAscii.toString.splitOn " ").filter (· ≠ "")
  match ws with
  | [] => clusterLoop h out s
  | ["init", rf, n] =>
    match rf.toNat?, n.toNat? with
    | some rf, some n => out.putStrLn "ok"; clusterLoop h out (Cluster.init rf n)
    | _, _ => out.putStrLn "bad-op"; clusterLoop h out s
  | _ =>
    match parseClusterOp s.n ws with
    | some op =>
      let (s', o) := s.step op
      let healthy := if op = .stop then s!" healthy={if s.healthy then 1 else 0}" else ""
      out.putStrLn (showSys s' o healthy); clusterLoop h out s'
    | none => out.putStrLn "bad-op"; clusterLoop h out s

def clusterMain : IO Unit := do
  let out ← IO.getStdout
  clusterLoop (← IO.getStdin) out (Cluster.init 3 3)
  out.flush

end Jiva.Drv
