import JivaVerif.Model.Rpc
/-! Line-protocol driver for the RPC model. -/
namespace Jiva.Drv
open Jiva.Rpc

def hexDigit (n : Nat) : Char := "0123456789abcdef".toList.getD n '0'
def toHex (bs : List Nat) : String := String.ofList (bs.flatMap fun b => [hexDigit (b / 16), hexDigit (b % 16)])

def hexVal (c : Char) : Nat :=
  if '0' ≤ c ∧ c ≤ '9' then c.toNat - '0'.toNat
  else if 'a' ≤ c ∧ c ≤ 'f' then c.toNat - 'a'.toNat + 10 else 0

def fromHexAux : List Char → List Nat
  | a :: b :: rest => (hexVal a * 16 + hexVal b) :: fromHexAux rest
  | _ => []
def fromHex (s : String) : List Nat := if s = "-" then [] else fromHexAux s.toList

def hexOrDash (bs : List Nat) : String := if bs.isEmpty then "-" else toHex bs

def showRes : Res → String
  | .ok t z => s!"ok:{t}:{z}"
  | .err => "err"

def insNS (p : Nat × String) : List (Nat × String) → List (Nat × String)
  | [] => [p]
  | q :: qs => if p.1 ≤ q.1 then p :: q :: qs else q :: insNS p qs

def parseEv (t : String) : Option Ev :=
  if t = "e" then some .transportErr
  else if t.startsWith "q" then (t.drop 1).toString.toNat?.map .request
  else if t.startsWith "p" then
    match (t.drop 1).toString.splitOn ":" with
    | [s, ty, z] => do some (.response (← s.toNat?) (← ty.toNat?) (← z.toNat?))
    | _ => none
  else none

def rpcLine (ws : List String) : String :=
  match ws with
  | ["enc", seq, ty, off, size, d] =>
    match seq.toNat?, ty.toNat?, off.toNat?, size.toNat? with
    | some s, some t, some o, some z => "hex " ++ toHex (encode ⟨magicVersion, s, t, o, z, fromHex d⟩)
    | _, _, _, _ => "bad-op"
  | ["dec", h] =>
    match decode (fromHex h) with
    | .ok m rest => s!"ok {m.seq} {m.typ} {m.offset} {m.size} {hexOrDash m.data} rest={hexOrDash rest}"
    | .reject => "reject"
    | .short => "short"
  | "cl" :: evs =>
    match evs.mapM parseEv with
    | some es =>
      let c := Cl.init.run es
      let done := (c.done.map fun d => (d.1, showRes d.2)).foldr insNS []
      s!"done {",".intercalate (done.map fun d => s!"{d.1}={d.2}")} notified={c.notified} pending={c.pending.length}"
    | none => "bad-op"
  | _ => "bad-op"

partial def rpcLoop (h : IO.FS.Stream) (out : IO.FS.Stream) : IO Unit := do
  let line ← h.getLine
  if line.isEmpty then return ()
  let ws := (line.trimAscii.toString.splitOn " ").filter (· ≠ "")
  if ws.isEmpty then rpcLoop h out else
  out.putStrLn (rpcLine ws)
  rpcLoop h out

def rpcMain : IO Unit := do
  let out ← IO.getStdout
  rpcLoop (← IO.getStdin) out
  out.flush

end Jiva.Drv
