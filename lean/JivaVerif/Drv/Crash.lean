import JivaVerif.Model.CrashFail
/-! Driver for the crash model: prints the call sequence of an operation in the canonical form in
which `crashdiff` renders an `strace` trace of the real operation. -/
namespace Jiva.Drv
open Jiva.Crash

def keyName : Key → String
  | .vol => "volume.meta"
  | .volTmp => "volume.meta.tmp"
  | .img d => d
  | .dmeta d => d ++ ".meta"
  | .dmetaTmp d => d ++ ".meta.tmp"

def callText : Call → String
  | .create k _ => "create " ++ keyName k
  | .write k _ => "write " ++ keyName k
  | .rename a b => "rename " ++ keyName a ++ " " ++ keyName b
  | .link a b => "link " ++ keyName a ++ " " ++ keyName b
  | .unlink k => "unlink " ++ keyName k
  | .fsyncDir => "fsync ."
  | .truncate k => "truncate " ++ keyName k

def traceText (p : Prog) (f : Option Nat) : String :=
  ";".intercalate ((trace p f).map fun (c, ok) => (if ok then "" else "!") ++ callText c) ++
    " => " ++ (if (flow p f).2 then "ok" else "err")

partial def crashLoop (h : IO.FS.Stream) (out : IO.FS.Stream) : IO Unit := do
  let line ← h.getLine
  if line.isEmpty then return ()
  let ws := (line.trimAscii.toString.splitOn " ").filter (· ≠ "")
  let dash := fun (s : String) => if s = "-" then "" else s
  match ws with
  | ["snapshot", oldHead, newHead, snap, oldParent] =>
    out.putStrLn (";".intercalate ((snapshotProg oldHead newHead snap (dash oldParent) 0).map callText))
  | ["remove", name, child, parent, grand] =>
    out.putStrLn (";".intercalate ((removeProg name child parent (dash grand)).map callText))
  | ["revert", oldHead, newHead, target] =>
    out.putStrLn (";".intercalate ((revertProg oldHead newHead target 0).map callText))
  -- the same operations with one failing call: `… fail <n>` prints every call issued (the failing
  -- one marked `!`) and the result
  | ["snapshot", oldHead, newHead, snap, oldParent, "fail", n] =>
    out.putStrLn (traceText (snapshotE oldHead newHead snap (dash oldParent) 0) n.toNat?)
  | ["remove", name, child, parent, grand, "fail", n] =>
    out.putStrLn (traceText (removeE name child parent (dash grand)) n.toNat?)
  | ["revert", oldHead, newHead, target, "fail", n] =>
    out.putStrLn (traceText (revertE oldHead newHead target 0) n.toNat?)
  | _ => out.putStrLn "bad-op"
  crashLoop h out

def crashMain : IO Unit := do
  let out ← IO.getStdout
  crashLoop (← IO.getStdin) out
  out.flush

end Jiva.Drv
