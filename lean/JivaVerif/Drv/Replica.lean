import JivaVerif.Model.Replica
import JivaVerif.Model.Cleaner
/-! Line-protocol driver for the replica engine model: one request per line in, one
    observation per line out.  Runs exactly the definitions the theorems are about. -/
namespace Jiva.Drv
open Jiva

def joinNat (xs : List Nat) : String := ",".intercalate (xs.map toString)

def modeStr : Mode → String
  | .init => "INIT" | .rw => "RW" | .wo => "WO"

def parseMode : String → Option Mode
  | "RW" => some .rw | "WO" => some .wo | _ => none

def showOut : RepOut → String
  | .ok => "ok"
  | .refused => "refused"
  | .inadmissible => "inadmissible"
  | .cloned rev chain vals =>
    s!"clone ok start=ok status=completed early=ok modes=RW rev={rev} chain={",".intercalate chain} data {joinNat vals}"
  | .cloneFailed => "clone failed start=failed status=error early=ok modes="
  | .data vs => "data " ++ joinNat vs

/-- insertion sort on pairs, for a canonical rendering of the pending punch set -/
def insPair (p : Nat × Nat) : List (Nat × Nat) → List (Nat × Nat)
  | [] => [p]
  | q :: qs => if p.1 < q.1 ∨ (p.1 = q.1 ∧ p.2 ≤ q.2) then p :: q :: qs else q :: insPair p qs
def sortPairs (l : List (Nat × Nat)) : List (Nat × Nat) := l.foldr insPair []

def insStr (p : String) : List String → List String
  | [] => [p]
  | q :: qs => if p ≤ q then p :: q :: qs else q :: insStr p qs
def sortStrings (l : List String) : List String := l.foldr insStr []

def parseOp (ws : List String) : Option RepOp :=
  match ws with
  | ["w", a, b, c] => do some (.write (← a.toNat?) (← b.toNat?) (← c.toNat?))
  | ["cw", a, b] => do some (.cwrite (← a.toNat?) (← b.toNat?))
  | ["r", a, b] => do some (.read (← a.toNat?) (← b.toNat?))
  | ["snap", n, "u"] => some (.snap n true)
  | ["snap", n, "a"] => some (.snap n false)
  | ["mark", n] => some (.mark n)
  | ["coal", n] => some (.coal n)
  | ["rm", n] => some (.rm n)
  | ["revert", n] => some (.revert n)
  | ["reopen", "p"] => some (.reopen true)
  | ["reopen", "n"] => some (.reopen false)
  | ["reload", "p"] => some (.reload true)
  | ["reload", "n"] => some (.reload false)
  | ["close"] => some .close
  | ["open", "p"] => some (.open_ true)
  | ["open", "n"] => some (.open_ false)
  | ["resize", a] => do some (.resize (← a.toNat?))
  | ["punch", "1"] => some (.punch true)
  | ["punch", "0"] => some (.punch false)
  | ["apply", a, b, c] => do some (.apply (← a.toNat?) (← b.toNat?) (← c.toNat?))
  | ["drop"] => some .drop
  | ["mode", m] => do some (.setMode (← parseMode m))
  | ["setrev", a] => do some (.setRev (← a.toNat?))
  | ["setrb", "1"] => some (.setRb true)
  | ["setrb", "0"] => some (.setRb false)
  | ["ckpt", s] => some (.setCkpt s)
  | ["rbbegin", n] => some (.rbBegin n false)
  | ["rbbegin", n, "real"] => some (.rbBegin n false)    -- the whole procedure run by sync.Task.AddReplica
  | ["rbbegin", n, "stale", "real"] => some (.rbBegin n true)   -- the newcomer returns with the directory kept by `stash`
  | ["stash"] => some .stash
  | ["rbreload"] => some .rbReload
  | ["lunmap"] => some .lunmap
  | ["rbpromote"] => some .rbPromote
  | ["rbend"] => some .rbEnd
  | ["clone", n] => some (.clone n)
  | ["clone", n, "late"] => some (.clone n)     -- schedule of the status update: irrelevant to the outcome
  | ["clone", _, "fault"] => some (.clone "")   -- a transfer is cut in the middle: the clone must fail (like an unknown snapshot)
  | ["maxchain", a] => do some (.maxChainSet (← a.toNat?))
  | ["replace", t, s] => some (.replace t s)
  | _ => none

/-- observation requests do not change the state -/
def observe (r : Rep) (ws : List String) : Option String :=
  match ws with
  | ["holes"] =>
    some ("holes " ++ " ".intercalate ((sortPairs r.dd.pend).map fun p => s!"{p.1}:{p.2}"))
  | ["loc"] => if !r.isOpen then some "loc closed" else some ("loc " ++ joinNat ((List.range r.dd.nb).map r.dd.loc))
  | ["meta"] =>
    if !r.isOpen then some "meta closed" else
    let uc := (List.range (r.dd.top + 1)).map fun i => if r.dd.uc i then 1 else 0
    let rm := (List.range (r.dd.top + 1)).map fun i => if r.dd.rm i then 1 else 0
    some s!"meta top={r.dd.top} nb={r.dd.nb} uc={joinNat uc} rm={joinNat rm} chain={",".intercalate r.names} head={r.headN} rev={r.rev} mode={modeStr r.mode} open={r.isOpen} ckpt={r.ckpt}"
  | ["cmp"] =>   -- after the promotion the three RW replicas hold identical images (C02, C07)
    if r.rb = 3 then some "cmp equal" else some "inadmissible"
  | ["recs"] => if !r.isOpen then some "recs closed" else if r.recsUnknown then some "recs ?" else some ("recs " ++ joinNat r.recs)
  | ["imeta"] =>
    if !r.isOpen then some "imeta closed" else
    let marks := (List.range (r.dd.top + 1)).map fun i => if r.dd.marks i then 1 else 0
    some s!"imeta snapidx={r.dd.snapIdx} marks={joinNat marks}"
  | ["cands", n] =>
    if !r.isOpen then some "cands closed" else
    let names := (r.dd.candidates (r.indexOf n)).map fun k => r.names.getD (k - 1) "?"
    some ("cands " ++ ",".intercalate (sortStrings names))
  | ["snapimg", n] =>
    let k := r.indexOf n
    if k = 0 then some "refused"
    else some ("data " ++ joinNat ((List.range (r.dd.nb * r.dd.bs)).map fun u => r.dd.view k u))
  | ["image"] =>   -- the specification's value of the live volume (no lookup, no memoisation)
    some ("data " ++ joinNat ((List.range (r.dd.nb * r.dd.bs)).map fun u => r.dd.live u))
  | _ => none

/-- requests that may be sent while a controller is attached (between `rbbegin` and `rbend`) -/
def rbAllowed (phase : Nat) : List String :=
  -- before the swap the source's location map depends on which RW replica served the controller's
  -- widening reads, so it is not observed
  if phase = 1 then ["w", "r", "full", "rbreload", "rbend", "punch", "rbabort", "rbfinish"]
  else if phase = 5 then ["w", "r", "full", "rbend"]   -- after an interrupted rebuild
  else ["w", "r", "full", "holes", "loc", "meta", "imeta", "apply", "lunmap", "lunmapw", "rbpromote", "rbpromotew", "rbend", "cands", "punch", "cmp", "csnap", "killq", "crevert"]

partial def loop (h : IO.FS.Stream) (out : IO.FS.Stream) (r : Rep) : IO Unit := do
  let line ← h.getLine
  if line.isEmpty then return ()
  let ws := (line.trimAscii.toString.splitOn " ").filter (· ≠ "")
  match ws with
  | [] => loop h out r
  | w :: _ =>
  if r.rb ≠ 0 ∧ !(rbAllowed r.rb).contains w then do out.putStrLn "inadmissible"; loop h out r else
  match ws with
  | ["init", a, b] =>
    match a.toNat?, b.toNat? with
    | some bs, some nb => out.putStrLn "ok"; loop h out (Rep.init bs nb)
    | _, _ => out.putStrLn "bad-op"; loop h out r
  | ["killq", a, b, c] =>   -- a healthy replica dies; the write that follows is still acknowledged (2 of 3)
    match a.toNat?, b.toNat?, c.toNat? with
    | some off, some len, some tag =>
      if r.rb ≠ 3 ∨ r.qDead ∨ !r.isOpen ∨ !r.inVolume off len then do out.putStrLn "inadmissible"; loop h out r else
      let (r', o) := r.step (.write off len tag)
      out.putStrLn (showOut o ++ " reps=2"); loop h out { r' with qDead := true }
    | _, _, _ => out.putStrLn "bad-op"; loop h out r
  | ["lunmapw", a, b, c] =>   -- UpdateLUNMap with one foreground write between its preload pass and the merge
    match a.toNat?, b.toNat?, c.toNat? with
    | some off, some len, some tag =>
      if r.rb ≠ 2 ∨ !r.isOpen ∨ !r.inVolume off len then do out.putStrLn "inadmissible"; loop h out r else
      let (r1, o) := r.step (.write off len tag)
      match o with
      | .ok => do out.putStrLn "ok"; loop h out { r1 with dd := r.dd.lunmapAfter r1.dd, rb := 4 }
      | _ => do out.putStrLn "inadmissible"; loop h out r
    | _, _, _ => out.putStrLn "bad-op"; loop h out r
  | ["rbpromotew", a, b, c] =>   -- the promotion, then a foreground write before the replica cleared its rebuilding flag
    match a.toNat?, b.toNat?, c.toNat? with
    | some off, some len, some tag =>
      if r.rb ≠ 4 ∨ !r.isOpen ∨ !r.inVolume off len then do out.putStrLn "inadmissible"; loop h out r else
      let (r1, o1) := r.step .rbPromote
      let (r2, o2) := r1.step (.write off len tag)
      match o1, o2 with
      | .ok, .ok => do out.putStrLn "ok"; loop h out r2
      | _, _ => do out.putStrLn "inadmissible"; loop h out r
    | _, _, _ => out.putStrLn "bad-op"; loop h out r
  | ["shrinkb", _] =>   -- a size inside the last block below the current one: a shrink, refused, nothing changes
    do out.putStrLn "refused"; loop h out r
  | ["rbabort"] =>   -- the rebuild is interrupted before the transfer: the newcomer stays WO, never readable
    if r.rb ≠ 1 then do out.putStrLn "inadmissible"; loop h out r else
    do out.putStrLn "aborted newcomer=WO"; loop h out { r with rb := 5 }
  | ["coal", _] =>   -- the fold is a step of the deletion flow of an attached, open replica; anything else is outside the protocol
    if !r.isOpen then do out.putStrLn "inadmissible"; loop h out r else
    match parseOp ws with
    | some op => let (r', o) := r.step op; out.putStrLn (showOut o); loop h out r'
    | none => out.putStrLn "bad-op"; loop h out r
  | ["rbfinish"] =>   -- the rebuild runs to its end undisturbed; the source stays the replica under test
    if r.rb ≠ 1 then do out.putStrLn "inadmissible"; loop h out r else
    -- all three replicas are RW again: UpdateCheckpoint records the newest snapshot everywhere (as `rbPromote`)
    do out.putStrLn "finished newcomer=RW equal"
       loop h out { r with rb := 5, ckpt := match r.names.getLast? with | some n => "volume-snap-" ++ n ++ ".img" | none => "" }
  | ["crevert", n] =>   -- Controller.Revert: every RW replica reverts through its REST endpoint
    if r.rb ≠ 3 then do out.putStrLn "inadmissible"; loop h out r else
    let (r', o) := r.step (.revert n)
    out.putStrLn (showOut o); loop h out r'
  | ["csnap", n] =>   -- Controller.Snapshot while all three replicas are RW: a user snapshot on each
    if r.rb ≠ 3 ∨ r.qDead then do out.putStrLn "inadmissible"; loop h out r else
    let (r', o) := r.step (.snap n true)
    out.putStrLn (showOut o); loop h out r'
  | ["cleaner", ck, mode, picked] =>
    -- one tick of sync.Task.InternalSnapshotCleaner: the checkpoint is recorded, the cleaner picks one
    -- candidate (the smallest file — which one is the harness's observation, checked here to be a legal
    -- candidate), PrepareRemoveDisk marks it, the fold merges it into its parent and RemoveDiffDisk
    -- unlinks it; when the fold fails nothing but the mark happens.  The replica is reopened afterwards.
    if !r.isOpen ∨ r.mode ≠ .rw ∨ r.rb ≠ 0 then do out.putStrLn "refused"; loop h out r else
    let r1 := (r.step (.setCkpt ("volume-snap-" ++ ck ++ ".img"))).1
    let cands := (r.dd.candidates (r.indexOf ck)).map fun k => r.names.getD (k - 1) "?"
    let finish := fun (x : Rep) => ((x.step (.reopen true)).1.step (.setMode .rw)).1
    if picked = "-" then
      -- nothing observable changed: no candidate, or the fold failed on a candidate that had been
      -- marked removed before (the mark is all that happens then)
      if cands.isEmpty ∨ (mode = "fault" ∧ cands.any fun n => r.dd.rm (r.indexOf n)) then
        do out.putStrLn "cleaner picked=-"; loop h out (finish r1)
      else do out.putStrLn ("cleaner picked-one-of=" ++ ",".intercalate (sortStrings cands)); loop h out (finish r1)
    else if !cands.contains picked then do out.putStrLn ("cleaner not-a-candidate " ++ picked); loop h out (finish r1)
    else
      let r2 := (r1.step (.mark picked)).1
      let r3 := if mode = "fault" then r2 else ((r2.step (.coal picked)).1.step (.rm picked)).1
      do out.putStrLn ("cleaner picked=" ++ picked); loop h out (finish r3)
  | ["full"] =>
    let (r', o) := r.step (.read 0 (r.dd.nb * r.dd.bs))
    out.putStrLn (showOut o); loop h out r'
  | _ =>
    match observe r ws with
    | some s => out.putStrLn s; loop h out r
    | none =>
      match parseOp ws with
      | some op =>
        let (r', o) := r.step op
        out.putStrLn (showOut o); loop h out r'
      | none => out.putStrLn "bad-op"; loop h out r

def replicaMain : IO Unit := do
  let out ← IO.getStdout
  loop (← IO.getStdin) out (Rep.init 8 8)
  out.flush

end Jiva.Drv
