import JivaVerif.Model.Rest
namespace Jiva.Drv
partial def restLoop (h : IO.FS.Stream) (out : IO.FS.Stream) : IO Unit := do
  let line ← h.getLine
  if line.isEmpty then return ()
  match (line.trimAscii.toString.splitOn " ").filter (· ≠ "") with
  | [st, a] => out.putStrLn (if Jiva.Rest.served st a then "served"
                              else if Jiva.Gen.routedActions.contains a then "gated" else "unrouted")
  | _ => out.putStrLn "bad-op"
  restLoop h out
def restMain : IO Unit := do
  let out ← IO.getStdout
  restLoop (← IO.getStdin) out
  out.flush
end Jiva.Drv
