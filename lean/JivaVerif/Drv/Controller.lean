import JivaVerif.Model.Controller
/-! Line-protocol driver for the controller model. -/
namespace Jiva.Drv
open Jiva Ctl

def splitList (s : String) : List String := if s = "-" ∨ s = "" then [] else s.splitOn ","

def b01 (s : String) : Bool := s = "1"

def parseCMode : String → Option CMode
  | "RW" => some .rw | "WO" => some .wo | "ERR" => some .err | _ => none

def cmodeStr : CMode → String
  | .rw => "RW" | .wo => "WO" | .err => "ERR"

/-- chains: `a=x+y+z;b=!;c=-`  (`!` = call failed, `-` = empty chain) -/
def parseChains (s : String) : List (String × Option (List String)) :=
  if s = "-" then [] else
  (s.splitOn ";").filterMap fun kv =>
    match kv.splitOn "=" with
    | [a, v] => some (a, if v = "!" then none else if v = "-" then some [] else some (v.splitOn "+"))
    | _ => none

def parseCk (ch sf : String) : CkEnv :=
  ⟨parseChains ch, (splitList sf).map fun a => (a, false)⟩

def parseOptChain (s : String) : Option (List String) :=
  if s = "!" then none else if s = "-" then some [] else some (s.splitOn "+")

def parseTried (s : String) : List (String × Out) :=
  (splitList s).filterMap fun t =>
    match t.splitOn "=" with
    | [a, "o"] => some (a, Out.ok)
    | [a, "f"] => some (a, Out.fail)
    | _ => none

def parseCtlOp (ws : List String) : Option CtlOp :=
  match ws with
  | ["reg", a, u, rev, reb, "|", sok, alive, el] =>
    do some (.register ⟨a, if u = "-" then "" else u, ← rev.toNat?, b01 reb⟩ (b01 sok) (b01 alive) (if el = "-" then "" else el))
  | ["start", addrs, "|", envs, ch, sf] =>
    -- one `createOk:size:setWoOk:clone:setRwOk:rev` per address, separated by `;`
    let as := splitList addrs
    let es := if envs = "-" then [] else envs.splitOn ";"
    if as.length ≠ es.length then none else
    do
      let l ← (as.zip es).mapM fun (a, e) =>
        match e.splitOn ":" with
        | [cok, size, swo, clone, srw, rev] =>
          do some (⟨a, b01 cok, ← size.toNat?, b01 swo, clone, b01 srw, if rev = "-" then none else rev.toNat?⟩ : StartEnv)
        | _ => none
      some (.start l (parseCk ch sf))
  | ["add", a, "|", tk, cok, sfails, nsok, swo, ch, sf] =>
    some (.add a (if tk = "-" then none else some (b01 tk)) (b01 cok) (splitList sfails) (b01 nsok) (b01 swo) (parseCk ch sf))
  | ["addpre", a, "|", tk] => some (.addPre a (if tk = "-" then none else some (b01 tk)))
  | ["addpost", a, "|", tk, cok, sfails, nsok, swo, ch, sf] =>
    some (.addPost a (if tk = "-" then none else some (b01 tk)) (b01 cok) (splitList sfails) (b01 nsok) (b01 swo) (parseCk ch sf))
  | ["rm", a] => some (.remove a)
  | ["setmode", a, m] => do some (.setMode a (← parseCMode m))
  | ["verify", a, "|", rwc, woc, ck, rev, srw, srev, ch, sf] =>
    some (.verify a (parseOptChain rwc) (parseOptChain woc) (if ck = "!" then none else if ck = "-" then some "" else some ck)
      (if rev = "-" then none else rev.toNat?) (b01 srw) (b01 srev) (parseCk ch sf))
  | ["w", off, len, "|", f] => do some (.write (← off.toNat?) (← len.toNat?) (splitList f) [])
  | ["w", off, len, "|", f, "|", t] => do some (.write (← off.toNat?) (← len.toNat?) (splitList f) (parseTried t))
  | ["sync", "|", f] => some (.sync (splitList f))
  | ["unmap", "|", f] => some (.unmap (splitList f))
  | ["r", off, len, "|", t] => do some (.read (← off.toNat?) (← len.toNat?) (parseTried t))
  | ["snap", n, "|", ex, f] => some (.snapshot n (if ex = "-" then none else some (b01 ex)) (splitList f))
  | ["resize", sz, "|", f] => do some (.resize (← sz.toNat?) (splitList f))
  | ["mon", a, e] => some (.mon a (b01 e))
  | _ => none

def insS (p : String) : List String → List String
  | [] => [p]
  | q :: qs => if p ≤ q then p :: q :: qs else q :: insS p qs
def sortS (l : List String) : List String := l.foldr insS []

def outStr : CtlOut → String
  | .ok => "ok" | .refused => "refused" | .failed => "failed" | .envMismatch => "env-mismatch"

def showCtl (c : Ctl) (o : CtlOut) : String :=
  let reps := ",".intercalate (c.replicas.map fun r => s!"{r.1}={cmodeStr r.2}")
  let bks := ",".intercalate (sortS (c.backends.map fun b => s!"{b.addr}={cmodeStr b.mode}#{b.id}"))
  let ws := ",".intercalate (sortS (c.writers.map fun w => s!"{w.1}#{w.2}"))
  let rs := ",".intercalate (sortS (c.readers.map fun w => s!"{w.1}#{w.2}"))
  let calls := ",".intercalate (sortS (c.calls.map fun p => s!"{p.1}:{p.2}"))
  let closed := ",".intercalate (sortS (c.closed.map toString))
  let regs := ",".intercalate (sortS (c.registered.map fun r => s!"{r.addr}:{r.rev}:{if r.rebuilding then 1 else 0}"))
  let sigs := ",".intercalate (c.signals.map fun s => s!"{s.1}:{if s.2.2 then "ok" else "fail"}")
  s!"{outStr o} ; replicas={reps} ro={if c.readOnly then 1 else 0} rw={c.rwCount} ckpt={c.checkpoint} max={c.maxRev} sig={if c.signalled then 1 else 0} size={if c.size = Ctl.maxInt64 then 0 else c.size} front={if c.frontUp then 1 else 0} ; calls={calls} closed={closed} signals={sigs} ; backends={bks} writers={ws} readers={rs} avail={if c.available then 1 else 0} regs={regs}"

partial def ctlLoop (h : IO.FS.Stream) (out : IO.FS.Stream) (c : Ctl) : IO Unit := do
  let line ← h.getLine
  if line.isEmpty then return ()
  let ws := (line.trimAscii.toString.splitOn " ").filter (· ≠ "")
  match ws with
  | [] => ctlLoop h out c
  | ["init", rf] =>
    match rf.toNat? with
    | some n => out.putStrLn "ok"; ctlLoop h out (Ctl.init n)
    | none => out.putStrLn "bad-op"; ctlLoop h out c
  | _ =>
    match parseCtlOp ws with
    | some op =>
      let (c', o) := c.step op
      -- VerifyRebuildReplica: an out-of-range slice panics or (slack capacity) compares unequal;
      -- either way the replica is not promoted — both are rendered as "refused"
      let o := match op, o with
        | .verify .., .failed => CtlOut.refused
        | _, o => o
      out.putStrLn (showCtl c' o); ctlLoop h out c'
    | none => out.putStrLn "bad-op"; ctlLoop h out c

def ctlMain : IO Unit := do
  let out ← IO.getStdout
  ctlLoop (← IO.getStdin) out (Ctl.init 3)
  out.flush

end Jiva.Drv
