import JivaVerif.Generated.Facts
import JivaVerif.Expected
import JivaVerif.Model.Controller
import JivaVerif.Model.DiffDisk
import JivaVerif.Model.Rpc
import JivaVerif.Model.Cluster
/-!
# Tie (T1): the regenerated facts agree with what the models use

`Generated/Facts.lean` is rewritten from /repo's working tree on every run.  The lemmas here are
re-checked against it: the decision expressions translated from the Go source are *proved*
equivalent to the expressions inside the models, and the digests of the load-bearing statements
are compared with the accepted ones.  A source change that alters one of them breaks a named lemma.
-/
namespace Jiva.Tie
open Jiva

/-- `UpdateVolStatus`: the volume is writable iff `rw ≥ ⌊rf/2⌋+1` (no quorum replicas) — the
    expression `Ctl.updateVolStatus` uses. -/
theorem volStatus (rw rf : Nat) : Gen.volStatusRW rw rf 0 = decide (rw ≥ rf / 2 + 1) := by
  unfold Gen.volStatusRW; simp

/-- `registerReplica`: a start signal needs `⌊rf/2⌋+1` registrations — the test of `Ctl.electAndSignal`. -/
theorem canSignal (nreg rf : Nat) : Gen.canSignal nreg 0 rf 0 = decide (nreg ≥ rf / 2 + 1) := by
  unfold Gen.canSignal; simp

/-- the same two tests WITH quorum (arbiter) replicas, which the models leave out: what is accepted here is that
    a quorum replica raises the thresholds and never stands in for a data replica — a start signal needs
    `⌊rf/2⌋+1` DATA registrations whatever the number of quorum registrations -/
theorem volStatusQuorum (rw rf q : Nat) : Gen.volStatusRW rw rf q = decide (rw ≥ (rf + q) / 2 + 1) := by
  unfold Gen.volStatusRW; simp
theorem canSignalQuorum (nreg nq rf q : Nat) :
    Gen.canSignal nreg nq rf q = (decide (nreg ≥ rf / 2 + 1) && decide (nreg + nq ≥ (q + rf) / 2 + 1)) := by
  unfold Gen.canSignal; simp
theorem canSignalNeedsDataMajority (nreg nq rf q : Nat) (h : Gen.canSignal nreg nq rf q = true) : nreg ≥ rf / 2 + 1 := by
  rw [canSignalQuorum] at h; simp at h; exact h.1
theorem mwWriteQuorum (w u re qe : Nat) :
    Gen.mwWriteOk w u re qe = (decide (w - re > w / 2) && decide (w + u - re - qe > (w + u) / 2)) := by
  unfold Gen.mwWriteOk; simp

/-- `MultiWriterAt`: strictly more than half of the writers succeeded — `Ctl.majorityOk`. -/
theorem mwWrite (w re : Nat) : Gen.mwWriteOk w 0 re 0 = Ctl.majorityOk w re := by
  unfold Gen.mwWriteOk Ctl.majorityOk; simp
theorem mwSync (w re : Nat) : Gen.mwSyncOk w re = Ctl.majorityOk w re := by
  unfold Gen.mwSyncOk Ctl.majorityOk; simp
theorem mwUnmap (w re : Nat) : Gen.mwUnmapOk w re = Ctl.majorityOk w re := by
  unfold Gen.mwUnmapOk Ctl.majorityOk; simp

/-- the whole-volume model (`Model/Cluster.lean`) uses the same regenerated expressions: its read-only
    gate is `UpdateVolStatus`'s test, the majority its election waits for is `registerReplica`'s, the
    acknowledgement rule of its write step is `MultiWriterAt`'s -/
theorem clusterGate (s : Cluster.Sys) :
    decide (s.rwCount < s.quorum) = !Gen.volStatusRW s.rwCount s.rf 0 := by
  rw [volStatus]; unfold Cluster.Sys.quorum
  by_cases h : s.rwCount < s.rf / 2 + 1
  · have : ¬ (s.rwCount ≥ s.rf / 2 + 1) := by omega
    simp [h, this]
  · have : s.rwCount ≥ s.rf / 2 + 1 := by omega
    simp [h, this]
theorem clusterElectionMajority (s : Cluster.Sys) :
    decide (s.regCount ≥ s.quorum) = Gen.canSignal s.regCount 0 s.rf 0 := by
  rw [canSignal]; rfl
theorem clusterAck (attached failed : Nat) : Ctl.majorityOk attached failed = Gen.mwWriteOk attached 0 failed 0 :=
  (mwWrite attached failed).symm

/-- the controller's range check over `int64` (no wrap-around: the expression does not add):
    for non-negative lengths an I/O is refused iff it does not lie inside `[0, size]` -/
theorem rangeWrite (off len size : Int) (hl : 0 ≤ len) :
    Gen.ioRefusedWriteAt off len size = true ↔ ¬ (0 ≤ off ∧ off + len ≤ size) := by
  unfold Gen.ioRefusedWriteAt; simp; omega
theorem rangeRead (off len size : Int) (hl : 0 ≤ len) :
    Gen.ioRefusedReadAt off len size = true ↔ ¬ (0 ≤ off ∧ off + len ≤ size) := by
  unfold Gen.ioRefusedReadAt; simp; omega

/-- … which on naturals is the test `off + len > size` of `Ctl.stepWrite` / `Ctl.stepRead` -/
theorem rangeNat (off len size : Nat) :
    Gen.ioRefusedWriteAt off len size = decide (off + len > size) := by
  unfold Gen.ioRefusedWriteAt
  by_cases h : off + len > size
  · simp [h]; omega
  · simp [h]; omega

/-- `RemoveIndex` moves exactly the entries at or above the removed index — `DD.removeIdx`. -/
theorem removeIndex (loc idx : Nat) : Gen.removeIndexShifts loc idx = decide (idx ≤ loc) := by
  unfold Gen.removeIndexShifts; simp

/-- chain-length limit: a snapshot is refused when `len(activeDiskData)+1 > max`; with
    `len(activeDiskData) = top + 1` no accepted snapshot makes the live chain (`top + 1` members
    afterwards) longer than `max`, so the next open succeeds. -/
theorem chainLimit (top maxLen : Nat) (h : Gen.chainTooLong (top + 1) maxLen = false) :
    Gen.liveChainTooLong (top + 1) maxLen = false := by
  unfold Gen.chainTooLong at h; unfold Gen.liveChainTooLong
  simp at h ⊢; omega

/-- `Start` refuses more addresses than the replication factor — the test of `Ctl.stepStart`
    (for the configured factors the model covers, `rf ≥ 1`) -/
theorem startOverRF (n rf : Nat) (h : 1 ≤ rf) : Gen.startOverRF n rf = decide (n > rf) := by
  unfold Gen.startOverRF; simp; omega

/-- the wire frame: `Wire.Write` and `Wire.Read` use the field order and widths of the RPC model's
    `encode` / `decode` (`Rpc.encode_layout`) -/
theorem wireLayout : Gen.wireWrite = Rpc.layout ∧ Gen.wireRead = Rpc.layout := by decide

/-- every action a handler is routed for appears in some state's table, and conversely every
    action a state offers is routed (so an offered action is never a dead link) -/
theorem routed_offered :
    (∀ a ∈ Gen.routedActions, ∃ row ∈ Gen.replicaActions, a ∈ row.2) := by decide

/-- the load-bearing statements are the accepted ones -/
theorem statements : Gen.factDigests = Expected.factDigests := by decide

end Jiva.Tie
