import JivaVerif.Lemmas.Delete
/-! `RemoveIndex` (with its metadata) and the reopen / preload / revert family. -/
namespace Jiva
namespace DD
variable {β : Type} [Inhabited β]

theorem removeIdx_ur (d : DD β) (k i : Nat) :
    (d.removeIdx k).ur i = if i < k then d.ur i else d.ur (i + 1) := by
  unfold ur removeIdx shift
  simp only
  split <;> rfl

/-- **C11: the invariant survives a deletion** provided the deleted snapshot has been folded into
    its parent and neither it nor its parent is a retained user-created snapshot (clauses 2 and 3
    of the cleaner's filter). -/
theorem wf_removeIdx (d : DD β) (h : WF d) (k : Nat) (hk : 2 ≤ k) (hkt : k < d.top)
    (hc : Coalesced d k) (hu1 : d.ur k = false) (hu2 : d.ur (k - 1) = false) : WF (d.removeIdx k) := by
  have hfiles : ∀ j, (d.removeIdx k).files j = if j < k then d.files j else d.files (j + 1) := by
    intro j; rfl
  have cover : ∀ i, (d.removeIdx k).ur i = true →
      (shift k d.marks) i = true ∨ (shift k d.marks) (i + 1) = true := by
    intro i hi
    rw [removeIdx_ur] at hi
    by_cases c : i < k
    · simp only [c, if_true] at hi
      have hne : i ≠ k - 1 := by intro e; rw [e] at hi; rw [hu2] at hi; cases hi
      have := h.markCover i hi
      rw [shift_lt k _ i c, shift_lt k _ (i + 1) (by omega)]; exact this
    · simp only [c, if_false] at hi
      have := h.markCover (i + 1) hi
      rw [shift_ge k _ i (by omega), shift_ge k _ (i + 1) (by omega)]; exact this
  refine ⟨h.bs_pos, ?_, ?_, ?_, ?_, ?_, ?_, ?_, ?_, ?_, ?_⟩
  · show 1 ≤ d.top - 1; have := h.top_pos; omega
  · intro b; rw [hfiles]
    have : (0 : Nat) < k := by omega
    simp only [this, if_true]; exact h.empty0 b
  · intro j hj b
    have hj' : d.top - 1 < j := hj
    rw [hfiles]
    have : ¬ j < k := by omega
    simp only [this, if_false]; exact h.emptyAbove (j + 1) (by omega) b
  · intro b hb
    have hloc : (d.removeIdx k).loc b = if k ≤ d.loc b then d.loc b - 1 else d.loc b := rfl
    have hb0 : d.loc b ≠ 0 := by
      intro e; rw [hloc, e] at hb
      have : ¬ k ≤ 0 := by omega
      simp [this] at hb
    have ⟨l1, l2, l3⟩ := h.locOk b hb0
    rw [hloc]
    by_cases c : k ≤ d.loc b
    · simp only [c, if_true]
      refine ⟨by show d.loc b - 1 ≤ d.top - 1; omega, ?_, ?_⟩
      · intro j hj; rw [hfiles]
        have : ¬ j < k := by omega
        simp only [this, if_false]; exact l2 (j + 1) (by omega)
      · by_cases e : d.loc b = k
        · -- the entry pointed at the removed file: it now points at the parent
          rw [e]
          rcases l3 with l3 | l3
          · left; rw [hfiles]
            have : k - 1 < k := by omega
            simp only [this, if_true]
            -- the parent holds every block the child held
            obtain ⟨u, hu⟩ : ∃ u, u / d.bs = b := ⟨b * d.bs, Nat.mul_div_cancel _ h.bs_pos⟩
            have := hc u (by rw [hu, ← e]; exact l3)
            rw [hu] at this; exact this.1
          · right; intro j hj; rw [hfiles]
            have : j < k := by omega
            simp only [this, if_true]; exact l3 j (by omega)
        · rcases l3 with l3 | l3
          · left; rw [hfiles]
            have : ¬ d.loc b - 1 < k := by omega
            simp only [this, if_false]
            have : d.loc b - 1 + 1 = d.loc b := by omega
            rw [this]; exact l3
          · right; intro j hj; rw [hfiles]
            split
            · exact l3 j (by omega)
            · exact l3 (j + 1) (by omega)
    · simp only [c, if_false]
      refine ⟨by show d.loc b ≤ d.top - 1; omega, ?_, ?_⟩
      · intro j hj; rw [hfiles]
        split
        · exact l2 j hj
        · exact l2 (j + 1) (by omega)
      · rcases l3 with l3 | l3
        · left; rw [hfiles]
          have : d.loc b < k := by omega
          simp only [this, if_true]; exact l3
        · right; intro j hj; rw [hfiles]
          have : j < k := by omega
          simp only [this, if_true]; exact l3 j hj
  · intro b hb
    have hloc : (d.removeIdx k).loc b = if k ≤ d.loc b then d.loc b - 1 else d.loc b := rfl
    rw [hloc, h.locOut b hb]
    have : ¬ k ≤ 0 := by omega
    simp [this]
  · -- retained user snapshots stay at or below SnapIndx
    intro i hi
    have hc' := cover i hi
    have hpos : 1 ≤ i ∧ i < d.top - 1 := by
      rw [removeIdx_ur] at hi
      split at hi
      · have := h.urPos i hi; omega
      · have := h.urLt (i + 1) hi; omega
    have hge : i ≤ lastMark (shift k d.marks) (d.top - 1) := by
      rcases hc' with m | m
      · exact lastMark_ge _ _ i hpos.1 (by omega) m
      · have := lastMark_ge (shift k d.marks) (d.top - 1) (i + 1) (by omega) (by omega) m
        omega
    show i ≤ (if lastMark (shift k d.marks) (d.top - 1) = 0 then d.snapIdx
              else lastMark (shift k d.marks) (d.top - 1))
    split
    · omega
    · exact hge
  · intro i hi
    have hi' : shift k d.uc i = true := hi
    show 1 ≤ i ∧ i < d.top - 1
    by_cases c : i < k
    · rw [shift_lt k _ i c] at hi'
      have := h.ucLt i hi'; omega
    · rw [shift_ge k _ i (by omega)] at hi'
      have := h.ucLt (i + 1) hi'; omega
  · exact cover
  · intro i hi
    have hi' : d.top - 1 < i := hi
    show shift k d.marks i = false
    rw [shift_ge k _ i (by omega)]; exact h.marksAbove (i + 1) (by omega)
  · intro p hp; simp [removeIdx] at hp

/-- **C11: what a deletion shows.** Views below the deleted index are unchanged; the views of
    the members above it are unchanged too (they are renumbered). -/
theorem view_removeIdx (d : DD β) (k i u : Nat) (hk : 2 ≤ k) (hc : Coalesced d k) :
    (d.removeIdx k).view i u = if i < k then d.view i u else d.view (i + 1) u :=
  viewUpTo_removeIdx d k u hk hc i

theorem live_removeIdx (d : DD β) (h : WF d) (k u : Nat) (hk : 2 ≤ k) (hkt : k < d.top)
    (hc : Coalesced d k) : (d.removeIdx k).live u = d.live u := by
  unfold live
  have : (d.removeIdx k).top = d.top - 1 := rfl
  rw [this, view_removeIdx d k _ u hk hc]
  have t := h.top_pos
  have : ¬ d.top - 1 < k := by omega
  simp only [this, if_false]
  have : d.top - 1 + 1 = d.top := by omega
  rw [this]

/-! ### preload / reopen / revert -/

theorem preloadBlock_spec (d : DD β) (b : Nat) : ∀ i,
    (preloadBlock d b i).1 ≤ i ∧
    ((preloadBlock d b i).1 ≠ 0 → (d.files (preloadBlock d b i).1).alloc b = true) ∧
    (∀ j, (preloadBlock d b i).1 < j → j ≤ i → (d.files j).alloc b = false) ∧
    (∀ p, p ∈ (preloadBlock d b i).2 → p.2 = b ∧ 1 ≤ p.1 ∧
        ∃ hh, p.1 < hh ∧ hh ≤ i ∧ (d.files hh).alloc b = true ∧ lastMark d.marks hh < p.1) := by
  intro i
  induction i with
  | zero =>
    refine ⟨Nat.le_refl _, fun hh => absurd rfl hh, fun j h1 h2 => by omega, ?_⟩
    intro p hp; simp [preloadBlock] at hp
  | succ i ih =>
    obtain ⟨i1, i2, i3, i4⟩ := ih
    by_cases a : (d.files (i + 1)).alloc b = true
    · have e : preloadBlock d b (i + 1) = (i + 1,
          if (preloadBlock d b i).1 ≠ 0 ∧ lastMark d.marks (i + 1) < (preloadBlock d b i).1 ∧ d.punch
          then (preloadBlock d b i).2 ++ [((preloadBlock d b i).1, b)] else (preloadBlock d b i).2) := by
        simp [preloadBlock, a]
      rw [e]
      refine ⟨Nat.le_refl _, fun _ => a, fun j h1 h2 => by omega, ?_⟩
      intro p hp
      simp only at hp
      split at hp
      · rename_i hcnd
        rcases List.mem_append.mp hp with hp | hp
        · have ⟨q1, q2, hh, q3, q4, q5, q6⟩ := i4 p hp
          exact ⟨q1, q2, hh, q3, by omega, q5, q6⟩
        · simp at hp; subst hp
          refine ⟨rfl, ?_, i + 1, ?_, Nat.le_refl _, a, hcnd.2.1⟩
          · show 1 ≤ (preloadBlock d b i).1; have := hcnd.1; omega
          · show (preloadBlock d b i).1 < i + 1; omega
      · have ⟨q1, q2, hh, q3, q4, q5, q6⟩ := i4 p hp
        exact ⟨q1, q2, hh, q3, by omega, q5, q6⟩
    · have e : preloadBlock d b (i + 1) = preloadBlock d b i := by
        simp [preloadBlock, a]
      rw [e]
      refine ⟨by omega, i2, ?_, ?_⟩
      · intro j h1 h2
        by_cases e : j = i + 1
        · subst e; simpa using a
        · exact i3 j h1 (by omega)
      · intro p hp
        have ⟨q1, q2, hh, q3, q4, q5, q6⟩ := i4 p hp
        exact ⟨q1, q2, hh, q3, by omega, q5, q6⟩

theorem mem_preloadHoles (d : DD β) : ∀ n p, p ∈ preloadHoles d n →
    p.2 < n ∧ p ∈ (preloadBlock d p.2 d.top).2 := by
  intro n
  induction n with
  | zero => intro p hp; simp [preloadHoles] at hp
  | succ n ih =>
    intro p hp
    unfold preloadHoles at hp
    rcases List.mem_append.mp hp with hp | hp
    · have := ih p hp; exact ⟨by omega, this.2⟩
    · have e := ((preloadBlock_spec d n d.top).2.2.2 p hp).1
      rw [e]; exact ⟨by omega, hp⟩

/-- the part of the invariant that concerns files and metadata only -/
structure WFS (d : DD β) : Prop where
  bs_pos     : 0 < d.bs
  top_pos    : 1 ≤ d.top
  empty0     : ∀ b, (d.files 0).alloc b = false
  emptyAbove : ∀ i, d.top < i → ∀ b, (d.files i).alloc b = false
  ucLt       : ∀ i, d.uc i = true → 1 ≤ i ∧ i < d.top

theorem WF.wfs {d : DD β} (h : WF d) : WFS d := ⟨h.bs_pos, h.top_pos, h.empty0, h.emptyAbove, h.ucLt⟩

/-- state right after `construct` read the chain, before any preload -/
def fresh (d : DD β) : DD β :=
  { d with loc := fun _ => 0, marks := d.uc, snapIdx := lastMark d.uc d.top, pend := [] }

theorem wf_fresh (d : DD β) (h : WFS d) : WF (fresh d) := by
  refine ⟨h.bs_pos, h.top_pos, h.empty0, h.emptyAbove, fun b hb => absurd rfl hb, fun _ _ => rfl,
    ?_, h.ucLt, fun i hi => Or.inl (ur_uc _ i hi), ?_, fun p hp => by simp [fresh] at hp⟩
  · intro i hi
    have hu : d.uc i = true := ur_uc (fresh d) i hi
    have := h.ucLt i hu
    exact lastMark_ge d.uc d.top i this.1 (by omega) hu
  · intro i hi
    show d.uc i = false
    cases hh : d.uc i with
    | false => rfl
    | true => have := h.ucLt i hh; have : d.top < i := hi; omega

/-- a queued preload request `(f, b)` whose next holder is `hh` is safe for every retained user
    snapshot at or above `f`: the markers cover them and there is no marker in `[f, hh]` -/
theorem ur_above_holder (d : DD β) (h : WF d) (f hh u : Nat) (hf : f ≤ u) (hu : d.ur u = true)
    (hlm : lastMark d.marks hh < f) : hh ≤ u := by
  apply Classical.byContradiction
  intro hc
  have hlt : u < hh := by omega
  rcases h.markCover u hu with m | m
  · have := lastMark_ge d.marks hh u (h.urPos u hu) (by omega) m
    omega
  · have := lastMark_ge d.marks hh (u + 1) (by omega) (by omega) m
    omega

theorem wf_preload (d : DD β) (h : WF d) (hl : ∀ b, d.loc b = 0) :
    WF d.preload := by
  have hfiles : d.preload.files = d.files := rfl
  refine ⟨h.bs_pos, h.top_pos, h.empty0, h.emptyAbove, ?_, ?_, h.urLe, h.ucLt, h.markCover,
    h.marksAbove, ?_⟩
  · intro b hb
    have hloc : d.preload.loc b = if b < d.nb then (preloadBlock d b d.top).1 else 0 := rfl
    rw [hloc] at hb ⊢
    by_cases c : b < d.nb
    · simp only [c, if_true] at hb ⊢
      have ⟨s1, s2, s3, _⟩ := preloadBlock_spec d b d.top
      refine ⟨s1, ?_, Or.inl (s2 hb)⟩
      intro j hj
      by_cases cj : j ≤ d.top
      · exact s3 j hj cj
      · exact h.emptyAbove j (by omega) b
    · simp [c] at hb
  · intro b hb
    have hb' : d.nb ≤ b := hb
    have hloc : d.preload.loc b = if b < d.nb then (preloadBlock d b d.top).1 else 0 := rfl
    rw [hloc]
    have : ¬ b < d.nb := by omega
    simp [this]
  · intro p hp
    have hp' : p ∈ d.pend ++ preloadHoles d d.nb := hp
    rcases List.mem_append.mp hp' with hp | hp
    · -- older requests: only possible if the location entry is still unknown
      have ⟨q0, q1, q2⟩ := h.pendOk p hp
      refine ⟨q0, ?_, q2⟩
      have hloc : d.preload.loc p.2 = if p.2 < d.nb then (preloadBlock d p.2 d.top).1 else 0 := rfl
      rw [hloc]
      by_cases c : p.2 < d.nb
      · simp only [c, if_true]
        right
        have ⟨hh, a1, a2, a3⟩ := q2 d.top (Or.inr rfl) (by omega)
        have ⟨s1, s2, s3, _⟩ := preloadBlock_spec d p.2 d.top
        by_cases c2 : hh ≤ (preloadBlock d p.2 d.top).1
        · omega
        · have := s3 hh (by omega) a2
          rw [a3] at this; cases this
      · simp [c]
    · have ⟨m1, m2⟩ := mem_preloadHoles d d.nb p hp
      have ⟨s1, s2, s3, s4⟩ := preloadBlock_spec d p.2 d.top
      have ⟨_, q2, hh, q3, q4, q5, q6⟩ := s4 p m2
      refine ⟨by show p.1 < d.top; omega, ?_, ?_⟩
      · right
        have hloc : d.preload.loc p.2 = if p.2 < d.nb then (preloadBlock d p.2 d.top).1 else 0 := rfl
        rw [hloc]; simp only [m1, if_true]
        by_cases c2 : hh ≤ (preloadBlock d p.2 d.top).1
        · omega
        · have := s3 hh (by omega) q4
          rw [q5] at this; cases this
      · intro u hu hfu
        rcases hu with hu | hu
        · -- a retained user snapshot at or above the punched file lies above the next holder
          exact ⟨hh, q3, ur_above_holder d h p.1 hh u hfu hu q6, q5⟩
        · have hu' : u = d.top := hu
          exact ⟨hh, q3, by omega, q5⟩

theorem preloadBlock_congr (d e : DD β) (hf : e.files = d.files) (hm : e.marks = d.marks) (hp : e.punch = d.punch)
    (b : Nat) : ∀ i, preloadBlock e b i = preloadBlock d b i := by
  intro i
  induction i with
  | zero => rfl
  | succ i ih => simp only [preloadBlock, ih, hf, hm, hp]

theorem preloadHoles_congr (d e : DD β) (hf : e.files = d.files) (hm : e.marks = d.marks) (hp : e.punch = d.punch)
    (ht : e.top = d.top) : ∀ n, preloadHoles e n = preloadHoles d n := by
  intro n
  induction n with
  | zero => rfl
  | succ n ih => simp only [preloadHoles, ih, preloadBlock_congr d e hf hm hp, ht]

/-- `UpdateLUNMap` preserves the invariant (C07: the merged location map is sound, the queued
    requests are safe). -/
theorem wf_lunmap (d : DD β) (h : WF d) : WF d.lunmap := by
  have hloc : ∀ b, d.lunmap.loc b = if d.loc b ≠ 0 then d.loc b else (if b < d.nb then (preloadBlock d b d.top).1 else 0) :=
    fun b => rfl
  have topHolder : ∀ b hh, hh ≤ d.top → (d.files hh).alloc b = true → hh ≤ (preloadBlock d b d.top).1 := by
    intro b hh h1 h2
    have ⟨_, _, s3, _⟩ := preloadBlock_spec d b d.top
    apply Classical.byContradiction
    intro hc
    have := s3 hh (by omega) h1
    rw [h2] at this; cases this
  refine ⟨h.bs_pos, h.top_pos, h.empty0, h.emptyAbove, ?_, ?_, h.urLe, h.ucLt, h.markCover, h.marksAbove, ?_⟩
  · intro b hb
    rw [hloc] at hb ⊢
    by_cases c : d.loc b ≠ 0
    · rw [if_pos c]; exact h.locOk b c
    · rw [if_neg c] at hb ⊢
      by_cases cb : b < d.nb
      · rw [if_pos cb] at hb ⊢
        have ⟨s1, s2, s3, _⟩ := preloadBlock_spec d b d.top
        refine ⟨s1, ?_, Or.inl (s2 hb)⟩
        intro j hj
        by_cases cj : j ≤ d.top
        · exact s3 j hj cj
        · exact h.emptyAbove j (by omega) b
      · rw [if_neg cb] at hb; exact absurd rfl hb
  · intro b hb
    have hb' : d.nb ≤ b := hb
    rw [hloc, h.locOut b hb']
    have : ¬ b < d.nb := by omega
    simp [this]
  · intro p hp
    have hp' : p ∈ d.pend ++ preloadHoles d d.nb ++
        ((List.range d.nb).filterMap fun b =>
          if (if b < d.nb then (preloadBlock d b d.top).1 else 0) ≠ 0 ∧
             (if b < d.nb then (preloadBlock d b d.top).1 else 0) < d.loc b ∧
             lastMark d.marks d.top < (if b < d.nb then (preloadBlock d b d.top).1 else 0) ∧
             d.punch then
            some ((if b < d.nb then (preloadBlock d b d.top).1 else 0), b) else none) := hp
    rcases List.mem_append.mp hp' with hp1 | hp3
    · rcases List.mem_append.mp hp1 with hp1 | hp2
      · -- older requests
        have ⟨q0, q1, q2⟩ := h.pendOk p hp1
        refine ⟨q0, ?_, q2⟩
        rw [hloc]
        by_cases c : d.loc p.2 ≠ 0
        · rw [if_pos c]; exact q1
        · rw [if_neg c]
          by_cases cb : p.2 < d.nb
          · rw [if_pos cb]; right
            have ⟨hh, a1, a2, a3⟩ := q2 d.top (Or.inr rfl) (by omega)
            have := topHolder p.2 hh a2 a3
            omega
          · rw [if_neg cb]; left; rfl
      · -- requests of the scan
        have ⟨m1, m2⟩ := mem_preloadHoles d d.nb p hp2
        have ⟨_, _, _, s4⟩ := preloadBlock_spec d p.2 d.top
        have ⟨_, q2, hh, q3, q4, q5, q6⟩ := s4 p m2
        refine ⟨by show p.1 < d.top; omega, ?_, ?_⟩
        · right
          rw [hloc]
          by_cases c : d.loc p.2 ≠ 0
          · rw [if_pos c]
            -- nothing above a sound location entry holds the block, and `hh` does
            have ⟨_, l2, _⟩ := h.locOk p.2 c
            apply Classical.byContradiction
            intro hc
            have := l2 hh (by omega)
            rw [q5] at this; cases this
          · rw [if_neg c, if_pos m1]
            have := topHolder p.2 hh q4 q5
            omega
        · intro u hu hfu
          rcases hu with hu | hu
          · exact ⟨hh, q3, ur_above_holder d h p.1 hh u hfu hu q6, q5⟩
          · have hu' : u = d.top := hu
            exact ⟨hh, q3, by omega, q5⟩
    · -- requests of the merge: the live entry points above the scanned owner — impossible when no
      -- write came between the scan and the merge, so there are none
      exfalso
      obtain ⟨b, hb, he⟩ := List.mem_filterMap.mp hp3
      have hbn : b < d.nb := by simpa using hb
      by_cases hc : (preloadBlock d b d.top).1 ≠ 0 ∧ (preloadBlock d b d.top).1 < d.loc b ∧
          lastMark d.marks d.top < (preloadBlock d b d.top).1 ∧ d.punch = true
      · obtain ⟨c1, c2, _, _⟩ := hc
        have hl0 : d.loc b ≠ 0 := by omega
        have ⟨_, l2, l3⟩ := h.locOk b hl0
        have ⟨_, s2, _, _⟩ := preloadBlock_spec d b d.top
        have hold := s2 c1
        rcases l3 with l3 | l3
        · have := topHolder b (d.loc b) (h.locOk b hl0).1 l3
          omega
        · have := l3 _ c2
          rw [hold] at this; cases this
      · simp only [hbn, if_true] at he
        rw [if_neg hc] at he
        cases he

theorem view_lunmap (d : DD β) (i u : Nat) : d.lunmap.view i u = d.view i u := rfl

theorem wf_reopen (d : DD β) (h : WFS d) (pre : Bool) : WF (d.reopen pre) := by
  have e : d.reopen pre = if pre then (fresh d).preload else fresh d := rfl
  rw [e]
  split
  · exact wf_preload (fresh d) (wf_fresh d h) (fun _ => rfl)
  · exact wf_fresh d h

/-- **C01/C06: reopening (with or without preload) changes no view.** -/
theorem view_reopen (d : DD β) (pre : Bool) (i u : Nat) : (d.reopen pre).view i u = d.view i u := by
  have e : d.reopen pre = if pre then (fresh d).preload else fresh d := rfl
  rw [e]; split <;> rfl

theorem reopen_top (d : DD β) (pre : Bool) : (d.reopen pre).top = d.top := by
  have e : d.reopen pre = if pre then (fresh d).preload else fresh d := rfl
  rw [e]; split <;> rfl

/-- the chain cut at `k` with a new empty head -/
def cut (d : DD β) (k : Nat) : DD β :=
  { d with
    top   := k + 1
    files := fun i => if i ≤ k then d.files i else File.empty
    uc    := fun i => if i ≤ k then d.uc i else false
    rm    := fun i => if i ≤ k then d.rm i else false }

theorem wfs_cut (d : DD β) (h : WFS d) (k : Nat) (hk : 1 ≤ k) : WFS (cut d k) := by
  refine ⟨h.bs_pos, by show 1 ≤ k + 1; omega, ?_, ?_, ?_⟩
  · intro b; show ((if (0 : Nat) ≤ k then d.files 0 else File.empty)).alloc b = false
    simp; exact h.empty0 b
  · intro i hi b
    have hi' : k + 1 < i := hi
    show ((if i ≤ k then d.files i else File.empty)).alloc b = false
    have : ¬ i ≤ k := by omega
    simp [this, File.empty]
  · intro i hi
    have hi' : (if i ≤ k then d.uc i else false) = true := hi
    show 1 ≤ i ∧ i < k + 1
    by_cases c : i ≤ k
    · simp only [c, if_true] at hi'
      have := h.ucLt i hi'; omega
    · simp [c] at hi'

theorem wf_revert (d : DD β) (h : WFS d) (k : Nat) (hk : 1 ≤ k) : WF (d.revert k) :=
  wf_reopen (cut d k) (wfs_cut d h k hk) true

theorem view_cut (d : DD β) (k i u : Nat) (hi : i ≤ k) : (cut d k).view i u = d.view i u := by
  unfold view
  apply viewUpTo_congr
  intro j _ hj
  have : j ≤ k := by omega
  simp [cut, this]

/-- **C06: revert.** After `revert k` the live volume is exactly the image of snapshot `k`, and
    the snapshots at or below `k` are unchanged. -/
theorem live_revert (d : DD β) (k u : Nat) : (d.revert k).live u = d.view k u := by
  unfold live
  have e : d.revert k = (cut d k).reopen true := rfl
  rw [e, reopen_top, view_reopen]
  show viewUpTo (cut d k).files (cut d k).bs (k + 1) u = d.view k u
  rw [viewUpTo_succ]
  have : ((cut d k).files (k + 1)).alloc (u / (cut d k).bs) = false := by
    have : ¬ k + 1 ≤ k := by omega
    simp [cut, File.empty, this]
  rw [this]
  exact view_cut d k k u (Nat.le_refl _)

theorem view_revert (d : DD β) (k i u : Nat) (hi : i ≤ k) : (d.revert k).view i u = d.view i u := by
  have e : d.revert k = (cut d k).reopen true := rfl
  rw [e, view_reopen]; exact view_cut d k i u hi

end DD
end Jiva
