import JivaVerif.Lemmas.CtlInv
/-! `setReplicaModeNoLock`, `RemoveReplicaNoLock`, `handleErrorNoLock`. -/
namespace Jiva
namespace Ctl

theorem mem_backends_of_mem_replicas (c : Ctl) (h : CCore c) (r : String × CMode) (hr : r ∈ c.replicas) :
    ∃ b ∈ c.backends, key b = r := by
  rw [← h.agree] at hr
  obtain ⟨b, hb, e⟩ := List.mem_map.mp hr
  exact ⟨b, hb, e⟩

theorem mem_replicas_of_mem_backends (c : Ctl) (h : CCore c) (b : Backend) (hb : b ∈ c.backends) :
    key b ∈ c.replicas := by
  rw [← h.agree]; exact List.mem_map.mpr ⟨b, hb, rfl⟩

/-- addresses are unique in the replica list -/
theorem addr_unique (c : Ctl) (h : CCore c) (r1 r2 : String × CMode) (h1 : r1 ∈ c.replicas)
    (h2 : r2 ∈ c.replicas) (e : r1.1 = r2.1) : r1 = r2 := by
  have nd := h.nodup
  generalize c.replicas = l at nd h1 h2
  induction l with
  | nil => cases h1
  | cons x xs ih =>
    rw [List.map_cons, List.nodup_cons] at nd
    rcases List.mem_cons.mp h1 with e1 | e1 <;> rcases List.mem_cons.mp h2 with e2 | e2
    · rw [e1, e2]
    · exfalso; apply nd.1; rw [← e1, e]; exact List.mem_map.mpr ⟨r2, e2, rfl⟩
    · exfalso; apply nd.1; rw [← e2, ← e]; exact List.mem_map.mpr ⟨r1, e1, rfl⟩
    · exact ih nd.2 e1 e2

theorem wo_count_map (l : List (String × CMode)) (a : String) (m : CMode) (hm : m ≠ .wo) :
    ((l.map fun r => if r.1 = a ∧ r.2 ≠ .err then (r.1, m) else r).filter fun r => r.2 = .wo).length ≤
    (l.filter fun r => r.2 = .wo).length := by
  induction l with
  | nil => simp
  | cons x xs ih =>
    rw [List.map_cons, List.filter_cons, List.filter_cons]
    by_cases c : x.1 = a ∧ x.2 ≠ .err
    · rw [if_pos c]
      have h1 : ¬ (decide ((x.1, m).2 = CMode.wo) = true) := by simpa using hm
      rw [if_neg h1]
      split
      · simp only [List.length_cons]; omega
      · exact ih
    · rw [if_neg c]
      split
      · simp only [List.length_cons]; omega
      · exact ih

theorem setModeCore_same (c : Ctl) (a : String) (m : CMode) :
    (c.setModeCore a m).checkpoint = c.checkpoint ∧ (c.setModeCore a m).rf = c.rf ∧
    (c.setModeCore a m).replicas.length = c.replicas.length ∧
    (c.setModeCore a m).nextId = c.nextId ∧ (c.setModeCore a m).closed = c.closed ∧
    (c.setModeCore a m).size = c.size ∧ (c.setModeCore a m).registered = c.registered ∧
    (c.setModeCore a m).maxRev = c.maxRev ∧ (c.setModeCore a m).signalled = c.signalled ∧
    (c.setModeCore a m).frontUp = c.frontUp ∧ (c.setModeCore a m).calls = c.calls := by
  unfold setModeCore
  simp only
  split
  · split <;> simp [rebuild]
  · simp

theorem ccore_setModeCore (c : Ctl) (h : CCore c) (a : String) (m : CMode) (hm : m ≠ .wo) :
    CCore (c.setModeCore a m) := by
  unfold setModeCore
  simp only
  by_cases hch : (c.replicas.any fun r => r.1 = a ∧ r.2 ≠ .err) = true
  · rw [if_pos hch]
    obtain ⟨r0, hr0, hc0⟩ := List.any_eq_true.mp hch
    have hc0' : r0.1 = a ∧ r0.2 ≠ .err := by simpa using hc0
    obtain ⟨b0, hb0, hk0⟩ := mem_backends_of_mem_replicas c h r0 hr0
    have hbo : (c.backendOf a).isSome := by
      unfold backendOf
      rw [List.find?_isSome]
      refine ⟨b0, hb0, ?_⟩
      have : b0.addr = r0.1 := by rw [← hk0]; rfl
      simp [this, hc0'.1]
    obtain ⟨bb, hbb⟩ := Option.isSome_iff_exists.mp hbo
    rw [hbb]
    simp only
    -- every entry with address a is not ERR (uniqueness)
    have allne : ∀ r ∈ c.replicas, r.1 = a → r.2 ≠ .err := by
      intro r hr e
      have := addr_unique c h r r0 hr hr0 (by rw [e, hc0'.1])
      rw [this]; exact hc0'.2
    refine ccore_rebuild_of _ h.rfPos ?_ ?_ ?_ ?_ ?_ ?_ ?_
    · -- addresses unchanged
      have : (c.replicas.map fun r => if r.1 = a ∧ r.2 ≠ .err then (r.1, m) else r).map (·.1) = c.replicas.map (·.1) := by
        rw [List.map_map]; apply List.map_congr_left; intro r _; simp only [Function.comp]; split <;> rfl
      show ((c.replicas.map fun r => if r.1 = a ∧ r.2 ≠ .err then (r.1, m) else r).map (·.1)).Nodup
      rw [this]; exact h.nodup
    · show (c.backends.map fun (b : Backend) => if b.addr = a then { b with mode := m } else b).map key
          = c.replicas.map fun r => if r.1 = a ∧ r.2 ≠ .err then (r.1, m) else r
      rw [← h.agree, List.map_map, List.map_map]
      apply List.map_congr_left
      intro b hb
      simp only [Function.comp, key]
      by_cases e : b.addr = a
      · have := allne (key b) (mem_replicas_of_mem_backends c h b hb) e
        have hm' : b.mode ≠ .err := this
        simp [e, hm']
      · simp [e]
    · exact Nat.le_trans (wo_count_map c.replicas a m hm) h.oneWO
    · show (c.replicas.map _).length ≤ c.rf
      rw [List.length_map]; exact h.lenRf
    · constructor
      · intro b hb
        obtain ⟨b', hb', e⟩ := List.mem_map.mp hb
        have := h.idsLt.1 b' hb'
        rw [← e]; split <;> exact this
      · exact h.idsLt.2
    · intro b hb
      obtain ⟨b', hb', e⟩ := List.mem_map.mp hb
      have := h.idsLive b' hb'
      rw [← e]; split <;> exact this
    · show ((c.backends.map fun (b : Backend) => if b.addr = a then { b with mode := m } else b).map (·.id)).Nodup
      have : (c.backends.map fun (b : Backend) => if b.addr = a then { b with mode := m } else b).map (·.id) = c.backends.map (·.id) := by
        rw [List.map_map]; apply List.map_congr_left; intro b _; simp only [Function.comp]; split <;> rfl
      rw [this]; exact h.idsNodup
  · -- nothing to change: every entry with that address is already ERR
    rw [if_neg hch]
    have hid : (c.replicas.map fun r => if r.1 = a ∧ r.2 ≠ .err then (r.1, m) else r) = c.replicas := by
      have : ∀ r ∈ c.replicas, (if r.1 = a ∧ r.2 ≠ .err then (r.1, m) else r) = r := by
        intro r hr
        have : ¬ (r.1 = a ∧ r.2 ≠ .err) := by
          intro cc; apply hch; exact List.any_eq_true.mpr ⟨r, hr, by simpa using cc⟩
        simp [this]
      rw [List.map_congr_left this, List.map_id']
    exact h.congr rfl hid rfl rfl rfl rfl rfl rfl

theorem cinv_setMode (c : Ctl) (h : CInv c) (a : String) (m : CMode) (hm : m ≠ .wo) : CInv (c.setMode a m) := by
  unfold setMode
  split
  · exact h
  · refine cinv_updateVolStatus _ (ccore_setModeCore c h.core a m hm) ?_
    have s := setModeCore_same c a m
    intro hne
    rw [s.2.2.1, s.2.1]
    exact h.ckpt (by rw [← s.1]; exact hne)

theorem removeBackend_aux (c : Ctl) (hfan : c.writers = (c.backends.filter fun b => b.mode ≠ .err).map (fun b => (b.addr, b.id)) ∧
            c.readers = (c.backends.filter fun b => b.mode = .rw).map (fun b => (b.addr, b.id)) ∧
            c.available = !((c.backends.filter fun b => b.mode = .rw).map (fun b => (b.addr, b.id))).isEmpty) (a : String) :
    let c' := c.removeBackend a
    c'.backends = c.backends.filter (fun x => x.addr ≠ a) ∧ c'.replicas = c.replicas ∧ c'.rf = c.rf ∧
    c'.readOnly = c.readOnly ∧ c'.rwCount = c.rwCount ∧ c'.checkpoint = c.checkpoint ∧ c'.nextId = c.nextId ∧
    c'.writers = (c'.backends.filter fun b => b.mode ≠ .err).map (fun b => (b.addr, b.id)) ∧
    c'.readers = (c'.backends.filter fun b => b.mode = .rw).map (fun b => (b.addr, b.id)) ∧
    c'.available = !((c'.backends.filter fun b => b.mode = .rw).map (fun b => (b.addr, b.id))).isEmpty ∧
    (∀ i, i ∈ c'.closed ↔ i ∈ c.closed ∨ ∃ b ∈ c.backends, b.addr = a ∧ b.id = i ∧ c.backendOf a = some b) := by
  simp only
  unfold removeBackend
  cases hb : c.backendOf a with
  | none =>
    simp only
    have hnone : ∀ x ∈ c.backends, x.addr ≠ a := by
      intro x hx
      have := List.find?_eq_none.mp hb x hx
      simpa using this
    have hf : c.backends.filter (fun x => x.addr ≠ a) = c.backends := by
      apply List.filter_eq_self.mpr
      intro x hx; simpa using hnone x hx
    refine ⟨hf.symm, trivial, trivial, trivial, trivial, trivial, trivial, ?_, ?_, ?_, ?_⟩
    · exact hfan.1
    · exact hfan.2.1
    · exact hfan.2.2
    intro i; constructor
    · intro hi; exact Or.inl hi
    · intro hi; rcases hi with hi | ⟨b, _, _, _, e⟩
      · exact hi
      · cases e
  | some b =>
    simp only [rebuild, call]
    refine ⟨trivial, trivial, trivial, trivial, trivial, trivial, trivial, trivial, trivial, trivial, ?_⟩
    intro i
    have hbm : b ∈ c.backends := List.mem_of_find?_eq_some hb
    have hba : b.addr = a := by have := List.find?_some hb; simpa using this
    constructor
    · intro hi
      rcases List.mem_append.mp hi with hi | hi
      · exact Or.inl hi
      · right; simp at hi; exact ⟨b, hbm, hba, hi.symm, rfl⟩
    · intro hi
      rcases hi with hi | ⟨b', _, _, e1, e2⟩
      · exact List.mem_append.mpr (Or.inl hi)
      · cases e2; exact List.mem_append.mpr (Or.inr (by simp [e1]))


theorem id_inj_of_nodup (l : List Backend) (nd : (l.map (·.id)).Nodup) (b1 b2 : Backend)
    (h1 : b1 ∈ l) (h2 : b2 ∈ l) (e : b1.id = b2.id) : b1 = b2 := by
  induction l with
  | nil => cases h1
  | cons x xs ih =>
    rw [List.map_cons, List.nodup_cons] at nd
    rcases List.mem_cons.mp h1 with e1 | e1 <;> rcases List.mem_cons.mp h2 with e2 | e2
    · rw [e1, e2]
    · exfalso; apply nd.1; rw [← e1, e]; exact List.mem_map.mpr ⟨b2, e2, rfl⟩
    · exfalso; apply nd.1; rw [← e2, ← e]; exact List.mem_map.mpr ⟨b1, e1, rfl⟩
    · exact ih nd.2 e1 e2

/-- `RemoveReplicaNoLock` preserves the invariant (it ends with UpdateVolStatus + UpdateCheckpoint). -/
theorem cinv_removeReplica (c : Ctl) (h : CInv c) (a : String) (e : CkEnv) : CInv (c.removeReplica a e) := by
  unfold removeReplica
  split
  · exact h
  · simp only
    -- name the state on which RemoveBackend runs
    generalize hc2 : ({ (if c.replicas.length = 1 ∧ c.frontUp = true then
          { c with signalled := false, maxRev := "", frontUp := false } else c) with
        registered := (if c.replicas.length = 1 ∧ c.frontUp = true then
          { c with signalled := false, maxRev := "", frontUp := false } else c).registered.filter fun r => full r.addr ≠ a,
        replicas := (if c.replicas.length = 1 ∧ c.frontUp = true then
          { c with signalled := false, maxRev := "", frontUp := false } else c).replicas.filter fun r => r.1 ≠ a } : Ctl) = c2
    have f2 : c2.rf = c.rf ∧ c2.replicas = c.replicas.filter (fun r => r.1 ≠ a) ∧ c2.backends = c.backends ∧
        c2.writers = c.writers ∧ c2.readers = c.readers ∧ c2.available = c.available ∧
        c2.nextId = c.nextId ∧ c2.closed = c.closed := by
      rw [← hc2]; split <;> exact ⟨rfl, rfl, rfl, rfl, rfl, rfl, rfl, rfl⟩
    have hc := h.core
    have aux := removeBackend_aux c2 (by rw [f2.2.2.1, f2.2.2.2.1, f2.2.2.2.2.1, f2.2.2.2.2.2.1]; exact hc.fanout) a
    simp only at aux
    obtain ⟨a1, a2, a3, _, _, _, a7, a8, a9, a10, a11⟩ := aux
    have hback : (c2.removeBackend a).backends = c.backends.filter (fun x => x.addr ≠ a) := by rw [a1, f2.2.2.1]
    have hreps : (c2.removeBackend a).replicas = c.replicas.filter (fun r => r.1 ≠ a) := by rw [a2, f2.2.1]
    have core3 : CCore (c2.removeBackend a) := by
      refine ⟨by rw [a3, f2.1]; exact hc.rfPos, ?_, ?_, ⟨a8, a9, a10⟩, ?_, ?_, ?_, ?_, ?_⟩
      · rw [hreps]
        exact List.Nodup.sublist (List.Sublist.map _ List.filter_sublist) hc.nodup
      · rw [hback, hreps, ← hc.agree, List.filter_map]
        congr 1
      · rw [hreps]
        have : ((c.replicas.filter fun r => r.1 ≠ a).filter fun r => r.2 = .wo).Sublist (c.replicas.filter fun r => r.2 = .wo) :=
          List.Sublist.filter _ List.filter_sublist
        exact Nat.le_trans this.length_le hc.oneWO
      · rw [hreps, a3, f2.1]
        exact Nat.le_trans (List.length_filter_le _ _) hc.lenRf
      · constructor
        · intro b hb
          rw [hback] at hb
          rw [a7, f2.2.2.2.2.2.2.1]
          exact hc.idsLt.1 b (List.mem_filter.mp hb).1
        · intro i hi
          rw [a7, f2.2.2.2.2.2.2.1]
          rcases (a11 i).mp hi with hi | ⟨b, hb, _, e1, _⟩
          · rw [f2.2.2.2.2.2.2.2] at hi; exact hc.idsLt.2 i hi
          · rw [f2.2.2.1] at hb; rw [← e1]; exact hc.idsLt.1 b hb
      · intro b hb hcl
        rw [hback] at hb
        obtain ⟨hbm, hba⟩ := List.mem_filter.mp hb
        rcases (a11 b.id).mp hcl with hi | ⟨b', hb', ha', e1, _⟩
        · rw [f2.2.2.2.2.2.2.2] at hi; exact hc.idsLive b hbm hi
        · rw [f2.2.2.1] at hb'
          have := id_inj_of_nodup c.backends hc.idsNodup b' b hb' hbm e1
          rw [this] at ha'
          simp [ha'] at hba
      · rw [hback]
        exact List.Nodup.sublist (List.Sublist.map _ List.filter_sublist) hc.idsNodup
    exact cinv_updateCheckpoint _ (ccore_updateVolStatus _ core3) (status_updateVolStatus _) e

/-- after the removal the address is gone from both tables, and its backend was closed -/
theorem removeReplica_gone (c : Ctl) (h : CInv c) (a : String) (e : CkEnv) :
    (c.removeReplica a e).hasReplica a = false ∧ (c.removeReplica a e).backendOf a = none := by
  have hc := h.core
  by_cases hh : c.hasReplica a = true
  · unfold removeReplica
    simp only [hh, Bool.not_true, Bool.false_eq_true, if_false]
    generalize hc2 : ({ (if c.replicas.length = 1 ∧ c.frontUp = true then
          { c with signalled := false, maxRev := "", frontUp := false } else c) with
        registered := (if c.replicas.length = 1 ∧ c.frontUp = true then
          { c with signalled := false, maxRev := "", frontUp := false } else c).registered.filter fun r => full r.addr ≠ a,
        replicas := (if c.replicas.length = 1 ∧ c.frontUp = true then
          { c with signalled := false, maxRev := "", frontUp := false } else c).replicas.filter fun r => r.1 ≠ a } : Ctl) = c2
    have f2 : c2.replicas = c.replicas.filter (fun r => r.1 ≠ a) ∧ c2.backends = c.backends ∧
        c2.writers = c.writers ∧ c2.readers = c.readers ∧ c2.available = c.available := by
      rw [← hc2]; split <;> exact ⟨rfl, rfl, rfl, rfl, rfl⟩
    have aux := removeBackend_aux c2 (by rw [f2.2.1, f2.2.2.1, f2.2.2.2.1, f2.2.2.2.2]; exact hc.fanout) a
    simp only at aux
    have s := updateCheckpoint_same ((c2.removeBackend a).updateVolStatus) e
    simp only at s
    constructor
    · unfold hasReplica
      rw [s.2.1]
      show ((c2.removeBackend a).replicas.any fun r => r.1 = a) = false
      rw [aux.2.1, f2.1]
      rw [List.any_eq_false]
      intro r hr
      have := (List.mem_filter.mp hr).2
      simpa using this
    · unfold backendOf
      rw [s.2.2.1]
      show (c2.removeBackend a).backends.find? (fun b => b.addr = a) = none
      rw [aux.1, f2.2.1, List.find?_eq_none]
      intro b hb
      have := (List.mem_filter.mp hb).2
      simpa using this
  · have hh' : c.hasReplica a = false := by simpa using hh
    unfold removeReplica
    simp only [hh', Bool.not_false, if_true]
    refine ⟨by first | exact hh' | trivial, ?_⟩
    unfold backendOf
    rw [List.find?_eq_none]
    intro b hb hba
    have hm := mem_replicas_of_mem_backends c hc b hb
    have hh2 := hh'
    unfold hasReplica at hh2
    rw [List.any_eq_false] at hh2
    have := hh2 (key b) hm
    have e1 : b.addr = a := by simpa using hba
    simp [key, e1] at this

theorem cinv_handleError (c : Ctl) (h : CInv c) (errs : List String) : CInv (c.handleError errs).1 := by
  unfold handleError
  split
  · exact h
  · simp only
    have : ∀ (l : List String) (c0 : Ctl), CInv c0 → CInv (l.foldl (fun c a => c.setMode a .err) c0) := by
      intro l
      induction l with
      | nil => intro c0 h0; exact h0
      | cons x xs ih => intro c0 h0; exact ih _ (cinv_setMode c0 h0 x .err (by decide))
    exact this errs c h

theorem cinv_removeAll (c : Ctl) (h : CInv c) (errs : List String) : CInv (c.removeAll errs) := by
  unfold removeAll
  induction errs generalizing c with
  | nil => exact h
  | cons x xs ih => exact ih _ (cinv_removeReplica c h x CkEnv.none)

theorem cinv_ioFail (c : Ctl) (h : CInv c) (errs : List String) : CInv (c.ioFail errs).1 := by
  unfold ioFail
  exact cinv_removeAll _ (cinv_handleError c h errs) errs

end Ctl
end Jiva
