import JivaVerif.Lemmas.View
/-! The invariant of the differencing disk and the facts every operation preserves. -/
namespace Jiva
namespace DD
variable {β : Type} [Inhabited β]

/-- `location[b] = i` is sound: nothing above `i` holds `b`, and reading `b` from file `i`
    gives what the chain shows (either `i` holds it or nothing below does). -/
def LocOk (d : DD β) (b i : Nat) : Prop :=
  i ≤ d.top ∧ (∀ j, i < j → (d.files j).alloc b = false) ∧
  ((d.files i).alloc b = true ∨ ∀ j, j < i → (d.files j).alloc b = false)

/-- A queued punch of block `b` in file `f` is harmless whenever it is applied: every view
    that must be preserved (retained user snapshots and the live volume) that could see `f`
    has a holder of `b` above `f`; the location map does not point at `f`. -/
def HoleOk (d : DD β) (f b : Nat) : Prop :=
  f < d.top ∧ (d.loc b = 0 ∨ f < d.loc b) ∧
  ∀ u, (d.ur u = true ∨ u = d.top) → f ≤ u → ∃ h, f < h ∧ h ≤ u ∧ (d.files h).alloc b = true

structure WF (d : DD β) : Prop where
  bs_pos     : 0 < d.bs
  top_pos    : 1 ≤ d.top
  empty0     : ∀ b, (d.files 0).alloc b = false
  emptyAbove : ∀ i, d.top < i → ∀ b, (d.files i).alloc b = false
  locOk      : ∀ b, d.loc b ≠ 0 → LocOk d b (d.loc b)
  locOut     : ∀ b, d.nb ≤ b → d.loc b = 0
  urLe       : ∀ i, d.ur i = true → i ≤ d.snapIdx
  ucLt       : ∀ i, d.uc i = true → 1 ≤ i ∧ i < d.top
  markCover  : ∀ i, d.ur i = true → d.marks i = true ∨ d.marks (i + 1) = true
  marksAbove : ∀ i, d.top < i → d.marks i = false
  pendOk     : ∀ p, p ∈ d.pend → HoleOk d p.1 p.2

theorem ur_uc (d : DD β) (i : Nat) (h : d.ur i = true) : d.uc i = true := by
  unfold ur at h; simp at h; exact h.1

theorem WF.urLt {d : DD β} (h : WF d) (i : Nat) (hu : d.ur i = true) : i < d.top :=
  (h.ucLt i (ur_uc d i hu)).2

theorem WF.urPos {d : DD β} (h : WF d) (i : Nat) (hu : d.ur i = true) : 1 ≤ i :=
  (h.ucLt i (ur_uc d i hu)).1

theorem wf_init (bs nb : Nat) (h : 0 < bs) : WF (init bs nb : DD β) := by
  refine ⟨h, by simp [init], ?_, ?_, ?_, ?_, ?_, ?_, ?_, ?_, ?_⟩ <;> simp [init, File.empty, ur]

/-- Reading block `b` through a sound location entry gives the chain's view. -/
theorem get_eq_view_of_locOk (d : DD β) (h : WF d) (u i : Nat) (hl : LocOk d (u / d.bs) i) :
    (d.files i).get d.bs u = d.live u := by
  obtain ⟨h1, h2, h3⟩ := hl
  unfold live view
  rw [viewUpTo_of_none_above d.files d.bs u i d.top h1 (fun j hj _ => h2 j hj)]
  unfold File.get
  cases i with
  | zero => simp [h.empty0, viewUpTo]
  | succ i =>
    rw [viewUpTo_succ]
    by_cases ha : (d.files (i + 1)).alloc (u / d.bs) = true
    · simp [ha]
    · simp only [ha, if_false]
      cases h3 with
      | inl h3 => exact absurd h3 ha
      | inr h3 => exact (viewUpTo_of_none d.files d.bs u i (fun j hj => h3 j (by omega))).symm

theorem scan_locOk (d : DD β) (h : WF d) (b : Nat) : LocOk d b (scan d.files b d.top) := by
  have ⟨s1, s2, s3, s4⟩ := scan_spec d.files b d.top h.top_pos
  refine ⟨s2, ?_, ?_⟩
  · intro j hj
    by_cases hjt : j ≤ d.top
    · exact s3 j hj hjt
    · exact h.emptyAbove j (by omega) b
  · by_cases hs : 1 < scan d.files b d.top
    · left; exact s4 hs
    · right; intro j hj; have : j = 0 := by omega
      subst this; exact h.empty0 b

/-- `lookup` returns a sound index for every block of the volume. -/
theorem idx_locOk (d : DD β) (h : WF d) (b : Nat) (hb : b < d.nb) : LocOk d b (d.idx b) := by
  unfold idx
  have hnb : ¬ d.nb ≤ b := by omega
  simp only [hnb, if_false]
  by_cases h1 : d.top = 1
  · simp only [h1, if_true]
    refine ⟨by omega, fun j hj => h.emptyAbove j (by omega) b, ?_⟩
    right; intro j hj; have : j = 0 := by omega
    subst this; exact h.empty0 b
  · simp only [h1, if_false]
    by_cases h2 : d.loc b ≠ 0
    · rw [if_pos h2]; exact h.locOk b h2
    · rw [if_neg h2]
      exact scan_locOk d h b

/-- C01 core: a read returns the live view. -/
theorem readUnit_eq_live (d : DD β) (h : WF d) (u : Nat) (hu : u / d.bs < d.nb) :
    d.readUnit u = d.live u :=
  get_eq_view_of_locOk d h u _ (idx_locOk d h (u / d.bs) hu)

/-- The memoising side effect of `lookup` preserves the invariant. -/
theorem wf_memo (d : DD β) (h : WF d) (b : Nat) : WF (d.memo b) := by
  unfold memo
  split
  · exact h
  · split
    · exact h
    · split
      · exact h
      · rename_i hnb _ hl
        have hl0 : d.loc b = 0 := by simpa using hl
        have hs := scan_locOk d h b
        refine ⟨h.bs_pos, h.top_pos, h.empty0, h.emptyAbove, ?_, ?_, h.urLe, h.ucLt, h.markCover,
          h.marksAbove, ?_⟩
        · intro b' hb'
          by_cases e : b' = b
          · subst e; simpa [LocOk] using hs
          · simp only [e, if_false] at hb' ⊢
            exact h.locOk b' hb'
        · intro b' hb'
          have hb2 : d.nb ≤ b' := hb'
          have : b' ≠ b := by omega
          show (if b' = b then scan d.files b d.top else d.loc b') = 0
          simp only [this, if_false]; exact h.locOut b' hb2
        · intro p hp
          have ⟨q0, q1, q2⟩ := h.pendOk p hp
          refine ⟨q0, ?_, q2⟩
          show (if p.2 = b then scan d.files b d.top else d.loc p.2) = 0 ∨
               p.1 < (if p.2 = b then scan d.files b d.top else d.loc p.2)
          by_cases e : p.2 = b
          · simp only [e, if_true]
            right
            have ⟨hh, h1, h2, h3⟩ := q2 d.top (Or.inr rfl) (by omega)
            have ⟨s1, s2, s3, s4⟩ := scan_spec d.files b d.top h.top_pos
            by_cases c : hh ≤ scan d.files b d.top
            · omega
            · have := s3 hh (by omega) h2
              rw [e] at h3; rw [h3] at this; cases this
          · simp only [e, if_false]; exact q1

theorem memo_files (d : DD β) (b : Nat) : (d.memo b).files = d.files := by
  unfold memo; split; rfl; split; rfl; split <;> rfl

theorem memo_other (d : DD β) (b : Nat) :
    (d.memo b).bs = d.bs ∧ (d.memo b).nb = d.nb ∧ (d.memo b).top = d.top ∧
    (d.memo b).marks = d.marks ∧ (d.memo b).snapIdx = d.snapIdx ∧ (d.memo b).uc = d.uc ∧
    (d.memo b).rm = d.rm ∧ (d.memo b).pend = d.pend ∧ (d.memo b).punch = d.punch := by
  unfold memo; split
  · simp
  · split
    · simp
    · split <;> simp

end DD
end Jiva
