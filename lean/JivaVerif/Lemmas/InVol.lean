import JivaVerif.Lemmas.Refine
/-! No chain file holds a block outside the volume (needed for "the added range reads zero"). -/
namespace Jiva
namespace DD
variable {β : Type} [Inhabited β]

def InVol (d : DD β) : Prop := ∀ i b, d.nb ≤ b → (d.files i).alloc b = false

theorem inVol_init (bs nb : Nat) : InVol (DD.init bs nb : DD β) := by
  intro i b _; simp [init, File.empty]

theorem inVol_step (d : DD β) (h : WF d) (hv : InVol d) (op : Op β) (ha : Adm d op) :
    InVol (d.step op) := by
  cases op with
  | write off len buf =>
    have w := writeOk_write d h off len buf ha
    intro i b hb
    have hb' : d.nb ≤ b := by rw [← w.nb]; exact hb
    show ((d.write off len buf).files i).alloc b = false
    cases hh : ((d.write off len buf).files i).alloc b with
    | false => rfl
    | true =>
      rcases w.alloc i b hh with c | c
      · rw [hv i b hb'] at c; cases c
      · omega
  | read off len =>
    intro i b hb
    have m := memoRange_files d (off / d.bs) (blocksTouched d.bs off len)
    show (((d.read off len).1).files i).alloc b = false
    unfold read; simp only; rw [m.1]
    exact hv i b (by have : (d.read off len).1.nb = d.nb := m.2.2.2.1; rw [← this]; exact hb)
  | snapshot user => exact hv
  | markRemoved k => exact hv
  | coalesce k =>
    intro i b hb
    show ((d.coalesce k).files i).alloc b = false
    rw [coalesce_alloc]
    split
    · rw [hv k b hb, hv (k - 1) b hb]; rfl
    · exact hv i b hb
  | removeIdx k =>
    intro i b hb
    show (shift k d.files i).alloc b = false
    unfold shift; split
    · exact hv i b hb
    · exact hv (i + 1) b hb
  | applyHole j =>
    rcases applyHole_cases d j with e | ⟨f, b0, _, e⟩
    · show InVol (d.applyHole j); rw [e]; exact hv
    · show InVol (d.applyHole j); rw [e]
      intro i b hb
      show ((if i = f then (d.files f).punch b0 else d.files i)).alloc b = false
      split
      · rw [punch_alloc]; split
        · rfl
        · exact hv f b hb
      · exact hv i b hb
  | dropHoles => exact hv
  | reopen pre =>
    intro i b hb
    have e : d.reopen pre = if pre then (fresh d).preload else fresh d := rfl
    have hf : (d.reopen pre).files = d.files := by rw [e]; split <;> rfl
    have hn : (d.reopen pre).nb = d.nb := by rw [e]; split <;> rfl
    show ((d.reopen pre).files i).alloc b = false
    rw [hf]; exact hv i b (by rw [← hn]; exact hb)
  | revert k =>
    intro i b hb
    have e : (cut d k).reopen true = (fresh (cut d k)).preload := rfl
    show (((cut d k).reopen true).files i).alloc b = false
    rw [e]
    show ((if i ≤ k then d.files i else File.empty)).alloc b = false
    split
    · exact hv i b hb
    · rfl
  | resize nb =>
    intro i b hb
    have : d.nb ≤ b := by have h1 : nb ≤ b := hb; have h2 : d.nb ≤ nb := ha; omega
    exact hv i b this
  | setPunch p => exact hv
  | lunmap => exact hv

/-- a unit outside every allocated block reads as zero through any number of layers -/
theorem view_zero_outside (d : DD β) (hv : InVol d) (i u : Nat) (hu : d.nb ≤ u / d.bs) :
    d.view i u = default :=
  viewUpTo_of_none d.files d.bs u i (fun j _ => hv j (u / d.bs) hu)

end DD
end Jiva
