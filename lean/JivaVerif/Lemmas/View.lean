import JivaVerif.Model.DiffDisk
/-! Helper lemmas about `viewUpTo`, `scan`, `lastMark`. -/
namespace Jiva
namespace DD
variable {β : Type} [Inhabited β]

theorem viewUpTo_succ (files : Nat → File β) (bs i u : Nat) :
    viewUpTo files bs (i + 1) u =
      if (files (i + 1)).alloc (u / bs) then (files (i + 1)).data u else viewUpTo files bs i u := rfl

/-- Layers above `i` that do not hold the block are invisible. -/
theorem viewUpTo_of_none_above (files : Nat → File β) (bs u i : Nat) :
    ∀ n, i ≤ n → (∀ j, i < j → j ≤ n → (files j).alloc (u / bs) = false) →
      viewUpTo files bs n u = viewUpTo files bs i u := by
  intro n
  induction n with
  | zero => intro h _; have : i = 0 := by omega
            subst this; rfl
  | succ n ih =>
    intro h hn
    by_cases hi : i = n + 1
    · subst hi; rfl
    · have h1 : i ≤ n := by omega
      rw [viewUpTo_succ, hn (n + 1) (by omega) (by omega)]
      simp only [Bool.false_eq_true, if_false]
      exact ih h1 (fun j hj hjn => hn j hj (by omega))

/-- Nothing at or below `i` holds the block: the view is zero. -/
theorem viewUpTo_of_none (files : Nat → File β) (bs u : Nat) :
    ∀ i, (∀ j, j ≤ i → (files j).alloc (u / bs) = false) → viewUpTo files bs i u = default := by
  intro i
  induction i with
  | zero => intro _; rfl
  | succ i ih =>
    intro h
    rw [viewUpTo_succ, h (i + 1) (by omega)]
    simp only [Bool.false_eq_true, if_false]
    exact ih (fun j hj => h j (by omega))

/-- The view only depends on the files `1..i` at the block of `u`. -/
theorem viewUpTo_congr (f g : Nat → File β) (bs u : Nat) :
    ∀ i, (∀ j, 1 ≤ j → j ≤ i → (f j).alloc (u / bs) = (g j).alloc (u / bs) ∧
                 ((f j).alloc (u / bs) = true → (f j).data u = (g j).data u)) →
      viewUpTo f bs i u = viewUpTo g bs i u := by
  intro i
  induction i with
  | zero => intro _; rfl
  | succ i ih =>
    intro h
    have h1 := h (i + 1) (by omega) (by omega)
    rw [viewUpTo_succ, viewUpTo_succ, ← h1.1]
    by_cases ha : (f (i + 1)).alloc (u / bs) = true
    · simp only [ha, if_true]; exact h1.2 ha
    · simp only [ha, if_false]
      exact ih (fun j hj hji => h j hj (by omega))

/-- If some layer in `(f, i]` holds the block, layer `f` does not matter for the view at `i`. -/
theorem viewUpTo_congr_below (f g : Nat → File β) (bs u k : Nat) :
    ∀ i, (∃ h, k < h ∧ h ≤ i ∧ (f h).alloc (u / bs) = true) →
      (∀ j, j ≠ k → f j = g j) →
      viewUpTo f bs i u = viewUpTo g bs i u := by
  intro i
  induction i with
  | zero => intro ⟨h, h1, h2, _⟩; omega
  | succ i ih =>
    intro ⟨h, hk, hi, ha⟩ hfg
    have e : f (i + 1) = g (i + 1) := hfg (i + 1) (by omega)
    rw [viewUpTo_succ, viewUpTo_succ, ← e]
    by_cases ht : (f (i + 1)).alloc (u / bs) = true
    · simp only [ht, if_true]
    · simp only [ht, if_false]
      have : h ≠ i + 1 := by intro hh; subst hh; exact ht ha
      exact ih ⟨h, hk, by omega, ha⟩ hfg

/-! ### scan -/

theorem scan_spec (files : Nat → File β) (b : Nat) :
    ∀ n, 1 ≤ n →
      1 ≤ scan files b n ∧ scan files b n ≤ n ∧
      (∀ j, scan files b n < j → j ≤ n → (files j).alloc b = false) ∧
      (1 < scan files b n → (files (scan files b n)).alloc b = true) := by
  intro n
  induction n with
  | zero => intro h; omega
  | succ n ih =>
    intro _
    cases n with
    | zero => refine ⟨by simp [scan], by simp [scan], ?_, ?_⟩
              · intro j h1 h2; simp [scan] at h1; omega
              · simp [scan]
    | succ n =>
      by_cases ha : (files (n + 2)).alloc b = true
      · have e : scan files b (n + 2) = n + 2 := by simp [scan, ha]
        rw [e]
        exact ⟨by omega, by omega, fun j h1 h2 => by omega, fun _ => ha⟩
      · have e : scan files b (n + 2) = scan files b (n + 1) := by simp [scan, ha]
        rw [e]
        have ⟨i1, i2, i3, i4⟩ := ih (by omega)
        refine ⟨i1, by omega, ?_, i4⟩
        intro j h1 h2
        by_cases hj : j = n + 2
        · subst hj; simpa using ha
        · exact i3 j h1 (by omega)

/-! ### lastMark -/

theorem lastMark_le (m : Nat → Bool) : ∀ i, lastMark m i ≤ i := by
  intro i; induction i with
  | zero => simp [lastMark]
  | succ i ih => unfold lastMark; split <;> omega

theorem lastMark_ge (m : Nat → Bool) : ∀ i j, 1 ≤ j → j ≤ i → m j = true → j ≤ lastMark m i := by
  intro i; induction i with
  | zero => intro j h1 h2; omega
  | succ i ih =>
    intro j h1 h2 hm
    unfold lastMark
    split
    · omega
    · rename_i hf
      have : j ≠ i + 1 := by intro h; subst h; exact hf hm
      exact ih j h1 (by omega) hm

theorem lastMark_marked (m : Nat → Bool) : ∀ i, lastMark m i ≠ 0 → m (lastMark m i) = true := by
  intro i; induction i with
  | zero => simp [lastMark]
  | succ i ih =>
    unfold lastMark
    split
    · intro _; assumption
    · exact ih

end DD
end Jiva
