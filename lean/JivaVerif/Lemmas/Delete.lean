import JivaVerif.Lemmas.Chain
/-! Coalesce + RemoveIndex (snapshot deletion). -/
namespace Jiva
namespace DD
variable {β : Type} [Inhabited β]

theorem coalesce_alloc (d : DD β) (k j b : Nat) :
    ((d.coalesce k).files j).alloc b =
      if j = k - 1 then ((d.files k).alloc b || (d.files (k - 1)).alloc b) else (d.files j).alloc b := by
  unfold coalesce; by_cases e : j = k - 1 <;> simp [e]

theorem wf_coalesce (d : DD β) (h : WF d) (k : Nat) (hk : 2 ≤ k) (hkt : k ≤ d.top) : WF (d.coalesce k) := by
  have mono : ∀ j b, (d.files j).alloc b = true → ((d.coalesce k).files j).alloc b = true := by
    intro j b hh; rw [coalesce_alloc]; split
    · rename_i e; subst e; simp [hh]
    · exact hh
  refine ⟨h.bs_pos, h.top_pos, ?_, ?_, ?_, h.locOut, h.urLe, h.ucLt, h.markCover, h.marksAbove, ?_⟩
  · intro b; rw [coalesce_alloc]
    have : (0 : Nat) ≠ k - 1 := by omega
    simp only [this, if_false]; exact h.empty0 b
  · intro j hj b; rw [coalesce_alloc]
    have hj' : d.top < j := hj
    have : j ≠ k - 1 := by omega
    simp only [this, if_false]; exact h.emptyAbove j hj' b
  · intro b hb
    have hb' : d.loc b ≠ 0 := hb
    have ⟨l1, l2, l3⟩ := h.locOk b hb'
    refine ⟨l1, ?_, ?_⟩
    · intro j hj
      have hj' : d.loc b < j := hj
      rw [coalesce_alloc]
      by_cases e : j = k - 1
      · simp only [e, if_true]
        rw [l2 k (by omega), l2 (k - 1) (by omega)]; rfl
      · simp only [e, if_false]; exact l2 j hj'
    · rcases l3 with l3 | l3
      · left; exact mono _ _ l3
      · by_cases ha : (d.files (d.loc b)).alloc b = true
        · left; exact mono _ _ ha
        · right
          intro j hj
          have hj' : j < d.loc b := hj
          rw [coalesce_alloc]
          by_cases e : j = k - 1
          · simp only [e, if_true]
            rw [l3 (k - 1) (by omega)]
            by_cases ek : k = d.loc b
            · rw [ek]; simp at ha; simp [ha]
            · rw [l3 k (by omega)]; rfl
          · simp only [e, if_false]; exact l3 j hj'
  · intro p hp
    have ⟨q0, q1, q2⟩ := h.pendOk p hp
    refine ⟨q0, q1, ?_⟩
    intro u hu hfu
    have ⟨hh, a1, a2, a3⟩ := q2 u hu hfu
    exact ⟨hh, a1, a2, mono _ _ a3⟩

/-- views at or above `k`, and strictly below `k-1`, are unchanged by the fold; the parent now
    shows what the child showed. -/
theorem viewUpTo_coalesce_below (d : DD β) (k u : Nat) (i : Nat) (hi : i + 1 < k) :
    viewUpTo (d.coalesce k).files d.bs i u = viewUpTo d.files d.bs i u := by
  apply viewUpTo_congr
  intro j _ hj
  have : j ≠ k - 1 := by omega
  simp [coalesce, this]

theorem viewUpTo_coalesce_parent (d : DD β) (k u : Nat) (hk : 2 ≤ k) :
    viewUpTo (d.coalesce k).files d.bs (k - 1) u = viewUpTo d.files d.bs k u := by
  obtain ⟨m, hm⟩ : ∃ m, k = m + 2 := ⟨k - 2, by omega⟩
  subst hm
  show viewUpTo (d.coalesce (m + 2)).files d.bs (m + 1) u = viewUpTo d.files d.bs (m + 2) u
  rw [viewUpTo_succ, viewUpTo_succ, viewUpTo_succ, viewUpTo_coalesce_below d (m + 2) u m (by omega)]
  have hf : (d.coalesce (m + 2)).files (m + 1) =
      ⟨fun b => (d.files (m + 2)).alloc b || (d.files (m + 1)).alloc b,
       fun u => if (d.files (m + 2)).alloc (u / d.bs) then (d.files (m + 2)).data u else (d.files (m + 1)).data u⟩ := by
    simp [coalesce]
  rw [hf]
  by_cases a : (d.files (m + 2)).alloc (u / d.bs) = true
  · simp [a]
  · simp [a]

theorem viewUpTo_coalesce_above (d : DD β) (k u : Nat) (hk : 2 ≤ k) :
    ∀ i, k ≤ i → viewUpTo (d.coalesce k).files d.bs i u = viewUpTo d.files d.bs i u := by
  intro i
  induction i with
  | zero => intro h; omega
  | succ i ih =>
    intro hi
    have hf : (d.coalesce k).files (i + 1) = d.files (i + 1) := by
      have : i + 1 ≠ k - 1 := by omega
      simp [coalesce, this]
    rw [viewUpTo_succ, viewUpTo_succ, hf]
    by_cases e : k = i + 1
    · -- the layer directly above the merged parent
      subst e
      by_cases a : (d.files (i + 1)).alloc (u / d.bs) = true
      · simp [a]
      · have := viewUpTo_coalesce_parent d (i + 1) u hk
        simp only [Nat.add_sub_cancel] at this
        rw [this, viewUpTo_succ]; simp [a]
    · rw [ih (by omega)]

/-- **C11 core (coalesce).** Folding snapshot `k` into `k-1` changes no view except that of
    `k-1`, which becomes the old view of `k`. -/
theorem view_coalesce (d : DD β) (k i u : Nat) (hk : 2 ≤ k) (hi : i ≠ k - 1) :
    (d.coalesce k).view i u = d.view i u := by
  unfold view
  by_cases c : k ≤ i
  · exact viewUpTo_coalesce_above d k u hk i c
  · exact viewUpTo_coalesce_below d k u i (by omega)

theorem view_coalesce_parent (d : DD β) (k u : Nat) (hk : 2 ≤ k) :
    (d.coalesce k).view (k - 1) u = d.view k u := viewUpTo_coalesce_parent d k u hk


theorem coalesced_coalesce (d : DD β) (k : Nat) (hk : 2 ≤ k) : Coalesced (d.coalesce k) k := by
  intro u ha
  have e1 : (d.coalesce k).files k = d.files k := by
    have : k ≠ k - 1 := by omega
    simp [coalesce, this]
  have e2 : (d.coalesce k).bs = d.bs := rfl
  rw [e1, e2] at ha
  rw [e1, e2]
  simp [coalesce, ha]

theorem shift_lt (k : Nat) (f : Nat → α) (i : Nat) (h : i < k) : shift k f i = f i := by simp [shift, h]
theorem shift_ge (k : Nat) (f : Nat → α) (i : Nat) (h : k ≤ i) : shift k f i = f (i + 1) := by
  have : ¬ i < k := by omega
  simp [shift, this]

/-- once folded, layer `k` adds nothing to the view -/
theorem viewUpTo_coalesced (d : DD β) (k u : Nat) (hk : 2 ≤ k) (hc : Coalesced d k) :
    viewUpTo d.files d.bs k u = viewUpTo d.files d.bs (k - 1) u := by
  obtain ⟨m, hm⟩ : ∃ m, k = m + 2 := ⟨k - 2, by omega⟩
  subst hm
  show viewUpTo d.files d.bs (m + 2) u = viewUpTo d.files d.bs (m + 1) u
  rw [viewUpTo_succ]
  by_cases a : (d.files (m + 2)).alloc (u / d.bs) = true
  · have ⟨c1, c2⟩ := hc u a
    have c1' : (d.files (m + 1)).alloc (u / d.bs) = true := c1
    have c2' : (d.files (m + 1)).data u = (d.files (m + 2)).data u := c2
    rw [viewUpTo_succ]; simp [a, c1', c2']
  · simp [a]

theorem viewUpTo_removeIdx (d : DD β) (k u : Nat) (hk : 2 ≤ k) (hc : Coalesced d k) :
    ∀ i, viewUpTo (shift k d.files) d.bs i u =
      if i < k then viewUpTo d.files d.bs i u else viewUpTo d.files d.bs (i + 1) u := by
  intro i
  induction i with
  | zero =>
    have : 0 < k := by omega
    simp only [this, if_true]; rfl
  | succ i ih =>
    rw [viewUpTo_succ]
    by_cases c : i + 1 < k
    · rw [shift_lt k _ _ c, ih]
      have : i < k := by omega
      simp only [c, this, if_true]; rw [viewUpTo_succ]
    · rw [shift_ge k _ _ (by omega), ih]
      simp only [c, if_false]
      rw [viewUpTo_succ (i := i + 1)]
      by_cases e : i < k
      · -- i + 1 = k : the removed layer is skipped
        have ek : k = i + 1 := by omega
        simp only [e, if_true]
        have := viewUpTo_coalesced d k u hk hc
        rw [ek] at this; simp only [Nat.add_sub_cancel] at this
        rw [this]
      · simp only [e, if_false]

end DD
end Jiva
