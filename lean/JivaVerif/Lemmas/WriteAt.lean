import JivaVerif.Lemmas.Write
/-! `diffDisk.WriteAt`: the three-way split equals the unit-wise update. -/
namespace Jiva
namespace DD
variable {β : Type} [Inhabited β]

/-- What a write of `buf` to the units `[off, off+len)` must achieve. -/
structure WriteOk (d d' : DD β) (off len : Nat) (buf : Nat → β) : Prop where
  wf    : WF d'
  live  : ∀ u, d'.live u = if off ≤ u ∧ u < off + len then buf u else d.live u
  below : ∀ i u, i < d.top → d'.view i u = d.view i u
  bs    : d'.bs = d.bs
  nb    : d'.nb = d.nb
  top   : d'.top = d.top
  same  : d'.uc = d.uc ∧ d'.rm = d.rm ∧ d'.marks = d.marks ∧ d'.snapIdx = d.snapIdx ∧ d'.punch = d.punch
  alloc : ∀ i b, (d'.files i).alloc b = true → (d.files i).alloc b = true ∨ b < d.nb

theorem rmw_zero (d : DD β) (off : Nat) (buf : Nat → β) : d.rmw off 0 buf = d := by
  unfold rmw; simp

theorem rmw_meta (d : DD β) (off len : Nat) (buf : Nat → β) :
    (d.rmw off len buf).uc = d.uc ∧ (d.rmw off len buf).rm = d.rm ∧ (d.rmw off len buf).marks = d.marks ∧
    (d.rmw off len buf).snapIdx = d.snapIdx ∧ (d.rmw off len buf).punch = d.punch := by
  unfold rmw
  split
  · simp
  · have := memo_other d (off / d.bs)
    simp only [fullWrite]
    exact ⟨this.2.2.2.2.2.1, this.2.2.2.2.2.2.1, this.2.2.2.1, this.2.2.2.2.1, this.2.2.2.2.2.2.2.2⟩

theorem rmw_alloc (d : DD β) (off len : Nat) (buf : Nat → β) (hb : off / d.bs < d.nb) (i b : Nat)
    (ha : ((d.rmw off len buf).files i).alloc b = true) : (d.files i).alloc b = true ∨ b < d.nb := by
  unfold rmw at ha
  split at ha
  · left; exact ha
  · simp only at ha
    rw [fullWrite_alloc, memo_files] at ha
    split at ha
    · rename_i c; right; omega
    · left; exact ha

theorem writeOk_rmw (d : DD β) (h : WF d) (off len : Nat) (buf : Nat → β) (hb : off / d.bs < d.nb)
    (h1b : OneBlock d.bs off len) : WriteOk d (d.rmw off len buf) off len buf :=
  ⟨wf_rmw d h off len buf hb, live_rmw d h off len buf hb h1b,
   fun i u hi => view_rmw_below d off len buf i u hi,
   (rmw_other d off len buf).1, (rmw_other d off len buf).2.1, (rmw_other d off len buf).2.2,
   rmw_meta d off len buf, rmw_alloc d off len buf hb⟩

theorem writeOk_fullWrite (d : DD β) (h : WF d) (s n : Nat) (buf : Nat → β) (hr : s + n ≤ d.nb) :
    WriteOk d (d.fullWrite s n buf) (s * d.bs) (n * d.bs) buf := by
  refine ⟨wf_fullWrite d h s n buf hr, ?_, fun i u hi => view_fullWrite_below d s n buf i u hi,
    rfl, rfl, rfl, ⟨rfl, rfl, rfl, rfl, rfl⟩, ?_⟩
  rotate_left
  · intro i b ha
    rw [fullWrite_alloc] at ha
    split at ha
    · rename_i c; right; omega
    · left; exact ha
  intro u
  rw [live_fullWrite d h]
  have hbs := h.bs_pos
  have e1 : (s ≤ u / d.bs) ↔ s * d.bs ≤ u := Nat.le_div_iff_mul_le hbs
  have e2 : (u / d.bs < s + n) ↔ u < (s + n) * d.bs := Nat.div_lt_iff_lt_mul hbs
  rw [Nat.add_mul] at e2
  by_cases c : s * d.bs ≤ u ∧ u < s * d.bs + n * d.bs
  · have : s ≤ u / d.bs ∧ u / d.bs < s + n := ⟨e1.mpr c.1, e2.mpr c.2⟩
    simp only [this, c, and_self, if_true]
  · have : ¬ (s ≤ u / d.bs ∧ u / d.bs < s + n) := fun ⟨a, b⟩ => c ⟨e1.mp a, e2.mp b⟩
    simp only [this, c, if_false]

/-- two consecutive updates compose -/
theorem WriteOk.trans {d d1 d2 : DD β} {off l1 l2 : Nat} {buf : Nat → β}
    (a : WriteOk d d1 off l1 buf) (b : WriteOk d1 d2 (off + l1) l2 buf) :
    WriteOk d d2 off (l1 + l2) buf := by
  refine ⟨b.wf, ?_, ?_, b.bs.trans a.bs, b.nb.trans a.nb, b.top.trans a.top, ?_, ?_⟩
  rotate_right
  · intro i blk hh
    rcases b.alloc i blk hh with c | c
    · exact a.alloc i blk c
    · right; rw [← a.nb]; exact c
  · intro u
    rw [b.live, a.live]
    by_cases c1 : off + l1 ≤ u ∧ u < off + l1 + l2
    · have : off ≤ u ∧ u < off + (l1 + l2) := by omega
      simp only [c1, this, and_self, if_true]
    · simp only [c1, if_false]
      by_cases c2 : off ≤ u ∧ u < off + l1
      · have : off ≤ u ∧ u < off + (l1 + l2) := by omega
        simp only [c2, this, and_self, if_true]
      · have : ¬ (off ≤ u ∧ u < off + (l1 + l2)) := by omega
        simp only [c2, this, if_false]
  · intro i u hi
    rw [b.below i u (by rw [a.top]; exact hi), a.below i u hi]
  · obtain ⟨a1, a2, a3, a4, a5⟩ := a.same
    obtain ⟨b1, b2, b3, b4, b5⟩ := b.same
    exact ⟨b1.trans a1, b2.trans a2, b3.trans a3, b4.trans a4, b5.trans a5⟩

/-- **C01, write half.** `WriteAt` of any unit range inside the volume — whatever its alignment —
    updates exactly the units written, leaves every snapshot layer untouched and preserves the
    invariant. -/
theorem writeOk_write (d : DD β) (h : WF d) (off len : Nat) (buf : Nat → β)
    (hr : off + len ≤ d.nb * d.bs) : WriteOk d (d.write off len buf) off len buf := by
  have hbs := h.bs_pos
  have hq := Nat.div_add_mod' off d.bs
  have hrlt := Nat.mod_lt off hbs
  have he := Nat.div_add_mod' (len + off) d.bs
  have hflt := Nat.mod_lt (len + off) hbs
  unfold write
  simp only
  by_cases hl : len = 0
  · subst hl
    simp only [if_true]
    refine ⟨h, ?_, fun _ _ _ => rfl, rfl, rfl, rfl, ⟨rfl, rfl, rfl, rfl, rfl⟩, fun _ _ hh => Or.inl hh⟩
    intro u
    have : ¬ (off ≤ u ∧ u < off + 0) := by omega
    simp only [this, if_false]
  · rw [if_neg hl]
    by_cases hA : off % d.bs = 0 ∧ (len + off) % d.bs = 0
    · rw [if_pos hA]
      -- aligned: off = q*bs, len = n*bs
      have hn := Nat.div_add_mod' len d.bs
      have hg : len % d.bs = 0 := by
        have : (len + off) % d.bs = (len % d.bs + (len / d.bs + off / d.bs) * d.bs) % d.bs := by
          congr 1; rw [Nat.add_mul]; omega
        rw [Nat.add_mul_mod_self_right, Nat.mod_mod] at this
        omega
      have e1 : off = off / d.bs * d.bs := by omega
      have e2 : len = len / d.bs * d.bs := by omega
      have hsn : off / d.bs + len / d.bs ≤ d.nb := by
        apply Nat.le_of_mul_le_mul_right _ hbs
        rw [Nat.add_mul]; omega
      have := writeOk_fullWrite d h (off / d.bs) (len / d.bs) buf hsn
      rw [← e1, ← e2] at this
      exact this
    · rw [if_neg hA]
      have hoffnb : off / d.bs < d.nb := (Nat.div_lt_iff_lt_mul hbs).mpr (by omega)
      by_cases hB : len ≤ d.bs - off % d.bs
      · rw [if_pos hB]
        apply writeOk_rmw d h off len buf hoffnb
        intro u hu1 hu2
        exact div_eq_of_bounds d.bs (off / d.bs) u hbs (by omega) (by omega)
      · rw [if_neg hB]
        -- three-way split
        -- e ≥ q + 1
        have heq : off / d.bs + 1 ≤ (len + off) / d.bs := by
          apply Classical.byContradiction
          intro hc
          have : (len + off) / d.bs ≤ off / d.bs := by omega
          have := Nat.mul_le_mul_right d.bs this
          omega
        obtain ⟨n, hn⟩ : ∃ n, (len + off) / d.bs = off / d.bs + 1 + n :=
          ⟨(len + off) / d.bs - (off / d.bs + 1), by omega⟩
        rw [hn, Nat.add_mul, Nat.add_mul, Nat.one_mul] at he
        -- first piece
        have s1 : WriteOk d (d.rmw off (d.bs - off % d.bs) buf) off (d.bs - off % d.bs) buf := by
          apply writeOk_rmw d h off _ buf hoffnb
          intro u hu1 hu2
          exact div_eq_of_bounds d.bs (off / d.bs) u hbs (by omega) (by omega)
        -- middle piece
        have em : off + (d.bs - off % d.bs) = (off / d.bs + 1) * d.bs := by
          rw [Nat.add_mul, Nat.one_mul]; omega
        have emid : len - (d.bs - off % d.bs) - (len + off) % d.bs = n * d.bs := by omega
        have hdiv1 : (off + (d.bs - off % d.bs)) / d.bs = off / d.bs + 1 := by
          rw [em]; exact Nat.mul_div_cancel _ hbs
        have hdiv2 : (len - (d.bs - off % d.bs) - (len + off) % d.bs) / d.bs = n := by
          rw [emid]; exact Nat.mul_div_cancel _ hbs
        rw [hdiv1, hdiv2]
        have hsn : off / d.bs + 1 + n ≤ (d.rmw off (d.bs - off % d.bs) buf).nb := by
          rw [s1.nb]
          apply Nat.le_of_mul_le_mul_right _ hbs
          rw [Nat.add_mul, Nat.add_mul, Nat.one_mul]; omega
        have s2 := writeOk_fullWrite _ s1.wf (off / d.bs + 1) n buf hsn
        rw [s1.bs, ← em] at s2
        have s12 := s1.trans s2
        -- last piece
        have elast : off + len - (len + off) % d.bs = off + (d.bs - off % d.bs + n * d.bs) := by omega
        rw [elast]
        by_cases hf : (len + off) % d.bs = 0
        · rw [hf, rmw_zero]
          have : d.bs - off % d.bs + n * d.bs = len := by omega
          rw [this] at s12; exact s12
        · generalize ((d.rmw off (d.bs - off % d.bs) buf).fullWrite (off / d.bs + 1) n buf) = d2 at s12 ⊢
          have s3 : WriteOk d2 (d2.rmw (off + (d.bs - off % d.bs + n * d.bs)) ((len + off) % d.bs) buf)
              (off + (d.bs - off % d.bs + n * d.bs)) ((len + off) % d.bs) buf := by
            apply writeOk_rmw d2 s12.wf
            · rw [s12.bs, s12.nb]
              exact (Nat.div_lt_iff_lt_mul hbs).mpr (by omega)
            · rw [s12.bs]
              intro u hu1 hu2
              have b1 : (off / d.bs + 1 + n) * d.bs ≤ u := by
                rw [Nat.add_mul, Nat.add_mul, Nat.one_mul]; omega
              have b2 : u < (off / d.bs + 1 + n) * d.bs + d.bs := by
                rw [Nat.add_mul, Nat.add_mul, Nat.one_mul]; omega
              have b3 : (off / d.bs + 1 + n) * d.bs ≤ off + (d.bs - off % d.bs + n * d.bs) := by
                rw [Nat.add_mul, Nat.add_mul, Nat.one_mul]; omega
              have b4 : off + (d.bs - off % d.bs + n * d.bs) < (off / d.bs + 1 + n) * d.bs + d.bs := by
                rw [Nat.add_mul, Nat.add_mul, Nat.one_mul]; omega
              rw [div_eq_of_bounds d.bs _ u hbs b1 b2, div_eq_of_bounds d.bs _ _ hbs b3 b4]
          have s123 := s12.trans s3
          have : d.bs - off % d.bs + n * d.bs + (len + off) % d.bs = len := by omega
          rw [this] at s123; exact s123

end DD
end Jiva
