import JivaVerif.Lemmas.Remove
import JivaVerif.Model.Ops
/-! The block engine refines the abstract volume + frozen snapshot images. -/
namespace Jiva
namespace DD
variable {β : Type} [Inhabited β]

/-- Every admissible request preserves the invariant. -/
theorem wf_step (d : DD β) (h : WF d) (op : Op β) (ha : Adm d op) : WF (d.step op) := by
  cases op with
  | write off len buf => exact (writeOk_write d h off len buf ha).wf
  | read off len => exact wf_memoRange d h _ _
  | snapshot user => exact wf_snapshot d h user
  | markRemoved k => exact wf_markRemoved d h k
  | coalesce k => exact wf_coalesce d h k ha.1 (by have := ha.2.1; omega)
  | removeIdx k => exact wf_removeIdx d h k ha.1 ha.2.1 ha.2.2.1 ha.2.2.2.2 ha.2.2.2.1
  | applyHole i => exact wf_applyHole d h i
  | dropHoles => exact wf_dropHoles d h
  | reopen pre => exact wf_reopen d h.wfs pre
  | revert k => exact wf_revert d h.wfs k ha.1
  | resize nb => exact wf_resize d h nb ha
  | setPunch p => exact wf_setPunch d h p
  | lunmap => exact wf_lunmap d h

/-- The refinement relation: the model shows the specified volume, and every retained
    user-created snapshot shows its frozen image. -/
structure Refines (d : DD β) (s : Spec β) : Prop where
  wf   : WF d
  live : ∀ u, d.live u = s.vol u
  snap : ∀ i, d.ur i = true → ∀ u, d.view i u = s.img i u

theorem refines_init (bs nb : Nat) (h : 0 < bs) : Refines (DD.init bs nb : DD β) Spec.init := by
  refine ⟨wf_init bs nb h, ?_, ?_⟩
  · intro u; simp [live, view, init, viewUpTo, File.empty, Spec.init]
  · intro i hi; simp [init, ur] at hi

theorem ur_of_uc_rm (d d' : DD β) (h1 : d'.uc = d.uc) (h2 : d'.rm = d.rm) (i : Nat) : d'.ur i = d.ur i := by
  unfold ur; rw [h1, h2]

theorem read_same (d : DD β) (off len : Nat) :
    (d.read off len).1.uc = d.uc ∧ (d.read off len).1.rm = d.rm ∧ (d.read off len).1.top = d.top := by
  have m := memoRange_files d (off / d.bs) (blocksTouched d.bs off len)
  exact ⟨m.2.2.2.2.1, m.2.2.2.2.2, m.2.2.1⟩

theorem reopen_same (d : DD β) (pre : Bool) : (d.reopen pre).uc = d.uc ∧ (d.reopen pre).rm = d.rm := by
  have e : d.reopen pre = if pre then (fresh d).preload else fresh d := rfl
  rw [e]; split <;> exact ⟨rfl, rfl⟩

/-- **Refinement step.** -/
theorem refines_step (d : DD β) (s : Spec β) (r : Refines d s) (op : Op β) (ha : Adm d op) :
    Refines (d.step op) (s.step d.top op) := by
  have hw := wf_step d r.wf op ha
  refine ⟨hw, ?_, ?_⟩
  · -- live volume
    intro u
    cases op with
    | write off len buf =>
      show (d.write off len buf).live u = _
      rw [(writeOk_write d r.wf off len buf ha).live u, r.live u]; rfl
    | read off len =>
      show (d.read off len).1.live u = s.vol u
      unfold live; rw [(read_same d off len).2.2, view_read]; exact r.live u
    | snapshot user => exact (live_snapshot d r.wf user u).trans (r.live u)
    | markRemoved k => exact r.live u
    | coalesce k =>
      show (d.coalesce k).view d.top u = s.vol u
      rw [view_coalesce d k d.top u ha.1 (by have := ha.2.1; omega)]; exact r.live u
    | removeIdx k => exact (live_removeIdx d r.wf k u ha.1 ha.2.1 ha.2.2.1).trans (r.live u)
    | applyHole i =>
      have e : (d.applyHole i).top = d.top := by
        rcases applyHole_cases d i with e | ⟨f, b, _, e⟩ <;> rw [e]
      show (d.applyHole i).view (d.applyHole i).top u = s.vol u
      rw [e, view_applyHole d r.wf i d.top u (Or.inr rfl)]; exact r.live u
    | dropHoles => exact r.live u
    | reopen pre =>
      show (d.reopen pre).view (d.reopen pre).top u = s.vol u
      rw [reopen_top, view_reopen]; exact r.live u
    | revert k =>
      show (d.revert k).live u = s.img k u
      rw [live_revert]; exact r.snap k ha.2.2 u
    | resize nb => exact r.live u
    | setPunch p => exact r.live u
    | lunmap => exact r.live u
  · -- retained user snapshots
    intro i hi u
    cases op with
    | write off len buf =>
      have w := writeOk_write d r.wf off len buf ha
      have hi' : d.ur i = true := by rw [← ur_of_uc_rm d _ w.same.1 w.same.2.1 i]; exact hi
      show (d.write off len buf).view i u = s.img i u
      rw [w.below i u (r.wf.urLt i hi')]; exact r.snap i hi' u
    | read off len =>
      have hi' : d.ur i = true := by
        rw [← ur_of_uc_rm d _ (read_same d off len).1 (read_same d off len).2.1 i]; exact hi
      show (d.read off len).1.view i u = s.img i u
      rw [view_read]; exact r.snap i hi' u
    | snapshot user =>
      show d.view i u = (if i = d.top then s.vol else s.img i) u
      by_cases e : i = d.top
      · simp only [e, if_true]; exact r.live u
      · simp only [e, if_false]
        have hi' : d.ur i = true := by
          have hh : (d.snapshot user).ur i = true := hi
          unfold ur snapshot at hh
          simp only at hh
          by_cases e2 : i = d.top + 1
          · subst e2; simp at hh
          · have e3 : ¬ (i = d.top ∨ i = d.top + 1) := by omega
            simp only [e, e2, e3, if_false] at hh
            unfold ur; exact hh
        exact r.snap i hi' u
    | markRemoved k =>
      have hi' : d.ur i = true := by
        have hh : (d.markRemoved k).ur i = true := hi
        unfold ur markRemoved at hh
        simp only at hh
        unfold ur
        by_cases e : i = k
        · simp [e] at hh
        · simpa [e] using hh
      exact r.snap i hi' u
    | coalesce k =>
      have hi' : d.ur i = true := hi
      have hne : i ≠ k - 1 := by intro e; rw [e, ha.2.2.1] at hi'; cases hi'
      show (d.coalesce k).view i u = (if i = k - 1 then s.img k else s.img i) u
      rw [view_coalesce d k i u ha.1 hne]; simp only [hne, if_false]; exact r.snap i hi' u
    | removeIdx k =>
      have hh : (d.removeIdx k).ur i = true := hi
      rw [removeIdx_ur] at hh
      show (d.removeIdx k).view i u = (if i < k then s.img i else s.img (i + 1)) u
      rw [view_removeIdx d k i u ha.1 ha.2.2.1]
      split
      · rename_i c; simp only [c, if_true] at hh; exact r.snap i hh u
      · rename_i c; simp only [c, if_false] at hh; exact r.snap (i + 1) hh u
    | applyHole j =>
      have hi' : d.ur i = true := by
        have hh : (d.applyHole j).ur i = true := hi
        rcases applyHole_cases d j with e | ⟨f, b, _, e⟩ <;> rw [e] at hh <;> exact hh
      show (d.applyHole j).view i u = s.img i u
      rw [view_applyHole d r.wf j i u (Or.inl hi')]; exact r.snap i hi' u
    | dropHoles => exact r.snap i hi u
    | reopen pre =>
      have hi' : d.ur i = true := by
        rw [← ur_of_uc_rm d _ (reopen_same d pre).1 (reopen_same d pre).2 i]; exact hi
      show (d.reopen pre).view i u = s.img i u
      rw [view_reopen]; exact r.snap i hi' u
    | revert k =>
      have hh : ((cut d k).reopen true).ur i = true := hi
      rw [ur_of_uc_rm (cut d k) _ (reopen_same (cut d k) true).1 (reopen_same (cut d k) true).2 i] at hh
      have hik : i ≤ k ∧ d.ur i = true := by
        unfold ur cut at hh
        simp only at hh
        by_cases c : i ≤ k
        · simp only [c, if_true] at hh; exact ⟨c, by unfold ur; exact hh⟩
        · simp [c] at hh
      show (d.revert k).view i u = s.img i u
      rw [view_revert d k i u hik.1]; exact r.snap i hik.2 u
    | resize nb => exact r.snap i hi u
    | setPunch p => exact r.snap i hi u
    | lunmap => exact r.snap i hi u

/-- Running a list of requests in model and specification side by side. -/
def runWith (d : DD β) (s : Spec β) : List (Op β) → DD β × Spec β
  | []        => (d, s)
  | op :: ops => runWith (d.step op) (s.step d.top op) ops

/-- every request in the list is admissible in the state it is issued in -/
def AdmAll (d : DD β) : List (Op β) → Prop
  | []        => True
  | op :: ops => Adm d op ∧ AdmAll (d.step op) ops

theorem refines_run (ops : List (Op β)) : ∀ (d : DD β) (s : Spec β), Refines d s → AdmAll d ops →
    Refines (runWith d s ops).1 (runWith d s ops).2 := by
  induction ops with
  | nil => intro d s r _; exact r
  | cons op ops ih =>
    intro d s r ha
    exact ih _ _ (refines_step d s r op ha.1) ha.2

end DD
end Jiva
