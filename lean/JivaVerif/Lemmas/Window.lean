import JivaVerif.Lemmas.Remove
import JivaVerif.Lemmas.Write
/-! `UpdateLUNMap` with foreground writes between its preload pass and its merge (`DD.lunmapAfter`):
    the merged map is sound and the requests it queues are safe. -/
namespace Jiva
namespace DD
variable {β : Type} [Inhabited β]

/-- what relates the state `d0` the extents were scanned in to the state `d` in which the merge runs:
    only the head file changed, it only gained blocks, and every block it gained is known to the live
    location map (foreground writes set `location[b]` to the head) -/
structure Later (d0 d : DD β) : Prop where
  bs    : d.bs = d0.bs
  nb    : d.nb = d0.nb
  top   : d.top = d0.top
  marks : d.marks = d0.marks
  uc    : d.uc = d0.uc
  rm    : d.rm = d0.rm
  punch : d.punch = d0.punch
  below : ∀ i, i ≠ d0.top → d.files i = d0.files i
  grow  : ∀ b, (d0.files d0.top).alloc b = true → (d.files d0.top).alloc b = true
  known : ∀ b, (d.files d0.top).alloc b = true → (d0.files d0.top).alloc b = true ∨ d.loc b = d0.top

theorem Later.refl (d : DD β) : Later d d :=
  ⟨rfl, rfl, rfl, rfl, rfl, rfl, rfl, fun _ _ => rfl, fun _ h => h, fun _ h => Or.inl h⟩

/-- a holder of the block in the scanned state is a holder in the later state -/
theorem Later.holds {d0 d : DD β} (l : Later d0 d) (j b : Nat) (h : (d0.files j).alloc b = true) :
    (d.files j).alloc b = true := by
  by_cases c : j = d0.top
  · subst c; exact l.grow b h
  · rw [l.below j c]; exact h

theorem Later.ur {d0 d : DD β} (l : Later d0 d) (u : Nat) : d.ur u = d0.ur u := by
  unfold DD.ur; rw [l.uc, l.rm]

/-- **C07 (a write inside `UpdateLUNMap`'s window).** Whatever foreground writes landed between the
    scan and the merge, the merged location map is sound and every queued punch request is safe. -/
theorem wf_lunmapAfter (d0 d : DD β) (h0 : WF d0) (h : WF d) (l : Later d0 d) : WF (d0.lunmapAfter d) := by
  have hloc : ∀ b, (d0.lunmapAfter d).loc b =
      if d.loc b ≠ 0 then d.loc b else (if b < d0.nb then (preloadBlock d0 b d0.top).1 else 0) := fun b => rfl
  have hfiles : (d0.lunmapAfter d).files = d.files := rfl
  -- the topmost holder found by the scan is above every holder of the scanned state
  have topHolder : ∀ b hh, hh ≤ d0.top → (d0.files hh).alloc b = true → hh ≤ (preloadBlock d0 b d0.top).1 := by
    intro b hh h1 h2
    have ⟨_, _, s3, _⟩ := preloadBlock_spec d0 b d0.top
    apply Classical.byContradiction
    intro hc
    have := s3 hh (by omega) h1
    rw [h2] at this; cases this
  -- a holder in the later state whose block the live map does not know was a holder when scanned
  have wasHolder : ∀ b hh, d.loc b = 0 → (d.files hh).alloc b = true → (d0.files hh).alloc b = true := by
    intro b hh hl ha
    by_cases c : hh = d0.top
    · subst c
      rcases l.known b ha with k | k
      · exact k
      · rw [hl] at k; have := h0.top_pos; omega
    · rw [l.below hh c] at ha; exact ha
  refine ⟨h.bs_pos, h.top_pos, h.empty0, h.emptyAbove, ?_, ?_, h.urLe, h.ucLt, h.markCover, h.marksAbove, ?_⟩
  · -- the location map
    intro b hb
    rw [hloc] at hb
    show LocOk (d0.lunmapAfter d) b ((d0.lunmapAfter d).loc b)
    rw [hloc]
    by_cases c : d.loc b ≠ 0
    · rw [if_pos c]; exact h.locOk b c
    · rw [if_neg c] at hb ⊢
      have c0 : d.loc b = 0 := by simpa using c
      by_cases cb : b < d0.nb
      · rw [if_pos cb] at hb ⊢
        have ⟨s1, s2, s3, _⟩ := preloadBlock_spec d0 b d0.top
        refine ⟨by show _ ≤ d.top; rw [l.top]; exact s1, ?_, Or.inl (l.holds _ b (s2 hb))⟩
        intro j hj
        show (d.files j).alloc b = false
        by_cases cj : j ≤ d0.top
        · cases hj' : (d.files j).alloc b with
          | false => rfl
          | true =>
            have := wasHolder b j c0 hj'
            have := s3 j hj cj
            simp_all
        · exact h.emptyAbove j (by rw [l.top]; omega) b
      · rw [if_neg cb] at hb; exact absurd rfl hb
  · intro b hb
    have hb' : d.nb ≤ b := hb
    rw [hloc, h.locOut b hb']
    have : ¬ b < d0.nb := by rw [← l.nb]; omega
    simp [this]
  · intro p hp
    have hp' : p ∈ d.pend ++ preloadHoles d0 d0.nb ++
        ((List.range d.nb).filterMap fun b =>
          if (if b < d0.nb then (preloadBlock d0 b d0.top).1 else 0) ≠ 0 ∧
             (if b < d0.nb then (preloadBlock d0 b d0.top).1 else 0) < d.loc b ∧
             lastMark d.marks d.top < (if b < d0.nb then (preloadBlock d0 b d0.top).1 else 0) ∧
             d.punch then
            some ((if b < d0.nb then (preloadBlock d0 b d0.top).1 else 0), b) else none) := hp
    rcases List.mem_append.mp hp' with hp1 | hp3
    · rcases List.mem_append.mp hp1 with hp1 | hp2
      · -- requests queued before (by the foreground writes, or older)
        have ⟨q0, q1, q2⟩ := h.pendOk p hp1
        refine ⟨q0, ?_, q2⟩
        show (d0.lunmapAfter d).loc p.2 = 0 ∨ p.1 < (d0.lunmapAfter d).loc p.2
        rw [hloc]
        by_cases c : d.loc p.2 ≠ 0
        · rw [if_pos c]; exact q1
        · rw [if_neg c]
          have c0 : d.loc p.2 = 0 := by simpa using c
          by_cases cb : p.2 < d0.nb
          · rw [if_pos cb]; right
            have ⟨hh, a1, a2, a3⟩ := q2 d.top (Or.inr rfl) (by omega)
            have := topHolder p.2 hh (by rw [← l.top]; exact a2) (wasHolder p.2 hh c0 a3)
            omega
          · rw [if_neg cb]; left; rfl
      · -- requests of the scan
        have ⟨m1, m2⟩ := mem_preloadHoles d0 d0.nb p hp2
        have ⟨_, _, _, s4⟩ := preloadBlock_spec d0 p.2 d0.top
        have ⟨_, q2, hh, q3, q4, q5, q6⟩ := s4 p m2
        have hold : (d.files hh).alloc p.2 = true := l.holds hh p.2 q5
        refine ⟨by show p.1 < d.top; rw [l.top]; omega, ?_, ?_⟩
        · right
          show p.1 < (d0.lunmapAfter d).loc p.2
          rw [hloc]
          by_cases c : d.loc p.2 ≠ 0
          · rw [if_pos c]
            have ⟨_, l2, _⟩ := h.locOk p.2 c
            apply Classical.byContradiction
            intro hc
            have := l2 hh (by omega)
            rw [hold] at this; cases this
          · rw [if_neg c, if_pos m1]
            have := topHolder p.2 hh q4 q5
            omega
        · intro u hu hfu
          show ∃ h', p.1 < h' ∧ h' ≤ u ∧ (d.files h').alloc p.2 = true
          rcases hu with hu | hu
          · have hu0 : d0.ur u = true := by rw [← l.ur]; exact hu
            exact ⟨hh, q3, ur_above_holder d0 h0 p.1 hh u hfu hu0 q6, hold⟩
          · have hu' : u = d.top := hu
            exact ⟨hh, q3, by rw [hu', l.top]; exact q4, hold⟩
    · -- requests of the merge: the live entry points above the scanned owner
      obtain ⟨b, hb, he⟩ := List.mem_filterMap.mp hp3
      have hbn : b < d0.nb := by rw [← l.nb]; simpa using hb
      simp only [hbn, if_true] at he
      by_cases hc : (preloadBlock d0 b d0.top).1 ≠ 0 ∧ (preloadBlock d0 b d0.top).1 < d.loc b ∧
          lastMark d.marks d.top < (preloadBlock d0 b d0.top).1 ∧ d.punch = true
      · rw [if_pos hc] at he
        have hp2 : p = ((preloadBlock d0 b d0.top).1, b) := by simpa using he.symm
        obtain ⟨c1, c2, c3, _⟩ := hc
        have hl0 : d.loc b ≠ 0 := by omega
        have ⟨l1, l2, l3⟩ := h.locOk b hl0
        have ⟨_, s2, _, _⟩ := preloadBlock_spec d0 b d0.top
        have hOwner : (d.files (preloadBlock d0 b d0.top).1).alloc b = true := l.holds _ b (s2 c1)
        -- the file the live map points at does hold the block
        have hLive : (d.files (d.loc b)).alloc b = true := by
          rcases l3 with l3 | l3
          · exact l3
          · have := l3 _ c2
            rw [hOwner] at this; cases this
        subst hp2
        refine ⟨by show (preloadBlock d0 b d0.top).1 < d.top; omega, ?_, ?_⟩
        · right
          show (preloadBlock d0 b d0.top).1 < (d0.lunmapAfter d).loc b
          rw [hloc, if_pos hl0]; exact c2
        · intro u hu hfu
          show ∃ h', (preloadBlock d0 b d0.top).1 < h' ∧ h' ≤ u ∧ (d.files h').alloc b = true
          rcases hu with hu | hu
          · -- no retained user snapshot lies at or above the scanned owner: the guard of the merge
            exfalso
            have hfu' : (preloadBlock d0 b d0.top).1 ≤ u := hfu
            have hut : u < d.top := h.urLt u hu
            rcases h.markCover u hu with m | m
            · have := lastMark_ge d.marks d.top u (h.urPos u hu) (by omega) m
              omega
            · have := lastMark_ge d.marks d.top (u + 1) (by omega) (by omega) m
              omega
          · have hu' : u = d.top := hu
            exact ⟨d.loc b, c2, by rw [hu']; exact l1, hLive⟩
      · rw [if_neg hc] at he; cases he

/-- the merge does not touch the files: every view is as before it -/
theorem view_lunmapAfter (d0 d : DD β) (i u : Nat) : (d0.lunmapAfter d).view i u = d.view i u := rfl

/-- a whole-block foreground write (what a rebuilding replica receives, the controller widening every
    request while it is attached) keeps the relation to the scanned state -/
theorem later_fullWrite (d0 d : DD β) (l : Later d0 d) (s n : Nat) (buf : Nat → β) :
    Later d0 (d.fullWrite s n buf) := by
  have ht : d.top = d0.top := l.top
  refine ⟨l.bs, l.nb, l.top, l.marks, l.uc, l.rm, l.punch, ?_, ?_, ?_⟩
  · intro i hi
    have : i ≠ d.top := by rw [ht]; exact hi
    show (if i = d.top then _ else d.files i) = d0.files i
    rw [if_neg this]; exact l.below i hi
  · intro b hb
    show ((if d0.top = d.top then (d.files d.top).writeBlocks d.bs s n buf else d.files d0.top)).alloc b = true
    rw [if_pos ht.symm]
    simp only [File.writeBlocks]
    split
    · rfl
    · rw [ht]; exact l.grow b hb
  · intro b hb
    have hb' : ((if d0.top = d.top then (d.files d.top).writeBlocks d.bs s n buf else d.files d0.top)).alloc b = true := hb
    rw [if_pos ht.symm] at hb'
    simp only [File.writeBlocks] at hb'
    by_cases c : s ≤ b ∧ b < s + n
    · right
      show (if s ≤ b ∧ b < s + n then d.top else d.loc b) = d0.top
      rw [if_pos c]; exact ht
    · rw [if_neg c] at hb'
      rw [ht] at hb'
      rcases l.known b hb' with k | k
      · exact Or.inl k
      · right
        show (if s ≤ b ∧ b < s + n then d.top else d.loc b) = d0.top
        rw [if_neg c]; exact k

end DD
end Jiva
