import JivaVerif.Lemmas.CtlPrim
/-! Every controller request preserves the invariant. -/
namespace Jiva
namespace Ctl

theorem cinv_calls' (c : Ctl) (h : CInv c) {α : Type} (l : List α) (f : α → Nat) (m : String) :
    CInv (l.foldl (fun c x => c.call (f x) m) c) := by
  induction l generalizing c with
  | nil => exact h
  | cons x xs ih => exact ih _ (cinv_call c h (f x) m)

/-- changing only registration / signalling / size / frontend fields -/
theorem CInv.irrelevant {c c' : Ctl} (h : CInv c)
    (e1 : c'.rf = c.rf) (e2 : c'.replicas = c.replicas) (e3 : c'.backends = c.backends)
    (e4 : c'.writers = c.writers) (e5 : c'.readers = c.readers) (e6 : c'.available = c.available)
    (e7 : c'.readOnly = c.readOnly) (e8 : c'.rwCount = c.rwCount) (e9 : c'.checkpoint = c.checkpoint)
    (e10 : c'.nextId = c.nextId) (e11 : c'.closed = c.closed) : CInv c' :=
  h.congr e1 e2 e3 e4 e5 e6 e7 e8 e9 e10 e11

theorem signalReplica_same (c : Ctl) (ok : Bool) :
    let c' := (c.signalReplica ok).1
    c'.rf = c.rf ∧ c'.replicas = c.replicas ∧ c'.backends = c.backends ∧ c'.writers = c.writers ∧
    c'.readers = c.readers ∧ c'.available = c.available ∧ c'.readOnly = c.readOnly ∧
    c'.rwCount = c.rwCount ∧ c'.checkpoint = c.checkpoint ∧ c'.nextId = c.nextId ∧ c'.closed = c.closed := by
  simp only; unfold signalReplica; split <;> simp

theorem cinv_signalReplica (c : Ctl) (h : CInv c) (ok : Bool) : CInv (c.signalReplica ok).1 := by
  have s := signalReplica_same c ok
  simp only at s
  exact h.congr s.1 s.2.1 s.2.2.1 s.2.2.2.1 s.2.2.2.2.1 s.2.2.2.2.2.1 s.2.2.2.2.2.2.1 s.2.2.2.2.2.2.2.1
    s.2.2.2.2.2.2.2.2.1 s.2.2.2.2.2.2.2.2.2.1 s.2.2.2.2.2.2.2.2.2.2

/-- fields the invariant reads -/
def Frame (c c' : Ctl) : Prop :=
  c'.rf = c.rf ∧ c'.replicas = c.replicas ∧ c'.backends = c.backends ∧ c'.writers = c.writers ∧
  c'.readers = c.readers ∧ c'.available = c.available ∧ c'.readOnly = c.readOnly ∧
  c'.rwCount = c.rwCount ∧ c'.checkpoint = c.checkpoint ∧ c'.nextId = c.nextId ∧ c'.closed = c.closed

theorem CInv.frame {c c' : Ctl} (h : CInv c) (f : Frame c c') : CInv c' :=
  h.congr f.1 f.2.1 f.2.2.1 f.2.2.2.1 f.2.2.2.2.1 f.2.2.2.2.2.1 f.2.2.2.2.2.2.1 f.2.2.2.2.2.2.2.1
    f.2.2.2.2.2.2.2.2.1 f.2.2.2.2.2.2.2.2.2.1 f.2.2.2.2.2.2.2.2.2.2

theorem Frame.refl (c : Ctl) : Frame c c := ⟨rfl, rfl, rfl, rfl, rfl, rfl, rfl, rfl, rfl, rfl, rfl⟩

theorem Frame.trans {a b c : Ctl} (h1 : Frame a b) (h2 : Frame b c) : Frame a c := by
  unfold Frame at *
  obtain ⟨a1, a2, a3, a4, a5, a6, a7, a8, a9, a10, a11⟩ := h1
  obtain ⟨b1, b2, b3, b4, b5, b6, b7, b8, b9, b10, b11⟩ := h2
  exact ⟨b1.trans a1, b2.trans a2, b3.trans a3, b4.trans a4, b5.trans a5, b6.trans a6, b7.trans a7,
    b8.trans a8, b9.trans a9, b10.trans a10, b11.trans a11⟩

theorem frame_signalReplica (c : Ctl) (ok : Bool) : Frame c (c.signalReplica ok).1 := by
  unfold Frame signalReplica; split <;> simp

theorem frame_electAndSignal (c : Ctl) (r : Reg) (so : Bool) (el : String) :
    Frame c (c.electAndSignal r so el).1 := by
  unfold electAndSignal
  simp only
  by_cases h1 : r.rebuilding = true
  · rw [if_pos h1]; exact Frame.refl c
  · rw [if_neg h1]
    generalize (if c.maxRev = "" ∨ c.rebuildingOf c.maxRev = true then r.addr else c.maxRev) = cur
    by_cases h2 : (!legalElect c.registered cur (c.revOf cur) el) = true
    · rw [if_pos h2]; exact Frame.refl c
    · rw [if_neg h2]
      have f : Frame c ({ c with maxRev := el } : Ctl) := ⟨rfl, rfl, rfl, rfl, rfl, rfl, rfl, rfl, rfl, rfl, rfl⟩
      by_cases h3 : c.registered.length ≥ c.rf / 2 + 1
      · rw [if_pos h3]; exact f.trans (frame_signalReplica _ so)
      · rw [if_neg h3]; exact f

/-- registration never touches the membership bookkeeping -/
theorem frame_stepRegister (c : Ctl) (r : Reg) (so al : Bool) (el : String) :
    Frame c (c.stepRegister r so al el).1 := by
  unfold stepRegister
  simp only
  have f1 : ∀ regs, Frame c ({ c with registered := regs } : Ctl) := fun _ =>
    ⟨rfl, rfl, rfl, rfl, rfl, rfl, rfl, rfl, rfl, rfl, rfl⟩
  by_cases h0 : r.uuid = ""
  · rw [if_pos h0]; exact Frame.refl c
  · rw [if_neg h0]
    by_cases h1 : c.replicas.length > 0
    · rw [if_pos h1]; exact f1 _
    · rw [if_neg h1]
      by_cases h2 : c.signalled = true
      · rw [if_pos h2]
        by_cases h3 : r.addr = c.maxRev
        · rw [if_pos h3]
          split
          · exact ((f1 _).trans (frame_signalReplica _ so)).trans (frame_electAndSignal _ r so el)
          · exact (f1 _).trans (frame_signalReplica _ so)
        · rw [if_neg h3]
          by_cases h4 : (!al) = true
          · rw [if_pos h4]
            exact Frame.trans (⟨rfl, rfl, rfl, rfl, rfl, rfl, rfl, rfl, rfl, rfl, rfl⟩ : Frame c _)
              (frame_electAndSignal _ r so el)
          · rw [if_neg h4]; exact f1 _
      · rw [if_neg h2]; exact (f1 _).trans (frame_electAndSignal _ r so el)

theorem cinv_stepRegister (c : Ctl) (h : CInv c) (r : Reg) (so al : Bool) (el : String) :
    CInv (c.stepRegister r so al el).1 := h.frame (frame_stepRegister c r so al el)

/-! ### I/O requests -/

theorem cinv_stepFanOut (c : Ctl) (h : CInv c) (m : String) (fails : List String) :
    CInv (c.stepFanOut m fails).1 := by
  unfold stepFanOut
  simp only
  by_cases h1 : (!c.available) = true
  · rw [if_pos h1]; exact h
  · rw [if_neg h1]
    have hc := cinv_calls' c h c.writers (·.2) m
    split
    · exact hc
    · exact cinv_ioFail _ hc _

theorem cinv_stepSync (c : Ctl) (h : CInv c) (m : String) (fails : List String) :
    CInv (c.stepSync m fails).1 := by
  unfold stepSync
  split
  · exact h
  · exact cinv_stepFanOut c h m fails

theorem cinv_readCalls (c : Ctl) (h : CInv c) (tried : List (String × Out)) :
    CInv (c.readCalls tried) := by
  unfold readCalls
  induction tried generalizing c with
  | nil => exact h
  | cons t ts ih =>
    apply ih
    show CInv (match c.readers.find? (fun r => r.1 = t.1) with
               | some r => c.call r.2 "ReadAt" | none => c)
    split
    · exact cinv_call c h _ _
    · exact h

theorem cinv_stepWrite (c : Ctl) (h : CInv c) (off len : Nat) (fails : List String) (tried : List (String × Out)) :
    CInv (c.stepWrite off len fails tried).1 := by
  unfold stepWrite
  simp only
  split
  · exact h
  · split
    · exact h
    · split
      · split
        · exact h
        · have hc := cinv_readCalls c h tried
          split
          · split
            · exact cinv_stepFanOut _ hc _ fails
            · exact hc
          · split
            · split
              · exact cinv_ioFail _ hc _
              · exact cinv_stepFanOut _ (cinv_ioFail _ hc _) _ fails
            · exact cinv_ioFail _ hc _
      · exact cinv_stepFanOut c h _ fails

theorem cinv_stepRead (c : Ctl) (h : CInv c) (off len : Nat) (tried : List (String × Out)) :
    CInv (c.stepRead off len tried).1 := by
  unfold stepRead
  simp only
  split
  · exact h
  · split
    · exact h
    · split
      · exact h
      · split
        · exact h
        · have hc := cinv_readCalls c h tried
          split
          · exact hc
          · exact cinv_ioFail _ hc _

theorem cinv_stepSnapshot (c : Ctl) (h : CInv c) (ex : Option Bool) (fails : List String) :
    CInv (c.stepSnapshot ex fails).1 := by
  unfold stepSnapshot
  split
  · exact h
  · split
    · exact h
    · exact h
    · simp only
      have hc := cinv_calls' c h (c.backends.filter fun b => b.mode ≠ .err) (·.id) "Snapshot"
      split
      · exact hc
      · exact cinv_handleError _ hc _

theorem cinv_stepResize (c : Ctl) (h : CInv c) (size : Nat) (fails : List String) :
    CInv (c.stepResize size fails).1 := by
  unfold stepResize
  split
  · exact h
  · simp only
    have hc := cinv_calls' c h (c.backends.filter fun b => b.mode ≠ .err) (·.id) "Resize"
    split
    · exact hc.congr rfl rfl rfl rfl rfl rfl rfl rfl rfl rfl rfl
    · have he := cinv_handleError _ hc
        (((c.backends.filter fun b => b.mode ≠ .err).filter fun b => fails.contains b.addr).map (·.addr))
      split
      · exact he
      · exact he.congr rfl rfl rfl rfl rfl rfl rfl rfl rfl rfl rfl

theorem cinv_stepMon (c : Ctl) (h : CInv c) (a : String) (err : Bool) : CInv (c.stepMon a err).1 := by
  unfold stepMon
  simp only
  apply cinv_removeReplica
  split
  · exact cinv_setMode c h a .err (by decide)
  · exact h

theorem cinv_promote (c : Ctl) (h : CInv c) (a : String) (ck : CkEnv) :
    CInv (((c.setMode a .rw).updateVolStatus).updateCheckpoint ck) := by
  have h1 := cinv_setMode c h a .rw (by decide)
  have h2 := cinv_updateVolStatus _ h1.core h1.ckpt
  exact cinv_updateCheckpoint _ h2.core h2.status ck

theorem cinv_stepVerify (c : Ctl) (h : CInv c) (a : String) (rwc woc : Option (List String))
    (ckp : Option String) (rev : Option Nat) (o1 o2 : Bool) (ck : CkEnv) :
    CInv (c.stepVerify a rwc woc ckp rev o1 o2 ck).1 := by
  unfold stepVerify
  split
  · split
    · exact h
    · split
      · exact h
      · split
        · split
          · exact h
          · split
            · exact h
            · split
              · exact h
              · simp only
                split
                · exact cinv_call c h _ _
                · split
                  · exact cinv_call _ (cinv_call c h _ _) _ _
                  · exact cinv_promote _ (cinv_call _ (cinv_call c h _ _) _ _) a ck
        · exact h
  · exact h

end Ctl
end Jiva
