import JivaVerif.Lemmas.CtlPrim
/-!
  Who is in service.  `Alive c i`: the backend with id `i` is attached and not marked failed — it is in
  the fan-out list (`CInv`: writers = the backends that are not ERR) and receives the next write.
  `Keeps k c c'`: everybody in service in `c'` was in service in `c`, or was attached since (ids from
  `k` on).  A backend marked ERR never comes back under its id: `setReplicaModeNoLock` changes only
  entries that are not ERR, and a replica that returns is attached under a fresh id.
-/
namespace Jiva
namespace Ctl

def Alive (c : Ctl) (i : Nat) : Prop := ∃ b ∈ c.backends, b.id = i ∧ b.mode ≠ .err

def Keeps (k : Nat) (c c' : Ctl) : Prop := ∀ i, Alive c' i → k ≤ i ∨ Alive c i

theorem Keeps.refl (k : Nat) (c : Ctl) : Keeps k c c := fun _ h => Or.inr h

theorem Keeps.trans {k : Nat} {a b c : Ctl} (h1 : Keeps k a b) (h2 : Keeps k b c) : Keeps k a c := by
  intro i hi
  rcases h2 i hi with h | h
  · exact Or.inl h
  · exact h1 i h

theorem keeps_of_backends (k : Nat) (c c' : Ctl) (e : c'.backends = c.backends) : Keeps k c c' := by
  intro i ⟨b, hb, h1, h2⟩
  exact Or.inr ⟨b, by rw [← e]; exact hb, h1, h2⟩

theorem keeps_of_subset (k : Nat) (c c' : Ctl) (e : ∀ b ∈ c'.backends, b ∈ c.backends) : Keeps k c c' := by
  intro i ⟨b, hb, h1, h2⟩
  exact Or.inr ⟨b, e b hb, h1, h2⟩

theorem keeps_call (k : Nat) (c : Ctl) (id : Nat) (m : String) : Keeps k c (c.call id m) :=
  keeps_of_backends k c _ rfl

theorem keeps_calls (k : Nat) (c : Ctl) {α : Type} (l : List α) (f : α → Nat) (m : String) :
    Keeps k c (l.foldl (fun c x => c.call (f x) m) c) :=
  keeps_of_backends k c _ (calls_same c l f m).2.2.1

theorem keeps_updateVolStatus (k : Nat) (c : Ctl) : Keeps k c c.updateVolStatus := keeps_of_backends k c _ rfl

theorem keeps_updateCheckpoint (k : Nat) (c : Ctl) (e : CkEnv) : Keeps k c (c.updateCheckpoint e) :=
  keeps_of_backends k c _ (updateCheckpoint_same c e).2.2.1

theorem keeps_startFront (k : Nat) (c : Ctl) : Keeps k c c.startFront := by
  apply keeps_of_backends; unfold startFront; split <;> rfl

theorem keeps_removeBackend (k : Nat) (c : Ctl) (a : String) : Keeps k c (c.removeBackend a) := by
  apply keeps_of_subset
  intro b hb
  unfold removeBackend at hb
  split at hb
  · exact hb
  · exact (List.mem_filter.mp hb).1

theorem removeReplica_backends_sub (c : Ctl) (a : String) (e : CkEnv) :
    ∀ b ∈ (c.removeReplica a e).backends, b ∈ c.backends := by
  intro b hb
  unfold removeReplica at hb
  split at hb
  · exact hb
  · rw [(updateCheckpoint_same _ e).2.2.1] at hb
    have hb' : b ∈ (Ctl.removeBackend _ a).backends := hb
    unfold removeBackend at hb'
    split at hb'
    · revert hb'; split <;> exact id
    · have := (List.mem_filter.mp hb').1
      revert this; split <;> exact id

theorem keeps_removeReplica (k : Nat) (c : Ctl) (a : String) (e : CkEnv) : Keeps k c (c.removeReplica a e) :=
  keeps_of_subset k c _ (removeReplica_backends_sub c a e)

theorem keeps_removeAll (k : Nat) (errs : List String) : ∀ c : Ctl, Keeps k c (c.removeAll errs) := by
  induction errs with
  | nil => intro c; exact Keeps.refl k c
  | cons a l ih => intro c; exact (keeps_removeReplica k c a CkEnv.none).trans (ih _)

/-- the backends after `setReplicaModeNoLock`: same ids and addresses; a mode differs only for the
    address concerned, and only when its list entry was not ERR -/
theorem setMode_backends (c : Ctl) (a : String) (m : CMode) :
    ∀ b ∈ (c.setMode a m).backends, ∃ b0 ∈ c.backends, b0.id = b.id ∧ b0.addr = b.addr ∧
      (b.mode = b0.mode ∨ (b.mode = m ∧ b0.addr = a ∧ (c.replicas.any fun r => r.1 = a ∧ r.2 ≠ .err) = true)) := by
  intro b hb
  unfold setMode at hb
  split at hb
  · exact ⟨b, hb, rfl, rfl, Or.inl rfl⟩
  · have hb' : b ∈ (c.setModeCore a m).backends := hb
    unfold setModeCore at hb'
    simp only at hb'
    split at hb'
    · rename_i hch
      split at hb'
      · have hb2 : b ∈ c.backends.map fun (x : Backend) => if x.addr = a then { x with mode := m } else x := hb'
        obtain ⟨b0, hb0, e⟩ := List.mem_map.mp hb2
        refine ⟨b0, hb0, ?_, ?_, ?_⟩
        · rw [← e]; split <;> rfl
        · rw [← e]; split <;> rfl
        · by_cases ea : b0.addr = a
          · right; rw [← e, if_pos ea]; exact ⟨rfl, ea, hch⟩
          · left; rw [← e, if_neg ea]
      · exact ⟨b, hb', rfl, rfl, Or.inl rfl⟩
    · exact ⟨b, hb', rfl, rfl, Or.inl rfl⟩

/-- marking failed never brings anybody into service -/
theorem keeps_setMode_err (k : Nat) (c : Ctl) (a : String) : Keeps k c (c.setMode a .err) := by
  intro i ⟨b, hb, h1, h2⟩
  obtain ⟨b0, hb0, e1, _, e3⟩ := setMode_backends c a .err b hb
  rcases e3 with e3 | e3
  · exact Or.inr ⟨b0, hb0, e1.trans h1, by rw [← e3]; exact h2⟩
  · exact absurd e3.1 h2

/-- a mode change touches only an entry that is not ERR (the backend table agrees with the list) -/
theorem keeps_setMode (k : Nat) (c : Ctl) (h : CCore c) (a : String) (m : CMode) : Keeps k c (c.setMode a m) := by
  intro i ⟨b, hb, h1, h2⟩
  obtain ⟨b0, hb0, e1, _, e3⟩ := setMode_backends c a m b hb
  rcases e3 with e3 | ⟨_, ea, hch⟩
  · exact Or.inr ⟨b0, hb0, e1.trans h1, by rw [← e3]; exact h2⟩
  · obtain ⟨r0, hr0, hc0⟩ := List.any_eq_true.mp hch
    have hc0' : r0.1 = a ∧ r0.2 ≠ .err := by simpa using hc0
    have hk := mem_replicas_of_mem_backends c h b0 hb0
    have := addr_unique c h (key b0) r0 hk hr0 (by show b0.addr = r0.1; rw [ea, hc0'.1])
    refine Or.inr ⟨b0, hb0, e1.trans h1, ?_⟩
    have hm : (key b0).2 = b0.mode := rfl
    rw [← hm, this]; exact hc0'.2

theorem keeps_foldl_setMode_err (k : Nat) (errs : List String) : ∀ c : Ctl,
    Keeps k c (errs.foldl (fun c a => c.setMode a .err) c) := by
  induction errs with
  | nil => intro c; exact Keeps.refl k c
  | cons a l ih => intro c; exact (keeps_setMode_err k c a).trans (ih _)

theorem keeps_handleError (k : Nat) (c : Ctl) (errs : List String) : Keeps k c (c.handleError errs).1 := by
  unfold handleError; split
  · exact Keeps.refl k c
  · exact keeps_foldl_setMode_err k errs c

theorem keeps_ioFail (k : Nat) (c : Ctl) (errs : List String) : Keeps k c (c.ioFail errs).1 := by
  unfold ioFail
  exact (keeps_handleError k c errs).trans (keeps_removeAll k errs _)

/-- a newly attached backend carries a fresh id -/
theorem keeps_attach (k : Nat) (c : Ctl) (addr : String) (id : Nat) (hk : k ≤ id) : Keeps k c (c.attach addr id) := by
  intro i ⟨b, hb, h1, h2⟩
  have hb' : b ∈ c.backends ++ [(⟨addr, .wo, id⟩ : Backend)] := hb
  rcases List.mem_append.mp hb' with hb' | hb'
  · exact Or.inr ⟨b, hb', h1, h2⟩
  · simp at hb'; subst hb'; left; rw [← h1]; exact hk


end Ctl
end Jiva
