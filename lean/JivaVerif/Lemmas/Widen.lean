import JivaVerif.Lemmas.WriteAt
/-! The controller's widening of sub-block writes (`Controller.widenForWONoLock`): arithmetic of the
widened range, and the fact that the widened write is the same write as far as the volume is
concerned. -/
namespace Jiva
namespace DD
variable {β : Type} [Inhabited β]

theorem wStart_le (bs off : Nat) : wStart bs off ≤ off := Nat.sub_le _ _

theorem wStart_eq (bs off : Nat) : wStart bs off = off / bs * bs := by
  unfold wStart
  have := Nat.div_add_mod' off bs
  omega

theorem wStart_mod (bs off : Nat) : wStart bs off % bs = 0 := by
  rw [wStart_eq]; exact Nat.mul_mod_left _ _

theorem wEnd_ge (bs off len : Nat) : off + len ≤ wEnd bs off len := by
  unfold wEnd; split <;> omega

theorem wEnd_eq (bs off len : Nat) (hbs : 0 < bs) :
    wEnd bs off len = if (off + len) % bs = 0 then (off + len) / bs * bs else ((off + len) / bs + 1) * bs := by
  unfold wEnd
  have := Nat.div_add_mod' (off + len) bs
  have := Nat.mod_lt (off + len) hbs
  split
  · omega
  · rw [Nat.add_mul]; omega

theorem wEnd_mod (bs off len : Nat) (hbs : 0 < bs) : wEnd bs off len % bs = 0 := by
  rw [wEnd_eq bs off len hbs]
  split <;> exact Nat.mul_mod_left _ _

theorem wEnd_le (bs nb off len : Nat) (hbs : 0 < bs) (hr : off + len ≤ nb * bs) : wEnd bs off len ≤ nb * bs := by
  rw [wEnd_eq bs off len hbs]
  have hd := Nat.div_add_mod' (off + len) bs
  split
  · omega
  · rename_i hne
    have hlt : off + len < nb * bs := by
      rcases Nat.lt_or_ge (off + len) (nb * bs) with h | h
      · exact h
      · have : off + len = nb * bs := by omega
        rw [this, Nat.mul_mod_left] at hne
        exact absurd rfl hne
    have : (off + len) / bs < nb := (Nat.div_lt_iff_lt_mul hbs).mpr hlt
    exact Nat.mul_le_mul_right bs this

theorem wStart_le_wEnd (bs off len : Nat) : wStart bs off ≤ wEnd bs off len := by
  have := wStart_le bs off
  have := wEnd_ge bs off len
  omega

/-- **The widened write is the requested write.**  With the surrounding units taken from the volume
    itself, writing the widened range has exactly the effect of the original request: the same units
    change, every snapshot layer is untouched, the invariant is kept. -/
theorem writeOk_widenWrite (d : DD β) (h : WF d) (off len : Nat) (buf : Nat → β)
    (hr : off + len ≤ d.nb * d.bs) : WriteOk d (d.widenWrite d.live off len buf) off len buf := by
  unfold widenWrite
  by_cases hl : len = 0
  · rw [if_pos hl]
    subst hl
    have := writeOk_write d h off 0 buf hr
    unfold write at this
    simpa using this
  · rw [if_neg hl]
    have hbs := h.bs_pos
    have h1 := wStart_le d.bs off
    have h2 := wEnd_ge d.bs off len
    have h3 := wEnd_le d.bs d.nb off len hbs hr
    have hr' : wStart d.bs off + (wEnd d.bs off len - wStart d.bs off) ≤ d.nb * d.bs := by omega
    have w := writeOk_write d h (wStart d.bs off) (wEnd d.bs off len - wStart d.bs off)
      (widenBuf d.live off len buf) hr'
    refine ⟨w.wf, ?_, w.below, w.bs, w.nb, w.top, w.same, w.alloc⟩
    intro u
    rw [w.live u]
    unfold widenBuf
    by_cases c : off ≤ u ∧ u < off + len
    · have c' : wStart d.bs off ≤ u ∧ u < wStart d.bs off + (wEnd d.bs off len - wStart d.bs off) := by omega
      rw [if_pos c', if_pos c]
    · rw [if_neg c]
      split <;> rfl

/-- the widened request covers whole blocks: the replica serves it by `fullWriteAt` alone, without
    reading anything from its own chain -/
theorem widenWrite_eq_fullWrite (d : DD β) (hbs : 0 < d.bs) (src : Nat → β) (off len : Nat) (buf : Nat → β)
    (hl : len ≠ 0) :
    d.widenWrite src off len buf =
      d.fullWrite (wStart d.bs off / d.bs) ((wEnd d.bs off len - wStart d.bs off) / d.bs) (widenBuf src off len buf) := by
  unfold widenWrite
  rw [if_neg hl]
  unfold write
  simp only
  have h1 := wStart_le d.bs off
  have h2 := wEnd_ge d.bs off len
  have hne : ¬ (wEnd d.bs off len - wStart d.bs off = 0) := by omega
  rw [if_neg hne]
  have hA : wStart d.bs off % d.bs = 0 ∧ (wEnd d.bs off len - wStart d.bs off + wStart d.bs off) % d.bs = 0 := by
    refine ⟨wStart_mod _ _, ?_⟩
    have : wEnd d.bs off len - wStart d.bs off + wStart d.bs off = wEnd d.bs off len := by omega
    rw [this]; exact wEnd_mod _ _ _ hbs
  rw [if_pos hA]

end DD
end Jiva
