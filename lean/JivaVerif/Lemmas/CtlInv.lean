import JivaVerif.Model.Controller
/-! Invariant of the controller's membership bookkeeping and its preservation by the primitives. -/
namespace Jiva
namespace Ctl

def key (b : Backend) : String × CMode := (b.addr, b.mode)

/-- the volume status reflects the replica list -/
def Status (c : Ctl) : Prop :=
  c.readOnly = !(decide (rwOf c.replicas ≥ c.rf / 2 + 1)) ∧ c.rwCount = rwOf c.replicas

structure CCore (c : Ctl) : Prop where
  rfPos   : 1 ≤ c.rf
  nodup   : (c.replicas.map (·.1)).Nodup
  agree   : c.backends.map key = c.replicas
  fanout  : c.writers = (c.backends.filter fun b => b.mode ≠ .err).map (fun b => (b.addr, b.id)) ∧
            c.readers = (c.backends.filter fun b => b.mode = .rw).map (fun b => (b.addr, b.id)) ∧
            c.available = !((c.backends.filter fun b => b.mode = .rw).map (fun b => (b.addr, b.id))).isEmpty
  oneWO   : (c.replicas.filter fun r => r.2 = .wo).length ≤ 1
  lenRf   : c.replicas.length ≤ c.rf
  idsLt   : (∀ b ∈ c.backends, b.id < c.nextId) ∧ (∀ i ∈ c.closed, i < c.nextId)
  idsLive : ∀ b ∈ c.backends, b.id ∉ c.closed
  idsNodup: (c.backends.map (·.id)).Nodup

/-- a recorded checkpoint implies a full replica list -/
def CkptOk (c : Ctl) : Prop := c.checkpoint ≠ "" → c.replicas.length = c.rf

/-- the full invariant -/
structure CInv (c : Ctl) : Prop where
  core   : CCore c
  status : Status c
  ckpt   : CkptOk c

/-- the invariant only reads these fields -/
theorem CCore.congr {c c' : Ctl} (h : CCore c)
    (e1 : c'.rf = c.rf) (e2 : c'.replicas = c.replicas) (e3 : c'.backends = c.backends)
    (e4 : c'.writers = c.writers) (e5 : c'.readers = c.readers) (e6 : c'.available = c.available)
    (e10 : c'.nextId = c.nextId) (e11 : c'.closed = c.closed) : CCore c' := by
  refine ⟨?_, ?_, ?_, ?_, ?_, ?_, ?_, ?_, ?_⟩
  · rw [e1]; exact h.rfPos
  · rw [e2]; exact h.nodup
  · rw [e2, e3]; exact h.agree
  · rw [e3, e4, e5, e6]; exact h.fanout
  · rw [e2]; exact h.oneWO
  · rw [e1, e2]; exact h.lenRf
  · rw [e3, e10, e11]; exact h.idsLt
  · rw [e3, e11]; exact h.idsLive
  · rw [e3]; exact h.idsNodup

theorem Status.congr {c c' : Ctl} (h : Status c) (e1 : c'.rf = c.rf) (e2 : c'.replicas = c.replicas)
    (e7 : c'.readOnly = c.readOnly) (e8 : c'.rwCount = c.rwCount) : Status c' := by
  unfold Status; rw [e1, e2, e7, e8]; exact h

theorem CInv.congr {c c' : Ctl} (h : CInv c)
    (e1 : c'.rf = c.rf) (e2 : c'.replicas = c.replicas) (e3 : c'.backends = c.backends)
    (e4 : c'.writers = c.writers) (e5 : c'.readers = c.readers) (e6 : c'.available = c.available)
    (e7 : c'.readOnly = c.readOnly) (e8 : c'.rwCount = c.rwCount) (e9 : c'.checkpoint = c.checkpoint)
    (e10 : c'.nextId = c.nextId) (e11 : c'.closed = c.closed) : CInv c' :=
  ⟨h.core.congr e1 e2 e3 e4 e5 e6 e10 e11, h.status.congr e1 e2 e7 e8, by unfold CkptOk; rw [e9, e2, e1]; exact h.ckpt⟩

theorem cinv_init (rf : Nat) (h : 1 ≤ rf) : CInv (Ctl.init rf) := by
  refine ⟨⟨h, ?_, ?_, ?_, ?_, ?_, ?_, ?_, ?_⟩, ?_, ?_⟩ <;> simp [Ctl.init, rwOf, Status, key, CkptOk]

theorem ccore_call (c : Ctl) (h : CCore c) (id : Nat) (m : String) : CCore (c.call id m) :=
  h.congr rfl rfl rfl rfl rfl rfl rfl rfl

theorem cinv_call (c : Ctl) (h : CInv c) (id : Nat) (m : String) : CInv (c.call id m) :=
  h.congr rfl rfl rfl rfl rfl rfl rfl rfl rfl rfl rfl

theorem cinv_clearLog (c : Ctl) (h : CInv c) : CInv c.clearLog :=
  h.congr rfl rfl rfl rfl rfl rfl rfl rfl rfl rfl rfl

theorem ccore_calls (c : Ctl) (h : CCore c) {α : Type} (l : List α) (f : α → Nat) (m : String) :
    CCore (l.foldl (fun c x => c.call (f x) m) c) := by
  induction l generalizing c with
  | nil => exact h
  | cons x xs ih => exact ih _ (ccore_call c h (f x) m)

/-- fields untouched by logging calls -/
theorem calls_same (c : Ctl) {α : Type} (l : List α) (f : α → Nat) (m : String) :
    let c' := l.foldl (fun c x => c.call (f x) m) c
    c'.rf = c.rf ∧ c'.replicas = c.replicas ∧ c'.backends = c.backends ∧ c'.writers = c.writers ∧
    c'.readers = c.readers ∧ c'.available = c.available ∧ c'.readOnly = c.readOnly ∧
    c'.rwCount = c.rwCount ∧ c'.checkpoint = c.checkpoint ∧ c'.nextId = c.nextId ∧ c'.closed = c.closed ∧
    c'.size = c.size ∧ c'.registered = c.registered ∧ c'.maxRev = c.maxRev ∧ c'.signalled = c.signalled ∧
    c'.frontUp = c.frontUp := by
  induction l generalizing c with
  | nil => simp
  | cons x xs ih =>
    have := ih (c.call (f x) m)
    simpa [call] using this

/-! ### rebuild / status / checkpoint -/

theorem ccore_rebuild (c : Ctl) (h : CCore c) : CCore c.rebuild :=
  ⟨h.rfPos, h.nodup, h.agree, ⟨rfl, rfl, rfl⟩, h.oneWO, h.lenRf, h.idsLt, h.idsLive, h.idsNodup⟩

/-- rebuilding from a table that was changed -/
theorem ccore_rebuild_of (c : Ctl) (rfPos : 1 ≤ c.rf) (nodup : (c.replicas.map (·.1)).Nodup)
    (agree : c.backends.map key = c.replicas)
    (oneWO : (c.replicas.filter fun r => r.2 = .wo).length ≤ 1) (lenRf : c.replicas.length ≤ c.rf)
    (idsLt : (∀ b ∈ c.backends, b.id < c.nextId) ∧ (∀ i ∈ c.closed, i < c.nextId))
    (idsLive : ∀ b ∈ c.backends, b.id ∉ c.closed) (idsNodup : (c.backends.map (·.id)).Nodup) : CCore c.rebuild :=
  ⟨rfPos, nodup, agree, ⟨rfl, rfl, rfl⟩, oneWO, lenRf, idsLt, idsLive, idsNodup⟩

theorem ccore_updateVolStatus (c : Ctl) (h : CCore c) : CCore c.updateVolStatus :=
  ⟨h.rfPos, h.nodup, h.agree, h.fanout, h.oneWO, h.lenRf, h.idsLt, h.idsLive, h.idsNodup⟩

theorem status_updateVolStatus (c : Ctl) : Status c.updateVolStatus := ⟨rfl, rfl⟩

theorem cinv_updateVolStatus (c : Ctl) (h : CCore c) (hk : CkptOk c) : CInv c.updateVolStatus :=
  ⟨ccore_updateVolStatus c h, ⟨rfl, rfl⟩, hk⟩

theorem rwOf_le (l : List (String × CMode)) : rwOf l ≤ l.length := List.length_filter_le _ _

theorem updateCheckpoint_same (c : Ctl) (e : CkEnv) :
    let c' := c.updateCheckpoint e
    c'.rf = c.rf ∧ c'.replicas = c.replicas ∧ c'.backends = c.backends ∧ c'.writers = c.writers ∧
    c'.readers = c.readers ∧ c'.available = c.available ∧ c'.readOnly = c.readOnly ∧
    c'.rwCount = c.rwCount ∧ c'.nextId = c.nextId ∧ c'.closed = c.closed ∧ c'.size = c.size ∧
    c'.registered = c.registered ∧ c'.maxRev = c.maxRev ∧ c'.signalled = c.signalled ∧ c'.frontUp = c.frontUp := by
  simp only
  unfold updateCheckpoint
  split
  · split
    · have same := calls_same c (c.backends.filter fun b => b.mode = .rw) (·.id) "SetCheckpoint"
      simp only at same
      simp only
      split <;> exact ⟨same.1, same.2.1, same.2.2.1, same.2.2.2.1, same.2.2.2.2.1, same.2.2.2.2.2.1,
        same.2.2.2.2.2.2.1, same.2.2.2.2.2.2.2.1, same.2.2.2.2.2.2.2.2.2.1, same.2.2.2.2.2.2.2.2.2.2.1,
        same.2.2.2.2.2.2.2.2.2.2.2.1, same.2.2.2.2.2.2.2.2.2.2.2.2.1, same.2.2.2.2.2.2.2.2.2.2.2.2.2.1,
        same.2.2.2.2.2.2.2.2.2.2.2.2.2.2.1, same.2.2.2.2.2.2.2.2.2.2.2.2.2.2.2⟩
    · simp
  · simp

theorem updateCheckpoint_ckpt (c : Ctl) (e : CkEnv) (hne : (c.updateCheckpoint e).checkpoint ≠ "") :
    rwOf c.replicas = c.rf := by
  unfold updateCheckpoint at hne
  split at hne
  · assumption
  · exact absurd rfl hne

/-- `UpdateCheckpoint` re-establishes the checkpoint clause whatever it was before -/
theorem cinv_updateCheckpoint (c : Ctl) (h : CCore c) (hs : Status c) (e : CkEnv) : CInv (c.updateCheckpoint e) := by
  have s := updateCheckpoint_same c e
  simp only at s
  refine ⟨⟨?_, ?_, ?_, ?_, ?_, ?_, ?_, ?_, ?_⟩, ?_, ?_⟩
  · rw [s.1]; exact h.rfPos
  · rw [s.2.1]; exact h.nodup
  · rw [s.2.1, s.2.2.1]; exact h.agree
  · rw [s.2.2.1, s.2.2.2.1, s.2.2.2.2.1, s.2.2.2.2.2.1]; exact h.fanout
  · rw [s.2.1]; exact h.oneWO
  · rw [s.2.1, s.1]; exact h.lenRf
  · rw [s.2.2.1, s.2.2.2.2.2.2.2.2.1, s.2.2.2.2.2.2.2.2.2.1]; exact h.idsLt
  · rw [s.2.2.1, s.2.2.2.2.2.2.2.2.2.1]; exact h.idsLive
  · rw [s.2.2.1]; exact h.idsNodup
  · exact hs.congr s.1 s.2.1 s.2.2.2.2.2.2.1 s.2.2.2.2.2.2.2.1
  · intro hne
    rw [s.2.1, s.1]
    have := updateCheckpoint_ckpt c e hne
    have := rwOf_le c.replicas; have := h.lenRf; omega

/-- **C13.** The checkpoint is recorded only when all RF replicas are RW, they agree on their
    latest snapshot, and every one of them persisted it. -/
theorem updateCheckpoint_sound (c : Ctl) (e : CkEnv) (hne : (c.updateCheckpoint e).checkpoint ≠ "") :
    rwOf c.replicas = c.rf ∧ latestAgreed c e = some (c.updateCheckpoint e).checkpoint ∧
    ((c.backends.filter fun b => b.mode = .rw).all fun b => lookupD e.setOk b.addr true) = true := by
  unfold updateCheckpoint at hne ⊢
  split at hne
  · rename_i hrw
    split at hne
    · rename_i s hs
      simp only at hne
      split at hne
      · rename_i hall
        simp only [hrw, hs, if_true, hall, and_self]
      · exact absurd rfl hne
    · exact absurd rfl hne
  · exact absurd rfl hne

end Ctl
end Jiva
