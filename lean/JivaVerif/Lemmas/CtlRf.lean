import JivaVerif.Lemmas.CtlAdd
/-! No request changes the configured replication factor (`Ctl.rf`). -/
namespace Jiva
namespace Ctl

@[simp] theorem call_rf (c : Ctl) (i : Nat) (m : String) : (c.call i m).rf = c.rf := rfl
@[simp] theorem rebuild_rf (c : Ctl) : c.rebuild.rf = c.rf := rfl
@[simp] theorem updateVolStatus_rf (c : Ctl) : c.updateVolStatus.rf = c.rf := rfl
@[simp] theorem updateCheckpoint_rf (c : Ctl) (e : CkEnv) : (c.updateCheckpoint e).rf = c.rf :=
  (updateCheckpoint_same c e).1
@[simp] theorem closeNew_rf (c : Ctl) (i : Nat) : (c.closeNew i).rf = c.rf := rfl
@[simp] theorem attach_rf (c : Ctl) (a : String) (i : Nat) : (c.attach a i).rf = c.rf := rfl
@[simp] theorem reserveId_rf (c : Ctl) : c.reserveId.rf = c.rf := rfl
@[simp] theorem clearLog_rf (c : Ctl) : c.clearLog.rf = c.rf := rfl
@[simp] theorem removeReplica_rf' (c : Ctl) (a : String) (e : CkEnv) : (c.removeReplica a e).rf = c.rf :=
  removeReplica_rf c a e
@[simp] theorem foldl_call_rf {α : Type} (l : List α) (f : α → Nat) (m : String) (c : Ctl) :
    (l.foldl (fun c b => c.call (f b) m) c).rf = c.rf := by
  induction l generalizing c with
  | nil => rfl
  | cons x xs ih => simp [List.foldl, ih]
@[simp] theorem setModeCore_rf (c : Ctl) (a : String) (m : CMode) : (c.setModeCore a m).rf = c.rf := by
  unfold setModeCore; simp only; split
  · split <;> rfl
  · rfl
@[simp] theorem setMode_rf (c : Ctl) (a : String) (m : CMode) : (c.setMode a m).rf = c.rf := by
  unfold setMode; split <;> simp
@[simp] theorem foldl_setMode_rf (l : List String) (m : CMode) (c : Ctl) :
    (l.foldl (fun c a => c.setMode a m) c).rf = c.rf := by
  induction l generalizing c with
  | nil => rfl
  | cons x xs ih => simp [List.foldl, ih]
@[simp] theorem handleError_rf (c : Ctl) (errs : List String) : (c.handleError errs).1.rf = c.rf := by
  unfold handleError; split <;> simp
@[simp] theorem removeAll_rf (errs : List String) (c : Ctl) : (c.removeAll errs).rf = c.rf := by
  unfold removeAll
  induction errs generalizing c with
  | nil => rfl
  | cons x xs ih => simp [List.foldl, ih]
@[simp] theorem ioFail_rf (c : Ctl) (errs : List String) : (c.ioFail errs).1.rf = c.rf := by
  unfold ioFail; simp
@[simp] theorem signalReplica_rf (c : Ctl) (ok : Bool) : (c.signalReplica ok).1.rf = c.rf := by
  unfold signalReplica; simp only; split <;> rfl
@[simp] theorem electAndSignal_rf (c : Ctl) (r : Reg) (so : Bool) (el : String) : (c.electAndSignal r so el).1.rf = c.rf := by
  unfold electAndSignal; simp only
  repeat' split
  all_goals simp
@[simp] theorem stepRegister_rf (c : Ctl) (r : Reg) (so al : Bool) (el : String) : (c.stepRegister r so al el).1.rf = c.rf := by
  unfold stepRegister; simp only
  repeat' split
  all_goals simp
@[simp] theorem startFront_rf (c : Ctl) : c.startFront.rf = c.rf := by unfold startFront; split <;> rfl
@[simp] theorem dropLeader_rf (c : Ctl) : c.dropLeader.rf = c.rf := rfl
@[simp] theorem startReset_rf (c : Ctl) : c.startReset.rf = c.rf := rfl
@[simp] theorem reserve_rf (c : Ctl) (s : Nat) : (c.reserve s).rf = c.rf := rfl
@[simp] theorem adoptSize_rf (c : Ctl) (s : Nat) : (c.adoptSize s).rf = c.rf := by unfold adoptSize; split <;> rfl
theorem canAdd_rf (c : Ctl) (a : String) (tk : Option Bool) (c1 : Ctl) (e : c.canAdd a tk = some c1) : c1.rf = c.rf := by
  unfold canAdd at e
  split at e
  · cases e
  · split at e
    · cases e; rfl
    · split at e
      · cases e; simp
      · cases e
theorem startOne_rf (c : Ctl) (e : StartEnv) : (c.startOne e).1.rf = c.rf := by
  unfold startOne; simp only
  split
  · rfl
  · split
    · simp
    · split
      · simp
      · rename_i c1 ec
        have := canAdd_rf _ _ _ _ ec
        split
        · simp [this]
        · split
          · simp [this]
          · split <;> simp [this]
theorem startLoop_rf (es : List StartEnv) : ∀ c : Ctl, (c.startLoop es).1.rf = c.rf := by
  induction es with
  | nil => intro c; rfl
  | cons e es ih =>
    intro c; unfold startLoop; split
    · rw [ih, startOne_rf]
    · exact startOne_rf c e
theorem stepStart_rf (c : Ctl) (es : List StartEnv) (ck : CkEnv) : (c.stepStart es ck).1.rf = c.rf := by
  unfold stepStart
  split
  · rfl
  · repeat' split
    all_goals simp [startLoop_rf]
theorem attachNew_rf (c : Ctl) (a : String) (i : Nat) (sf : List String) (n s : Bool) (ck : CkEnv) :
    (attachNew c a i sf n s ck).1.rf = c.rf := by
  unfold attachNew; simp only
  repeat' split
  all_goals simp
theorem stepAddPre_rf (c : Ctl) (a : String) (tk : Option Bool) : (c.stepAddPre a tk).1.rf = c.rf := by
  unfold stepAddPre
  split
  · rfl
  · rename_i c1 e
    have := canAdd_rf c a tk c1 e
    split <;> exact this
theorem stepAddPost_rf (c : Ctl) (a : String) (tk : Option Bool) (cok : Bool) (sf : List String) (n s : Bool) (ck : CkEnv) :
    (c.stepAddPost a tk cok sf n s ck).1.rf = c.rf := by
  unfold stepAddPost
  split
  · rfl
  · split
    · simp
    · split
      · rfl
      · rename_i c1 e
        rw [attachNew_rf]; simp [canAdd_rf c a tk c1 e]
theorem stepAdd_rf (c : Ctl) (a : String) (tk : Option Bool) (cok : Bool) (sf : List String) (n s : Bool) (ck : CkEnv) :
    (c.stepAdd a tk cok sf n s ck).1.rf = c.rf := by
  unfold stepAdd
  split
  · rw [stepAddPost_rf, stepAddPre_rf]
  · exact stepAddPre_rf c a tk
theorem stepVerify_rf (c : Ctl) (a : String) (rwc woc : Option (List String)) (ckp : Option String)
    (rev : Option Nat) (o1 o2 : Bool) (ck : CkEnv) : (c.stepVerify a rwc woc ckp rev o1 o2 ck).1.rf = c.rf := by
  unfold stepVerify
  repeat' split
  all_goals simp
theorem stepFanOut_rf (c : Ctl) (m : String) (f : List String) : (c.stepFanOut m f).1.rf = c.rf := by
  unfold stepFanOut; simp only
  repeat' split
  all_goals simp
theorem foldl_rf_of {α : Type} (f : Ctl → α → Ctl) (hf : ∀ c x, (f c x).rf = c.rf) (l : List α) (c : Ctl) :
    (l.foldl f c).rf = c.rf := by
  induction l generalizing c with
  | nil => rfl
  | cons x xs ih => simp only [List.foldl]; rw [ih, hf]
@[simp] theorem readCalls_rf (c : Ctl) (t : List (String × Out)) : (c.readCalls t).rf = c.rf := by
  unfold readCalls; apply foldl_rf_of; intro c x; split <;> rfl
theorem stepRead_rf (c : Ctl) (off len : Nat) (t : List (String × Out)) : (c.stepRead off len t).1.rf = c.rf := by
  unfold stepRead; simp only
  repeat' split
  all_goals simp
theorem stepWrite_rf (c : Ctl) (off len : Nat) (f : List String) (t : List (String × Out)) :
    (c.stepWrite off len f t).1.rf = c.rf := by
  unfold stepWrite; simp only
  repeat' split
  all_goals simp [stepFanOut_rf]
theorem stepSync_rf (c : Ctl) (m : String) (f : List String) : (c.stepSync m f).1.rf = c.rf := by
  unfold stepSync
  repeat' split
  all_goals simp [stepFanOut_rf]
theorem stepSnapshot_rf (c : Ctl) (ex : Option Bool) (f : List String) : (c.stepSnapshot ex f).1.rf = c.rf := by
  unfold stepSnapshot; simp only
  repeat' split
  all_goals simp
theorem stepResize_rf (c : Ctl) (sz : Nat) (f : List String) : (c.stepResize sz f).1.rf = c.rf := by
  unfold stepResize; simp only
  repeat' split
  all_goals simp
theorem stepMon_rf (c : Ctl) (a : String) (e : Bool) : (c.stepMon a e).1.rf = c.rf := by
  unfold stepMon; simp only
  repeat' split
  all_goals simp

/-- no request changes the configured replication factor -/
theorem step_rf (c : Ctl) (op : CtlOp) : (c.step op).1.rf = c.rf := by
  unfold step
  cases op with
  | register r so al el => simp
  | start es ck => simp [stepStart_rf]
  | add a tk cok sf nso swo ck => simp [stepAdd_rf]
  | addPre a tk => simp [stepAddPre_rf]
  | addPost a tk cok sf nso swo ck => simp [stepAddPost_rf]
  | remove a => simp
  | setMode a m => simp only; split <;> simp
  | verify a rwc woc ckp rev o1 o2 ck => simp [stepVerify_rf]
  | write off len f t => simp [stepWrite_rf]
  | sync f => simp [stepSync_rf]
  | unmap f => simp [stepSync_rf]
  | read off len t => simp [stepRead_rf]
  | snapshot n ex f => simp [stepSnapshot_rf]
  | resize sz f => simp [stepResize_rf]
  | mon a e => simp [stepMon_rf]

theorem run_rf (ops : List CtlOp) : ∀ c : Ctl, (c.run ops).rf = c.rf := by
  induction ops with
  | nil => intro c; rfl
  | cons op ops ih => intro c; exact (ih _).trans (step_rf c op)

end Ctl
end Jiva
