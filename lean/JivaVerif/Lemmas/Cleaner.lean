import JivaVerif.Model.Cleaner
namespace Jiva
namespace DD
variable {β : Type}

theorem mem_candidatesUpTo (d : DD β) : ∀ n k, k ∈ candidatesUpTo d n →
    2 ≤ k ∧ k ≤ n ∧ d.ur k = false ∧ d.ur (k - 1) = false := by
  intro n
  induction n with
  | zero => intro k hk; simp [candidatesUpTo] at hk
  | succ n ih =>
    intro k hk
    unfold candidatesUpTo at hk
    simp only at hk
    split at hk
    · rename_i c
      rcases List.mem_append.mp hk with hk | hk
      · have := ih k hk; exact ⟨this.1, by omega, this.2.2⟩
      · simp at hk; subst hk; exact ⟨c.1, Nat.le_refl _, c.2.1, by simpa using c.2.2⟩
    · have := ih k hk; exact ⟨this.1, by omega, this.2.2⟩

end DD
end Jiva
