import JivaVerif.Lemmas.WriteAt
/-! Snapshot, mark-removed, coalesce, remove, reclaimer steps, read memoisation. -/
namespace Jiva
namespace DD
variable {β : Type} [Inhabited β]

/-! ### read -/

theorem wf_memoRange (d : DD β) (h : WF d) (b0 : Nat) : ∀ cnt, WF (d.memoRange b0 cnt) := by
  intro cnt; induction cnt with
  | zero => exact h
  | succ n ih => exact wf_memo _ ih _

theorem memoRange_files (d : DD β) (b0 : Nat) : ∀ cnt,
    (d.memoRange b0 cnt).files = d.files ∧ (d.memoRange b0 cnt).bs = d.bs ∧
    (d.memoRange b0 cnt).top = d.top ∧ (d.memoRange b0 cnt).nb = d.nb ∧
    (d.memoRange b0 cnt).uc = d.uc ∧ (d.memoRange b0 cnt).rm = d.rm := by
  intro cnt; induction cnt with
  | zero => exact ⟨rfl, rfl, rfl, rfl, rfl, rfl⟩
  | succ n ih =>
    have m := memo_other (d.memoRange b0 n) (b0 + n)
    refine ⟨?_, ?_, ?_, ?_, ?_, ?_⟩
    · show ((d.memoRange b0 n).memo (b0 + n)).files = d.files
      rw [memo_files]; exact ih.1
    · exact m.1.trans ih.2.1
    · exact m.2.2.1.trans ih.2.2.1
    · exact m.2.1.trans ih.2.2.2.1
    · exact m.2.2.2.2.2.1.trans ih.2.2.2.2.1
    · exact m.2.2.2.2.2.2.1.trans ih.2.2.2.2.2

/-- A read changes no view. -/
theorem view_read (d : DD β) (off len i u : Nat) : (d.read off len).1.view i u = d.view i u := by
  unfold read view
  have m := memoRange_files d (off / d.bs) (blocksTouched d.bs off len)
  simp only
  rw [m.1, m.2.1]

/-! ### snapshot -/

theorem wf_snapshot (d : DD β) (h : WF d) (user : Bool) : WF (d.snapshot user) := by
  have ur' : ∀ i, (d.snapshot user).ur i = true → (i = d.top ∧ user = true) ∨ (i < d.top ∧ d.ur i = true) := by
    intro i hi
    unfold ur snapshot at hi
    simp only at hi
    by_cases e1 : i = d.top
    · left; subst e1; simp at hi; exact ⟨rfl, hi⟩
    · by_cases e2 : i = d.top + 1
      · subst e2; simp at hi
      · right
        have e3 : ¬ (i = d.top ∨ i = d.top + 1) := by omega
        simp only [e1, e2, e3, if_false] at hi
        have : d.ur i = true := by unfold ur; exact hi
        exact ⟨h.urLt i this, this⟩
  refine ⟨h.bs_pos, ?_, h.empty0, ?_, ?_, h.locOut, ?_, ?_, ?_, ?_, ?_⟩
  · show 1 ≤ d.top + 1; omega
  · intro i hi b; exact h.emptyAbove i (by have : d.top + 1 < i := hi; omega) b
  · intro b hb
    have ⟨l1, l2, l3⟩ := h.locOk b hb
    exact ⟨by show d.loc b ≤ d.top + 1; omega, l2, l3⟩
  · intro i hi
    show i ≤ (if user then d.top else d.snapIdx)
    rcases ur' i hi with ⟨e, hu⟩ | ⟨hl, hu⟩
    · simp [hu, e]
    · have := h.urLe i hu
      split <;> omega
  · intro i hi
    show 1 ≤ i ∧ i < d.top + 1
    unfold snapshot at hi
    simp only at hi
    by_cases e1 : i = d.top
    · have := h.top_pos; omega
    · by_cases e2 : i = d.top + 1
      · simp [e1, e2] at hi
      · simp only [e1, e2, if_false] at hi
        have := h.ucLt i hi; omega
  · intro i hi
    show (if i = d.top + 1 then user else d.marks i) = true ∨
         (if i + 1 = d.top + 1 then user else d.marks (i + 1)) = true
    rcases ur' i hi with ⟨e, hu⟩ | ⟨hl, hu⟩
    · right; simp [e, hu]
    · have e1 : i ≠ d.top + 1 := by omega
      have e2 : i + 1 ≠ d.top + 1 := by omega
      simp only [e1, e2, if_false]; exact h.markCover i hu
  · intro i hi
    have hi' : d.top + 1 < i := hi
    show (if i = d.top + 1 then user else d.marks i) = false
    have : i ≠ d.top + 1 := by omega
    simp only [this, if_false]; exact h.marksAbove i (by omega)
  · intro p hp
    have ⟨q0, q1, q2⟩ := h.pendOk p hp
    refine ⟨by show p.1 < d.top + 1; omega, q1, ?_⟩
    intro u hu hfu
    rcases hu with hu | hu
    · rcases ur' u hu with ⟨e, _⟩ | ⟨_, hu⟩
      · exact q2 u (Or.inr e) hfu
      · exact q2 u (Or.inl hu) hfu
    · have hu' : u = d.top + 1 := hu
      by_cases c : p.1 ≤ d.top
      · have ⟨hh, a1, a2, a3⟩ := q2 d.top (Or.inr rfl) c
        exact ⟨hh, a1, by omega, a3⟩
      · omega

/-- A snapshot changes no view: the volume and all older snapshots read as before,
    and the new snapshot is the live image. -/
theorem view_snapshot (d : DD β) (user : Bool) (i u : Nat) : (d.snapshot user).view i u = d.view i u := rfl

theorem live_snapshot (d : DD β) (h : WF d) (user : Bool) (u : Nat) :
    (d.snapshot user).live u = d.live u := by
  show viewUpTo d.files d.bs (d.top + 1) u = viewUpTo d.files d.bs d.top u
  rw [viewUpTo_succ, h.emptyAbove (d.top + 1) (by omega)]
  simp

/-! ### mark removed -/

theorem wf_markRemoved (d : DD β) (h : WF d) (k : Nat) : WF (d.markRemoved k) := by
  have sub : ∀ i, (d.markRemoved k).ur i = true → d.ur i = true := by
    intro i hi
    unfold ur markRemoved at hi
    simp only at hi
    unfold ur
    by_cases e : i = k
    · simp [e] at hi
    · simpa [e] using hi
  refine ⟨h.bs_pos, h.top_pos, h.empty0, h.emptyAbove, h.locOk, h.locOut,
    fun i hi => h.urLe i (sub i hi), h.ucLt, fun i hi => h.markCover i (sub i hi), h.marksAbove, ?_⟩
  intro p hp
  have ⟨q0, q1, q2⟩ := h.pendOk p hp
  refine ⟨q0, q1, ?_⟩
  intro u hu hfu
  rcases hu with hu | hu
  · exact q2 u (Or.inl (sub u hu)) hfu
  · exact q2 u (Or.inr hu) hfu

theorem view_markRemoved (d : DD β) (k i u : Nat) : (d.markRemoved k).view i u = d.view i u := rfl

/-! ### reclaimer -/

theorem wf_dropHoles (d : DD β) (h : WF d) : WF d.dropHoles :=
  ⟨h.bs_pos, h.top_pos, h.empty0, h.emptyAbove, h.locOk, h.locOut, h.urLe, h.ucLt, h.markCover,
   h.marksAbove, fun p hp => by simp [dropHoles] at hp⟩

theorem wf_setPunch (d : DD β) (h : WF d) (p : Bool) : WF (d.setPunch p) :=
  ⟨h.bs_pos, h.top_pos, h.empty0, h.emptyAbove, h.locOk, h.locOut, h.urLe, h.ucLt, h.markCover,
   h.marksAbove, h.pendOk⟩

theorem wf_resize (d : DD β) (h : WF d) (nb' : Nat) (hn : d.nb ≤ nb') : WF (d.resize nb') :=
  ⟨h.bs_pos, h.top_pos, h.empty0, h.emptyAbove, h.locOk,
   fun b hb => h.locOut b (by have : nb' ≤ b := hb; omega), h.urLe, h.ucLt, h.markCover,
   h.marksAbove, h.pendOk⟩

theorem applyHole_cases (d : DD β) (i : Nat) :
    d.applyHole i = d ∨ ∃ f b, d.pend[i]? = some (f, b) ∧
      d.applyHole i = { d with files := fun j => if j = f then (d.files f).punch b else d.files j
                               pend  := d.pend.eraseIdx i } := by
  unfold applyHole
  cases hq : d.pend[i]? with
  | none => left; rfl
  | some p => right; exact ⟨p.1, p.2, rfl, rfl⟩

theorem punch_alloc (f : File β) (b b' : Nat) :
    (f.punch b).alloc b' = if b' = b then false else f.alloc b' := rfl

theorem wf_applyHole (d : DD β) (h : WF d) (i : Nat) : WF (d.applyHole i) := by
  rcases applyHole_cases d i with e | ⟨f, b, hq, e⟩
  · rw [e]; exact h
  · rw [e]
    have hmem : (f, b) ∈ d.pend := List.mem_of_getElem? hq
    have ⟨g0, g1, g2⟩ := h.pendOk _ hmem
    -- allocation after the punch
    have al : ∀ j b', ((if j = f then (d.files f).punch b else d.files j)).alloc b' =
        if j = f ∧ b' = b then false else (d.files j).alloc b' := by
      intro j b'
      by_cases e1 : j = f
      · subst e1; simp [punch_alloc]
      · simp [e1]
    have mono : ∀ j b', ((if j = f then (d.files f).punch b else d.files j)).alloc b' = true →
        (d.files j).alloc b' = true := by
      intro j b' hh; rw [al] at hh; split at hh
      · cases hh
      · exact hh
    have anti : ∀ j b', (d.files j).alloc b' = false →
        ((if j = f then (d.files f).punch b else d.files j)).alloc b' = false := by
      intro j b' hh; rw [al]; split <;> simp [hh]
    refine ⟨h.bs_pos, h.top_pos, fun b' => anti 0 b' (h.empty0 b'),
      fun j hj b' => anti j b' (h.emptyAbove j hj b'), ?_, h.locOut, h.urLe, h.ucLt, h.markCover,
      h.marksAbove, ?_⟩
    · intro b' hb'
      have ⟨l1, l2, l3⟩ := h.locOk b' hb'
      refine ⟨l1, fun j hj => anti j b' (l2 j hj), ?_⟩
      rcases l3 with l3 | l3
      · left
        show ((if d.loc b' = f then (d.files f).punch b else d.files (d.loc b'))).alloc b' = true
        rw [al]
        have : ¬ (d.loc b' = f ∧ b' = b) := by
          intro ⟨c1, c2⟩; subst c2
          have hb'' : d.loc b' ≠ 0 := hb'
          rcases g1 with g1 | g1
          · exact hb'' g1
          · have : f < d.loc b' := g1
            omega
        simp only [this, if_false]; exact l3
      · right; intro j hj; exact anti j b' (l3 j hj)
    · intro p hp
      have hp' : p ∈ d.pend := List.mem_of_mem_eraseIdx hp
      have ⟨q0, q1, q2⟩ := h.pendOk p hp'
      refine ⟨q0, q1, ?_⟩
      intro u hu hfu
      have ⟨hh, a1, a2, a3⟩ := q2 u hu hfu
      by_cases c : hh = f ∧ p.2 = b
      · -- the witness is the punched block: take the holder above it
        have hfu' : f ≤ u := by omega
        have ⟨h2, b1, b2, b3⟩ := g2 u hu hfu'
        refine ⟨h2, by omega, b2, ?_⟩
        show ((if h2 = f then (d.files f).punch b else d.files h2)).alloc p.2 = true
        rw [al]
        have : ¬ (h2 = f ∧ p.2 = b) := by omega
        simp only [this, if_false]; rw [c.2]; exact b3
      · refine ⟨hh, a1, a2, ?_⟩
        show ((if hh = f then (d.files f).punch b else d.files hh)).alloc p.2 = true
        rw [al]; simp only [c, if_false]; exact a3

/-- **C06 core.** A punch applied by the reclaimer — at any later time — changes neither the live
    volume nor any retained user-created snapshot. -/
theorem view_applyHole (d : DD β) (h : WF d) (i u x : Nat) (hu : d.ur u = true ∨ u = d.top) :
    (d.applyHole i).view u x = d.view u x := by
  rcases applyHole_cases d i with e | ⟨f, b, hq, e⟩
  · rw [e]
  · rw [e]
    have hmem : (f, b) ∈ d.pend := List.mem_of_getElem? hq
    have ⟨g0, g1, g2⟩ := h.pendOk _ hmem
    unfold view
    simp only
    by_cases hb : x / d.bs = b
    · by_cases hfu : f ≤ u
      · have ⟨hh, a1, a2, a3⟩ := g2 u hu hfu
        symm
        apply viewUpTo_congr_below d.files _ d.bs x f u ⟨hh, a1, a2, by rw [hb]; exact a3⟩
        intro j hj; simp [hj]
      · apply viewUpTo_congr
        intro j _ hj
        have : j ≠ f := by omega
        simp [this]
    · apply viewUpTo_congr
      intro j _ _
      by_cases e1 : j = f
      · subst e1; simp [punch_alloc, hb, File.punch]
      · simp [e1]

end DD
end Jiva
