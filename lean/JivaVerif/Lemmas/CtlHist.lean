import JivaVerif.Lemmas.CtlRf
/-! Every request keeps in service only who was in service or was attached by it (`Keeps`). -/
namespace Jiva
namespace Ctl

/-! ### the requests -/

theorem keeps_stepFanOut (k : Nat) (c : Ctl) (m : String) (fails : List String) : Keeps k c (c.stepFanOut m fails).1 := by
  unfold stepFanOut
  simp only
  split
  · exact Keeps.refl k c
  · split
    · exact keeps_calls k c _ _ _
    · exact (keeps_calls k c c.writers (·.2) m).trans (keeps_ioFail k _ _)

theorem keeps_stepSync (k : Nat) (c : Ctl) (m : String) (fails : List String) : Keeps k c (c.stepSync m fails).1 := by
  unfold stepSync
  split
  · exact Keeps.refl k c
  · exact keeps_stepFanOut k c m fails

theorem keeps_readCalls (k : Nat) (c : Ctl) (tried : List (String × Out)) : Keeps k c (c.readCalls tried) := by
  unfold readCalls
  induction tried generalizing c with
  | nil => exact Keeps.refl k c
  | cons t ts ih =>
    refine Keeps.trans ?_ (ih _)
    show Keeps k c (match c.readers.find? (fun r => r.1 = t.1) with
                    | some r => c.call r.2 "ReadAt" | none => c)
    split
    · exact keeps_call k c _ _
    · exact Keeps.refl k c

theorem keeps_stepWrite (k : Nat) (c : Ctl) (off len : Nat) (fails : List String) (tried : List (String × Out)) :
    Keeps k c (c.stepWrite off len fails tried).1 := by
  unfold stepWrite
  simp only
  repeat' split
  all_goals first
    | exact Keeps.refl k c
    | exact keeps_stepFanOut k c _ _
    | exact keeps_readCalls k c _
    | exact (keeps_readCalls k c tried).trans (keeps_stepFanOut k _ _ _)
    | exact (keeps_readCalls k c tried).trans (keeps_ioFail k _ _)
    | exact ((keeps_readCalls k c tried).trans (keeps_ioFail k _ _)).trans (keeps_stepFanOut k _ _ _)

theorem keeps_stepRead (k : Nat) (c : Ctl) (off len : Nat) (tried : List (String × Out)) :
    Keeps k c (c.stepRead off len tried).1 := by
  unfold stepRead
  simp only
  repeat' split
  all_goals first
    | exact Keeps.refl k c
    | exact keeps_readCalls k c _
    | exact (keeps_readCalls k c tried).trans (keeps_ioFail k _ _)

theorem keeps_stepSnapshot (k : Nat) (c : Ctl) (ex : Option Bool) (fails : List String) :
    Keeps k c (c.stepSnapshot ex fails).1 := by
  unfold stepSnapshot
  simp only
  repeat' split
  all_goals first
    | exact Keeps.refl k c
    | exact keeps_calls k c _ _ _
    | exact (keeps_calls k c (c.backends.filter fun b => b.mode ≠ .err) (·.id) "Snapshot").trans (keeps_handleError k _ _)

theorem keeps_stepResize (k : Nat) (c : Ctl) (size : Nat) (fails : List String) :
    Keeps k c (c.stepResize size fails).1 := by
  unfold stepResize
  simp only
  repeat' split
  all_goals first
    | exact Keeps.refl k c
    | exact keeps_of_backends k c _ (calls_same c _ _ _).2.2.1
    | exact (keeps_calls k c (c.backends.filter fun b => b.mode ≠ .err) (·.id) "Resize").trans (keeps_handleError k _ _)
    | exact ((keeps_calls k c (c.backends.filter fun b => b.mode ≠ .err) (·.id) "Resize").trans (keeps_handleError k _ _)).trans
        (keeps_of_backends k _ _ rfl)

theorem keeps_stepMon (k : Nat) (c : Ctl) (a : String) (err : Bool) : Keeps k c (c.stepMon a err).1 := by
  unfold stepMon
  simp only
  split
  · exact (keeps_setMode_err k c a).trans (keeps_removeReplica k _ a _)
  · exact keeps_removeReplica k c a _

theorem keeps_stepRegister (k : Nat) (c : Ctl) (r : Reg) (so al : Bool) (el : String) :
    Keeps k c (c.stepRegister r so al el).1 :=
  keeps_of_backends k c _ (frame_stepRegister c r so al el).2.2.1

theorem keeps_promote (k : Nat) (c : Ctl) (h : CInv c) (i1 i2 : Nat) (m1 m2 : String) (a : String) (ck : CkEnv) :
    Keeps k c (((((c.call i1 m1).call i2 m2).setMode a .rw).updateVolStatus).updateCheckpoint ck) := by
  have k1 : Keeps k c ((c.call i1 m1).call i2 m2) := (keeps_call k c i1 m1).trans (keeps_call k _ i2 m2)
  have k2 := keeps_setMode k ((c.call i1 m1).call i2 m2) (ccore_call _ (ccore_call c h.core i1 m1) i2 m2) a .rw
  exact ((k1.trans k2).trans (keeps_updateVolStatus k _)).trans (keeps_updateCheckpoint k _ ck)

theorem keeps_stepVerify (k : Nat) (c : Ctl) (h : CInv c) (a : String) (rwc woc : Option (List String))
    (ckp : Option String) (rev : Option Nat) (o1 o2 : Bool) (ck : CkEnv) :
    Keeps k c (c.stepVerify a rwc woc ckp rev o1 o2 ck).1 := by
  unfold stepVerify
  repeat' split
  all_goals first
    | exact Keeps.refl k c
    | exact keeps_call k c _ _
    | exact (keeps_call k c _ _).trans (keeps_call k _ _ _)
    | exact keeps_promote k c h _ _ _ _ a ck

theorem canAdd_keeps (k : Nat) (c : Ctl) (addr : String) (tk : Option Bool) (c1 : Ctl) (e : c.canAdd addr tk = some c1) :
    Keeps k c c1 ∧ c1.nextId = c.nextId := by
  unfold canAdd at e
  split at e
  · cases e
  · split at e
    · cases e; exact ⟨Keeps.refl k c, rfl⟩
    · split at e
      · cases e
        refine ⟨keeps_removeReplica k c _ _, ?_⟩
        have := (cinv_init 1 (Nat.le_refl 1)) -- (unused) keeps the import of CInv lemmas explicit
        unfold removeReplica
        split
        · rfl
        · rw [(updateCheckpoint_same _ _).2.2.2.2.2.2.2.2.1]
          show (Ctl.removeBackend _ _).nextId = c.nextId
          unfold removeBackend
          split <;> (simp only [rebuild, call]; split <;> rfl)
      · cases e

theorem keeps_attached (k : Nat) (c : Ctl) (addr : String) (id : Nat) (hk : k ≤ id) (m1 m2 : String) (ck : CkEnv) :
    Keeps k c (((((c.call id m1).call id m2).attach addr id).updateVolStatus).updateCheckpoint ck) := by
  have k1 : Keeps k c ((c.call id m1).call id m2) := (keeps_call k c id m1).trans (keeps_call k _ id m2)
  exact ((k1.trans (keeps_attach k _ addr id hk)).trans (keeps_updateVolStatus k _)).trans (keeps_updateCheckpoint k _ ck)

theorem keeps_attachNew (k : Nat) (c : Ctl) (addr : String) (id : Nat) (hk : k ≤ id) (sf : List String)
    (nso swo : Bool) (ck : CkEnv) : Keeps k c (attachNew c addr id sf nso swo ck).1 := by
  unfold attachNew
  simp only
  have base := keeps_calls k c (c.backends.filter fun b => b.mode ≠ .err) (·.id) "Snapshot"
  repeat' split
  all_goals first
    | exact base.trans (keeps_of_backends k _ _ rfl)
    | exact base.trans (keeps_attached k _ addr id hk _ _ ck)

theorem keeps_stepAddPre (k : Nat) (c : Ctl) (addr : String) (tk : Option Bool) :
    Keeps k c (c.stepAddPre addr tk).1 ∧ (c.stepAddPre addr tk).1.nextId = c.nextId := by
  unfold stepAddPre
  split
  · exact ⟨Keeps.refl k c, rfl⟩
  · rename_i c1 e
    have := canAdd_keeps k c addr tk c1 e
    split <;> exact this

theorem keeps_stepAddPost (k : Nat) (c : Ctl) (hk : k ≤ c.nextId) (addr : String) (tk : Option Bool) (cok : Bool)
    (sf : List String) (nso swo : Bool) (ck : CkEnv) : Keeps k c (c.stepAddPost addr tk cok sf nso swo ck).1 := by
  unfold stepAddPost
  split
  · exact Keeps.refl k c
  · split
    · exact keeps_of_backends k c _ rfl
    · split
      · exact keeps_of_backends k c _ rfl
      · rename_i c1 e
        obtain ⟨k1, n1⟩ := canAdd_keeps k c addr tk c1 e
        refine k1.trans ((keeps_of_backends k c1 c1.reserveId rfl).trans ?_)
        exact keeps_attachNew k c1.reserveId addr c1.nextId (by rw [n1]; exact hk) sf nso swo ck

theorem keeps_stepAdd (k : Nat) (c : Ctl) (hk : k ≤ c.nextId) (addr : String) (tk : Option Bool) (cok : Bool)
    (sf : List String) (nso swo : Bool) (ck : CkEnv) : Keeps k c (c.stepAdd addr tk cok sf nso swo ck).1 := by
  unfold stepAdd
  obtain ⟨k1, n1⟩ := keeps_stepAddPre k c addr tk
  split
  · exact k1.trans (keeps_stepAddPost k _ (by rw [n1]; exact hk) addr tk cok sf nso swo ck)
  · exact k1

theorem setMode_nextId (c : Ctl) (a : String) (m : CMode) : (c.setMode a m).nextId = c.nextId := by
  unfold setMode; split
  · rfl
  · exact (setModeCore_same c a m).2.2.2.1

theorem removeReplica_nextId (c : Ctl) (a : String) (e : CkEnv) : (c.removeReplica a e).nextId = c.nextId := by
  unfold removeReplica
  split
  · rfl
  · rw [(updateCheckpoint_same _ _).2.2.2.2.2.2.2.2.1]
    show (Ctl.removeBackend _ _).nextId = c.nextId
    unfold removeBackend
    split <;> (simp only [rebuild, call]; split <;> rfl)

/-- one address of `Start`: nobody comes (back) into service except the replica attached now -/
theorem keeps_startOne (k : Nat) (c : Ctl) (h : CInv c) (hk : k ≤ c.nextId) (e : StartEnv) :
    Keeps k c (c.startOne e).1 ∧ c.nextId ≤ (c.startOne e).1.nextId := by
  unfold startOne
  by_cases h1 : (!e.createOk) = true
  · rw [if_pos h1]; exact ⟨keeps_of_backends k c _ rfl, Nat.le_refl _⟩
  · rw [if_neg h1]
    simp only
    have hr : CInv c.reserveId := cinv_reserveId c h
    have hc1 : CInv (c.reserveId.adoptSize e.size) := by
      unfold adoptSize; split
      · exact hr.congr rfl rfl rfl rfl rfl rfl rfl rfl rfl rfl rfl
      · exact hr
    have e1 : (c.reserveId.adoptSize e.size).backends = c.backends ∧ (c.reserveId.adoptSize e.size).nextId = c.nextId + 1 ∧
        (c.reserveId.adoptSize e.size).replicas = c.replicas := by
      unfold adoptSize; split <;> exact ⟨rfl, rfl, rfl⟩
    generalize c.reserveId.adoptSize e.size = c1 at hc1 e1 ⊢
    have kb : Keeps k c c1 := keeps_of_backends k c c1 e1.1
    by_cases h2 : c1.size ≠ e.size
    · rw [if_pos h2]
      exact ⟨kb.trans (keeps_of_backends k c1 _ rfl), by show c.nextId ≤ c1.nextId; omega⟩
    · rw [if_neg h2]
      split
      · exact ⟨kb.trans (keeps_of_backends k c1 _ rfl), by show c.nextId ≤ c1.nextId; omega⟩
      · rename_i c1' ec
        have := canAdd_none_eq c1 e.addr c1' ec
        subst this
        obtain ⟨_, hno, _⟩ := canAdd_some c1' hc1 e.addr none c1' ec
        by_cases h4 : (!e.setWoOk) = true
        · rw [if_pos h4]
          exact ⟨kb.trans (keeps_of_backends k c1' _ rfl), by show c.nextId ≤ c1'.nextId; omega⟩
        · rw [if_neg h4]
          have k3 : Keeps k c ((c1'.call c.nextId "SetReplicaMode").attach e.addr c.nextId) :=
            (kb.trans (keeps_call k c1' _ _)).trans (keeps_attach k _ e.addr c.nextId hk)
          have n3 : ((c1'.call c.nextId "SetReplicaMode").attach e.addr c.nextId).nextId = c.nextId + 1 := e1.2.1
          split
          · exact ⟨k3.trans (keeps_removeReplica k _ _ _), by rw [removeReplica_nextId, n3]; omega⟩
          · split
            · refine ⟨(k3.trans (keeps_call k _ _ _)).trans (keeps_removeReplica k _ _ _), ?_⟩
              rw [removeReplica_nextId]; show c.nextId ≤ ((c1'.call c.nextId "SetReplicaMode").attach e.addr c.nextId).nextId
              omega
            · refine ⟨?_, by rw [setMode_nextId]; show c.nextId ≤ ((c1'.call c.nextId "SetReplicaMode").attach e.addr c.nextId).nextId; omega⟩
              -- the promotion: only the replica attached just now can change its mode, for no entry of
              -- the old table carries its address
              intro i ⟨b, hb, hi, hal⟩
              obtain ⟨b0, hb0, e0, _, e3⟩ := setMode_backends _ e.addr .rw b hb
              have hb0' : b0 ∈ c1'.backends ++ [(⟨e.addr, .wo, c.nextId⟩ : Backend)] := hb0
              rcases List.mem_append.mp hb0' with hold | hnew
              · rcases e3 with e3 | ⟨_, ea, _⟩
                · exact Or.inr ⟨b0, by rw [← e1.1]; exact hold, e0.trans hi, by rw [← e3]; exact hal⟩
                · -- an old entry with that address: the list would contain it
                  exfalso
                  have hk0 := mem_replicas_of_mem_backends c1' hc1.core b0 hold
                  unfold hasReplica at hno
                  rw [List.any_eq_false] at hno
                  have := hno (key b0) hk0
                  simp [key, ea] at this
              · simp at hnew
                left
                rw [← hi, ← e0, hnew]
                exact hk

theorem keeps_startLoop (k : Nat) (es : List StartEnv) : ∀ (c : Ctl), CInv c → k ≤ c.nextId →
    c.replicas.length + es.length ≤ c.rf → Keeps k c (c.startLoop es).1 := by
  induction es with
  | nil => intro c _ _ _; exact Keeps.refl k c
  | cons e es ih =>
    intro c h hk hl
    have hl' : c.replicas.length < c.rf := by simp at hl; omega
    obtain ⟨i1, l1, r1⟩ := cinv_startOne c h e hl'
    obtain ⟨k1, n1⟩ := keeps_startOne k c h hk e
    unfold startLoop
    split
    · exact k1.trans (ih _ i1 (by omega) (by rw [r1]; simp at hl; omega))
    · exact k1

theorem keeps_stepStart (k : Nat) (c : Ctl) (h : CInv c) (hk : k ≤ c.nextId) (es : List StartEnv) (ck : CkEnv) :
    Keeps k c (c.stepStart es ck).1 := by
  unfold stepStart
  split
  · exact Keeps.refl k c
  · rename_i e0 rest
    by_cases h1 : c.replicas.length > 0
    · rw [if_pos h1]; exact Keeps.refl k c
    · rw [if_neg h1]
      by_cases h2 : e0.addr ≠ full c.maxRev
      · rw [if_pos h2]; exact Keeps.refl k c
      · rw [if_neg h2]
        by_cases h3 : (e0 :: rest).length > c.rf
        · rw [if_pos h3]; exact Keeps.refl k c
        · rw [if_neg h3]
          have h0 := cinv_startReset c h h1
          -- the reset empties the table: nobody of before is in service afterwards
          have k0 : Keeps k c c.startReset := by
            intro i ⟨b, hb, _, _⟩
            have : b ∈ ([] : List Backend) := hb
            cases this
          have kl := keeps_startLoop k (e0 :: rest) c.startReset h0 hk
            (by show ([] : List (String × CMode)).length + _ ≤ c.rf; simp at h3 ⊢; omega)
          have hloop := cinv_startLoop (e0 :: rest) c.startReset h0
            (by show ([] : List (String × CMode)).length + _ ≤ c.rf; simp at h3 ⊢; omega)
          split
          · exact (k0.trans kl).trans (keeps_startFront k _)
          · simp only
            split
            · exact (k0.trans kl).trans (keeps_startFront k _)
            · have k2 := keeps_foldl_setMode_err k (staleAddrs (e0 :: rest)) (c.startReset.startLoop (e0 :: rest)).1
              exact ((((k0.trans kl).trans k2).trans (keeps_updateVolStatus k _)).trans (keeps_updateCheckpoint k _ ck)).trans (keeps_startFront k _)

/-- **Every request keeps in service only who was in service, or whom it attached.** -/
theorem keeps_step (c : Ctl) (h : CInv c) (op : CtlOp) : Keeps c.nextId c (c.step op).1 := by
  have h0 := cinv_clearLog c h
  have k0 : Keeps c.nextId c c.clearLog := keeps_of_backends _ c _ rfl
  have hn : c.nextId ≤ c.clearLog.nextId := Nat.le_refl _
  unfold step
  refine k0.trans ?_
  cases op with
  | register r so al el => exact keeps_stepRegister _ _ r so al el
  | start es ck => exact keeps_stepStart _ _ h0 hn es ck
  | add a tk cok sf nso swo ck => exact keeps_stepAdd _ _ hn a tk cok sf nso swo ck
  | addPre a tk => exact (keeps_stepAddPre _ _ a tk).1
  | addPost a tk cok sf nso swo ck => exact keeps_stepAddPost _ _ hn a tk cok sf nso swo ck
  | remove a => exact keeps_removeReplica _ _ a CkEnv.none
  | setMode a m =>
    simp only
    split
    · exact Keeps.refl _ _
    · exact keeps_setMode _ _ h0.core a m
  | verify a rwc woc ckp rev o1 o2 ck => exact keeps_stepVerify _ _ h0 a rwc woc ckp rev o1 o2 ck
  | write off len f t => exact keeps_stepWrite _ _ off len f t
  | sync f => exact keeps_stepSync _ _ _ f
  | unmap f => exact keeps_stepSync _ _ _ f
  | read off len t => exact keeps_stepRead _ _ off len t
  | snapshot n ex f => exact keeps_stepSnapshot _ _ ex f
  | resize sz f => exact keeps_stepResize _ _ sz f
  | mon a e => exact keeps_stepMon _ _ a e

/-! ### who applied a write -/

/-- ids and addresses are stable, and nobody leaves ERR: every backend afterwards is one from before -/
def Pres (c c' : Ctl) : Prop :=
  ∀ b ∈ c'.backends, ∃ b0 ∈ c.backends, b0.id = b.id ∧ b0.addr = b.addr ∧ (b.mode ≠ .err → b0.mode ≠ .err)

theorem Pres.refl (c : Ctl) : Pres c c := fun b hb => ⟨b, hb, rfl, rfl, id⟩

theorem Pres.trans {a b c : Ctl} (h1 : Pres a b) (h2 : Pres b c) : Pres a c := by
  intro x hx
  obtain ⟨y, hy, e1, e2, e3⟩ := h2 x hx
  obtain ⟨z, hz, f1, f2, f3⟩ := h1 y hy
  exact ⟨z, hz, f1.trans e1, f2.trans e2, fun h => f3 (e3 h)⟩

theorem pres_setMode_err (c : Ctl) (a : String) : Pres c (c.setMode a .err) := by
  intro b hb
  obtain ⟨b0, hb0, e1, e2, e3⟩ := setMode_backends c a .err b hb
  refine ⟨b0, hb0, e1, e2, ?_⟩
  intro hal
  rcases e3 with e3 | e3
  · rw [← e3]; exact hal
  · exact absurd e3.1 hal

theorem pres_removeReplica (c : Ctl) (a : String) (e : CkEnv) : Pres c (c.removeReplica a e) :=
  fun b hb => ⟨b, removeReplica_backends_sub c a e b hb, rfl, rfl, id⟩

theorem pres_ioFail (c : Ctl) (errs : List String) : Pres c (c.ioFail errs).1 := by
  unfold ioFail handleError
  simp only
  have f1 : ∀ (l : List String) (c : Ctl), Pres c (l.foldl (fun c a => c.setMode a .err) c) := by
    intro l
    induction l with
    | nil => intro c; exact Pres.refl c
    | cons a l ih => intro c; exact (pres_setMode_err c a).trans (ih _)
  have f2 : ∀ (l : List String) (c : Ctl), Pres c (c.removeAll l) := by
    intro l
    induction l with
    | nil => intro c; exact Pres.refl c
    | cons a l ih => intro c; exact (pres_removeReplica c a CkEnv.none).trans (ih _)
  split
  · exact f2 errs c
  · exact (f1 errs c).trans (f2 errs _)

theorem mem_calls_foldl' {α : Type} (l : List α) (f : α → Nat) (m : String) : ∀ (c : Ctl),
    (∀ x ∈ c.calls, x ∈ (l.foldl (fun c y => c.call (f y) m) c).calls) ∧
    ∀ y ∈ l, (f y, m) ∈ (l.foldl (fun c y => c.call (f y) m) c).calls := by
  induction l with
  | nil => intro c; exact ⟨fun x hx => hx, fun y hy => by cases hy⟩
  | cons a l ih =>
    intro c
    have h := ih (c.call (f a) m)
    refine ⟨fun x hx => h.1 x (by show x ∈ c.calls ++ [(f a, m)]; exact List.mem_append_left _ hx), ?_⟩
    intro y hy
    rcases List.mem_cons.mp hy with rfl | hy
    · exact h.1 _ (by show (f y, m) ∈ c.calls ++ [(f y, m)]; simp)
    · exact h.2 y hy

theorem calls_mono_updateCheckpoint (c : Ctl) (e : CkEnv) : ∀ x ∈ c.calls, x ∈ (c.updateCheckpoint e).calls := by
  intro x hx
  unfold updateCheckpoint
  split
  · split
    · have := (mem_calls_foldl' (c.backends.filter fun b => b.mode = .rw) (·.id) "SetCheckpoint" c).1 x hx
      simp only
      split <;> exact this
    · exact hx
  · exact hx

theorem calls_mono_removeBackend (c : Ctl) (a : String) : ∀ x ∈ c.calls, x ∈ (c.removeBackend a).calls := by
  intro x hx
  unfold removeBackend
  split
  · exact hx
  · simp only [rebuild, call]
    exact List.mem_append_left _ hx

theorem calls_mono_removeReplica (c : Ctl) (a : String) (e : CkEnv) : ∀ x ∈ c.calls, x ∈ (c.removeReplica a e).calls := by
  intro x hx
  unfold removeReplica
  split
  · exact hx
  · apply calls_mono_updateCheckpoint
    show x ∈ (Ctl.removeBackend _ a).calls
    apply calls_mono_removeBackend
    show x ∈ (if c.replicas.length = 1 ∧ c.frontUp = true then
      ({ c with signalled := false, maxRev := "", frontUp := false } : Ctl) else c).calls
    split <;> exact hx

theorem calls_mono_setMode (c : Ctl) (a : String) (m : CMode) : (c.setMode a m).calls = c.calls := by
  unfold setMode; split
  · rfl
  · exact (setModeCore_same c a m).2.2.2.2.2.2.2.2.2.2

theorem calls_mono_ioFail (c : Ctl) (errs : List String) : ∀ x ∈ c.calls, x ∈ (c.ioFail errs).1.calls := by
  have f1 : ∀ (l : List String) (c : Ctl), (l.foldl (fun c a => c.setMode a .err) c).calls = c.calls := by
    intro l
    induction l with
    | nil => intro c; rfl
    | cons a l ih => intro c; simp only [List.foldl]; rw [ih, calls_mono_setMode]
  have f2 : ∀ (l : List String) (c : Ctl), ∀ x ∈ c.calls, x ∈ (c.removeAll l).calls := by
    intro l
    induction l with
    | nil => intro c x hx; exact hx
    | cons a l ih => intro c x hx; exact ih _ x (calls_mono_removeReplica c a CkEnv.none x hx)
  intro x hx
  unfold ioFail handleError
  simp only
  split
  · exact f2 errs c x hx
  · exact f2 errs _ x (by rw [f1]; exact hx)

end Ctl
end Jiva
