import JivaVerif.Lemmas.Inv
/-! `fullWriteAt`, `readModifyWrite`, `WriteAt`. -/
namespace Jiva
namespace DD
variable {β : Type} [Inhabited β]

theorem mem_writeHoles (d : DD β) (s : Nat) : ∀ n p, p ∈ writeHoles d s n →
    s ≤ p.2 ∧ p.2 < s + n ∧ p.1 = d.loc p.2 ∧ p.1 ≠ 0 ∧ p.1 ≠ d.top ∧ d.snapIdx < p.1 := by
  intro n
  induction n with
  | zero => intro p hp; simp [writeHoles] at hp
  | succ n ih =>
    intro p hp
    unfold writeHoles at hp
    simp only at hp
    split at hp
    · rename_i hc
      rcases List.mem_append.mp hp with hp | hp
      · have := ih p hp; omega
      · simp at hp; subst hp; simp; omega
    · have := ih p hp; omega

theorem fullWrite_alloc (d : DD β) (s n : Nat) (buf : Nat → β) (i b : Nat) :
    ((d.fullWrite s n buf).files i).alloc b =
      if i = d.top ∧ s ≤ b ∧ b < s + n then true else (d.files i).alloc b := by
  unfold fullWrite File.writeBlocks
  by_cases hi : i = d.top
  · subst hi; simp
  · simp [hi]

theorem wf_fullWrite (d : DD β) (h : WF d) (s n : Nat) (buf : Nat → β) (hr : s + n ≤ d.nb) :
    WF (d.fullWrite s n buf) := by
  have hmono : ∀ i b, (d.files i).alloc b = true → ((d.fullWrite s n buf).files i).alloc b = true := by
    intro i b hb; rw [fullWrite_alloc]; split <;> simp [hb]
  have htop0 : d.top ≠ 0 := by have := h.top_pos; omega
  refine ⟨h.bs_pos, h.top_pos, ?_, ?_, ?_, ?_, h.urLe, h.ucLt, h.markCover, h.marksAbove, ?_⟩
  · intro b; rw [fullWrite_alloc]
    have : ¬ (0 = d.top ∧ s ≤ b ∧ b < s + n) := by omega
    simp only [this, if_false]; exact h.empty0 b
  · intro i hi b; rw [fullWrite_alloc]
    have hi' : d.top < i := hi
    have : ¬ (i = d.top ∧ s ≤ b ∧ b < s + n) := by omega
    simp only [this, if_false]; exact h.emptyAbove i hi' b
  · intro b hb
    show LocOk (d.fullWrite s n buf) b (if s ≤ b ∧ b < s + n then d.top else d.loc b)
    by_cases hin : s ≤ b ∧ b < s + n
    · simp only [hin, and_self, if_true]
      refine ⟨Nat.le_refl _, ?_, ?_⟩
      · intro j hj; rw [fullWrite_alloc]
        have hj' : d.top < j := hj
        have : ¬ (j = d.top ∧ s ≤ b ∧ b < s + n) := by omega
        simp only [this, if_false]; exact h.emptyAbove j hj' b
      · left; rw [fullWrite_alloc]; simp [hin]
    · have hb' : d.loc b ≠ 0 := by
        have : (d.fullWrite s n buf).loc b = d.loc b := by
          show (if s ≤ b ∧ b < s + n then d.top else d.loc b) = d.loc b
          simp only [hin, if_false]
        rw [this] at hb; exact hb
      simp only [hin, if_false]
      have ⟨l1, l2, l3⟩ := h.locOk b hb'
      have same : ∀ j, ((d.fullWrite s n buf).files j).alloc b = (d.files j).alloc b := by
        intro j; rw [fullWrite_alloc]
        have : ¬ (j = d.top ∧ s ≤ b ∧ b < s + n) := by intro ⟨_, c⟩; exact hin c
        simp only [this, if_false]
      refine ⟨l1, fun j hj => by rw [same]; exact l2 j hj, ?_⟩
      cases l3 with
      | inl l3 => left; rw [same]; exact l3
      | inr l3 => right; intro j hj; rw [same]; exact l3 j hj
  · intro b hb
    have hb' : d.nb ≤ b := hb
    show (if s ≤ b ∧ b < s + n then d.top else d.loc b) = 0
    have : ¬ (s ≤ b ∧ b < s + n) := by omega
    simp only [this, if_false]; exact h.locOut b hb'
  · intro p hp
    have hp' : p ∈ d.pend ++ writeHoles d s n := hp
    rcases List.mem_append.mp hp' with hp | hp
    · have ⟨q0, q1, q2⟩ := h.pendOk p hp
      refine ⟨q0, ?_, ?_⟩
      · show (if s ≤ p.2 ∧ p.2 < s + n then d.top else d.loc p.2) = 0 ∨
             p.1 < (if s ≤ p.2 ∧ p.2 < s + n then d.top else d.loc p.2)
        by_cases hin : s ≤ p.2 ∧ p.2 < s + n
        · simp only [hin, and_self, if_true]; right; exact q0
        · simp only [hin, if_false]; exact q1
      · intro u hu hfu
        have ⟨hh, a1, a2, a3⟩ := q2 u hu hfu
        exact ⟨hh, a1, a2, hmono hh p.2 a3⟩
    · have ⟨m1, m2, m3, m4, m5, m6⟩ := mem_writeHoles d s n p hp
      have hl : d.loc p.2 ≠ 0 := by rw [← m3]; exact m4
      have ⟨l1, _, _⟩ := h.locOk p.2 hl
      have hlt : p.1 < d.top := by
        have : p.1 ≤ d.top := by rw [m3]; exact l1
        omega
      refine ⟨hlt, ?_, ?_⟩
      · show (if s ≤ p.2 ∧ p.2 < s + n then d.top else d.loc p.2) = 0 ∨
             p.1 < (if s ≤ p.2 ∧ p.2 < s + n then d.top else d.loc p.2)
        simp only [m1, m2, and_self, if_true]; right; exact hlt
      · intro u hu hfu
        cases hu with
        | inl hu => have := h.urLe u hu; omega
        | inr hu =>
          have hu' : u = d.top := hu
          refine ⟨d.top, hlt, by omega, ?_⟩
          rw [fullWrite_alloc]; simp [m1, m2]

/-- Snapshots (every layer below the head) are untouched by a write. -/
theorem view_fullWrite_below (d : DD β) (s n : Nat) (buf : Nat → β) (i u : Nat) (hi : i < d.top) :
    (d.fullWrite s n buf).view i u = d.view i u := by
  unfold view
  apply viewUpTo_congr
  intro j _ hj
  have : j ≠ d.top := by omega
  simp [fullWrite, this]

/-- The live volume after a block write. -/
theorem live_fullWrite (d : DD β) (h : WF d) (s n : Nat) (buf : Nat → β) (u : Nat) :
    (d.fullWrite s n buf).live u =
      if s ≤ u / d.bs ∧ u / d.bs < s + n then buf u else d.live u := by
  unfold live
  have htop : (d.fullWrite s n buf).top = d.top := rfl
  rw [htop]
  obtain ⟨t, ht⟩ : ∃ t, d.top = t + 1 := ⟨d.top - 1, by have := h.top_pos; omega⟩
  unfold view
  have hbs : (d.fullWrite s n buf).bs = d.bs := rfl
  rw [hbs, ht, viewUpTo_succ, viewUpTo_succ]
  have hf : (d.fullWrite s n buf).files (t + 1) = (d.files d.top).writeBlocks d.bs s n buf := by
    simp [fullWrite, ht]
  rw [hf]
  have hbelow : viewUpTo (d.fullWrite s n buf).files d.bs t u = viewUpTo d.files d.bs t u := by
    exact view_fullWrite_below d s n buf t u (by omega)
  rw [hbelow]
  by_cases hin : s ≤ u / d.bs ∧ u / d.bs < s + n
  · simp [File.writeBlocks, hin]
  · simp only [File.writeBlocks, hin, if_false, ht]


theorem div_eq_of_bounds (bs q u : Nat) (hbs : 0 < bs) (h1 : q * bs ≤ u) (h2 : u < q * bs + bs) :
    u / bs = q := by
  have a : q ≤ u / bs := (Nat.le_div_iff_mul_le hbs).mpr h1
  have b : u / bs < q + 1 := (Nat.div_lt_iff_lt_mul hbs).mpr (by rw [Nat.succ_mul]; exact h2)
  omega

theorem bounds_of_div_eq (bs q u : Nat) (hbs : 0 < bs) (h : u / bs = q) :
    q * bs ≤ u ∧ u < q * bs + bs := by
  have a := (Nat.le_div_iff_mul_le hbs (x := q) (y := u)).mp (by omega)
  have b := (Nat.div_lt_iff_lt_mul hbs (x := u) (y := q + 1)).mp (by omega)
  rw [Nat.succ_mul] at b
  exact ⟨a, b⟩

theorem memo_live (d : DD β) (b u : Nat) : (d.memo b).live u = d.live u := by
  unfold live view
  rw [memo_files, (memo_other d b).1, (memo_other d b).2.2.1]

theorem memo_view (d : DD β) (b i u : Nat) : (d.memo b).view i u = d.view i u := by
  unfold view
  rw [memo_files, (memo_other d b).1]

/-- the units `[off, off+len)` lie in one block -/
def OneBlock (bs off len : Nat) : Prop := ∀ u, off ≤ u → u < off + len → u / bs = off / bs

theorem wf_rmw (d : DD β) (h : WF d) (off len : Nat) (buf : Nat → β) (hb : off / d.bs < d.nb) :
    WF (d.rmw off len buf) := by
  unfold rmw
  split
  · exact h
  · have h1 := wf_memo d h (off / d.bs)
    have e1 : (d.memo (off / d.bs)).bs = d.bs := (memo_other d _).1
    have e2 : (d.memo (off / d.bs)).nb = d.nb := (memo_other d _).2.1
    simp only
    exact wf_fullWrite _ h1 _ _ _ (by rw [e2]; omega)

theorem live_rmw (d : DD β) (h : WF d) (off len : Nat) (buf : Nat → β) (hb : off / d.bs < d.nb)
    (h1b : OneBlock d.bs off len) (u : Nat) :
    (d.rmw off len buf).live u = if off ≤ u ∧ u < off + len then buf u else d.live u := by
  unfold rmw
  split
  · rename_i hl; subst hl
    have : ¬ (off ≤ u ∧ u < off + 0) := by omega
    simp only [this, if_false]
  · have hw := wf_memo d h (off / d.bs)
    have e1 : (d.memo (off / d.bs)).bs = d.bs := (memo_other d _).1
    simp only
    rw [live_fullWrite _ hw, e1, memo_live]
    by_cases hin : off ≤ u ∧ u < off + len
    · have hu : u / d.bs = off / d.bs := h1b u hin.1 hin.2
      have : off / d.bs ≤ u / d.bs ∧ u / d.bs < off / d.bs + 1 := by omega
      simp only [this, and_self, if_true, hin]
    · simp only [hin, if_false]
      by_cases hblk : off / d.bs ≤ u / d.bs ∧ u / d.bs < off / d.bs + 1
      · simp only [hblk, and_self, if_true]
        exact readUnit_eq_live d h u (by omega)
      · simp only [hblk, if_false]

theorem view_rmw_below (d : DD β) (off len : Nat) (buf : Nat → β) (i u : Nat) (hi : i < d.top) :
    (d.rmw off len buf).view i u = d.view i u := by
  unfold rmw
  split
  · rfl
  · have e1 : (d.memo (off / d.bs)).bs = d.bs := (memo_other d _).1
    have e3 : (d.memo (off / d.bs)).top = d.top := (memo_other d _).2.2.1
    simp only
    rw [view_fullWrite_below _ _ _ _ _ _ (by rw [e3]; exact hi), memo_view]

theorem rmw_other (d : DD β) (off len : Nat) (buf : Nat → β) :
    (d.rmw off len buf).bs = d.bs ∧ (d.rmw off len buf).nb = d.nb ∧ (d.rmw off len buf).top = d.top := by
  unfold rmw
  split
  · simp
  · have := memo_other d (off / d.bs)
    simp only [fullWrite]
    exact ⟨this.1, this.2.1, this.2.2.1⟩

end DD
end Jiva
