import JivaVerif.Lemmas.CtlStep
import JivaVerif.Lemmas.CtlKeep
/-! `AddReplica` and `Start` preserve the invariant. -/
namespace Jiva
namespace Ctl

theorem removeReplica_replicas (c : Ctl) (a : String) (e : CkEnv) :
    (c.removeReplica a e).replicas = c.replicas.filter (fun r => r.1 ≠ a) := by
  unfold removeReplica
  by_cases hh : c.hasReplica a = true
  · simp only [hh, Bool.not_true, Bool.false_eq_true, if_false]
    have s := updateCheckpoint_same
      (((({ (if c.replicas.length = 1 ∧ c.frontUp = true then
          { c with signalled := false, maxRev := "", frontUp := false } else c) with
        registered := (if c.replicas.length = 1 ∧ c.frontUp = true then
          { c with signalled := false, maxRev := "", frontUp := false } else c).registered.filter fun r => full r.addr ≠ a,
        replicas := (if c.replicas.length = 1 ∧ c.frontUp = true then
          { c with signalled := false, maxRev := "", frontUp := false } else c).replicas.filter fun r => r.1 ≠ a } : Ctl).removeBackend a).updateVolStatus)) e
    simp only at s
    rw [s.2.1]
    show (Ctl.removeBackend _ a).replicas = _
    unfold removeBackend
    split <;> (simp only [rebuild, call]; split <;> rfl)
  · have hh' : c.hasReplica a = false := by simpa using hh
    simp only [hh', Bool.not_false, if_true]
    unfold hasReplica at hh'
    rw [List.any_eq_false] at hh'
    symm
    apply List.filter_eq_self.mpr
    intro r hr
    have := hh' r hr
    simpa using this

theorem removeReplica_rf (c : Ctl) (a : String) (e : CkEnv) : (c.removeReplica a e).rf = c.rf := by
  unfold removeReplica
  by_cases hh : c.hasReplica a = true
  · simp only [hh, Bool.not_true, Bool.false_eq_true, if_false]
    have s := updateCheckpoint_same
      (((({ (if c.replicas.length = 1 ∧ c.frontUp = true then
          { c with signalled := false, maxRev := "", frontUp := false } else c) with
        registered := (if c.replicas.length = 1 ∧ c.frontUp = true then
          { c with signalled := false, maxRev := "", frontUp := false } else c).registered.filter fun r => full r.addr ≠ a,
        replicas := (if c.replicas.length = 1 ∧ c.frontUp = true then
          { c with signalled := false, maxRev := "", frontUp := false } else c).replicas.filter fun r => r.1 ≠ a } : Ctl).removeBackend a).updateVolStatus)) e
    simp only at s
    rw [s.1]
    show (Ctl.removeBackend _ a).rf = _
    unfold removeBackend
    split <;> (simp only [rebuild, call]; split <;> rfl)
  · have hh' : c.hasReplica a = false := by simpa using hh
    simp only [hh', Bool.not_false, if_true]

theorem filter_le_one_unique {α : Type} (l : List α) (p : α → Bool) (h : (l.filter p).length ≤ 1)
    (x y : α) (hx : x ∈ l) (hy : y ∈ l) (px : p x = true) (py : p y = true) : x = y := by
  have mx : x ∈ l.filter p := List.mem_filter.mpr ⟨hx, px⟩
  have my : y ∈ l.filter p := List.mem_filter.mpr ⟨hy, py⟩
  generalize l.filter p = f at h mx my
  match f, h with
  | [], _ => cases mx
  | [z], _ =>
    have e1 : x = z := by simpa using mx
    have e2 : y = z := by simpa using my
    rw [e1, e2]
  | _ :: _ :: _, h => simp at h

/-- what `closeNew` needs: the id is fresh -/
theorem cinv_closeNew (c : Ctl) (h : CInv c) (id : Nat) (hid : c.nextId = id + 1)
    (hlt : ∀ b ∈ c.backends, b.id < id) (hcl : ∀ i ∈ c.closed, i < id) : CInv (c.closeNew id) := by
  unfold closeNew
  have hc := h.core
  refine ⟨⟨hc.rfPos, hc.nodup, hc.agree, hc.fanout, hc.oneWO, hc.lenRf, ?_, ?_, hc.idsNodup⟩, h.status, h.ckpt⟩
  · constructor
    · exact hc.idsLt.1
    · intro i hi
      show i < c.nextId
      rcases List.mem_append.mp hi with hi | hi
      · exact hc.idsLt.2 i hi
      · simp at hi; omega
  · intro b hb hi
    rcases List.mem_append.mp hi with hi | hi
    · exact hc.idsLive b hb hi
    · simp at hi; have := hlt b hb; omega

theorem ccore_attach (c : Ctl) (h : CCore c) (addr : String) (id : Nat) (hid : c.nextId = id + 1)
    (hlt : ∀ b ∈ c.backends, b.id < id) (hcl : ∀ i ∈ c.closed, i < id)
    (hno : c.hasReplica addr = false) (hwo : c.replicas.filter (fun r => r.2 = .wo) = [])
    (hlen : c.replicas.length < c.rf) : CCore (c.attach addr id) := by
  unfold attach
  refine ccore_rebuild_of _ h.rfPos ?_ ?_ ?_ ?_ ?_ ?_ ?_
  · show ((c.replicas ++ [(addr, CMode.wo)]).map (·.1)).Nodup
    rw [List.map_append, List.nodup_append]
    refine ⟨h.nodup, by simp, ?_⟩
    intro a ha b hb
    simp at hb
    subst hb
    intro e
    obtain ⟨r, hr, e2⟩ := List.mem_map.mp ha
    unfold hasReplica at hno
    rw [List.any_eq_false] at hno
    have := hno r hr
    rw [e2, e] at this
    simp at this
  · show (c.backends ++ [(⟨addr, .wo, id⟩ : Backend)]).map key = c.replicas ++ [(addr, CMode.wo)]
    rw [List.map_append, h.agree]; rfl
  · show ((c.replicas ++ [(addr, CMode.wo)]).filter fun r => r.2 = .wo).length ≤ 1
    rw [List.filter_append, hwo]; simp
  · show (c.replicas ++ [(addr, CMode.wo)]).length ≤ c.rf
    simp; omega
  · constructor
    · intro b hb
      show b.id < c.nextId
      rcases List.mem_append.mp hb with hb | hb
      · have := hlt b hb; omega
      · simp at hb; subst hb; show id < c.nextId; omega
    · exact h.idsLt.2
  · intro b hb hi
    rcases List.mem_append.mp hb with hb | hb
    · exact h.idsLive b hb hi
    · simp at hb; subst hb
      have := hcl id hi; omega
  · show ((c.backends ++ [(⟨addr, .wo, id⟩ : Backend)]).map (·.id)).Nodup
    rw [List.map_append, List.nodup_append]
    refine ⟨h.idsNodup, by simp, ?_⟩
    intro a ha b hb
    simp at hb; subst hb
    obtain ⟨b', hb', e⟩ := List.mem_map.mp ha
    have := hlt b' hb'
    omega

theorem cinv_reserveId (c : Ctl) (h : CInv c) : CInv c.reserveId := by
  have hc := h.core
  refine ⟨⟨hc.rfPos, hc.nodup, hc.agree, hc.fanout, hc.oneWO, hc.lenRf, ?_, hc.idsLive, hc.idsNodup⟩, h.status, h.ckpt⟩
  constructor
  · intro b hb; have := hc.idsLt.1 b hb; show b.id < c.nextId + 1; omega
  · intro i hi; have := hc.idsLt.2 i hi; show i < c.nextId + 1; omega

/-- what `canAdd` establishes when it lets the newcomer through -/
theorem canAdd_some (c : Ctl) (h : CInv c) (addr : String) (tk : Option Bool) (c1 : Ctl)
    (e : c.canAdd addr tk = some c1) :
    CInv c1 ∧ c1.hasReplica addr = false ∧ c1.replicas.filter (fun r => r.2 = .wo) = [] := by
  unfold canAdd at e
  by_cases h1 : c.hasReplica addr = true
  · rw [if_pos h1] at e; cases e
  · rw [if_neg h1] at e
    have hno : c.hasReplica addr = false := by simpa using h1
    split at e
    · rename_i hnone
      cases e
      refine ⟨h, hno, ?_⟩
      apply List.filter_eq_nil_iff.mpr
      intro r hr
      have := List.find?_eq_none.mp hnone r hr
      simpa using this
    · rename_i w hw
      split at e
      · cases e
        have hr := cinv_removeReplica c h w.1 CkEnv.none
        have hreps := removeReplica_replicas c w.1 CkEnv.none
        refine ⟨hr, ?_, ?_⟩
        · unfold hasReplica; rw [hreps, List.any_eq_false]
          intro r hr'
          unfold hasReplica at hno
          rw [List.any_eq_false] at hno
          exact hno r (List.mem_filter.mp hr').1
        · rw [hreps]
          apply List.filter_eq_nil_iff.mpr
          intro r hr' hwo
          obtain ⟨hrm, hra⟩ := List.mem_filter.mp hr'
          have hwm : w ∈ c.replicas := List.mem_of_find?_eq_some hw
          have hww : (fun (r : String × CMode) => decide (r.2 = CMode.wo)) w = true :=
            @List.find?_some _ (fun (r : String × CMode) => decide (r.2 = CMode.wo)) w c.replicas hw
          have := filter_le_one_unique c.replicas (fun r => decide (r.2 = CMode.wo)) h.core.oneWO r w hrm hwm hwo hww
          rw [this] at hra
          simp at hra
      · cases e

theorem cinv_attachNew (c : Ctl) (h : CInv c) (addr : String) (sf : List String)
    (nso swo : Bool) (ck : CkEnv) (hno : c.hasReplica addr = false)
    (hwo : c.replicas.filter (fun r => r.2 = .wo) = []) (hrf : c.replicas.length < c.rf) :
    CInv (attachNew c.reserveId addr c.nextId sf nso swo ck).1 := by
  unfold attachNew
  simp only
  have hc := h.core
  have h3 : CInv c.reserveId := cinv_reserveId c h
  have h4 := cinv_calls' _ h3 (c.reserveId.backends.filter fun b => b.mode ≠ .err) (·.id) "Snapshot"
  have same := calls_same c.reserveId (c.reserveId.backends.filter fun b => b.mode ≠ .err) (·.id) "Snapshot"
  simp only at same
  generalize (List.foldl (fun c b => c.call b.id "Snapshot") c.reserveId
    (c.reserveId.backends.filter fun b => b.mode ≠ .err)) = c2 at h4 same
  have e_next : c2.nextId = c.nextId + 1 := same.2.2.2.2.2.2.2.2.2.1
  have e_back : c2.backends = c.backends := same.2.2.1
  have e_closed : c2.closed = c.closed := same.2.2.2.2.2.2.2.2.2.2.1
  have e_reps : c2.replicas = c.replicas := same.2.1
  have e_rf : c2.rf = c.rf := same.1
  have hlt : ∀ b ∈ c2.backends, b.id < c.nextId := by rw [e_back]; exact hc.idsLt.1
  have hcl : ∀ i ∈ c2.closed, i < c.nextId := by rw [e_closed]; exact hc.idsLt.2
  split
  · exact cinv_closeNew c2 h4 c.nextId e_next hlt hcl
  · split
    · exact cinv_closeNew _ (cinv_call c2 h4 _ _) c.nextId e_next hlt hcl
    · split
      · exact cinv_call _ (cinv_call c2 h4 _ _) _ _
      · have h5 : CInv ((c2.call c.nextId "Snapshot").call c.nextId "SetReplicaMode") :=
          cinv_call _ (cinv_call c2 h4 _ _) _ _
        have h6 := ccore_attach _ h5.core addr c.nextId e_next hlt hcl
          (by show (c2.replicas.any fun r => r.1 = addr) = false; rw [e_reps]; exact hno)
          (by show c2.replicas.filter _ = []; rw [e_reps]; exact hwo)
          (by show c2.replicas.length < c2.rf; rw [e_reps, e_rf]; exact hrf)
        exact cinv_updateCheckpoint _ (ccore_updateVolStatus _ h6) (status_updateVolStatus _) ck

theorem cinv_stepAddPre (c : Ctl) (h : CInv c) (addr : String) (tk : Option Bool) :
    CInv (c.stepAddPre addr tk).1 := by
  unfold stepAddPre
  split
  · exact h
  · rename_i c1 e
    have := (canAdd_some c h addr tk c1 e).1
    split <;> exact this

/-- the second critical section of `AddReplica` preserves the invariant from ANY state satisfying it
    — whatever was served while the call was inside `factory.Create` -/
theorem cinv_stepAddPost (c : Ctl) (h : CInv c) (addr : String) (tk : Option Bool) (cok : Bool) (sf : List String)
    (nso swo : Bool) (ck : CkEnv) : CInv (c.stepAddPost addr tk cok sf nso swo ck).1 := by
  unfold stepAddPost
  by_cases h2 : (!cok) = true
  · rw [if_pos h2]; exact h
  · rw [if_neg h2]
    by_cases h1 : c.rf = c.replicas.length
    · rw [if_pos h1]
      exact cinv_closeNew _ (cinv_reserveId c h) c.nextId rfl h.core.idsLt.1 h.core.idsLt.2
    · rw [if_neg h1]
      split
      · exact cinv_reserveId c h
      · rename_i c1 e
        obtain ⟨i1, hno, hwo⟩ := canAdd_some c h addr tk c1 e
        apply cinv_attachNew c1 i1 addr sf nso swo ck hno hwo
        -- the replication factor: `canAdd` only ever removes replicas
        have hlen : c1.replicas.length ≤ c.replicas.length := by
          unfold canAdd at e
          split at e
          · cases e
          · split at e
            · cases e; exact Nat.le_refl _
            · split at e
              · cases e
                rw [removeReplica_replicas]
                exact List.length_filter_le _ _
              · cases e
        have hrf1 : c1.rf = c.rf := by
          unfold canAdd at e
          split at e
          · cases e
          · split at e
            · cases e; rfl
            · split at e
              · cases e; exact removeReplica_rf c _ _
              · cases e
        have := h.core.lenRf
        omega

theorem cinv_stepAdd (c : Ctl) (h : CInv c) (addr : String) (tk : Option Bool) (cok : Bool) (sf : List String)
    (nso swo : Bool) (ck : CkEnv) : CInv (c.stepAdd addr tk cok sf nso swo ck).1 := by
  unfold stepAdd
  split
  · exact cinv_stepAddPost _ (cinv_stepAddPre c h addr tk) addr tk cok sf nso swo ck
  · exact cinv_stepAddPre c h addr tk

theorem cinv_startFront (c : Ctl) (h : CInv c) : CInv c.startFront := by
  unfold startFront; split
  · exact h.congr rfl rfl rfl rfl rfl rfl rfl rfl rfl rfl rfl
  · exact h

theorem cinv_reserve (c : Ctl) (h : CInv c) (sz : Nat) : CInv (c.reserve sz) := by
  have hc := h.core
  refine ⟨⟨hc.rfPos, hc.nodup, hc.agree, hc.fanout, hc.oneWO, hc.lenRf, ?_, hc.idsLive, hc.idsNodup⟩, h.status, h.ckpt⟩
  constructor
  · intro b hb; have := hc.idsLt.1 b hb; show b.id < c.nextId + 1; omega
  · intro i hi; have := hc.idsLt.2 i hi; show i < c.nextId + 1; omega

theorem cinv_dropLeader (c : Ctl) (h : CInv c) : CInv c.dropLeader :=
  h.congr rfl rfl rfl rfl rfl rfl rfl rfl rfl rfl rfl

theorem empty_of_no_replicas (c : Ctl) (h : CInv c) (h1 : ¬ c.replicas.length > 0) :
    c.replicas = [] ∧ c.backends = [] := by
  have hrep : c.replicas = [] := by
    cases hl : c.replicas with
    | nil => rfl
    | cons x xs => rw [hl] at h1; simp at h1
  refine ⟨hrep, ?_⟩
  have := h.core.agree; rw [hrep] at this
  cases hb : c.backends with
  | nil => rfl
  | cons x xs => rw [hb] at this; simp at this

/-- `reset` changes nothing the invariant reads when there is no replica -/
theorem cinv_startReset (c : Ctl) (h : CInv c) (h1 : ¬ c.replicas.length > 0) : CInv c.startReset := by
  obtain ⟨hrep, hback⟩ := empty_of_no_replicas c h h1
  have f := h.core.fanout
  rw [hback] at f
  simp at f
  apply h.frame
  refine ⟨rfl, ?_, ?_, ?_, ?_, ?_, rfl, rfl, rfl, rfl, rfl⟩
  · show ([] : List (String × CMode)) = c.replicas; rw [hrep]
  · show ([] : List Backend) = c.backends; rw [hback]
  · show ([] : List (String × Nat)) = c.writers; rw [f.1]
  · show ([] : List (String × Nat)) = c.readers; rw [f.2.1]
  · show false = c.available; rw [f.2.2]

/-- attaching a WO replica keeps the whole invariant (a WO entry does not change the RW count, and
    a list that is not full has no checkpoint) -/
theorem cinv_attach (c : Ctl) (h : CInv c) (addr : String) (id : Nat) (hid : c.nextId = id + 1)
    (hlt : ∀ b ∈ c.backends, b.id < id) (hcl : ∀ i ∈ c.closed, i < id)
    (hno : c.hasReplica addr = false) (hwo : c.replicas.filter (fun r => r.2 = .wo) = [])
    (hlen : c.replicas.length < c.rf) : CInv (c.attach addr id) := by
  refine ⟨ccore_attach c h.core addr id hid hlt hcl hno hwo hlen, ?_, ?_⟩
  · have hs := h.status
    unfold Status at hs ⊢
    have e : rwOf (c.attach addr id).replicas = rwOf c.replicas := by
      show rwOf (c.replicas ++ [(addr, CMode.wo)]) = rwOf c.replicas
      unfold rwOf; rw [List.filter_append]; simp
    rw [e]; exact hs
  · intro hne
    have := h.ckpt hne
    omega

theorem setMode_length (c : Ctl) (a : String) (m : CMode) : (c.setMode a m).replicas.length = c.replicas.length := by
  unfold setMode; split
  · rfl
  · exact (setModeCore_same c a m).2.2.1

theorem setMode_rf0 (c : Ctl) (a : String) (m : CMode) : (c.setMode a m).rf = c.rf := by
  unfold setMode; split
  · rfl
  · exact (setModeCore_same c a m).2.1

theorem removeReplica_length_le (c : Ctl) (a : String) (e : CkEnv) :
    (c.removeReplica a e).replicas.length ≤ c.replicas.length := by
  rw [removeReplica_replicas]; exact List.length_filter_le _ _

theorem canAdd_length_le (c : Ctl) (addr : String) (tk : Option Bool) (c1 : Ctl) (e : c.canAdd addr tk = some c1) :
    c1.replicas.length ≤ c.replicas.length ∧ c1.rf = c.rf := by
  unfold canAdd at e
  split at e
  · cases e
  · split at e
    · cases e; exact ⟨Nat.le_refl _, rfl⟩
    · split at e
      · cases e
        exact ⟨removeReplica_length_le c _ _, removeReplica_rf c _ _⟩
      · cases e

/-- with `takeover = none` nothing is removed: `canAdd` only tests -/
theorem canAdd_none_eq (c : Ctl) (addr : String) (c1 : Ctl) (e : c.canAdd addr none = some c1) : c1 = c := by
  unfold canAdd at e
  split at e
  · cases e
  · split at e
    · cases e; rfl
    · simp at e

/-- one address of `Start`: the invariant is kept, the list grows by at most one entry -/
theorem cinv_startOne (c : Ctl) (h : CInv c) (e : StartEnv) (hlen : c.replicas.length < c.rf) :
    CInv (c.startOne e).1 ∧ (c.startOne e).1.replicas.length ≤ c.replicas.length + 1 ∧ (c.startOne e).1.rf = c.rf := by
  unfold startOne
  by_cases h1 : (!e.createOk) = true
  · rw [if_pos h1]; exact ⟨cinv_dropLeader _ h, Nat.le_succ _, rfl⟩
  · rw [if_neg h1]
    simp only
    -- the state after Create and the size adoption
    have hr : CInv c.reserveId := cinv_reserveId c h
    have hc1 : CInv (c.reserveId.adoptSize e.size) := by
      unfold adoptSize; split
      · exact hr.congr rfl rfl rfl rfl rfl rfl rfl rfl rfl rfl rfl
      · exact hr
    have e1 : (c.reserveId.adoptSize e.size).replicas = c.replicas ∧ (c.reserveId.adoptSize e.size).rf = c.rf ∧
        (c.reserveId.adoptSize e.size).nextId = c.nextId + 1 ∧ (c.reserveId.adoptSize e.size).backends = c.backends ∧
        (c.reserveId.adoptSize e.size).closed = c.closed := by
      unfold adoptSize; split <;> exact ⟨rfl, rfl, rfl, rfl, rfl⟩
    generalize c.reserveId.adoptSize e.size = c1 at hc1 e1 ⊢
    by_cases h2 : c1.size ≠ e.size
    · rw [if_pos h2]
      exact ⟨cinv_dropLeader _ hc1, by show c1.replicas.length ≤ _; rw [e1.1]; exact Nat.le_succ _, e1.2.1⟩
    · rw [if_neg h2]
      split
      · exact ⟨cinv_dropLeader _ hc1, by show c1.replicas.length ≤ _; rw [e1.1]; exact Nat.le_succ _, e1.2.1⟩
      · rename_i c1' ec
        have := canAdd_none_eq c1 e.addr c1' ec
        subst this
        obtain ⟨_, hno, hwo⟩ := canAdd_some c1' hc1 e.addr none c1' ec
        have h2' := cinv_call _ hc1 c.nextId "SetReplicaMode"
        by_cases h4 : (!e.setWoOk) = true
        · rw [if_pos h4]
          exact ⟨cinv_dropLeader _ h2', by show c1'.replicas.length ≤ _; rw [e1.1]; exact Nat.le_succ _, e1.2.1⟩
        · rw [if_neg h4]
          have hc := h.core
          have inv3 : CInv ((c1'.call c.nextId "SetReplicaMode").attach e.addr c.nextId) :=
            cinv_attach _ h2' e.addr c.nextId (by show c1'.nextId = _; exact e1.2.2.1)
              (by intro b hb; have hb' : b ∈ c.backends := by rw [← e1.2.2.2.1]; exact hb
                  exact hc.idsLt.1 b hb')
              (by intro i hi; have hi' : i ∈ c.closed := by rw [← e1.2.2.2.2]; exact hi
                  exact hc.idsLt.2 i hi')
              hno hwo (by show c1'.replicas.length < c1'.rf; rw [e1.1, e1.2.1]; exact hlen)
          have len3 : ((c1'.call c.nextId "SetReplicaMode").attach e.addr c.nextId).replicas.length = c.replicas.length + 1 := by
            show (c1'.replicas ++ [(e.addr, CMode.wo)]).length = _
            rw [e1.1]; simp
          have rf3 : ((c1'.call c.nextId "SetReplicaMode").attach e.addr c.nextId).rf = c.rf := e1.2.1
          split
          · refine ⟨cinv_removeReplica _ inv3 e.addr CkEnv.none, ?_, ?_⟩
            · show (Ctl.removeReplica _ _ _).replicas.length ≤ _
              have := removeReplica_length_le ((c1'.call c.nextId "SetReplicaMode").attach e.addr c.nextId) e.addr CkEnv.none
              omega
            · show (Ctl.removeReplica _ _ _).rf = _
              rw [removeReplica_rf]; exact rf3
          · have inv4 := cinv_call _ inv3 c.nextId "SetReplicaMode"
            split
            · refine ⟨cinv_removeReplica _ inv4 e.addr CkEnv.none, ?_, ?_⟩
              · show (Ctl.removeReplica _ _ _).replicas.length ≤ _
                have := removeReplica_length_le (((c1'.call c.nextId "SetReplicaMode").attach e.addr c.nextId).call c.nextId "SetReplicaMode") e.addr CkEnv.none
                have e4 : (((c1'.call c.nextId "SetReplicaMode").attach e.addr c.nextId).call c.nextId "SetReplicaMode").replicas.length = c.replicas.length + 1 := len3
                omega
              · show (Ctl.removeReplica _ _ _).rf = _
                rw [removeReplica_rf]; exact rf3
            · refine ⟨cinv_setMode _ inv4 e.addr .rw (by decide), ?_, ?_⟩
              · show (Ctl.setMode _ _ _).replicas.length ≤ _
                rw [setMode_length]
                have e4 : (((c1'.call c.nextId "SetReplicaMode").attach e.addr c.nextId).call c.nextId "SetReplicaMode").replicas.length = c.replicas.length + 1 := len3
                omega
              · show (Ctl.setMode _ _ _).rf = _
                rw [setMode_rf0]; exact rf3

/-- the loop of `Start`: as long as the addresses still to come fit under the replication factor -/
theorem cinv_startLoop (es : List StartEnv) : ∀ (c : Ctl), CInv c → c.replicas.length + es.length ≤ c.rf →
    CInv (c.startLoop es).1 := by
  induction es with
  | nil => intro c h _; exact h
  | cons e es ih =>
    intro c h hl
    have hl' : c.replicas.length < c.rf := by simp at hl; omega
    obtain ⟨i1, l1, r1⟩ := cinv_startOne c h e hl'
    unfold startLoop
    split
    · apply ih _ i1
      rw [r1]; simp at hl; omega
    · exact i1

theorem cinv_foldl_setMode (l : List String) (m : CMode) (hm : m ≠ .wo) : ∀ c : Ctl, CInv c →
    CInv (l.foldl (fun c a => c.setMode a m) c) := by
  induction l with
  | nil => intro c h; exact h
  | cons a l ih => intro c h; exact ih _ (cinv_setMode c h a m hm)

theorem cinv_stepStart (c : Ctl) (h : CInv c) (es : List StartEnv) (ck : CkEnv) :
    CInv (c.stepStart es ck).1 := by
  unfold stepStart
  split
  · exact h
  · rename_i e0 rest
    by_cases h1 : c.replicas.length > 0
    · rw [if_pos h1]; exact h
    · rw [if_neg h1]
      by_cases h2 : e0.addr ≠ full c.maxRev
      · rw [if_pos h2]; exact h
      · rw [if_neg h2]
        by_cases h3 : (e0 :: rest).length > c.rf
        · rw [if_pos h3]; exact h
        · rw [if_neg h3]
          have h0 := cinv_startReset c h h1
          have hloop := cinv_startLoop (e0 :: rest) c.startReset h0
            (by show ([] : List (String × CMode)).length + _ ≤ c.rf; simp at h3 ⊢; omega)
          split
          · exact cinv_startFront _ hloop
          · simp only
            split
            · exact cinv_startFront _ hloop
            · have i2 := cinv_foldl_setMode (staleAddrs (e0 :: rest)) .err (by decide) _ hloop
              have i3 := cinv_updateVolStatus _ i2.core i2.ckpt
              exact cinv_startFront _ (cinv_updateCheckpoint _ i3.core i3.status ck)

/-- **Every request preserves the controller invariant.** -/
theorem cinv_step (c : Ctl) (h : CInv c) (op : CtlOp) : CInv (c.step op).1 := by
  have h0 := cinv_clearLog c h
  unfold step
  cases op with
  | register r so al el => exact cinv_stepRegister _ h0 r so al el
  | start es ck => exact cinv_stepStart _ h0 es ck
  | add a tk cok sf nso swo ck => exact cinv_stepAdd _ h0 a tk cok sf nso swo ck
  | addPre a tk => exact cinv_stepAddPre _ h0 a tk
  | addPost a tk cok sf nso swo ck => exact cinv_stepAddPost _ h0 a tk cok sf nso swo ck
  | remove a => exact cinv_removeReplica _ h0 a CkEnv.none
  | setMode a m =>
    simp only
    split
    · exact h0
    · rename_i hm; exact cinv_setMode _ h0 a m hm
  | verify a rwc woc ckp rev o1 o2 ck => exact cinv_stepVerify _ h0 a rwc woc ckp rev o1 o2 ck
  | write off len f t => exact cinv_stepWrite _ h0 off len f t
  | sync f => exact cinv_stepSync _ h0 _ f
  | unmap f => exact cinv_stepSync _ h0 _ f
  | read off len t => exact cinv_stepRead _ h0 off len t
  | snapshot n ex f => exact cinv_stepSnapshot _ h0 ex f
  | resize sz f => exact cinv_stepResize _ h0 sz f
  | mon a e => exact cinv_stepMon _ h0 a e

theorem cinv_run (ops : List CtlOp) : ∀ c, CInv c → CInv (c.run ops) := by
  induction ops with
  | nil => intro c h; exact h
  | cons op ops ih => intro c h; exact ih _ (cinv_step c h op)

end Ctl
end Jiva
