import JivaVerif.Lemmas.CtlStep
/-! `AddReplica` and `Start` preserve the invariant. -/
namespace Jiva
namespace Ctl

theorem removeReplica_replicas (c : Ctl) (a : String) (e : CkEnv) :
    (c.removeReplica a e).replicas = c.replicas.filter (fun r => r.1 ≠ a) := by
  unfold removeReplica
  by_cases hh : c.hasReplica a = true
  · simp only [hh, Bool.not_true, Bool.false_eq_true, if_false]
    have s := updateCheckpoint_same
      (((({ (if c.replicas.length = 1 ∧ c.frontUp = true then
          { c with signalled := false, maxRev := "", frontUp := false } else c) with
        registered := (if c.replicas.length = 1 ∧ c.frontUp = true then
          { c with signalled := false, maxRev := "", frontUp := false } else c).registered.filter fun r => full r.addr ≠ a,
        replicas := (if c.replicas.length = 1 ∧ c.frontUp = true then
          { c with signalled := false, maxRev := "", frontUp := false } else c).replicas.filter fun r => r.1 ≠ a } : Ctl).removeBackend a).updateVolStatus)) e
    simp only at s
    rw [s.2.1]
    show (Ctl.removeBackend _ a).replicas = _
    unfold removeBackend
    split <;> (simp only [rebuild, call]; split <;> rfl)
  · have hh' : c.hasReplica a = false := by simpa using hh
    simp only [hh', Bool.not_false, if_true]
    unfold hasReplica at hh'
    rw [List.any_eq_false] at hh'
    symm
    apply List.filter_eq_self.mpr
    intro r hr
    have := hh' r hr
    simpa using this

theorem removeReplica_rf (c : Ctl) (a : String) (e : CkEnv) : (c.removeReplica a e).rf = c.rf := by
  unfold removeReplica
  by_cases hh : c.hasReplica a = true
  · simp only [hh, Bool.not_true, Bool.false_eq_true, if_false]
    have s := updateCheckpoint_same
      (((({ (if c.replicas.length = 1 ∧ c.frontUp = true then
          { c with signalled := false, maxRev := "", frontUp := false } else c) with
        registered := (if c.replicas.length = 1 ∧ c.frontUp = true then
          { c with signalled := false, maxRev := "", frontUp := false } else c).registered.filter fun r => full r.addr ≠ a,
        replicas := (if c.replicas.length = 1 ∧ c.frontUp = true then
          { c with signalled := false, maxRev := "", frontUp := false } else c).replicas.filter fun r => r.1 ≠ a } : Ctl).removeBackend a).updateVolStatus)) e
    simp only at s
    rw [s.1]
    show (Ctl.removeBackend _ a).rf = _
    unfold removeBackend
    split <;> (simp only [rebuild, call]; split <;> rfl)
  · have hh' : c.hasReplica a = false := by simpa using hh
    simp only [hh', Bool.not_false, if_true]

theorem filter_le_one_unique {α : Type} (l : List α) (p : α → Bool) (h : (l.filter p).length ≤ 1)
    (x y : α) (hx : x ∈ l) (hy : y ∈ l) (px : p x = true) (py : p y = true) : x = y := by
  have mx : x ∈ l.filter p := List.mem_filter.mpr ⟨hx, px⟩
  have my : y ∈ l.filter p := List.mem_filter.mpr ⟨hy, py⟩
  generalize l.filter p = f at h mx my
  match f, h with
  | [], _ => cases mx
  | [z], _ =>
    have e1 : x = z := by simpa using mx
    have e2 : y = z := by simpa using my
    rw [e1, e2]
  | _ :: _ :: _, h => simp at h

/-- what `closeNew` needs: the id is fresh -/
theorem cinv_closeNew (c : Ctl) (h : CInv c) (id : Nat) (hid : c.nextId = id + 1)
    (hlt : ∀ b ∈ c.backends, b.id < id) (hcl : ∀ i ∈ c.closed, i < id) : CInv (c.closeNew id) := by
  unfold closeNew
  have hc := h.core
  refine ⟨⟨hc.rfPos, hc.nodup, hc.agree, hc.fanout, hc.oneWO, hc.lenRf, ?_, ?_, hc.idsNodup⟩, h.status, h.ckpt⟩
  · constructor
    · exact hc.idsLt.1
    · intro i hi
      show i < c.nextId
      rcases List.mem_append.mp hi with hi | hi
      · exact hc.idsLt.2 i hi
      · simp at hi; omega
  · intro b hb hi
    rcases List.mem_append.mp hi with hi | hi
    · exact hc.idsLive b hb hi
    · simp at hi; have := hlt b hb; omega

theorem ccore_attach (c : Ctl) (h : CCore c) (addr : String) (id : Nat) (hid : c.nextId = id + 1)
    (hlt : ∀ b ∈ c.backends, b.id < id) (hcl : ∀ i ∈ c.closed, i < id)
    (hno : c.hasReplica addr = false) (hwo : c.replicas.filter (fun r => r.2 = .wo) = [])
    (hlen : c.replicas.length < c.rf) : CCore (c.attach addr id) := by
  unfold attach
  refine ccore_rebuild_of _ h.rfPos ?_ ?_ ?_ ?_ ?_ ?_ ?_
  · show ((c.replicas ++ [(addr, CMode.wo)]).map (·.1)).Nodup
    rw [List.map_append, List.nodup_append]
    refine ⟨h.nodup, by simp, ?_⟩
    intro a ha b hb
    simp at hb
    subst hb
    intro e
    obtain ⟨r, hr, e2⟩ := List.mem_map.mp ha
    unfold hasReplica at hno
    rw [List.any_eq_false] at hno
    have := hno r hr
    rw [e2, e] at this
    simp at this
  · show (c.backends ++ [(⟨addr, .wo, id⟩ : Backend)]).map key = c.replicas ++ [(addr, CMode.wo)]
    rw [List.map_append, h.agree]; rfl
  · show ((c.replicas ++ [(addr, CMode.wo)]).filter fun r => r.2 = .wo).length ≤ 1
    rw [List.filter_append, hwo]; simp
  · show (c.replicas ++ [(addr, CMode.wo)]).length ≤ c.rf
    simp; omega
  · constructor
    · intro b hb
      show b.id < c.nextId
      rcases List.mem_append.mp hb with hb | hb
      · have := hlt b hb; omega
      · simp at hb; subst hb; show id < c.nextId; omega
    · exact h.idsLt.2
  · intro b hb hi
    rcases List.mem_append.mp hb with hb | hb
    · exact h.idsLive b hb hi
    · simp at hb; subst hb
      have := hcl id hi; omega
  · show ((c.backends ++ [(⟨addr, .wo, id⟩ : Backend)]).map (·.id)).Nodup
    rw [List.map_append, List.nodup_append]
    refine ⟨h.idsNodup, by simp, ?_⟩
    intro a ha b hb
    simp at hb; subst hb
    obtain ⟨b', hb', e⟩ := List.mem_map.mp ha
    have := hlt b' hb'
    omega

theorem cinv_reserveId (c : Ctl) (h : CInv c) : CInv c.reserveId := by
  have hc := h.core
  refine ⟨⟨hc.rfPos, hc.nodup, hc.agree, hc.fanout, hc.oneWO, hc.lenRf, ?_, hc.idsLive, hc.idsNodup⟩, h.status, h.ckpt⟩
  constructor
  · intro b hb; have := hc.idsLt.1 b hb; show b.id < c.nextId + 1; omega
  · intro i hi; have := hc.idsLt.2 i hi; show i < c.nextId + 1; omega

/-- what `canAdd` establishes when it lets the newcomer through -/
theorem canAdd_some (c : Ctl) (h : CInv c) (addr : String) (tk : Option Bool) (c1 : Ctl)
    (e : c.canAdd addr tk = some c1) :
    CInv c1 ∧ c1.hasReplica addr = false ∧ c1.replicas.filter (fun r => r.2 = .wo) = [] := by
  unfold canAdd at e
  by_cases h1 : c.hasReplica addr = true
  · rw [if_pos h1] at e; cases e
  · rw [if_neg h1] at e
    have hno : c.hasReplica addr = false := by simpa using h1
    split at e
    · rename_i hnone
      cases e
      refine ⟨h, hno, ?_⟩
      apply List.filter_eq_nil_iff.mpr
      intro r hr
      have := List.find?_eq_none.mp hnone r hr
      simpa using this
    · rename_i w hw
      split at e
      · cases e
        have hr := cinv_removeReplica c h w.1 CkEnv.none
        have hreps := removeReplica_replicas c w.1 CkEnv.none
        refine ⟨hr, ?_, ?_⟩
        · unfold hasReplica; rw [hreps, List.any_eq_false]
          intro r hr'
          unfold hasReplica at hno
          rw [List.any_eq_false] at hno
          exact hno r (List.mem_filter.mp hr').1
        · rw [hreps]
          apply List.filter_eq_nil_iff.mpr
          intro r hr' hwo
          obtain ⟨hrm, hra⟩ := List.mem_filter.mp hr'
          have hwm : w ∈ c.replicas := List.mem_of_find?_eq_some hw
          have hww : (fun (r : String × CMode) => decide (r.2 = CMode.wo)) w = true :=
            @List.find?_some _ (fun (r : String × CMode) => decide (r.2 = CMode.wo)) w c.replicas hw
          have := filter_le_one_unique c.replicas (fun r => decide (r.2 = CMode.wo)) h.core.oneWO r w hrm hwm hwo hww
          rw [this] at hra
          simp at hra
      · cases e

theorem cinv_attachNew (c : Ctl) (h : CInv c) (addr : String) (sf : List String)
    (nso swo : Bool) (ck : CkEnv) (hno : c.hasReplica addr = false)
    (hwo : c.replicas.filter (fun r => r.2 = .wo) = []) (hrf : c.replicas.length < c.rf) :
    CInv (attachNew c.reserveId addr c.nextId sf nso swo ck).1 := by
  unfold attachNew
  simp only
  have hc := h.core
  have h3 : CInv c.reserveId := cinv_reserveId c h
  have h4 := cinv_calls' _ h3 (c.reserveId.backends.filter fun b => b.mode ≠ .err) (·.id) "Snapshot"
  have same := calls_same c.reserveId (c.reserveId.backends.filter fun b => b.mode ≠ .err) (·.id) "Snapshot"
  simp only at same
  generalize (List.foldl (fun c b => c.call b.id "Snapshot") c.reserveId
    (c.reserveId.backends.filter fun b => b.mode ≠ .err)) = c2 at h4 same
  have e_next : c2.nextId = c.nextId + 1 := same.2.2.2.2.2.2.2.2.2.1
  have e_back : c2.backends = c.backends := same.2.2.1
  have e_closed : c2.closed = c.closed := same.2.2.2.2.2.2.2.2.2.2.1
  have e_reps : c2.replicas = c.replicas := same.2.1
  have e_rf : c2.rf = c.rf := same.1
  have hlt : ∀ b ∈ c2.backends, b.id < c.nextId := by rw [e_back]; exact hc.idsLt.1
  have hcl : ∀ i ∈ c2.closed, i < c.nextId := by rw [e_closed]; exact hc.idsLt.2
  split
  · exact cinv_closeNew c2 h4 c.nextId e_next hlt hcl
  · split
    · exact cinv_closeNew _ (cinv_call c2 h4 _ _) c.nextId e_next hlt hcl
    · split
      · exact cinv_call _ (cinv_call c2 h4 _ _) _ _
      · have h5 : CInv ((c2.call c.nextId "Snapshot").call c.nextId "SetReplicaMode") :=
          cinv_call _ (cinv_call c2 h4 _ _) _ _
        have h6 := ccore_attach _ h5.core addr c.nextId e_next hlt hcl
          (by show (c2.replicas.any fun r => r.1 = addr) = false; rw [e_reps]; exact hno)
          (by show c2.replicas.filter _ = []; rw [e_reps]; exact hwo)
          (by show c2.replicas.length < c2.rf; rw [e_reps, e_rf]; exact hrf)
        exact cinv_updateCheckpoint _ (ccore_updateVolStatus _ h6) (status_updateVolStatus _) ck

theorem cinv_stepAddPre (c : Ctl) (h : CInv c) (addr : String) (tk : Option Bool) :
    CInv (c.stepAddPre addr tk).1 := by
  unfold stepAddPre
  split
  · exact h
  · rename_i c1 e
    have := (canAdd_some c h addr tk c1 e).1
    split <;> exact this

/-- the second critical section of `AddReplica` preserves the invariant from ANY state satisfying it
    — whatever was served while the call was inside `factory.Create` -/
theorem cinv_stepAddPost (c : Ctl) (h : CInv c) (addr : String) (tk : Option Bool) (cok : Bool) (sf : List String)
    (nso swo : Bool) (ck : CkEnv) : CInv (c.stepAddPost addr tk cok sf nso swo ck).1 := by
  unfold stepAddPost
  by_cases h2 : (!cok) = true
  · rw [if_pos h2]; exact h
  · rw [if_neg h2]
    by_cases h1 : c.rf = c.replicas.length
    · rw [if_pos h1]
      exact cinv_closeNew _ (cinv_reserveId c h) c.nextId rfl h.core.idsLt.1 h.core.idsLt.2
    · rw [if_neg h1]
      split
      · exact cinv_reserveId c h
      · rename_i c1 e
        obtain ⟨i1, hno, hwo⟩ := canAdd_some c h addr tk c1 e
        apply cinv_attachNew c1 i1 addr sf nso swo ck hno hwo
        -- the replication factor: `canAdd` only ever removes replicas
        have hlen : c1.replicas.length ≤ c.replicas.length := by
          unfold canAdd at e
          split at e
          · cases e
          · split at e
            · cases e; exact Nat.le_refl _
            · split at e
              · cases e
                rw [removeReplica_replicas]
                exact List.length_filter_le _ _
              · cases e
        have hrf1 : c1.rf = c.rf := by
          unfold canAdd at e
          split at e
          · cases e
          · split at e
            · cases e; rfl
            · split at e
              · cases e; exact removeReplica_rf c _ _
              · cases e
        have := h.core.lenRf
        omega

theorem cinv_stepAdd (c : Ctl) (h : CInv c) (addr : String) (tk : Option Bool) (cok : Bool) (sf : List String)
    (nso swo : Bool) (ck : CkEnv) : CInv (c.stepAdd addr tk cok sf nso swo ck).1 := by
  unfold stepAdd
  split
  · exact cinv_stepAddPost _ (cinv_stepAddPre c h addr tk) addr tk cok sf nso swo ck
  · exact cinv_stepAddPre c h addr tk

theorem cinv_startFront (c : Ctl) (h : CInv c) : CInv c.startFront := by
  unfold startFront; split
  · exact h.congr rfl rfl rfl rfl rfl rfl rfl rfl rfl rfl rfl
  · exact h

theorem cinv_reserve (c : Ctl) (h : CInv c) (sz : Nat) : CInv (c.reserve sz) := by
  have hc := h.core
  refine ⟨⟨hc.rfPos, hc.nodup, hc.agree, hc.fanout, hc.oneWO, hc.lenRf, ?_, hc.idsLive, hc.idsNodup⟩, h.status, h.ckpt⟩
  constructor
  · intro b hb; have := hc.idsLt.1 b hb; show b.id < c.nextId + 1; omega
  · intro i hi; have := hc.idsLt.2 i hi; show i < c.nextId + 1; omega

theorem cinv_dropLeader (c : Ctl) (h : CInv c) : CInv c.dropLeader :=
  h.congr rfl rfl rfl rfl rfl rfl rfl rfl rfl rfl rfl

theorem empty_of_no_replicas (c : Ctl) (h : CInv c) (h1 : ¬ c.replicas.length > 0) :
    c.replicas = [] ∧ c.backends = [] := by
  have hrep : c.replicas = [] := by
    cases hl : c.replicas with
    | nil => rfl
    | cons x xs => rw [hl] at h1; simp at h1
  refine ⟨hrep, ?_⟩
  have := h.core.agree; rw [hrep] at this
  cases hb : c.backends with
  | nil => rfl
  | cons x xs => rw [hb] at this; simp at this

/-- `reset` changes nothing the invariant reads when there is no replica -/
theorem cinv_startReset (c : Ctl) (h : CInv c) (h1 : ¬ c.replicas.length > 0) : CInv c.startReset := by
  obtain ⟨hrep, hback⟩ := empty_of_no_replicas c h h1
  have f := h.core.fanout
  rw [hback] at f
  simp at f
  apply h.frame
  refine ⟨rfl, ?_, ?_, ?_, ?_, ?_, rfl, rfl, rfl, rfl, rfl⟩
  · show ([] : List (String × CMode)) = c.replicas; rw [hrep]
  · show ([] : List Backend) = c.backends; rw [hback]
  · show ([] : List (String × Nat)) = c.writers; rw [f.1]
  · show ([] : List (String × Nat)) = c.readers; rw [f.2.1]
  · show false = c.available; rw [f.2.2]

theorem cinv_stepStart (c : Ctl) (h : CInv c) (addr : String) (cok : Bool) (size : Nat) (swo : Bool)
    (clone : String) (srw : Bool) (rev : Option Nat) (ck : CkEnv) :
    CInv (c.stepStart addr cok size swo clone srw rev ck).1 := by
  unfold stepStart
  simp only
  by_cases h1 : c.replicas.length > 0
  · rw [if_pos h1]; exact h
  · rw [if_neg h1]
    by_cases h2 : addr ≠ full c.maxRev
    · rw [if_pos h2]; exact h
    · rw [if_neg h2]
      have h0 := cinv_startReset c h h1
      by_cases h3 : (!cok) = true
      · rw [if_pos h3]; exact cinv_dropLeader _ h0
      · rw [if_neg h3]
        have h1' := cinv_reserve _ h0 size
        by_cases h4 : (!swo) = true
        · rw [if_pos h4]; exact cinv_dropLeader _ (cinv_call _ h1' _ _)
        · rw [if_neg h4]
          have h2' := cinv_call _ h1' c.nextId "SetReplicaMode"
          have hc := h.core
          have core2 := ccore_attach _ h2'.core addr c.nextId rfl (by intro b hb; cases hb)
            (by intro i hi; exact hc.idsLt.2 i hi)
            (by simp [hasReplica, call, reserve, startReset, reset])
            (by simp [call, reserve, startReset, reset])
            (by show ([] : List (String × CMode)).length < c.rf; have := hc.rfPos; simp; omega)
          obtain ⟨hrep, _⟩ := empty_of_no_replicas c h h1
          have st2 : Status (((c.startReset.reserve size).call c.nextId "SetReplicaMode").attach addr c.nextId) := by
            have hs : Status c := h.status
            unfold Status at hs ⊢
            rw [hrep] at hs
            exact hs
          have ck2 : CkptOk (((c.startReset.reserve size).call c.nextId "SetReplicaMode").attach addr c.nextId) := by
            intro hne
            have hk := h.ckpt (by exact hne)
            rw [hrep] at hk
            have := hc.rfPos
            simp at hk; omega
          have inv2 : CInv _ := ⟨core2, st2, ck2⟩
          split
          · exact cinv_startFront _ (cinv_removeReplica _ inv2 addr CkEnv.none)
          · have inv3 := cinv_call _ inv2 c.nextId "SetReplicaMode"
            split
            · exact cinv_startFront _ (cinv_removeReplica _ inv3 addr CkEnv.none)
            · have inv4 := cinv_setMode _ inv3 addr .rw (by decide)
              split
              · exact cinv_startFront _ inv4
              · have inv5 := cinv_updateVolStatus _ inv4.core inv4.ckpt
                exact cinv_startFront _ (cinv_updateCheckpoint _ inv5.core inv5.status ck)

/-- **Every request preserves the controller invariant.** -/
theorem cinv_step (c : Ctl) (h : CInv c) (op : CtlOp) : CInv (c.step op).1 := by
  have h0 := cinv_clearLog c h
  unfold step
  cases op with
  | register r so al el => exact cinv_stepRegister _ h0 r so al el
  | start a cok sz swo cl srw rev ck => exact cinv_stepStart _ h0 a cok sz swo cl srw rev ck
  | add a tk cok sf nso swo ck => exact cinv_stepAdd _ h0 a tk cok sf nso swo ck
  | addPre a tk => exact cinv_stepAddPre _ h0 a tk
  | addPost a tk cok sf nso swo ck => exact cinv_stepAddPost _ h0 a tk cok sf nso swo ck
  | remove a => exact cinv_removeReplica _ h0 a CkEnv.none
  | setMode a m =>
    simp only
    split
    · exact h0
    · rename_i hm; exact cinv_setMode _ h0 a m hm
  | verify a rwc woc ckp rev o1 o2 ck => exact cinv_stepVerify _ h0 a rwc woc ckp rev o1 o2 ck
  | write off len f t => exact cinv_stepWrite _ h0 off len f t
  | sync f => exact cinv_stepSync _ h0 _ f
  | unmap f => exact cinv_stepSync _ h0 _ f
  | read off len t => exact cinv_stepRead _ h0 off len t
  | snapshot n ex f => exact cinv_stepSnapshot _ h0 ex f
  | resize sz f => exact cinv_stepResize _ h0 sz f
  | mon a e => exact cinv_stepMon _ h0 a e

theorem cinv_run (ops : List CtlOp) : ∀ c, CInv c → CInv (c.run ops) := by
  induction ops with
  | nil => intro c h; exact h
  | cons op ops ih => intro c h; exact ih _ (cinv_step c h op)

end Ctl
end Jiva
