/-
  The metadata protocol of a replica directory as a sequence of file-system calls
  (replica/replica.go: createDisk, removeDiskNode / rmDisk, revertDisk, encodeToFile; util.SyncDir),
  and what `construct` recovers from a directory.

  A directory maps keys to entries.  Keys are structured (the file-name suffixes `.meta`, `.tmp` are
  constructors), so that distinct kinds of file can never collide; the driver maps the real names
  to keys.  Process death is "stop after any prefix of the calls": every completed call is visible,
  nothing of a later call is (the kernel's atomicity of a single call is assumed; power-loss
  reordering is out of scope).
-/
namespace Jiva.Crash

inductive Key where
  | vol                       -- volume.meta
  | volTmp                    -- volume.meta.tmp
  | img (d : String)          -- <disk>
  | dmeta (d : String)         -- <disk>.meta
  | dmetaTmp (d : String)      -- <disk>.meta.tmp
  deriving DecidableEq, Repr

inductive Ent where
  | data (ino : Nat)          -- a data file; hard links share the inode number
  | disk (parent : String)    -- disk metadata: the parent pointer ("" = none); other attributes omitted
  | volume (head : String)    -- volume metadata: names the head
  | incomplete                 -- a temp file that has been created but not completely written
  deriving DecidableEq, Repr

abbrev FS := List (Key × Ent)

def get (fs : FS) (k : Key) : Option Ent :=
  match fs with
  | [] => none
  | (k', e) :: rest => if k' = k then some e else get rest k

def del (fs : FS) (k : Key) : FS := fs.filter fun p => p.1 ≠ k

def put (fs : FS) (k : Key) (e : Ent) : FS := (k, e) :: del fs k

inductive Call where
  | create (k : Key) (e : Ent)      -- open(O_CREAT): a new data file, or an empty temp file
  | write (k : Key) (e : Ent)       -- the (O_SYNC) write that completes a temp file
  | rename (a b : Key)
  | link (a b : Key)
  | unlink (k : Key)
  | fsyncDir
  | truncate (k : Key)
  deriving Repr

def apply (fs : FS) : Call → FS
  | .create k e => match get fs k with | some _ => fs | none => put fs k e
  | .write k e  => match get fs k with | some _ => put fs k e | none => fs
  | .rename a b => match get fs a with | some e => put (del fs a) b e | none => fs
  | .link a b   => match get fs a, get fs b with | some e, none => put fs b e | _, _ => fs
  | .unlink k   => del fs k
  | .fsyncDir   => fs
  | .truncate _ => fs

def run (fs : FS) (cs : List Call) : FS := cs.foldl apply fs

/-- the keys a call can change -/
def touched : Call → List Key
  | .create k _ => [k]
  | .write k _ => [k]
  | .rename a b => [a, b]
  | .link _ b => [b]
  | .unlink k => [k]
  | .fsyncDir => []
  | .truncate _ => []

/-- `construct` walks from the head named by volume.meta along the parent pointers; every member
    needs its data file and its metadata.  `c` lists the members head first with their inodes. -/
inductive IsChain (fs : FS) : String → List (String × Nat) → Prop where
  | base (d : String) (i : Nat) :
      get fs (.img d) = some (.data i) → get fs (.dmeta d) = some (.disk "") → IsChain fs d [(d, i)]
  | step (d p : String) (i : Nat) (c : List (String × Nat)) :
      get fs (.img d) = some (.data i) → get fs (.dmeta d) = some (.disk p) → p ≠ "" →
      IsChain fs p c → IsChain fs d ((d, i) :: c)

/-- the directory opens and yields the chain `c` -/
def Recovers (fs : FS) (c : List (String × Nat)) : Prop :=
  ∃ h, get fs .vol = some (.volume h) ∧ IsChain fs h c

/-- executable version of the walk (for the driver) -/
def chainFrom (fs : FS) : Nat → String → Option (List (String × Nat))
  | 0, _ => none
  | fuel + 1, d =>
    match get fs (.img d), get fs (.dmeta d) with
    | some (.data i), some (.disk p) =>
      if p = "" then some [(d, i)] else (chainFrom fs fuel p).map fun c => (d, i) :: c
    | _, _ => none

def recover (fs : FS) : Option (List (String × Nat)) :=
  match get fs .vol with
  | some (.volume h) => chainFrom fs (fs.length + 1) h
  | _ => none

/-! ### the programs (call sequences) of the chain-changing operations, in source order -/

/-- `encodeToFile`: temp file, O_SYNC write, rename, directory flush -/
def encode (tmp dst : Key) (e : Ent) : List Call :=
  [.create tmp .incomplete, .write tmp e, .rename tmp dst, .fsyncDir]

/-- `createDisk` for a snapshot: new head + its metadata, hard links of the old head under the
    snapshot name, the snapshot's metadata, volume.meta (the commit), unlink of the old head. -/
def snapshotProg (oldHead newHead snap oldParent : String) (newIno : Nat) : List Call :=
  [.fsyncDir, .create (.img newHead) (.data newIno), .create (.img newHead) (.data newIno), .truncate (.img newHead)] ++
  encode (.dmetaTmp newHead) (.dmeta newHead) (.disk snap) ++
  [.link (.img oldHead) (.img snap), .link (.dmeta oldHead) (.dmeta snap), .fsyncDir] ++
  encode (.dmetaTmp snap) (.dmeta snap) (.disk oldParent) ++
  encode .volTmp .vol (.volume newHead) ++
  [.unlink (.img oldHead), .unlink (.dmeta oldHead), .fsyncDir]

/-- `removeDiskNode` + `rmDisk` of the chain member `name` whose child is `child` and whose parent is
    `parent`: the child is re-parented (the commit), the parent's metadata is rewritten (its recorded
    counter), the member's files are unlinked. -/
def removeProg (name child parent grand : String) : List Call :=
  encode (.dmetaTmp child) (.dmeta child) (.disk parent) ++
  encode (.dmetaTmp parent) (.dmeta parent) (.disk grand) ++
  [.unlink (.img name), .unlink (.dmeta name), .fsyncDir]

/-- `revertDisk` to the chain member `target`: a new head whose parent is `target`, volume.meta (the
    commit), unlink of the old head, and a second rewrite of volume.meta (same head). -/
def revertProg (oldHead newHead target : String) (newIno : Nat) : List Call :=
  [.create (.img newHead) (.data newIno), .create (.img newHead) (.data newIno), .truncate (.img newHead)] ++
  encode (.dmetaTmp newHead) (.dmeta newHead) (.disk target) ++
  encode .volTmp .vol (.volume newHead) ++
  [.unlink (.img oldHead), .unlink (.dmeta oldHead), .fsyncDir] ++
  encode .volTmp .vol (.volume newHead)

end Jiva.Crash
