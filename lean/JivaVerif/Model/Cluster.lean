import JivaVerif.Model.Controller
/-!
# The volume as a whole: one controller, its replica directories, stops and restarts

The controller model (`Model/Controller.lean`) takes what the replicas answer as parameters of each
request; the replica model (`Model/Replica.lean`) knows nothing of the controller.  This model puts
the two together at the level at which C09's last sentence speaks — "a volume whose replicas all
stopped and came back serves every acknowledged write again":

* a replica directory is what survives a stop: the writes it holds (`log`, ghost), its persisted
  revision counter (`rev`) and the persisted `rebuilding` flag;
* the controller's decisions are the ones of the controller model: the read-only gate
  (`rf / 2 + 1` RW replicas), the acknowledgement rule of the fan-out (`Ctl.majorityOk` over the
  attached replicas and "an RW replica remains"), the election (`Ctl.maxRevCount` over the registered
  replicas that are not rebuilding, after `rf / 2 + 1` registrations);
* the replicas' behaviour is the one the replica-level theorems give: an RW replica counts every
  write it applies (C10), a rebuilt replica holds what its source holds and takes its counter when it
  is promoted (C07, C10), a rebuilding replica is marked as such on disk and is not elected.

The correspondence engine `clusterdiff` drives the REAL controller with replica stand-ins that keep
exactly this persisted state and compares every step with this model (`drv cluster`).

The addition and the promotion are two steps each, as in `sync.Task.AddReplica` / `reloadAndVerify`:
`add` (the controller attaches the replica WO) then `setrb` (the replica marks itself as rebuilding);
`promote` (the controller makes the replica RW) then `rbdone` (the replica clears its flag).  A stop
can fall between them.
-/
namespace Jiva
namespace Cluster

inductive Att where
  | none | rw | wo
  deriving DecidableEq, Repr

/-- one replica directory and whether the current controller has it attached -/
structure Node where
  log        : List Nat := []     -- ghost: the writes it holds, oldest first
  rev        : Nat := 0           -- persisted revision counter
  rebuilding : Bool := false      -- persisted flag
  registered : Bool := false      -- registered with the current controller
  att        : Att := .none
  snaps      : List (Nat × List Nat) := []   -- ghost: the volume snapshots it holds (id, the writes in it)
  deriving DecidableEq, Repr

structure Sys where
  rf     : Nat
  n      : Nat                    -- number of replica directories
  node   : Nat → Node
  up     : Bool := false          -- the controller of this epoch has started the volume
  maxRev : Option Nat := none     -- the controller's `MaxRevReplica`
  stream : List Nat := []         -- ghost: what the volume holds (what an RW replica reads back)
  acked  : List Nat := []         -- ghost: the writes acknowledged to the initiator
  next   : Nat := 0
  ackedEpoch : List Nat := []     -- ghost: the writes acknowledged since the volume was last started
  nextSnap : Nat := 0             -- id of the next volume snapshot
  taken  : List (Nat × List Nat) := []   -- ghost: every volume snapshot with the volume's content when it was taken

inductive Out where
  | ok | leader (e : Nat) | failed | refused | envMismatch
  deriving DecidableEq, Repr

def init (rf n : Nat) : Sys := { rf := rf, n := n, node := fun _ => {} }

namespace Sys

def idx (s : Sys) : List Nat := List.range s.n
def quorum (s : Sys) : Nat := s.rf / 2 + 1
def setNode (s : Sys) (i : Nat) (nd : Node) : Sys := { s with node := fun j => if j = i then nd else s.node j }

def rwCount (s : Sys) : Nat := s.idx.countP fun i => (s.node i).att = .rw
def memberCount (s : Sys) : Nat := s.idx.countP fun i => (s.node i).att ≠ .none
def regCount (s : Sys) : Nat := s.idx.countP fun i => (s.node i).registered
def hasWO (s : Sys) : Bool := s.idx.any fun i => (s.node i).att = .wo

/-- the registration table as the election loop sees it -/
def regs (s : Sys) : List Reg :=
  (s.idx.filter fun i => (s.node i).registered).map fun i => ⟨toString i, "u", (s.node i).rev, (s.node i).rebuilding⟩

/-- `Controller.Start` of the elected replica: it becomes the first RW replica, the volume is what
    it holds -/
def start (s : Sys) (e : Nat) : Sys :=
  { (s.setNode e { s.node e with att := .rw }) with up := true, stream := (s.node e).log, ackedEpoch := [] }

/-- the candidate the election loop starts from: the leader so far unless it is rebuilding, else the
    replica that registers -/
def candidate (s : Sys) (i : Nat) : Nat :=
  match s.maxRev with
  | some m => if (s.node m).rebuilding then i else m
  | none => i

/-- whether `e` is a replica the election loop can end on (it iterates a Go map): the candidate when
    nothing registered and not rebuilding has a higher count, else a registered replica that is not
    rebuilding and has the highest count -/
def legalLeader (s : Sys) (cur e : Nat) : Bool :=
  let m := Ctl.maxRevCount s.regs (s.node cur).rev
  if m = (s.node cur).rev then e = cur
  else decide (e < s.n) && (s.node e).registered && !(s.node e).rebuilding && (s.node e).rev = m

/-- `registerReplica` of replica `i` with a fresh controller; `e` is the replica the election loop
    ended on (observed).  With `rf / 2 + 1` registrations the elected replica is signalled and
    starts the volume. -/
def stepReg (s : Sys) (i e : Nat) : Sys × Out :=
  if s.up ∨ i ≥ s.n ∨ (s.node i).registered then (s, .refused) else
  let s1 := s.setNode i { s.node i with registered := true }
  if (s1.node i).rebuilding then (s1, .ok) else
  if !s1.legalLeader (s1.candidate i) e then (s, .envMismatch) else
  let s2 : Sys := { s1 with maxRev := some e }
  if s2.regCount ≥ s2.quorum then (s2.start e, .leader e) else (s2, .ok)

/-- what a write request leaves of replica `i`: an attached replica that does not fail it (or fails
    it after applying it) holds it, and counts it when it is RW; one that fails it is detached -/
def writeNode (s : Sys) (fails applied : List Nat) (i : Nat) : Node :=
  let nd := s.node i
  if nd.att = .none then nd else
  let failed := fails.contains i
  let nd1 := if nd.att = .rw ∧ (!failed || applied.contains i) then { nd with log := nd.log ++ [s.next], rev := nd.rev + 1 } else nd
  if failed then { nd1 with att := .none } else nd1

/-- `Controller.WriteAt`: refused while read-only; `fails` = the attached replicas that return an
    error, `applied` = those of them that applied the write all the same (a lost reply).  The
    replicas that failed are detached; the write is acknowledged when a majority of the attached
    replicas took it and an RW replica remains. -/
def stepWrite (s : Sys) (fails applied : List Nat) : Sys × Out :=
  if !s.up then (s, .refused) else
  if s.rwCount < s.quorum then (s, .refused) else
  let nM := s.memberCount
  let nF := s.idx.countP fun i => (s.node i).att ≠ .none ∧ fails.contains i
  let s' : Sys := { s with node := s.writeNode fails applied, next := s.next + 1, stream := s.stream ++ [s.next] }
  let ok := Ctl.majorityOk nM nF && decide (s'.rwCount > 0)
  ({ s' with acked := if ok then s.acked ++ [s.next] else s.acked,
             ackedEpoch := if ok then s.ackedEpoch ++ [s.next] else s.ackedEpoch }, if ok then .ok else .failed)

/-- `AddReplica` on the controller's side (`sync.Task.AddReplica` → `CreateReplica`): a WO replica is
    attached.  Its directory is what it was; the writes it receives while WO are not counted and are
    not part of `log` (they matter only through the rebuild that follows). -/
def stepAdd (s : Sys) (i : Nat) : Sys × Out :=
  if !s.up ∨ i ≥ s.n ∨ (s.node i).att ≠ .none ∨ s.hasWO ∨ s.memberCount ≥ s.rf ∨ s.rwCount = 0 then (s, .refused) else
  (s.setNode i { s.node i with att := .wo }, .ok)

/-- the attached WO replica marks itself as rebuilding (`SetRebuilding(true)`, the next step of
    `sync.Task.AddReplica`) and the transfer starts to overwrite what it held -/
def stepSetRb (s : Sys) (i : Nat) : Sys × Out :=
  if !s.up ∨ i ≥ s.n ∨ (s.node i).att ≠ .wo then (s, .refused) else
  (s.setNode i { s.node i with rebuilding := true, log := [], snaps := [] }, .ok)

/-- `VerifyRebuildReplica` after the sync: the rebuilt replica holds what its source holds (C07),
    takes its counter (C10) and becomes RW -/
def stepPromote (s : Sys) (i src : Nat) : Sys × Out :=
  if !s.up ∨ i ≥ s.n ∨ src ≥ s.n ∨ (s.node i).att ≠ .wo ∨ (s.node src).att ≠ .rw then (s, .refused) else
  (s.setNode i { s.node i with att := .rw, log := (s.node src).log, rev := (s.node src).rev, snaps := (s.node src).snaps }, .ok)

/-- the promoted replica clears its flag (`SetRebuilding(false)`) -/
def stepRbDone (s : Sys) (i : Nat) : Sys × Out :=
  if i ≥ s.n ∨ (s.node i).att ≠ .rw ∨ !(s.node i).rebuilding then (s, .refused) else
  (s.setNode i { s.node i with rebuilding := false }, .ok)

/-- `RemoveReplica` / a replica that went away -/
def stepRemove (s : Sys) (i : Nat) : Sys × Out :=
  if !s.up ∨ i ≥ s.n ∨ (s.node i).att = .none then (s, .refused) else
  (s.setNode i { s.node i with att := .none }, .ok)

/-- `Controller.Snapshot` (a user-created volume snapshot): refused unless all `rf` replicas are RW;
    every replica freezes what it holds under the same id -/
def stepSnap (s : Sys) : Sys × Out :=
  if !s.up ∨ s.rwCount ≠ s.rf then (s, .refused) else
  ({ s with node := fun i => if (s.node i).att = .rw then { s.node i with snaps := (s.node i).snaps ++ [(s.nextSnap, (s.node i).log)] } else s.node i,
            nextSnap := s.nextSnap + 1, taken := s.taken ++ [(s.nextSnap, s.stream)] }, .ok)

/-- everything stops: the controller is gone, the directories stay -/
def stepStop (s : Sys) : Sys × Out :=
  ({ s with up := false, maxRev := none, node := fun i => { s.node i with registered := false, att := .none } }, .ok)

end Sys

inductive Op where
  | reg (i e : Nat)
  | write (fails applied : List Nat)
  | add (i : Nat)
  | setrb (i : Nat)
  | promote (i src : Nat)
  | rbdone (i : Nat)
  | remove (i : Nat)
  | snap
  | regq            -- a quorum (arbiter) replica registers: it holds no data, is never elected, and for a controller
                    -- that has just started (its count of quorum replicas is 0) it does not change when the election happens
  | stop
  deriving DecidableEq, Repr

def Sys.step (s : Sys) : Op → Sys × Out
  | .reg i e => s.stepReg i e
  | .write f a => s.stepWrite f a
  | .add i => s.stepAdd i
  | .setrb i => s.stepSetRb i
  | .promote i src => s.stepPromote i src
  | .rbdone i => s.stepRbDone i
  | .remove i => s.stepRemove i
  | .snap => s.stepSnap
  | .regq => (s, .ok)
  | .stop => s.stepStop

def Sys.run (s : Sys) : List Op → Sys
  | [] => s
  | op :: ops => ((s.step op).1).run ops

/-- the volume stops in good health: a quorum of replicas is RW and not marked as rebuilding -/
def Sys.healthy (s : Sys) : Bool :=
  decide (s.quorum ≤ s.idx.countP fun i => (s.node i).att = .rw ∧ (s.node i).rebuilding = false)

/-- every stop of the history happens in good health -/
def Sys.healthyRun (s : Sys) : List Op → Bool
  | [] => true
  | .stop :: ops => s.healthy && ((s.step .stop).1).healthyRun ops
  | op :: ops => ((s.step op).1).healthyRun ops

end Cluster
end Jiva
