/-
  Model of the controller–replica data connection (rpc/wire.go, rpc/client.go, rpc/server.go).

  Codec: a frame is  magic:u16  seq:u32  type:u32  offset:i64  size:i64  len:u32  data[len],
  little endian.  Fields are natural numbers below their bit width (`offset`/`size` are the
  two's-complement images of the Go `int64`s); bytes are naturals below 256.

  Client loop: the single goroutine that assigns sequence numbers, remembers in-flight requests
  and completes them when a reply with that number arrives or the connection is declared broken.
-/
namespace Jiva.Rpc

def magicVersion : Nat := 0x1b03

structure Msg where
  magic  : Nat
  seq    : Nat
  typ    : Nat
  offset : Nat
  size   : Nat
  data   : List Nat
  deriving DecidableEq, Repr

def Msg.WF (m : Msg) : Prop :=
  m.magic < 2 ^ 16 ∧ m.seq < 2 ^ 32 ∧ m.typ < 2 ^ 32 ∧ m.offset < 2 ^ 64 ∧ m.size < 2 ^ 64 ∧
  m.data.length < 2 ^ 32 ∧ ∀ b ∈ m.data, b < 256

/-- little-endian bytes of `x`, `n` of them -/
def leBytes : Nat → Nat → List Nat
  | 0,     _ => []
  | n + 1, x => (x % 256) :: leBytes n (x / 256)

/-- value of a little-endian byte string -/
def leVal : List Nat → Nat
  | []      => 0
  | b :: bs => b + 256 * leVal bs

/-- `Wire.Write` -/
def encode (m : Msg) : List Nat :=
  leBytes 2 m.magic ++ leBytes 4 m.seq ++ leBytes 4 m.typ ++ leBytes 8 m.offset ++ leBytes 8 m.size ++
  leBytes 4 m.data.length ++ m.data

/-- the header of a frame: field names of `rpc.Message` and their widths in bytes, in the order
    `Wire.Write` sends them (little endian); the payload follows its length -/
def layout : List (String × Nat) :=
  [("MagicVersion", 2), ("Seq", 4), ("Type", 4), ("Offset", 8), ("Size", 8), ("len", 4)]

def fieldVal (m : Msg) : String → Nat
  | "MagicVersion" => m.magic | "Seq" => m.seq | "Type" => m.typ | "Offset" => m.offset | "Size" => m.size
  | "len" => m.data.length | _ => 0

/-- `encode` is the layout, field by field, followed by the payload -/
theorem encode_layout (m : Msg) :
    encode m = (layout.flatMap fun f => leBytes f.2 (fieldVal m f.1)) ++ m.data := by
  simp [encode, layout, fieldVal, List.flatMap]

inductive Dec where
  | ok (m : Msg) (rest : List Nat)
  | reject                 -- wrong magic: "Wrong API version received"
  | short                  -- the stream ended inside a frame (io.EOF / ErrUnexpectedEOF)
  deriving DecidableEq, Repr

/-- `Wire.Read` on a byte stream -/
def decode (bs : List Nat) : Dec :=
  if bs.length < 2 then .short else
  let magic := leVal (bs.take 2)
  if magic ≠ magicVersion then .reject else
  let r0 := bs.drop 2
  if r0.length < 28 then .short else
  let seq := leVal (r0.take 4)
  let r1 := r0.drop 4
  let typ := leVal (r1.take 4)
  let r2 := r1.drop 4
  let off := leVal (r2.take 8)
  let r3 := r2.drop 8
  let size := leVal (r3.take 8)
  let r4 := r3.drop 8
  let len := leVal (r4.take 4)
  let r5 := r4.drop 4
  if r5.length < len then .short else
  .ok ⟨magic, seq, typ, off, size, r5.take len⟩ (r5.drop len)

/-- decode as many frames as the stream holds -/
def decodeAll : Nat → List Nat → List Msg × Dec
  | 0, bs => ([], decode bs)
  | fuel + 1, bs =>
    match decode bs with
    | .ok m rest => if rest.isEmpty then ([m], .short) else
        let (ms, d) := decodeAll fuel rest
        (m :: ms, d)
    | d => ([], d)

/-! ### server: `createResponse` -/

def typeRead : Nat := 0
def typeWrite : Nat := 1
def typeResponse : Nat := 2
def typeError : Nat := 3
def typeEOF : Nat := 4
def typePing : Nat := 6
def typeSync : Nat := 8
def typeUnmap : Nat := 9

inductive SrvErr where
  | none | eof (count : Nat) | err (text : List Nat)

/-- `createResponse count msg err` (msg.Data already holds what was read, for reads) -/
def createResponse (m : Msg) (e : SrvErr) : Msg :=
  let data := if m.typ = typeWrite then [] else m.data
  let size0 := m.data.length
  match e with
  | .none => { m with magic := magicVersion, typ := typeResponse, size := size0, data := data }
  | .eof c => { m with magic := magicVersion, typ := typeEOF, size := (data.take c).length, data := data.take c }
  | .err t => { m with magic := magicVersion, typ := typeError, size := t.length, data := t }

/-! ### client loop -/

inductive Res where
  | ok (typ size : Nat)     -- completed by a reply frame
  | err                     -- completed with the connection's error
  deriving DecidableEq, Repr

structure Cl where
  seq      : Nat                       -- last sequence number handed out
  pending  : List (Nat × Nat)          -- (sequence number, request id) in flight
  broken   : Bool                      -- Client.err ≠ nil
  done     : List (Nat × Res)          -- completions, in order
  notified : Nat                       -- sends on closeChan (what detaches the replica)
  sent     : List (Nat × Nat)          -- frames handed to the writer (seq, id)
  deriving Repr

def Cl.init : Cl := ⟨0, [], false, [], 0, []⟩

inductive Ev where
  | request (id : Nat)
  | response (seq typ size : Nat)
  | transportErr               -- read/write error, or SetError after a deadline

/-- `handleRequest` (and the `c.err` test of `operation`) -/
def Cl.onRequest (c : Cl) (id : Nat) : Cl :=
  if c.broken then { c with done := c.done ++ [(id, .err)] }
  else { c with seq := c.seq + 1, pending := c.pending ++ [(c.seq + 1, id)], sent := c.sent ++ [(c.seq + 1, id)] }

/-- `handleResponse` for a frame read from the wire -/
def Cl.onResponse (c : Cl) (s t z : Nat) : Cl :=
  if c.broken then c else
  match c.pending.find? (fun p => p.1 = s) with
  | some p => { c with pending := c.pending.filter (fun q => q.1 ≠ s), done := c.done ++ [(p.2, .ok t z)] }
  | none   => c

/-- `handleResponse` for a transport error -/
def Cl.onErr (c : Cl) : Cl :=
  if c.broken then c else
  { c with broken := true, notified := c.notified + 1, pending := [],
           done := c.done ++ c.pending.map (fun p => (p.2, .err)) }

def Cl.step (c : Cl) : Ev → Cl
  | .request id => c.onRequest id
  | .response s t z => c.onResponse s t z
  | .transportErr => c.onErr

def Cl.run (c : Cl) : List Ev → Cl
  | [] => c
  | e :: es => (c.step e).run es

end Jiva.Rpc
