import JivaVerif.Model.DiffDisk
/-! `sync.GetDeleteCandidateChain`: which snapshots the background cleaner may delete.
    Chain members are addressed by file index (1 = base … top = head); `ck` is the index of the
    checkpoint in the chain, 0 if the checkpoint is empty or not a member. -/
namespace Jiva
namespace DD
variable {β : Type}

def candidatesUpTo (d : DD β) : Nat → List Nat
  | 0     => []
  | k + 1 =>
    let rest := candidatesUpTo d k
    if 2 ≤ k + 1 ∧ d.ur (k + 1) = false ∧ d.ur k = false then rest ++ [k + 1] else rest

/-- candidates (as indices) for checkpoint index `ck` -/
def candidates (d : DD β) (ck : Nat) : List Nat :=
  if d.top ≤ 3 ∨ ck = 0 ∨ ck ≤ 2 then [] else candidatesUpTo d (ck - 1)

end DD
end Jiva
