/-
  Model of jiva's controller membership / quorum / election state machine
  (controller/control.go, replicator.go, multi_writer_at.go, rebuild.go, revert.go).

  Every answer of the environment (a replica's reply to a call, the liveness probe, the start
  signal, the order in which Go iterates a map where the code breaks out of the loop) is part of
  the request (`CtlOp`), so theorems quantify over it.  Quorum ("updater") replicas are not
  modelled (`quorumReplicaCount = 0`).  The model is built from the same primitives as the code:
  `setMode`, `removeReplica`, `updateVolStatus`, `updateCheckpoint`, `handleError`, `rebuild`.
-/
namespace Jiva

inductive CMode where
  | wo | rw | err
  deriving DecidableEq, Repr

structure Backend where
  addr : String
  mode : CMode
  id   : Nat
  deriving DecidableEq, Repr

structure Reg where
  addr : String
  uuid : String
  rev  : Nat
  rebuilding : Bool
  deriving DecidableEq, Repr

/-- outcome of one backend call -/
inductive Out where
  | ok | fail
  deriving DecidableEq, Repr

structure Ctl where
  rf         : Nat
  replicas   : List (String × CMode)      -- Controller.replicas
  backends   : List Backend                -- replicator.backends
  writers    : List (String × Nat)         -- MultiWriterAt.writers (address, backend id) as last rebuilt
  readers    : List (String × Nat)         -- replicator.readers as last rebuilt
  available  : Bool                        -- replicator.backendsAvailable
  registered : List Reg                    -- RegisteredReplicas
  maxRev     : String                      -- MaxRevReplica
  signalled  : Bool                        -- StartSignalled
  readOnly   : Bool
  rwCount    : Nat                         -- RWReplicaCount
  checkpoint : String
  size       : Nat
  frontUp    : Bool
  nextId     : Nat
  closed     : List Nat                    -- ids of backends that got Close()
  calls      : List (Nat × String)         -- (backend id, method) of the last request (observable)
  signals    : List (String × String × Bool) -- SignalToAdd calls of the last request

namespace Ctl

def init (rf : Nat) : Ctl :=
  { rf := rf, replicas := [], backends := [], writers := [], readers := [], available := false,
    registered := [], maxRev := "", signalled := false, readOnly := true, rwCount := 0,
    checkpoint := "", size := 0, frontUp := false, nextId := 0, closed := [], calls := [], signals := [] }

def full (a : String) : String := "tcp://" ++ a ++ ":9502"

/-- `math.MaxInt64`: the size before the first replica reported one -/
def maxInt64 : Nat := 9223372036854775807

def rwOf (l : List (String × CMode)) : Nat := (l.filter fun r => r.2 = .rw).length

def hasReplica (c : Ctl) (a : String) : Bool := c.replicas.any fun r => r.1 = a

def backendOf (c : Ctl) (a : String) : Option Backend := c.backends.find? fun b => b.addr = a

def call (c : Ctl) (id : Nat) (m : String) : Ctl := { c with calls := c.calls ++ [(id, m)] }

/-- `replicator.buildReadWriters` -/
def rebuild (c : Ctl) : Ctl :=
  let ws := (c.backends.filter fun b => b.mode ≠ .err).map fun b => (b.addr, b.id)
  let rs := (c.backends.filter fun b => b.mode = .rw).map fun b => (b.addr, b.id)
  { c with writers := ws, readers := rs, available := !rs.isEmpty }

/-- `UpdateVolStatus` (the threshold expression is tied to the source by `Generated/Facts`) -/
def updateVolStatus (c : Ctl) : Ctl :=
  let rw := rwOf c.replicas
  { c with readOnly := !(rw ≥ c.rf / 2 + 1), rwCount := rw }

/-- environment of `UpdateCheckpoint`: per RW backend the chain it reports (none = the call
    failed) and whether `SetCheckpoint` succeeded there -/
structure CkEnv where
  chains : List (String × Option (List String))
  setOk  : List (String × Bool)

def CkEnv.none : CkEnv := ⟨[], []⟩

def lookupD {α : Type} (l : List (String × α)) (a : String) (d : α) : α :=
  match l.find? fun p => p.1 = a with
  | some p => p.2
  | none   => d

/-- `replicator.GetLatestSnapshot` over the RW backends -/
def latestAgreed (c : Ctl) (e : CkEnv) : Option String :=
  let rws := c.backends.filter fun b => b.mode = .rw
  if rws.length ≠ c.backends.length then none else
  let chains := rws.map fun b => lookupD e.chains b.addr (none : Option (List String))
  if chains.any (·.isNone) then none else
  let seconds := chains.map fun ch => (ch.getD []).getD 1 ""
  if chains.any (fun ch => (ch.getD []).length ≤ 1) then none else
  match seconds with
  | [] => some ""
  | s :: rest => if rest.all (· = s) then some s else none

/-- `UpdateCheckpoint` -/
def updateCheckpoint (c : Ctl) (e : CkEnv) : Ctl :=
  if rwOf c.replicas = c.rf then
    match latestAgreed c e with
    | some s =>
      let rws := c.backends.filter fun b => b.mode = .rw
      let c1 := rws.foldl (fun c b => c.call b.id "SetCheckpoint") c
      if rws.all (fun b => lookupD e.setOk b.addr true) ∧ rws.length = c.backends.length
      then { c1 with checkpoint := s } else { c1 with checkpoint := "" }
    | none => { c with checkpoint := "" }
  else { c with checkpoint := "" }

/-- `setReplicaModeNoLock` up to (not including) the status re-evaluation -/
def setModeCore (c : Ctl) (a : String) (m : CMode) : Ctl :=
  let reps := c.replicas.map fun r => if r.1 = a ∧ r.2 ≠ .err then (r.1, m) else r
  let changed := c.replicas.any fun r => r.1 = a ∧ r.2 ≠ .err
  let c1 := { c with replicas := reps }
  if changed then
    match c.backendOf a with
    | some _ => ({ c1 with backends := c1.backends.map fun (b : Backend) => if b.addr = a then { b with mode := m } else b }).rebuild
    | none   => c1
  else c1

/-- `setReplicaModeNoLock` (with the status re-evaluation) -/
def setMode (c : Ctl) (a : String) (m : CMode) : Ctl :=
  if !c.hasReplica a then c else (c.setModeCore a m).updateVolStatus

/-- `replicator.RemoveBackend` -/
def removeBackend (c : Ctl) (a : String) : Ctl :=
  match c.backendOf a with
  | none   => c
  | some b =>
    ({ (c.call b.id "Close") with
        closed := c.closed ++ [b.id], backends := c.backends.filter fun x => x.addr ≠ a }).rebuild

/-- `RemoveReplicaNoLock` -/
def removeReplica (c : Ctl) (a : String) (e : CkEnv) : Ctl :=
  if !c.hasReplica a then c else
  let last := c.replicas.length = 1 ∧ c.frontUp
  let c1 := if last then { c with signalled := false, maxRev := "", frontUp := false } else c
  let c2 := { c1 with registered := c1.registered.filter fun r => full r.addr ≠ a,
                      replicas := c1.replicas.filter fun r => r.1 ≠ a }
  ((c2.removeBackend a).updateVolStatus).updateCheckpoint e

/-- `handleErrorNoLock` on a `BackendError` naming `errs`; returns whether an error remains -/
def handleError (c : Ctl) (errs : List String) : Ctl × Bool :=
  if errs.isEmpty then (c, true) else
  let c1 := errs.foldl (fun c a => c.setMode a .err) c
  (c1, !(c1.replicas.any fun r => r.2 = .rw))

def removeAll (c : Ctl) (errs : List String) : Ctl := errs.foldl (fun c a => c.removeReplica a CkEnv.none) c

/-- the answers one address of a `Start` request gets -/
structure StartEnv where
  addr     : String
  createOk : Bool
  size     : Nat
  setWoOk  : Bool
  clone    : String          -- the status the polling loop ended on ("error", "callfail", other)
  setRwOk  : Bool
  rev      : Option Nat      -- `GetRevisionCounter` after the loop (none = the call failed)

/-- the requests -/
inductive CtlOp where
  | register (r : Reg) (signalOk alive : Bool) (elected : String)
  | start (es : List StartEnv) (ck : CkEnv)
  | add (addr : String) (takeover : Option Bool) (createOk : Bool) (snapFails : List String)
        (newSnapOk setWoOk : Bool) (ck : CkEnv)
  | addPre (addr : String) (takeover : Option Bool)
  | addPost (addr : String) (takeover : Option Bool) (createOk : Bool) (snapFails : List String)
        (newSnapOk setWoOk : Bool) (ck : CkEnv)
  | remove (addr : String)
  | setMode (addr : String) (m : CMode)
  | verify (addr : String) (rwChain woChain : Option (List String)) (woCkpt : Option String)
           (rev : Option Nat) (setRwOk setRevOk : Bool) (ck : CkEnv)
  | write (off len : Nat) (fails : List String) (tried : List (String × Out))
  | sync (fails : List String)
  | unmap (fails : List String)
  | read (off len : Nat) (tried : List (String × Out))
  | snapshot (name : String) (existing : Option Bool) (fails : List String)
  | resize (size : Nat) (fails : List String)
  | mon (addr : String) (err : Bool)

inductive CtlOut where
  | ok | refused | failed
  | envMismatch     -- the environment part of the request is not a legal answer in this state
  deriving DecidableEq, Repr

def clearLog (c : Ctl) : Ctl := { c with calls := [], signals := [] }

/-- `signalReplica` -/
def signalReplica (c : Ctl) (ok : Bool) : Ctl × Bool :=
  let c1 := { c with signals := c.signals ++ [(c.maxRev, "start", ok)] }
  if ok then ({ c1 with signalled := true }, true)
  else ({ c1 with registered := c1.registered.filter (fun r => r.addr ≠ c1.maxRev), maxRev := "", signalled := false }, false)

def regOf (c : Ctl) (a : String) : Option Reg := c.registered.find? fun r => r.addr = a
def revOf (c : Ctl) (a : String) : Nat := match c.regOf a with | some r => r.rev | none => 0
def rebuildingOf (c : Ctl) (a : String) : Bool := match c.regOf a with | some r => r.rebuilding | none => false

/-- highest revision count among `cur` and the registered replicas that are not rebuilding -/
def maxRevCount (regs : List Reg) (curRev : Nat) : Nat :=
  regs.foldl (fun m r => if !r.rebuilding ∧ m < r.rev then r.rev else m) curRev

/-- The election loop of `registerReplica` iterates a Go map, so which of several replicas with the
    same (highest) count wins depends on the iteration order: the request carries the observed
    winner and the model checks that it is a legal outcome of the loop.  `cur` stays if nothing
    registered and not rebuilding has a strictly higher count. -/
def legalElect (regs : List Reg) (cur : String) (curRev : Nat) (w : String) : Bool :=
  let m := maxRevCount regs curRev
  if m = curRev then w = cur
  else regs.any fun r => r.addr = w ∧ !r.rebuilding ∧ r.rev = m

/-- whether the set of writers has a majority left after `nfail` failures -/
def majorityOk (writers nfail : Nat) : Bool := decide (writers - nfail > writers / 2)

/-- common tail of WriteAt/Sync/Unmap/ReadAt: mark the failed ones ERR, remove them -/
def ioFail (c : Ctl) (errs : List String) : Ctl × Bool :=
  let (c1, remains) := c.handleError errs
  (c1.removeAll errs, remains)

/-- the tail of `registerReplica`: elect a leader and signal it once a majority has registered -/
def electAndSignal (c : Ctl) (r : Reg) (signalOk : Bool) (elected : String) : Ctl × CtlOut :=
  if r.rebuilding then (c, .ok) else
  let cur := if c.maxRev = "" ∨ c.rebuildingOf c.maxRev then r.addr else c.maxRev
  if !legalElect c.registered cur (c.revOf cur) elected then (c, .envMismatch) else
  let c1 : Ctl := { c with maxRev := elected }
  if c1.registered.length ≥ c1.rf / 2 + 1 then
    ((c1.signalReplica signalOk).1, if (c1.signalReplica signalOk).2 then .ok else .failed)
  else (c1, .ok)

/-- `registerReplica` -/
def stepRegister (c : Ctl) (r : Reg) (signalOk alive : Bool) (elected : String) : Ctl × CtlOut :=
  if r.uuid = "" then (c, .ok) else
  let regs := (c.registered.filter fun x => !(x.uuid = r.uuid ∧ x.addr ≠ r.addr)).filter (fun x => x.addr ≠ r.addr) ++ [r]
  let c1 : Ctl := { c with registered := regs }
  if c1.replicas.length > 0 then (c1, .ok) else
  if c1.signalled then
    if r.addr = c1.maxRev then
      -- the elected replica registers again: signal it again, then go on
      if (c1.signalReplica signalOk).2 then electAndSignal (c1.signalReplica signalOk).1 r signalOk elected
      else ((c1.signalReplica signalOk).1, .failed)
    else if !alive then
      -- the elected replica is unreachable: forget it and elect again
      electAndSignal { c1 with registered := c1.registered.filter (fun x => x.addr ≠ c1.maxRev), maxRev := "", signalled := false }
        r signalOk elected
    else (c1, .ok)
  else electAndSignal c1 r signalOk elected

/-- a backend that was created but never attached is closed -/
def closeNew (c : Ctl) (id : Nat) : Ctl := { (c.call id "Close") with closed := c.closed ++ [id] }

/-- attach a new WO replica -/
def attach (c : Ctl) (addr : String) (id : Nat) : Ctl :=
  ({ c with replicas := c.replicas ++ [(addr, CMode.wo)], backends := c.backends ++ [(⟨addr, .wo, id⟩ : Backend)] }).rebuild

/-- `startFrontend` (deferred in `Start`) -/
def startFront (c : Ctl) : Ctl := if c.replicas.length > 0 then { c with frontUp := true } else c

/-- `rmReplicaFromRegisteredReplicas` as called from `Start` (the full address never matches a key) -/
def dropLeader (c : Ctl) : Ctl := { c with signalled := false, maxRev := "" }

/-- `reset()` -/
def reset (c : Ctl) : Ctl :=
  { c with replicas := [], backends := [], writers := [], readers := [], available := false }

/-- `reset()` followed by `c.size = math.MaxInt64` -/
def startReset (c : Ctl) : Ctl := { c.reset with size := maxInt64 }

/-- a backend id is taken by `factory.Create`; `Start` also adopts the replica's size -/
def reserve (c : Ctl) (size : Nat) : Ctl := { c with nextId := c.nextId + 1, size := size }

/-- `canAdd`: `none` = refused.  At most one WO replica, unless the newcomer has seen more writes, in
    which case the WO replica is removed (`takeover` is the answer of `hasGreaterRevisionCount`). -/
def canAdd (c : Ctl) (addr : String) (takeover : Option Bool) : Option Ctl :=
  if c.hasReplica addr then none else
  match c.replicas.find? fun r => r.2 = .wo with
  | none => some c
  | some w => if takeover = some true then some (c.removeReplica w.1 CkEnv.none) else none

/-- `factory.Create` returned a backend: it gets the next id -/
def reserveId (c : Ctl) : Ctl := { c with nextId := c.nextId + 1 }

/-- the first replica of a `Start` decides the volume size -/
def adoptSize (c : Ctl) (sz : Nat) : Ctl := if c.size = maxInt64 then { c with size := sz } else c

/-- `addReplicaDuringStartNoLock` for one address; `false` = it returned an error (and `Start`
    returns it).  The first replica decides the volume size; a later one of another size is refused
    (its backend is neither attached nor closed, as in the code).  `addReplicaNoLock` repeats
    `canAdd`: an address that is already attached is refused (no WO replica can exist at this
    point: every earlier address was made RW or removed). -/
def startOne (c : Ctl) (e : StartEnv) : Ctl × Bool :=
  if !e.createOk then (c.dropLeader, false) else
  let id := c.nextId
  let c1 := c.reserveId.adoptSize e.size
  if c1.size ≠ e.size then (c1.dropLeader, false) else
  match c1.canAdd e.addr none with
  | none => (c1.dropLeader, false)
  | some c1 =>
  let c2 := c1.call id "SetReplicaMode"
  if !e.setWoOk then (c2.dropLeader, false) else
  let c3 := c2.attach e.addr id
  if e.clone = "error" ∨ e.clone = "callfail" then (c3.removeReplica e.addr CkEnv.none, false) else
  let c4 := c3.call id "SetReplicaMode"
  if !e.setRwOk then (c4.removeReplica e.addr CkEnv.none, false) else
  (c4.setMode e.addr .rw, true)

/-- the loop of `Start` over the addresses: stops at the first error -/
def startLoop (c : Ctl) : List StartEnv → Ctl × Bool
  | [] => (c, true)
  | e :: es => if (c.startOne e).2 then startLoop (c.startOne e).1 es else ((c.startOne e).1, false)

/-- the highest revision counter reported (`expectedRevision`) -/
def expectedRev (es : List StartEnv) : Nat := es.foldl (fun m e => max m (e.rev.getD 0)) 0

/-- the replicas `Start` marks ERR: those whose counter is not the highest -/
def staleAddrs (es : List StartEnv) : List String :=
  (es.filter fun e => e.rev.getD 0 ≠ expectedRev es).map (·.addr)

/-- `Start`.  More addresses than the replication factor are refused (fix 8cc7cbc); the first address
    must be the elected replica; every address is attached and made RW in turn; then the revision
    counters are read and every replica below the highest is marked ERR (C09). -/
def stepStart (c : Ctl) (es : List StartEnv) (ck : CkEnv) : Ctl × CtlOut :=
  match es with
  | [] => (c, .ok)
  | e0 :: _ =>
  if c.replicas.length > 0 then (c, .ok) else
  if e0.addr ≠ full c.maxRev then (c, .refused) else
  if es.length > c.rf then (c, .refused) else
  if (c.startReset.startLoop es).2 = false then ((c.startReset.startLoop es).1.startFront, .failed) else
  let c1 := (c.startReset.startLoop es).1
  if es.any (fun e => e.rev.isNone) then (c1.startFront, .failed) else
  let c2 := (staleAddrs es).foldl (fun c a => c.setMode a .err) c1
  (((c2.updateVolStatus).updateCheckpoint ck).startFront, .ok)

/-- `addReplicaNoLock` after its `canAdd`: the automatic snapshot everywhere, WO, attach -/
def attachNew (c : Ctl) (addr : String) (id : Nat) (snapFails : List String)
    (newSnapOk setWoOk : Bool) (ck : CkEnv) : Ctl × CtlOut :=
  -- snapshot on every non-ERR backend; any failure aborts (nobody is marked)
  let targets := c.backends.filter fun b => b.mode ≠ .err
  let c2 := targets.foldl (fun c b => c.call b.id "Snapshot") c
  if targets.any (fun b => snapFails.contains b.addr) then (c2.closeNew id, .failed) else
  if !newSnapOk then ((c2.call id "Snapshot").closeNew id, .failed) else
  if !setWoOk then ((c2.call id "Snapshot").call id "SetReplicaMode", .failed) else
  (((((c2.call id "Snapshot").call id "SetReplicaMode").attach addr id).updateVolStatus).updateCheckpoint ck, .ok)

/-- `AddReplica`, first critical section: `canAdd`, `verifyReplicationFactor`; then the lock is
    released for `factory.Create` (`.ok` = the call is now inside Create) -/
def stepAddPre (c : Ctl) (addr : String) (takeover : Option Bool) : Ctl × CtlOut :=
  match c.canAdd addr takeover with
  | none => (c, .refused)
  | some c1 => if c1.rf = c1.replicas.length then (c1, .refused) else (c1, .ok)

/-- `AddReplica`, from the return of `factory.Create` on: the lock is taken again, the replication
    factor is verified again (fix 8ee11b8), `addReplicaNoLock` repeats `canAdd` and attaches.  Any
    requests may have been served in between. -/
def stepAddPost (c : Ctl) (addr : String) (takeover : Option Bool) (createOk : Bool) (snapFails : List String)
    (newSnapOk setWoOk : Bool) (ck : CkEnv) : Ctl × CtlOut :=
  if !createOk then (c, .failed) else
  if c.rf = c.replicas.length then (c.reserveId.closeNew c.nextId, .refused) else
  match c.canAdd addr takeover with
  | none => (c.reserveId, .refused)          -- as in the code, the new backend is not closed here
  | some c1 => attachNew c1.reserveId addr c1.nextId snapFails newSnapOk setWoOk ck

/-- `AddReplica` with nothing served while it is inside `factory.Create` -/
def stepAdd (c : Ctl) (addr : String) (takeover : Option Bool) (createOk : Bool) (snapFails : List String)
    (newSnapOk setWoOk : Bool) (ck : CkEnv) : Ctl × CtlOut :=
  if (c.stepAddPre addr takeover).2 = .ok
  then (c.stepAddPre addr takeover).1.stepAddPost addr takeover createOk snapFails newSnapOk setWoOk ck
  else c.stepAddPre addr takeover

/-- the chain comparison of `VerifyRebuildReplica`: the members from the latest snapshot down to
    the WO replica's checkpoint must coincide; a chain too short to hold them is refused -/
def ckptIndex (rwc : List String) (ckp : String) : Nat :=
  match rwc.idxOf? ckp with
  | some i => i
  | none   => rwc.length - 1

def chainsAgree (rwc woc : List String) (ckp : String) : Bool :=
  let indx := ckptIndex rwc ckp
  if rwc.length < indx + 1 ∨ woc.length < indx + 1 then false
  else (rwc.drop 1).take indx = (woc.drop 1).take indx

/-- `VerifyRebuildReplica` -/
def stepVerify (c : Ctl) (addr : String) (rwChain woChain : Option (List String)) (woCkpt : Option String)
    (rev : Option Nat) (setRwOk setRevOk : Bool) (ck : CkEnv) : Ctl × CtlOut :=
  match c.replicas.find? (fun r => r.1 = addr), c.replicas.find? (fun r => r.2 = .rw) with
  | some cur, some _src =>
    if cur.2 = .rw then (c, .ok) else
    if cur.2 ≠ .wo then (c, .refused) else
    match rwChain, woChain, woCkpt with
    | some rwc, some woc, some ckp =>
      if ckp ≠ "" ∧ !rwc.contains ckp then (c, .refused) else
      match chainsAgree rwc woc ckp with
      | false => (c, .refused)
      | true =>
        match rev with
        | none => (c, .refused)
        | some n =>
          let id := (c.backendOf addr).map (·.id) |>.getD 0
          let c := c.call id "SetReplicaMode"
          if !setRwOk then (c, .refused) else
          let c := c.call id s!"SetRevisionCounter {n}"
          if !setRevOk then (c, .refused) else
          (((c.setMode addr .rw).updateVolStatus).updateCheckpoint ck, .ok)
    | _, _, _ => (c, .refused)
  | _, _ => (c, .refused)

/-- the replicas of the fan-out that failed this request -/
def failedWriters (c : Ctl) (fails : List String) : List String :=
  (c.writers.filter fun w => fails.contains w.1).map (·.1)

/-- `WriteAt` / `Sync` / `Unmap` after the gate and the range check -/
def stepFanOut (c : Ctl) (method : String) (fails : List String) : Ctl × CtlOut :=
  if !c.available then (c, .failed) else
  let errs := c.failedWriters fails
  let c1 := c.writers.foldl (fun c w => c.call w.2 method) c
  if errs.isEmpty then (c1, .ok) else
  ((c1.ioFail errs).1,
   if majorityOk c.writers.length errs.length ∧ !(c1.ioFail errs).2 then .ok else .failed)

/-- the calls of `replicator.ReadAt`: the readers that were tried, in order (observed) -/
def readCalls (c : Ctl) (tried : List (String × Out)) : Ctl :=
  tried.foldl (fun c t => match c.readers.find? (fun r => r.1 = t.1) with
                          | some r => c.call r.2 "ReadAt" | none => c) c

/-- the replica block size assumed by `widenForWONoLock` -/
def blockSize : Nat := 4096

/-- whether `widenForWONoLock` reads first: a WO replica is attached and the request does not cover
    whole blocks (the widened end is clipped to the volume size) -/
def needsWiden (c : Ctl) (off len : Nat) : Bool :=
  let e := off + len
  let e' := if e % blockSize = 0 then e else min (e + (blockSize - e % blockSize)) c.size
  c.replicas.any (fun r => r.2 = .wo) && len != 0 && !(off % blockSize = 0 && e' = e)

/-- `Controller.WriteAt`.  While a WO replica is attached a request that does not cover whole blocks
    is first completed from the RW replicas (`tried`: the readers asked, as in `stepRead`); replicas
    failing that read are dropped like on any read, and without a served read nothing is written. -/
def stepWrite (c : Ctl) (off len : Nat) (fails : List String) (tried : List (String × Out)) : Ctl × CtlOut :=
  if c.readOnly then (c, .refused) else
  if off + len > c.size then (c, .refused) else
  if c.needsWiden off len then
    if !c.available then (c, .failed) else
    let c1 := c.readCalls tried
    let errs := (tried.filter fun t => t.2 = .fail).map (·.1)
    let served := tried.any fun t => t.2 = .ok
    if errs.isEmpty then (if served then stepFanOut c1 "WriteAt" fails else (c1, .failed)) else
    if served ∧ !(c1.ioFail errs).2 then
      -- dropping the readers that failed may have cost the volume its quorum: the gate is looked at again
      if (c1.ioFail errs).1.readOnly then ((c1.ioFail errs).1, .refused)
      else stepFanOut (c1.ioFail errs).1 "WriteAt" fails
    else ((c1.ioFail errs).1, .failed)
  else stepFanOut c "WriteAt" fails

def stepSync (c : Ctl) (method : String) (fails : List String) : Ctl × CtlOut :=
  if c.readOnly then (c, .refused) else stepFanOut c method fails

def stepRead (c : Ctl) (off len : Nat) (tried : List (String × Out)) : Ctl × CtlOut :=
  if off + len > c.size then (c, .refused) else
  if c.replicas.length = 0 then (c, .failed) else
  if c.replicas.length = 1 ∧ (c.replicas.head?.map (·.2)) = some .wo then (c, .failed) else
  if !c.available then (c, .failed) else
  let c := c.readCalls tried
  let errs := (tried.filter fun t => t.2 = .fail).map (·.1)
  let served := tried.any fun t => t.2 = .ok
  if errs.isEmpty then (c, if served then .ok else .failed) else
  let (c1, remains) := c.ioFail errs
  (c1, if served ∧ !remains then .ok else .failed)

def stepSnapshot (c : Ctl) (existing : Option Bool) (fails : List String) : Ctl × CtlOut :=
  if c.rwCount ≠ c.rf then (c, .refused) else
  match existing with
  | none => (c, .failed)
  | some true => (c, .refused)
  | some false =>
    let targets := c.backends.filter fun b => b.mode ≠ .err
    let c := targets.foldl (fun c b => c.call b.id "Snapshot") c
    let errs := (targets.filter fun b => fails.contains b.addr).map (·.addr)
    if errs.isEmpty then (c, .ok) else
    let (c1, remains) := c.handleError errs
    (c1, if remains then .failed else .ok)

def stepResize (c : Ctl) (size : Nat) (fails : List String) : Ctl × CtlOut :=
  if size ≤ c.size then (c, .refused) else
  let targets := c.backends.filter fun b => b.mode ≠ .err
  let c := targets.foldl (fun c b => c.call b.id "Resize") c
  let errs := (targets.filter fun b => fails.contains b.addr).map (·.addr)
  if errs.isEmpty then ({ c with size := size }, .ok) else
  let (c1, remains) := c.handleError errs
  if remains then (c1, .failed) else ({ c1 with size := size }, .ok)

def stepMon (c : Ctl) (addr : String) (err : Bool) : Ctl × CtlOut :=
  let c := if err then c.setMode addr .err else c
  (c.removeReplica addr CkEnv.none, .ok)

def step (c0 : Ctl) (op : CtlOp) : Ctl × CtlOut :=
  let c := c0.clearLog
  match op with
  | .register r signalOk alive elected => stepRegister c r signalOk alive elected
  | .start es ck => stepStart c es ck
  | .add addr takeover createOk snapFails newSnapOk setWoOk ck => stepAdd c addr takeover createOk snapFails newSnapOk setWoOk ck
  | .addPre addr takeover => stepAddPre c addr takeover
  | .addPost addr takeover createOk snapFails newSnapOk setWoOk ck => stepAddPost c addr takeover createOk snapFails newSnapOk setWoOk ck
  | .remove addr => (c.removeReplica addr CkEnv.none, .ok)
  | .setMode addr m => if m = .wo then (c, .refused) else (c.setMode addr m, .ok)
  | .verify addr rwChain woChain woCkpt rev setRwOk setRevOk ck => stepVerify c addr rwChain woChain woCkpt rev setRwOk setRevOk ck
  | .write off len fails tried => stepWrite c off len fails tried
  | .sync fails => stepSync c "Sync" fails
  | .unmap fails => stepSync c "Unmap" fails
  | .read off len tried => stepRead c off len tried
  | .snapshot _ existing fails => stepSnapshot c existing fails
  | .resize size fails => stepResize c size fails
  | .mon addr err => stepMon c addr err

def run (c : Ctl) : List CtlOp → Ctl
  | [] => c
  | op :: ops => run (c.step op).1 ops

end Ctl
end Jiva
