import JivaVerif.Generated.Facts
/-! The replica's REST action gate (replica/rest/router.go `checkAction` over the table built by
    `NewReplica`, replica/rest/model.go).  The table itself is regenerated from the source. -/
namespace Jiva.Rest

def stateKey : String → String
  | "initial" => "Initial" | "closed" => "Closed" | "open" => "Open" | "dirty" => "Dirty"
  | "rebuilding" => "Rebuilding" | "error" => "Error" | s => s

/-- actions offered in a state -/
def actions (st : String) : List String :=
  match Gen.replicaActions.find? (fun r => r.1 = stateKey st) with
  | some r => r.2
  | none => []

/-- an action request is served iff a handler is routed for it and the state offers it;
    otherwise `checkAction` (or the router) answers 404 without calling the handler -/
def served (st a : String) : Bool := Gen.routedActions.contains a && (actions st).contains a

end Jiva.Rest
