import JivaVerif.Model.DiffDisk
/-! Operation language of the block engine and the abstract specification it refines. -/
namespace Jiva
namespace DD
variable {β : Type} [Inhabited β]

/-- Every request that reaches the differencing disk, plus the environment's reclaimer steps. -/
inductive Op (β : Type) where
  | write (off len : Nat) (buf : Nat → β)
  | read (off len : Nat)
  | snapshot (user : Bool)
  | markRemoved (k : Nat)
  | coalesce (k : Nat)
  | removeIdx (k : Nat)
  | applyHole (i : Nat)
  | dropHoles
  | reopen (pre : Bool)
  | revert (k : Nat)
  | resize (nb : Nat)
  | setPunch (p : Bool)
  | lunmap

def step (d : DD β) : Op β → DD β
  | .write off len buf => d.write off len buf
  | .read off len      => (d.read off len).1
  | .snapshot user     => d.snapshot user
  | .markRemoved k     => d.markRemoved k
  | .coalesce k        => d.coalesce k
  | .removeIdx k       => d.removeIdx k
  | .applyHole i       => d.applyHole i
  | .dropHoles         => d.dropHoles
  | .reopen pre        => d.reopen pre
  | .revert k          => d.revert k
  | .resize nb         => d.resize nb
  | .setPunch p        => d.setPunch p
  | .lunmap            => d.lunmap

/-- The requests the system issues (what the controller's range check, the replica's guards and
    the cleaner's filter let through).  Everything else is refused before it reaches the disk. -/
def Adm (d : DD β) : Op β → Prop
  | .write off len _ => off + len ≤ d.nb * d.bs
  | .read off len    => off + len ≤ d.nb * d.bs
  | .coalesce k      => 2 ≤ k ∧ k < d.top ∧ d.ur (k - 1) = false ∧ d.ur k = false
  | .removeIdx k     => 2 ≤ k ∧ k < d.top ∧ Coalesced d k ∧ d.ur (k - 1) = false ∧ d.ur k = false
  | .revert k        => 1 ≤ k ∧ k < d.top ∧ d.ur k = true
  | .resize nb       => d.nb ≤ nb
  | _                => True

/-- Abstract state: the volume and the frozen image of every chain member. -/
structure Spec (β : Type) where
  vol : Nat → β
  img : Nat → Nat → β

namespace Spec
def init : Spec β := ⟨fun _ => default, fun _ _ => default⟩

/-- The specification of each request; `top` is the index of the head before the request. -/
def step (s : Spec β) (top : Nat) : Op β → Spec β
  | .write off len buf => { s with vol := fun u => if off ≤ u ∧ u < off + len then buf u else s.vol u }
  | .snapshot _        => { s with img := fun i => if i = top then s.vol else s.img i }
  | .coalesce k        => { s with img := fun i => if i = k - 1 then s.img k else s.img i }
  | .removeIdx k       => { s with img := fun i => if i < k then s.img i else s.img (i + 1) }
  | .revert k          => { s with vol := s.img k }
  | _                  => s
end Spec

end DD
end Jiva
