import JivaVerif.Model.DiffDisk
/-
  The replica as the harness sees it: the differencing disk plus the chain names, the mode,
  the open/closed state, the revision counter and the size, with the refusal rules of
  `replica.Server` / `replica.Replica` (replica/server.go, replica/replica.go,
  replica/revision_counter.go).  Data values are natural numbers (0 = never written).
-/
namespace Jiva

inductive Mode where
  | init | rw | wo
  deriving DecidableEq, Repr

structure Rep where
  dd      : DD Nat
  names   : List String       -- snapshot names at indices 1 … top-1 (base first)
  recs    : List Nat          -- the revision counter recorded in each snapshot's metadata (same order)
  orphans : List String       -- snapshot files left on disk by a revert, not in the chain
  isOpen  : Bool              -- Server.r ≠ nil
  mode    : Mode
  rev     : Nat               -- revision.counter
  headN   : Nat               -- number in volume-head-NNN.img
  ckpt    : String            -- Info.Checkpoint
  rebuilding : Bool
  maxChain : Nat              -- types.MaxChainLength (0 = the built-in 1024)
  stashHead : Nat             -- harness protocol: head number in the directory kept by `stash`
  staleJoin : Bool            -- harness protocol: the rebuilding replica came back with that directory
  stashCkpt : String          -- harness protocol: the checkpoint recorded in the directory kept by `stash`
  hasStash : Bool             -- harness protocol: a directory was kept by `stash`
  recsUnknown : Bool          -- a replica rejoined with its own metadata below its checkpoint: recorded counters not tracked
  qDead   : Bool              -- harness protocol: the second healthy replica of the rebuild set-up was killed
  srcRev  : Nat               -- during a rebuild, after the swap: the source's revision counter
  rb      : Nat               -- rebuild phase of the harness protocol: 0 none, 1 begun, 2 reloaded, 4 mapped, 3 promoted

/-- the requests of the line protocol -/
inductive RepOp where
  | write (off len tag : Nat)
  | cwrite (n tag : Nat)                  -- n whole-block writes issued concurrently (same payload per block)
  | read (off len : Nat)
  | snap (name : String) (user : Bool)
  | mark (name : String)                  -- PrepareRemoveDisk
  | coal (name : String)                  -- sfold name → parent
  | rm (name : String)                    -- RemoveDiffDisk
  | revert (name : String)
  | reopen (pre : Bool)                   -- Close + Open
  | reload (pre : Bool)                   -- Server.Reload
  | close
  | open_ (pre : Bool)
  | resize (nb : Nat)
  | punch (on : Bool)
  | apply (f b n : Nat)
  | drop
  | setMode (m : Mode)
  | setRev (n : Nat)
  | setRb (b : Bool)                      -- Server.SetRebuilding
  | setCkpt (s : String)
  | rbBegin (name : String) (stale : Bool) -- AddReplica: the automatic snapshot both replicas take
  | stash                                 -- harness: keep a copy of the closed directory (a replica leaves here)
  | rbReload                              -- the rebuilt replica after the file sync: Reload without preload
  | lunmap                                -- Server.UpdateLUNMap
  | rbPromote                             -- VerifyRebuildReplica: mode RW, counter equalised
  | rbEnd                                 -- the controller shuts down: every replica is closed
  | maxChainSet (n : Nat)                 -- MAX_CHAIN_LENGTH
  | replace (target source : String)      -- ReplaceDisk (legacy deletion step; only ever sent in RW)
  | clone (name : String)                 -- a replica of a new volume is made as a clone of snapshot `name`

inductive RepOut where
  | ok
  | refused
  | inadmissible        -- outside the protocol (never sent by controller, cleaner or harness)
  | data (vals : List Nat)
  | cloned (rev : Nat) (chain : List String) (vals : List Nat)   -- clone completed, replica RW in its volume
  | cloneFailed                                                   -- clone status "error", replica dropped

namespace Rep

def init (bs nb : Nat) : Rep :=
  { dd := DD.init bs nb, names := [], recs := [], orphans := [], isOpen := true, mode := .init, rev := 1,
    headN := 0, ckpt := "", rebuilding := false, maxChain := 0, stashHead := 0, staleJoin := false, stashCkpt := "", hasStash := false, recsUnknown := false, qDead := false, srcRev := 0, rb := 0 }

/-- payload of `w off len tag` at absolute unit `u` -/
def payload (off tag : Nat) (u : Nat) : Nat := tag * 1000000 + (u - off) + 1

/-- index (1-based file index) of a snapshot name in the chain, 0 if absent -/
def indexOf (r : Rep) (n : String) : Nat :=
  match r.names.idxOf? n with
  | some i => i + 1
  | none   => 0

/-- `readDiskData` on every construct: a recorded counter of at most 1 is replaced by the current one -/
def bumpRecs (r : Rep) : List Nat := r.recs.map fun x => if x ≤ 1 then r.rev else x

def chainLimit (r : Rep) : Nat := if r.maxChain = 0 then 1024 else r.maxChain

def inVolume (r : Rep) (off len : Nat) : Bool := off + len ≤ r.dd.nb * r.dd.bs

def step (r : Rep) : RepOp → Rep × RepOut
  | .write off len tag =>
    if !r.isOpen || !r.inVolume off len then (r, .refused) else
    match r.mode with
    | .rw   => ({ r with dd := r.dd.write off len (payload off tag), rev := r.rev + 1 }, .ok)
    | .wo   =>
      -- rb = 2: the rebuilt replica under a controller, which widens sub-block writes with the
      -- data of the RW replicas (equal to this replica's own image by `c07_identical`)
      ({ r with dd := if r.rb = 2 ∨ r.rb = 4 then r.dd.widenWrite r.dd.live off len (payload off tag)
                      else r.dd.write off len (payload off tag),
                srcRev := if r.rb = 2 ∨ r.rb = 4 then r.srcRev + 1 else r.srcRev }, .ok)
    | .init => (r, .refused)
  | .cwrite n tag =>
    if !r.isOpen || r.mode = .init then (r, .refused) else
    let blocks := List.range (min n r.dd.nb)
    let dd' := blocks.foldl (fun d b => d.write (b * d.bs) d.bs (payload 0 tag)) r.dd
    ({ r with dd := dd', rev := if r.mode = .rw then r.rev + n else r.rev }, .ok)
  | .read off len =>
    if !r.isOpen || !r.inVolume off len then (r, .refused) else
    let (dd', f) := r.dd.read off len
    ({ r with dd := dd' }, .data ((List.range len).map fun i => f (off + i)))
  | .snap n user =>
    if !r.isOpen then (r, .refused)
    else if r.dd.top + 2 > r.chainLimit then (r, .refused)     -- createDisk: "Too many active disks"
    else if r.indexOf n ≠ 0 then (r, .refused)
    else if r.orphans.contains n then
      -- linkDisk fails on the stale file and the cleanup removes it
      ({ r with orphans := r.orphans.erase n }, .refused)
    else ({ r with dd := r.dd.snapshot user, names := r.names ++ [n], recs := r.recs ++ [r.rev],
                   headN := r.headN + 1 }, .ok)
  | .mark n =>
    if !r.isOpen || r.mode ≠ .rw then (r, .refused) else
    let k := r.indexOf n
    if k = 0 then (r, .ok)                                   -- unknown name: nothing to do
    else if k + 1 = r.dd.top then (r, .refused)              -- latest snapshot
    else if k = 1 then (r, .refused)                         -- base
    else ({ r with dd := r.dd.markRemoved k }, .ok)
  | .coal n =>
    let k := r.indexOf n
    if k < 2 then (r, .refused) else ({ r with dd := r.dd.coalesce k }, .ok)
  | .rm n =>
    if !r.isOpen || r.mode ≠ .rw then (r, .refused) else
    let k := r.indexOf n
    if k = 0 then
      -- not in the chain: drains, then unlinks whatever file of that name exists
      ({ r with dd := r.dd.dropHoles, orphans := r.orphans.erase n }, .ok)
    else if k + 1 = r.dd.top then (r, .refused)
    else if k = 1 then (r, .inadmissible)                    -- RemoveDiffDisk of the base: never sent
    else ({ r with dd := r.dd.removeIdx k, names := r.names.eraseIdx (k - 1),
                   -- `updateParentRevisionCounter`: the parent takes over the removed disk's counter
                   recs := (r.recs.set (k - 2) (r.recs.getD (k - 1) 0)).eraseIdx (k - 1) }, .ok)
  | .revert n =>
    if !r.isOpen then (r, .refused) else
    let k := r.indexOf n
    if k = 0 then (r, .refused) else
    ({ r with dd := r.dd.revert k, names := r.names.take k,
              recs := ({ r with recs := r.recs.take k } : Rep).bumpRecs,
              orphans := r.orphans ++ r.names.drop k, headN := r.headN + 1 }, .ok)
  | .reopen pre =>
    if !r.isOpen then (r, .refused) else
    -- openLiveChain: "Live chain is too long" (unreachable unless the limit was lowered: createDisk
    -- refuses earlier)
    if r.dd.top > r.chainLimit then ({ r with dd := r.dd.dropHoles, isOpen := false, mode := .init }, .refused) else
    ({ r with dd := r.dd.reopen pre, mode := .init, recs := r.bumpRecs }, .ok)
  | .reload pre =>
    if !r.isOpen then (r, .refused) else
    ({ r with dd := (r.dd.setPunch true).reopen pre, recs := r.bumpRecs }, .ok)
  | .close =>
    if !r.isOpen then (r, .ok) else ({ r with dd := r.dd.dropHoles, isOpen := false, mode := .init }, .ok)
  | .open_ pre =>
    if r.isOpen then (r, .refused) else
    if r.dd.top > r.chainLimit then (r, .refused) else
    ({ r with dd := r.dd.reopen pre, isOpen := true, mode := .init, recs := r.bumpRecs }, .ok)
  | .resize nb =>
    if !r.isOpen || nb < r.dd.nb then (r, .refused) else ({ r with dd := r.dd.resize nb }, .ok)
  | .punch on => ({ r with dd := r.dd.setPunch on }, .ok)
  | .apply f b n => ({ r with dd := r.dd.applyRun f b n }, .ok)
  | .drop => ({ r with dd := r.dd.dropHoles }, .ok)
  | .setMode m =>
    if !r.isOpen || m = .init then (r, .refused) else ({ r with mode := m }, .ok)
  | .setRev n =>
    if !r.isOpen || r.mode ≠ .rw then (r, .refused) else ({ r with rev := n }, .ok)
  | .setRb b =>
    -- only an open replica that is not yet marked can be marked, only a marked one unmarked
    -- (Server.SetRebuilding: Open / Dirty -> Rebuilding, Rebuilding -> Open); the flag is part of
    -- volume.meta and survives close / reopen; no engine operation looks at it
    if !r.isOpen || r.rb ≠ 0 || (b == r.rebuilding) then (r, .refused) else ({ r with rebuilding := b }, .ok)
  | .setCkpt s =>
    if !r.isOpen then (r, .refused) else ({ r with ckpt := s }, .ok)
  | .stash => if r.isOpen || r.rb ≠ 0 then (r, .refused) else ({ r with stashHead := r.headN, stashCkpt := r.ckpt, hasStash := true }, .ok)
  | .rbBegin n stale =>
    if !r.isOpen || r.rb ≠ 0 || r.mode ≠ .rw || r.indexOf n ≠ 0 || r.orphans.contains n then (r, .refused) else
    -- a replica that comes back with its old directory is synced only if the checkpoint recorded there
    -- is still a member of the source's chain (sync.isRevisionCountAndChainSame refuses it otherwise and
    -- nothing is promoted): the harness never lets such a replica rejoin
    if stale && !r.hasStash then (r, .inadmissible) else
    -- a replica whose own rebuild was cut short is still marked as rebuilding: sync resets that mark
    -- (checkAndResetFailedRebuild) before anything else; the harness never starts a volume from it
    if r.rebuilding then (r, .inadmissible) else
    if stale && r.stashCkpt ≠ "" && !(r.names.any fun x => "volume-snap-" ++ x ++ ".img" = r.stashCkpt) then (r, .inadmissible) else
    -- Controller.Start opens the (closed) replica with preload and makes it RW; AddReplica then takes
    -- the automatic snapshot on every replica
    ({ r with dd := (r.dd.reopen true).snapshot false, names := r.names ++ [n], recs := r.bumpRecs ++ [r.rev],
              headN := r.headN + 1, rb := 1, qDead := false, staleJoin := stale, recsUnknown := r.recsUnknown || stale }, .ok)
  | .rbReload =>
    if r.rb ≠ 1 || !r.isOpen then (r, .refused) else
    -- from here on the replica under test is the rebuilt one: the source's snapshot files, its own
    -- head (which received every write since the common snapshot), a fresh location map
    -- (mode WO, its own revision counter, which a WO replica does not advance)
    ({ r with dd := (r.dd.setPunch true).reopen false, headN := if r.staleJoin then r.stashHead + 1 else 1,
              orphans := [], ckpt := "", rb := 2,
              mode := .wo, srcRev := r.rev, rev := 1 }, .ok)
  | .lunmap =>
    if !r.isOpen then (r, .refused) else ({ r with dd := r.dd.lunmap, rb := if r.rb = 2 then 4 else r.rb }, .ok)
  | .rbPromote =>
    if r.rb ≠ 4 || !r.isOpen then (r, .refused) else
    -- (only after `UpdateLUNMap`, as in sync.reloadAndVerify) all three replicas are RW again: UpdateCheckpoint records the newest snapshot everywhere
    ({ r with mode := .rw, rev := r.srcRev, rb := 3,
              ckpt := match r.names.getLast? with | some n => "volume-snap-" ++ n ++ ".img" | none => "" }, .ok)
  | .maxChainSet n => ({ r with maxChain := n }, .ok)
  | .replace _ _ =>
    if !r.isOpen || r.mode ≠ .rw then (r, .refused) else (r, .inadmissible)
  | .clone n =>
    if !r.isOpen || r.rb ≠ 0 then (r, .refused) else
    let k := r.indexOf n
    if k = 0 then (r, .cloneFailed) else
    let c := r.dd.cloneOf k
    (r, .cloned (r.recs.getD (k - 1) 0) (r.names.take k)
          ((List.range (c.nb * c.bs)).map fun u => c.readUnit u))
  | .rbEnd =>
    if r.rb = 0 then (r, .refused) else
    ({ r with dd := r.dd.dropHoles, isOpen := false, mode := .init, rb := 0,
              rebuilding := r.rebuilding || r.rb = 2 || r.rb = 4 }, .ok)

def run (r : Rep) : List RepOp → Rep
  | []        => r
  | op :: ops => run (r.step op).1 ops

end Rep
end Jiva
