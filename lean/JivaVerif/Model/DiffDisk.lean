/-
  Model of jiva's replica block engine (replica/diff_disk.go, replica/backup.go,
  the chain part of replica/replica.go and replica/server.go).

  Granularity.  A *unit* is the smallest addressable piece of data (the harness
  instantiates it with the 512-byte sector); a *block* is `bs` units (the 4 KiB
  `sectorSize` of diffDisk).  A chain file is a sparse map: which blocks are
  allocated (what FIEMAP reports / what `fallocate(PUNCH_HOLE)` clears) and the
  unit contents of the allocated blocks.  Everything is a total function, so the
  model is executable and proofs are by `funext`/case analysis + `omega`.

  Index convention (as in the Go code): index 0 is the nil slot, 1 the base
  snapshot, `top` the active head.  Files above `top` are empty.

  Per-block, set-valued treatment of hole punching.  The Go loops coalesce
  blocks into runs before queueing a punch request.  The model queues one entry
  `(file, block)` per block; the harness flattens the Go requests to the same
  form before comparing, so a wrong file or a wrong offset in a run shows up as
  a disagreement on this set.
-/
namespace Jiva

/-- A sparse chain file. -/
structure File (β : Type) where
  alloc : Nat → Bool
  data  : Nat → β

namespace File
variable {β : Type} [Inhabited β]

def empty : File β := ⟨fun _ => false, fun _ => default⟩

/-- Value of unit `u` as a reader sees it: holes read as zero. -/
def get (f : File β) (bs u : Nat) : β := if f.alloc (u / bs) then f.data u else default

/-- Write whole blocks `[s, s+n)` taking the data from `buf` (absolute unit offsets). -/
def writeBlocks (f : File β) (bs s n : Nat) (buf : Nat → β) : File β :=
  ⟨fun b => if s ≤ b ∧ b < s + n then true else f.alloc b,
   fun u => if s ≤ u / bs ∧ u / bs < s + n then buf u else f.data u⟩

/-- Punch one block. -/
def punch (f : File β) (b : Nat) : File β :=
  ⟨fun b' => if b' = b then false else f.alloc b', f.data⟩

/-- `sfold child parent`: every allocated block of the child is copied onto the parent. -/
def fold (parent child : File β) : File β :=
  ⟨fun b => child.alloc b || parent.alloc b,
   fun u => parent.data u⟩

end File

/-- The differencing disk plus the ground truth about its snapshots that lives
    in the per-disk metadata (`uc` = UserCreated, `rm` = Removed). -/
structure DD (β : Type) where
  bs      : Nat                 -- units per block
  nb      : Nat                 -- len(location)
  top     : Nat                 -- len(files) - 1
  files   : Nat → File β
  loc     : Nat → Nat           -- location[]
  marks   : Nat → Bool          -- UserCreatedSnap[]
  snapIdx : Nat                 -- SnapIndx
  uc      : Nat → Bool          -- disk metadata: UserCreated
  rm      : Nat → Bool          -- disk metadata: Removed
  pend    : List (Nat × Nat)    -- queued punch requests, one per (file index, block)
  punch   : Bool                -- types.ShouldPunchHoles

namespace DD
variable {β : Type} [Inhabited β]

/-- A freshly created replica: nil slot and an empty head. -/
def init (bs nb : Nat) : DD β :=
  { bs := bs, nb := nb, top := 1, files := fun _ => File.empty, loc := fun _ => 0,
    marks := fun _ => false, snapIdx := 0, uc := fun _ => false, rm := fun _ => false,
    pend := [], punch := false }

/-- retained user-created snapshot -/
def ur (d : DD β) (i : Nat) : Bool := d.uc i && !d.rm i

/-- What is visible at unit `u` through layers `1..i` (topmost holder wins, else zero). -/
def viewUpTo (files : Nat → File β) (bs : Nat) : Nat → Nat → β
  | 0,     _ => default
  | i + 1, u => if (files (i + 1)).alloc (u / bs) then (files (i + 1)).data u
                else viewUpTo files bs i u

def view (d : DD β) (i u : Nat) : β := viewUpTo d.files d.bs i u
def live (d : DD β) (u : Nat) : β := d.view d.top u

/-! ### lookup (with memoisation) -/

/-- The top-down scan of `lookup`: index 1 is returned without asking FIEMAP. -/
def scan (files : Nat → File β) (b : Nat) : Nat → Nat
  | 0     => 0
  | 1     => 1
  | i + 2 => if (files (i + 2)).alloc b then i + 2 else scan files b (i + 1)

/-- Result of `lookup b`. -/
def idx (d : DD β) (b : Nat) : Nat :=
  if d.nb ≤ b then d.top
  else if d.top = 1 then 1
  else if d.loc b ≠ 0 then d.loc b
  else scan d.files b d.top

/-- State after `lookup b` (the memoising side effect). -/
def memo (d : DD β) (b : Nat) : DD β :=
  if d.nb ≤ b then d
  else if d.top = 1 then d
  else if d.loc b ≠ 0 then d
  else { d with loc := fun b' => if b' = b then scan d.files b d.top else d.loc b' }

/-- `lookup` over the blocks `b0, b0+1, …, b0+cnt-1`. -/
def memoRange (d : DD β) (b0 : Nat) : Nat → DD β
  | 0       => d
  | cnt + 1 => (memoRange d b0 cnt).memo (b0 + cnt)

/-- Value `ReadAt` returns for unit `u`. -/
def readUnit (d : DD β) (u : Nat) : β := (d.files (d.idx (u / d.bs))).get d.bs u

/-- Number of blocks touched by the unit range `[off, off+len)`. -/
def blocksTouched (bs off len : Nat) : Nat :=
  if len = 0 then 0 else (off + len - 1) / bs - off / bs + 1

/-- `diffDisk.ReadAt`: the state after the lookups, and the data. -/
def read (d : DD β) (off len : Nat) : DD β × (Nat → β) :=
  (d.memoRange (off / d.bs) (blocksTouched d.bs off len), fun u => d.readUnit u)

/-! ### writes -/

/-- The punch requests `fullWriteAt` queues for blocks `[s, s+n)`. -/
def writeHoles (d : DD β) (s : Nat) : Nat → List (Nat × Nat)
  | 0     => []
  | n + 1 =>
    let b := s + n
    let v := d.loc b
    let rest := writeHoles d s n
    if v ≠ 0 ∧ v ≠ d.top ∧ d.snapIdx < v ∧ d.punch then rest ++ [(v, b)] else rest

/-- `fullWriteAt` on whole blocks `[s, s+n)`; `buf` is indexed by absolute unit offset. -/
def fullWrite (d : DD β) (s n : Nat) (buf : Nat → β) : DD β :=
  { d with
    files := fun i => if i = d.top then (d.files d.top).writeBlocks d.bs s n buf else d.files i
    loc   := fun b => if s ≤ b ∧ b < s + n then d.top else d.loc b
    pend  := d.pend ++ writeHoles d s n }

/-- `readModifyWrite`: units `[off, off+len)` lie inside one block. -/
def rmw (d : DD β) (off len : Nat) (buf : Nat → β) : DD β :=
  if len = 0 then d else
  let b  := off / d.bs
  let d1 := d.memo b
  let old := fun u => d.readUnit u
  d1.fullWrite b 1 (fun u => if off ≤ u ∧ u < off + len then buf u else old u)

/-- `diffDisk.WriteAt` with its three-way split. -/
def write (d : DD β) (off len : Nat) (buf : Nat → β) : DD β :=
  let startOffset := off % d.bs
  let startCut    := d.bs - startOffset
  let endOffset   := (len + off) % d.bs
  if len = 0 then d
  else if startOffset = 0 ∧ endOffset = 0 then d.fullWrite (off / d.bs) (len / d.bs) buf
  else if len ≤ startCut then d.rmw off len buf
  else
    let d1 := d.rmw off startCut buf
    let d2 := d1.fullWrite ((off + startCut) / d.bs) ((len - startCut - endOffset) / d.bs) buf
    d2.rmw (off + len - endOffset) endOffset buf

/-! ### the controller's widening of sub-block writes while a WO replica is attached
(`Controller.widenForWONoLock`): the request is extended to block boundaries, the surrounding units
being read from an RW replica first. -/

def wStart (bs off : Nat) : Nat := off - off % bs
def wEnd (bs off len : Nat) : Nat :=
  if (off + len) % bs = 0 then off + len else off + len + (bs - (off + len) % bs)

/-- the widened buffer: the caller's units, around them what the volume holds (`src` is the value an
    RW replica returns for the unit) -/
def widenBuf (src : Nat → β) (off len : Nat) (buf : Nat → β) : Nat → β :=
  fun u => if off ≤ u ∧ u < off + len then buf u else src u

/-- what a replica receives for the request `(off, len, buf)` while a WO replica is attached -/
def widenWrite (d : DD β) (src : Nat → β) (off len : Nat) (buf : Nat → β) : DD β :=
  if len = 0 then d
  else d.write (wStart d.bs off) (wEnd d.bs off len - wStart d.bs off) (widenBuf src off len buf)

/-! ### chain operations -/

/-- `createDisk`: the head becomes a snapshot, a new empty head is appended. -/
def snapshot (d : DD β) (user : Bool) : DD β :=
  { d with
    top     := d.top + 1
    marks   := fun i => if i = d.top + 1 then user else d.marks i
    snapIdx := if user then d.top else d.snapIdx
    uc      := fun i => if i = d.top then user else if i = d.top + 1 then false else d.uc i
    rm      := fun i => if i = d.top ∨ i = d.top + 1 then false else d.rm i }

/-- `markDiskAsRemoved`. -/
def markRemoved (d : DD β) (k : Nat) : DD β :=
  { d with rm := fun i => if i = k then true else d.rm i }

/-- `sfold files[k] files[k-1]`. -/
def coalesce (d : DD β) (k : Nat) : DD β :=
  { d with files := fun i => if i = k - 1 then
      ⟨fun b => (d.files k).alloc b || (d.files (k - 1)).alloc b,
       fun u => if (d.files k).alloc (u / d.bs) then (d.files k).data u else (d.files (k - 1)).data u⟩
    else d.files i }

/-- maximum marked index `≤ i`, 0 if none -/
def lastMark (marks : Nat → Bool) : Nat → Nat
  | 0     => 0
  | i + 1 => if marks (i + 1) then i + 1 else lastMark marks i

def shift (k : Nat) (f : Nat → α) : Nat → α := fun i => if i < k then f i else f (i + 1)

/-- `RemoveDiffDisk` of index `k` (after the drain): `RemoveIndex` + metadata. -/
def removeIdx (d : DD β) (k : Nat) : DD β :=
  let marks' := shift k d.marks
  { d with
    top     := d.top - 1
    files   := shift k d.files
    loc     := fun b => if k ≤ d.loc b then d.loc b - 1 else d.loc b
    marks   := marks'
    snapIdx := if lastMark marks' (d.top - 1) = 0 then d.snapIdx else lastMark marks' (d.top - 1)
    uc      := shift k d.uc
    rm      := shift k d.rm
    pend    := [] }

/-- The reclaimer applies the `i`-th queued request. -/
def applyHole (d : DD β) (i : Nat) : DD β :=
  match d.pend[i]? with
  | none        => d
  | some (f, b) =>
    { d with files := fun j => if j = f then (d.files f).punch b else d.files j
             pend  := d.pend.eraseIdx i }

/-- The reclaimer applies the first queued request for block `b` of file `f` (if any). -/
def applyFB (d : DD β) (f b : Nat) : DD β :=
  match d.pend.idxOf? (f, b) with
  | some i => d.applyHole i
  | none   => d

/-- … for a run of `n` blocks starting at `b` (one Go `Hole`). -/
def applyRun (d : DD β) (f b : Nat) : Nat → DD β
  | 0     => d
  | n + 1 => (applyRun d f b n).applyFB f (b + n)

def dropHoles (d : DD β) : DD β := { d with pend := [] }

/-- one block of `preload`: walk the files `1..i`, `cur` = location so far. -/
def preloadBlock (d : DD β) (b : Nat) : Nat → Nat × List (Nat × Nat)
  | 0     => (0, [])
  | i + 1 =>
    let r := preloadBlock d b i
    if (d.files (i + 1)).alloc b then
      (i + 1, if r.1 ≠ 0 ∧ lastMark d.marks (i + 1) < r.1 ∧ d.punch then r.2 ++ [(r.1, b)] else r.2)
    else r

def preloadHoles (d : DD β) : Nat → List (Nat × Nat)
  | 0     => []
  | b + 1 => preloadHoles d b ++ (preloadBlock d b d.top).2

/-- `preload` on a fresh (all-zero) location map. -/
def preload (d : DD β) : DD β :=
  { d with loc  := fun b => if b < d.nb then (preloadBlock d b d.top).1 else 0
           pend := d.pend ++ preloadHoles d d.nb }

/-- `Server.UpdateLUNMap` (no I/O between its preload pass and the merge): the extents are scanned
    into a private map, unknown entries of the live map are filled from it, and where the live map
    already points above the scanned owner the scanned owner's copy is queued for punching. -/
def lunmap (d : DD β) : DD β :=
  -- `preloadBlock` / `preloadHoles` read only the files, the markers and the punch switch, i.e. they
  -- describe the scan into the private (initially empty) map
  let locP := fun b => if b < d.nb then (preloadBlock d b d.top).1 else 0
  let merge := (List.range d.nb).filterMap fun b =>
    if locP b ≠ 0 ∧ locP b < d.loc b ∧ lastMark d.marks d.top < locP b ∧ d.punch then some (locP b, b) else none
  { d with loc  := fun b => if d.loc b ≠ 0 then d.loc b else locP b
           pend := d.pend ++ preloadHoles d d.nb ++ merge }

/-- `Server.UpdateLUNMap` with foreground I/O between its preload pass and the merge: the extents
    were scanned in state `d0` (the lock is released during the scan), `d` is the state when the lock
    is taken again for the merge.  Where the live map meanwhile points above the scanned owner, the
    scanned owner's copy is queued for punching — unless a retained user-created snapshot would lose it. -/
def lunmapAfter (d0 d : DD β) : DD β :=
  let locP := fun b => if b < d0.nb then (preloadBlock d0 b d0.top).1 else 0
  let merge := (List.range d.nb).filterMap fun b =>
    if locP b ≠ 0 ∧ locP b < d.loc b ∧ lastMark d.marks d.top < locP b ∧ d.punch then some (locP b, b) else none
  { d with loc  := fun b => if d.loc b ≠ 0 then d.loc b else locP b
           pend := d.pend ++ preloadHoles d0 d0.nb ++ merge }

theorem lunmapAfter_self (d : DD β) : d.lunmapAfter d = d.lunmap := rfl

/-- `construct` on an existing directory (Close+Open, Reload, and the tail of Revert). -/
def reopen (d : DD β) (pre : Bool) : DD β :=
  let d0 : DD β := { d with loc := fun _ => 0, marks := d.uc, snapIdx := lastMark d.uc d.top, pend := [] }
  if pre then d0.preload else d0

/-- A clone of the snapshot at index `k` (`sync.Task.CloneReplica`): the files of `k` and of its
    ancestors with their metadata are copied under a fresh replica, `UpdateCloneInfo` makes `k` the
    parent of its empty head, the replica is reloaded without preload and `UpdateLUNMap` builds its
    location map. -/
def cloneOf (d : DD β) (k : Nat) : DD β :=
  (({ d with files := fun i => if i ≤ k then d.files i else File.empty
             top   := k + 1
             uc    := fun i => if i ≤ k then d.uc i else false
             rm    := fun i => if i ≤ k then d.rm i else false } : DD β).reopen false).lunmap

/-- `revertDisk` to the snapshot at index `k`: a new head on top of it, then Reload(true). -/
def revert (d : DD β) (k : Nat) : DD β :=
  let d0 : DD β := { d with
    top   := k + 1
    files := fun i => if i ≤ k then d.files i else File.empty
    uc    := fun i => if i ≤ k then d.uc i else false
    rm    := fun i => if i ≤ k then d.rm i else false }
  d0.reopen true

/-- `Resize` (grow): the location map is extended with unknowns. -/
def resize (d : DD β) (nb' : Nat) : DD β := { d with nb := nb' }

def setPunch (d : DD β) (p : Bool) : DD β := { d with punch := p }

/-- File `k` has been folded into `k-1` (what `sfold` establishes and `RemoveDiffDisk` relies on). -/
def Coalesced (d : DD β) (k : Nat) : Prop :=
  ∀ u, (d.files k).alloc (u / d.bs) = true →
    (d.files (k - 1)).alloc (u / d.bs) = true ∧ (d.files (k - 1)).data u = (d.files k).data u

end DD
end Jiva
