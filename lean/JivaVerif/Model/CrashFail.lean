import JivaVerif.Model.Crash
/-
  The chain-changing operations of a replica directory WITH their error handling
  (replica/replica.go: createDisk and its deferred clean-up, createNewHead, linkDisk, rmDisk,
  revertDisk, removeDiskNode / RemoveDiffDisk, encodeToFile), for the second half of C08: one
  file-system call of the operation fails (disk full, I/O error).

  An operation is a tree: every call continues one way when it succeeds and another way when it
  fails (`Prog`).  A failing call has no effect on the directory (the kernel's atomicity of a single
  call, as in `Model/Crash.lean`); at most one call of a run fails — the quantifier of the property.
-/
namespace Jiva.Crash

inductive Prog where
  | ret (ok : Bool)                              -- the operation returns: success / an error
  | call (c : Call) (onOk onFail : Prog)

/-- The calls that took effect, in order, and the result, when the `n`-th call the operation issues
    (counting from 0) fails; `none`: no call fails. -/
def flow : Prog → Option Nat → List Call × Bool
  | .ret ok, _ => ([], ok)
  | .call _ _ onFail, some 0 => flow onFail none
  | .call c onOk _, some (n + 1) => (c :: (flow onOk (some n)).1, (flow onOk (some n)).2)
  | .call c onOk _, none => (c :: (flow onOk none).1, (flow onOk none).2)

/-- every call issued, the failing one marked `false` (what a system-call trace of the run shows) -/
def trace : Prog → Option Nat → List (Call × Bool)
  | .ret _, _ => []
  | .call c _ onFail, some 0 => (c, false) :: trace onFail none
  | .call c onOk _, some (n + 1) => (c, true) :: trace onOk (some n)
  | .call c onOk _, none => (c, true) :: trace onOk none

/-- the directory and the result after the run -/
def exec (p : Prog) (fs : FS) (f : Option Nat) : FS × Bool := (run fs (flow p f).1, (flow p f).2)

/-- number of calls on the path on which nothing fails -/
def spine : Prog → Nat
  | .ret _ => 0
  | .call _ onOk _ => spine onOk + 1

/-- straight-line code: `(call, what happens when it fails)` in order, then `k` -/
def chain : List (Call × Prog) → Prog → Prog
  | [], k => k
  | (c, h) :: rest, k => .call c (chain rest k) h

/-! ### building blocks, as in the source -/

/-- `rmDisk(name)`: unlink the data file, unlink the metadata, flush the directory; the first
    failure ends it (`ENOENT` is not a failure) -/
def rmDiskP (name : String) (kOk kFail : Prog) : Prog :=
  .call (.unlink (.img name)) (.call (.unlink (.dmeta name)) (.call .fsyncDir kOk kFail) kFail) kFail

/-- `encodeToFile` -/
def encodeP (tmp dst : Key) (e : Ent) (kOk kFail : Prog) : Prog :=
  .call (.create tmp .incomplete) (.call (.write tmp e) (.call (.rename tmp dst) (.call .fsyncDir kOk kFail) kFail) kFail) kFail

/-- the deferred clean-up of `createDisk` when it did not finish: `rmDisk(newHead)`, then
    `rmDisk(newSnap)` (errors are logged), and the error is returned -/
def cleanupAll (newHead snap : String) : Prog :=
  rmDiskP newHead (rmDiskP snap (.ret false) (.ret false)) (rmDiskP snap (.ret false) (.ret false))

/-- `createNewHead` failed after it knew the new head's name: `rmDisk(newHead)`, error -/
def cleanupHead (newHead : String) : Prog := rmDiskP newHead (.ret false) (.ret false)

/-- `createDisk` (snapshot).  The first open of the new head is a probe without `O_CREAT` whose
    failure is expected; `createNewHead` returns the zero `disk{}` for a failure before the
    metadata is written, so nothing is removed then; from `linkDisk` on the deferred clean-up runs;
    a failure of the rewrite of `volume.meta` first puts the old content back (fix 8f81c09). -/
def snapshotE (oldHead newHead snap oldParent : String) (newIno : Nat) : Prog :=
  let cAll := cleanupAll newHead snap
  let commit : Prog := rmDiskP oldHead (.ret true) (.ret true)     -- done: errors of the last rmDisk are logged
  let restore : Prog := encodeP .volTmp .vol (.volume oldHead) cAll cAll
  let rest : Prog :=
    chain [(.create (.img newHead) (.data newIno), .ret false), (.truncate (.img newHead), .ret false)]
      (encodeP (.dmetaTmp newHead) (.dmeta newHead) (.disk snap)
        (chain [(.link (.img oldHead) (.img snap), cAll), (.link (.dmeta oldHead) (.dmeta snap), cAll), (.fsyncDir, cAll)]
          (encodeP (.dmetaTmp snap) (.dmeta snap) (.disk oldParent)
            (encodeP .volTmp .vol (.volume newHead) commit restore)
            cAll))
        (cleanupHead newHead))
  .call .fsyncDir (.call (.create (.img newHead) (.data newIno)) rest rest) (.ret false)

/-- `revertDisk`: `createNewHead` (no clean-up on failure: a stale head file stays), the rewrite of
    `volume.meta` (on failure the old content is put back), `rmDisk(oldHead)`, then `Reload`, which
    rewrites `volume.meta` once more; failures after the commit are reported although the revert
    has happened. -/
def revertE (oldHead newHead target : String) (newIno : Nat) : Prog :=
  let restore : Prog := encodeP .volTmp .vol (.volume oldHead) (.ret false) (.ret false)
  let rest : Prog :=
    chain [(.create (.img newHead) (.data newIno), .ret false), (.truncate (.img newHead), .ret false)]
      (encodeP (.dmetaTmp newHead) (.dmeta newHead) (.disk target)
        (encodeP .volTmp .vol (.volume newHead)
          (rmDiskP oldHead (encodeP .volTmp .vol (.volume newHead) (.ret true) (.ret false)) (.ret false))
          restore)
        (.ret false))
  .call (.create (.img newHead) (.data newIno)) rest rest

/-- `RemoveDiffDisk`: `removeDiskNode` ends the process (`logrus.Fatalf`) when one of its two
    metadata rewrites fails — that is process death after a prefix, the first half of C08 — and
    `rmDisk` reports its error. -/
def removeE (name child parent grand : String) : Prog :=
  encodeP (.dmetaTmp child) (.dmeta child) (.disk parent)
    (encodeP (.dmetaTmp parent) (.dmeta parent) (.disk grand)
      (rmDiskP name (.ret true) (.ret false)) (.ret false))
    (.ret false)

/-- every other metadata change is one `encodeToFile` -/
def updateE (tmp dst : Key) (e : Ent) : Prog := encodeP tmp dst e (.ret true) (.ret false)

end Jiva.Crash
