/-
  Lock discipline (C14: "no request leaves the process dead-locked or leaves a lock held").

  `Generated/Locks.lean` lists, for every function of the controller, the replica and their REST
  servers that handles a mutex, the distinct sequences of lock events along its control-flow paths
  (regenerated from the source on every run by /verif/extract/locks.go).  This file is the checker
  those sequences are run through: a sequence is accepted when, read from left to right with nothing
  held at the start,
    * `Lock` never finds the lock already held by this path (sync.Mutex / RWMutex are not re-entrant:
      the goroutine would block forever),
    * `Unlock` / `RUnlock` always find the lock held (unlocking an unlocked mutex is a fatal error of
      the Go runtime),
    * `RLock` is not taken under the write lock of the same mutex,
    * a callee that takes the lock is not called while this path holds it,
    * nothing is held at the end (deferred unlocks are part of the sequence).
-/
namespace Jiva.Locks

structure Held where
  w : List Nat      -- write-locked
  r : List Nat      -- read-locked (with multiplicity)
  deriving DecidableEq, Repr

def step (h : Held) : Nat × Nat → Option Held
  | (0, l) => if h.w.contains l || h.r.contains l then none else some { h with w := l :: h.w }
  | (1, l) => if h.w.contains l then some { h with w := h.w.erase l } else none
  | (2, l) => if h.w.contains l then none else some { h with r := l :: h.r }
  | (3, l) => if h.r.contains l then some { h with r := h.r.erase l } else none
  | (4, l) => if h.w.contains l || h.r.contains l then none else some h
  | (5, l) => if h.w.contains l then none else some h
  | _ => none

def run : Held → List (Nat × Nat) → Option Held
  | h, [] => some h
  | h, e :: es => match step h e with
    | some h' => run h' es
    | none => none

def pathOk (p : List (Nat × Nat)) : Bool :=
  match run ⟨[], []⟩ p with
  | some h => h.w.isEmpty && h.r.isEmpty
  | none => false

def allOk (fs : List (String × List (List (Nat × Nat)))) : Bool := fs.all fun f => f.2.all pathOk

/-- the functions with a sequence the checker rejects (for the replay of a violation) -/
def offenders (fs : List (String × List (List (Nat × Nat)))) : List (String × List (Nat × Nat)) :=
  fs.flatMap fun f => (f.2.filter fun p => !pathOk p).map fun p => (f.1, p)

end Jiva.Locks
