import JivaVerif.Model.Locks
import JivaVerif.Generated.Locks
/-!
# C14 — lock discipline of the management paths (the part of C14 that is proved)

The property also forbids panics and process exits; those are searched for by `restdiff`
(exploration).  What is proved here: along every control-flow path (loops taken zero times or once)
of every function that handles a mutex in the controller, the replica and their REST servers, no
lock is left held, no lock is taken twice, nothing is unlocked that is not held, and no function
that takes a lock is called while the caller holds it.  The event sequences are regenerated from
/repo's working tree on every run; the statement is evaluated by the kernel on them.
-/
namespace Jiva.Locks

theorem run_append (h : Held) (a b : List (Nat × Nat)) :
    run h (a ++ b) = match run h a with | some h' => run h' b | none => none := by
  induction a generalizing h with
  | nil => rfl
  | cons e es ih =>
    simp only [List.cons_append, run]
    cases step h e with
    | none => rfl
    | some h' => exact ih h'

/-- what acceptance means, spelled out: every `Unlock` of an accepted sequence finds its lock held … -/
theorem c14_unlock_finds_held (p pre post : List (Nat × Nat)) (l : Nat) (hp : pathOk p = true)
    (e : p = pre ++ (1, l) :: post) : ∃ h, run ⟨[], []⟩ pre = some h ∧ h.w.contains l = true := by
  subst e
  unfold pathOk at hp
  rw [run_append] at hp
  cases hr : run ⟨[], []⟩ pre with
  | none => rw [hr] at hp; simp at hp
  | some h =>
    refine ⟨h, rfl, ?_⟩
    rw [hr] at hp
    simp only [run, step] at hp
    by_cases hc : h.w.contains l = true
    · exact hc
    · have hm : ¬ l ∈ h.w := by simpa using hc
      simp [hm] at hp

/-- … every `Lock` finds it free (no self-dead-lock) … -/
theorem c14_lock_finds_free (p pre post : List (Nat × Nat)) (l : Nat) (hp : pathOk p = true)
    (e : p = pre ++ (0, l) :: post) : ∃ h, run ⟨[], []⟩ pre = some h ∧ h.w.contains l = false ∧ h.r.contains l = false := by
  subst e
  unfold pathOk at hp
  rw [run_append] at hp
  cases hr : run ⟨[], []⟩ pre with
  | none => rw [hr] at hp; simp at hp
  | some h =>
    refine ⟨h, rfl, ?_⟩
    rw [hr] at hp
    simp only [run, step] at hp
    by_cases hc : (h.w.contains l || h.r.contains l) = true
    · have hm : l ∈ h.w ∨ l ∈ h.r := by simpa using hc
      simp [hm] at hp
    · simpa using hc

/-- … and nothing is held at the end. -/
theorem c14_nothing_held_at_exit (p : List (Nat × Nat)) (hp : pathOk p = true) :
    run ⟨[], []⟩ p = some ⟨[], []⟩ := by
  unfold pathOk at hp
  cases hr : run ⟨[], []⟩ p with
  | none => rw [hr] at hp; simp at hp
  | some h =>
    rw [hr] at hp
    obtain ⟨w, r⟩ := h
    simp at hp
    simp [hp.1, hp.2]

/-- **C14 (lock discipline).** Every lock-event sequence of every function of the current source is
    accepted. -/
theorem c14_locks_balanced : allOk Gen.lockPaths = true := by decide

/-- every function that handles a lock is covered: none uses a construct the enumeration cannot follow -/
theorem c14_locks_all_analysed : Gen.lockSkipped = [] := by decide

/-- the checker rejects what it must: a path that returns with the lock held (seed C14b), a double
    unlock (defect g), a locking callee under the lock (defect h) — tests -/
example : pathOk [(0, 0)] = false ∧ pathOk [(0, 0), (1, 0), (1, 0)] = false ∧ pathOk [(0, 0), (5, 0), (1, 0)] = false ∧
    pathOk [(0, 0), (0, 0), (1, 0), (1, 0)] = false ∧ pathOk [(2, 0), (2, 0), (3, 0), (3, 0)] = true := by decide

end Jiva.Locks
