import JivaVerif.Properties.C08
import JivaVerif.Model.CrashFail
/-!
# C08, second half — one failing file-system call

"When instead one file-system call of the operation fails (disk full, I/O error), the operation
either still completes with its effect in place or reports the failure with the old state intact —
it never reports success over damaged metadata."

`Model/CrashFail.lean` gives the chain-changing operations with their error handling as trees
(`Prog`).  For EVERY position of the failing call (`f : Option Nat`, no bound) and every directory
in which the old chain is recoverable:

* `c08_snapshot_fault` — `createDisk`: success ⇒ the directory recovers to the chain with the new
  snapshot; an error ⇒ it recovers to the chain before (needed fix 8f81c09);
* `c08_revert_fault` — `revertDisk`: success ⇒ the reverted chain; an error ⇒ the chain before or the
  reverted chain (a failure after the commit point is reported although the revert has happened:
  observed, DESIGN §6.2), and the chain before whenever the failing call precedes the commit;
* `c08_remove_fault` — `RemoveDiffDisk`: success ⇒ the chain without the member; otherwise before or
  after;
* `c08_update_fault` — any other metadata change (`encodeToFile`): success ⇒ new content; an error ⇒
  old or new content, never a partial one.

The tie: `crashdiff` makes every call of the real operations fail (strace fault injection) and
compares the calls the real code then issues, and its result, with `trace` / `flow` of these trees.
-/
namespace Jiva.Crash

/-! ### generic facts about `flow` -/

theorem flow_ge (p : Prog) : ∀ n, spine p ≤ n → flow p (some n) = flow p none := by
  induction p with
  | ret ok => intro n _; rfl
  | call c a b iha _ =>
    intro n hn
    match n, hn with
    | m + 1, hn =>
      have := iha m (by simp [spine] at hn; omega)
      simp [flow, this]

/-- a failure position beyond the calls the operation issues is no failure -/
theorem flow_cases (p : Prog) (f : Option Nat) :
    flow p f = flow p none ∨ ∃ i, i < spine p ∧ f = some i := by
  cases f with
  | none => exact Or.inl rfl
  | some i =>
    by_cases h : i < spine p
    · exact Or.inr ⟨i, h, rfl⟩
    · exact Or.inl (flow_ge p i (by omega))

/-- recoverability of a chain depends only on the keys it is read from -/
theorem recovers_congr (fs fs' : FS) (c : List (String × Nat)) (h : Recovers fs c)
    (e : ∀ k, Uses c k → get fs' k = get fs k) : Recovers fs' c := by
  obtain ⟨hd, hv, hc⟩ := h
  refine ⟨hd, (e .vol (Or.inl rfl)).trans hv, ?_⟩
  apply isChain_congr fs _ hd c hc
  intro x hx
  exact ⟨e _ (Or.inr ⟨x, hx, Or.inl rfl⟩), e _ (Or.inr ⟨x, hx, Or.inr rfl⟩)⟩

theorem apply_create_idem (fs : FS) (k : Key) (e : Ent) :
    apply (apply fs (.create k e)) (.create k e) = apply fs (.create k e) := by
  have : ∃ x, get (apply fs (.create k e)) k = some x := by
    rw [apply_create]; split
    · rename_i x hx; exact ⟨x, hx⟩
    · exact ⟨e, get_put_same fs k e⟩
  obtain ⟨x, hx⟩ := this
  conv => lhs; rw [apply_create]
  rw [hx]

theorem run_dup_create (fs : FS) (pre : Call) (k : Key) (e : Ent) (rest : List Call) :
    run fs (pre :: .create k e :: rest) = run fs (pre :: .create k e :: .create k e :: rest) := by
  simp only [run_cons]; rw [apply_create_idem]

theorem snapshotProg_shape (a b c d : String) (i : Nat) : snapshotProg a b c d i =
    .fsyncDir :: .create (.img b) (.data i) :: .create (.img b) (.data i) :: (snapshotProg a b c d i).drop 3 := by
  simp [snapshotProg, encode]

theorem take_all {α : Type} (l : List α) (n : Nat) (h : l.length ≤ n) : l.take n = l := List.take_of_length_le h

/-! ### snapshot creation -/

/-- the files a snapshot creates -/
def newKeys (newHead snap : String) : List Key :=
  [.img newHead, .dmeta newHead, .dmetaTmp newHead, .img snap, .dmeta snap, .dmetaTmp snap, .volTmp]

/-- the calls of the deferred clean-up -/
def cleanupCalls (newHead snap : String) : List Call :=
  [.unlink (.img newHead), .unlink (.dmeta newHead), .fsyncDir, .unlink (.img snap), .unlink (.dmeta snap), .fsyncDir]

section snapshot
variable (fs : FS) (oldHead newHead snap oldParent : String) (i0 newIno : Nat) (rest : List (String × Nat))
  (hrec : Recovers fs ((oldHead, i0) :: rest))
  (hvol : get fs .vol = some (.volume oldHead))
  (hn1 : newHead ≠ oldHead) (hn2 : snap ≠ oldHead)
  (hf1 : ∀ x ∈ rest, x.1 ≠ newHead ∧ x.1 ≠ snap)

include hn1 hn2 hf1 in
theorem old_not_new (k : Key) (hk : Uses ((oldHead, i0) :: rest) k) : k ∉ newKeys newHead snap := by
  rcases hk with rfl | ⟨x, hx, hk⟩
  · simp [newKeys]
  · have hx' : x.1 ≠ newHead ∧ x.1 ≠ snap := by
      rcases List.mem_cons.mp hx with rfl | hx
      · exact ⟨fun e => hn1 e.symm, fun e => hn2 e.symm⟩
      · exact hf1 x hx
    rcases hk with rfl | rfl <;> simp [newKeys, hx'.1, hx'.2]

include hrec hn1 hn2 hf1 in
/-- calls that only touch the files being created leave the old chain recoverable -/
theorem old_survives_plain (cs : List Call) (h : ∀ call ∈ cs, ∀ k ∈ touched call, k ∈ newKeys newHead snap) :
    Recovers (run fs cs) ((oldHead, i0) :: rest) := by
  apply recovers_untouched fs _ cs hrec
  intro call hc k hk hu
  exact old_not_new oldHead newHead snap i0 rest hn1 hn2 hf1 k hu (h call hc k hk)

include hrec hvol hn1 hn2 hf1 in
/-- … and so do calls that may have switched `volume.meta`, followed by the rewrite of the old
    `volume.meta` and the clean-up -/
theorem old_survives_restore (pre post : List Call)
    (hpre : ∀ call ∈ pre, ∀ k ∈ touched call, k ∈ newKeys newHead snap ∨ k = .vol)
    (hpost : ∀ call ∈ post, ∀ k ∈ touched call, k ∈ newKeys newHead snap) :
    Recovers (run fs (pre ++ encode .volTmp .vol (.volume oldHead) ++ post)) ((oldHead, i0) :: rest) := by
  apply recovers_congr fs _ _ hrec
  intro k hk
  have hnot := old_not_new oldHead newHead snap i0 rest hn1 hn2 hf1 k hk
  rw [run_append, run_append]
  have enc := encode_effect (run fs pre) .volTmp .vol (.volume oldHead) (by simp)
  have postKeep : get (run (run (run fs pre) (encode .volTmp .vol (.volume oldHead))) post) k =
      get (run (run fs pre) (encode .volTmp .vol (.volume oldHead))) k := by
    apply get_run_untouched
    intro call hc hmem
    exact hnot (hpost call hc k hmem)
  rw [postKeep]
  by_cases hkv : k = .vol
  · subst hkv; rw [enc.1, hvol]
  · have hkt : k ≠ .volTmp := by intro e; apply hnot; rw [e]; simp [newKeys]
    rw [enc.2 k hkt hkv]
    apply get_run_untouched
    intro call hc hmem
    rcases hpre call hc k hmem with h | h
    · exact hnot h
    · exact hkv h

end snapshot

/-! evaluation of `flow` for `createDisk`, position by position (closed by `simp`: the control flow
    does not depend on the names) -/
section eval
variable (a b c d : String) (i : Nat)
theorem snapE_none : flow (snapshotE a b c d i) none = (snapshotProg a b c d i, true) := by
  simp [snapshotE, chain, encodeP, rmDiskP, cleanupAll, cleanupHead, flow, snapshotProg, encode]
theorem snapE_19 : flow (snapshotE a b c d i) (some 19) = ((snapshotProg a b c d i).take 19, true) := by
  simp [snapshotE, chain, encodeP, rmDiskP, cleanupAll, cleanupHead, flow, snapshotProg, encode]
theorem snapE_20 : flow (snapshotE a b c d i) (some 20) = ((snapshotProg a b c d i).take 20, true) := by
  simp [snapshotE, chain, encodeP, rmDiskP, cleanupAll, cleanupHead, flow, snapshotProg, encode]
theorem snapE_21 : flow (snapshotE a b c d i) (some 21) = ((snapshotProg a b c d i).take 21, true) := by
  simp [snapshotE, chain, encodeP, rmDiskP, cleanupAll, cleanupHead, flow, snapshotProg, encode]
theorem snapE_15 : flow (snapshotE a b c d i) (some 15) =
    ((snapshotProg a b c d i).take 15 ++ encode .volTmp .vol (.volume a) ++ cleanupCalls b c, false) := by
  simp [snapshotE, chain, encodeP, rmDiskP, cleanupAll, cleanupHead, flow, snapshotProg, encode, cleanupCalls]
theorem snapE_16 : flow (snapshotE a b c d i) (some 16) =
    ((snapshotProg a b c d i).take 16 ++ encode .volTmp .vol (.volume a) ++ cleanupCalls b c, false) := by
  simp [snapshotE, chain, encodeP, rmDiskP, cleanupAll, cleanupHead, flow, snapshotProg, encode, cleanupCalls]
theorem snapE_17 : flow (snapshotE a b c d i) (some 17) =
    ((snapshotProg a b c d i).take 17 ++ encode .volTmp .vol (.volume a) ++ cleanupCalls b c, false) := by
  simp [snapshotE, chain, encodeP, rmDiskP, cleanupAll, cleanupHead, flow, snapshotProg, encode, cleanupCalls]
theorem snapE_18 : flow (snapshotE a b c d i) (some 18) =
    ((snapshotProg a b c d i).take 18 ++ encode .volTmp .vol (.volume a) ++ cleanupCalls b c, false) := by
  simp [snapshotE, chain, encodeP, rmDiskP, cleanupAll, cleanupHead, flow, snapshotProg, encode, cleanupCalls]
theorem snapE_0 : (flow (snapshotE a b c d i) (some 0)).2 = false ∧
    ∀ call ∈ (flow (snapshotE a b c d i) (some 0)).1, ∀ k ∈ touched call, k ∈ newKeys b c := by
  simp [snapshotE, chain, encodeP, rmDiskP, cleanupAll, cleanupHead, flow, touched, newKeys]
theorem snapE_2 : (flow (snapshotE a b c d i) (some 2)).2 = false ∧
    ∀ call ∈ (flow (snapshotE a b c d i) (some 2)).1, ∀ k ∈ touched call, k ∈ newKeys b c := by
  simp [snapshotE, chain, encodeP, rmDiskP, cleanupAll, cleanupHead, flow, touched, newKeys]
theorem snapE_3 : (flow (snapshotE a b c d i) (some 3)).2 = false ∧
    ∀ call ∈ (flow (snapshotE a b c d i) (some 3)).1, ∀ k ∈ touched call, k ∈ newKeys b c := by
  simp [snapshotE, chain, encodeP, rmDiskP, cleanupAll, cleanupHead, flow, touched, newKeys]
theorem snapE_4 : (flow (snapshotE a b c d i) (some 4)).2 = false ∧
    ∀ call ∈ (flow (snapshotE a b c d i) (some 4)).1, ∀ k ∈ touched call, k ∈ newKeys b c := by
  simp [snapshotE, chain, encodeP, rmDiskP, cleanupAll, cleanupHead, flow, touched, newKeys]
theorem snapE_5 : (flow (snapshotE a b c d i) (some 5)).2 = false ∧
    ∀ call ∈ (flow (snapshotE a b c d i) (some 5)).1, ∀ k ∈ touched call, k ∈ newKeys b c := by
  simp [snapshotE, chain, encodeP, rmDiskP, cleanupAll, cleanupHead, flow, touched, newKeys]
theorem snapE_6 : (flow (snapshotE a b c d i) (some 6)).2 = false ∧
    ∀ call ∈ (flow (snapshotE a b c d i) (some 6)).1, ∀ k ∈ touched call, k ∈ newKeys b c := by
  simp [snapshotE, chain, encodeP, rmDiskP, cleanupAll, cleanupHead, flow, touched, newKeys]
theorem snapE_7 : (flow (snapshotE a b c d i) (some 7)).2 = false ∧
    ∀ call ∈ (flow (snapshotE a b c d i) (some 7)).1, ∀ k ∈ touched call, k ∈ newKeys b c := by
  simp [snapshotE, chain, encodeP, rmDiskP, cleanupAll, cleanupHead, flow, touched, newKeys]
theorem snapE_8 : (flow (snapshotE a b c d i) (some 8)).2 = false ∧
    ∀ call ∈ (flow (snapshotE a b c d i) (some 8)).1, ∀ k ∈ touched call, k ∈ newKeys b c := by
  simp [snapshotE, chain, encodeP, rmDiskP, cleanupAll, cleanupHead, flow, touched, newKeys]
theorem snapE_9 : (flow (snapshotE a b c d i) (some 9)).2 = false ∧
    ∀ call ∈ (flow (snapshotE a b c d i) (some 9)).1, ∀ k ∈ touched call, k ∈ newKeys b c := by
  simp [snapshotE, chain, encodeP, rmDiskP, cleanupAll, cleanupHead, flow, touched, newKeys]
theorem snapE_10 : (flow (snapshotE a b c d i) (some 10)).2 = false ∧
    ∀ call ∈ (flow (snapshotE a b c d i) (some 10)).1, ∀ k ∈ touched call, k ∈ newKeys b c := by
  simp [snapshotE, chain, encodeP, rmDiskP, cleanupAll, cleanupHead, flow, touched, newKeys]
theorem snapE_11 : (flow (snapshotE a b c d i) (some 11)).2 = false ∧
    ∀ call ∈ (flow (snapshotE a b c d i) (some 11)).1, ∀ k ∈ touched call, k ∈ newKeys b c := by
  simp [snapshotE, chain, encodeP, rmDiskP, cleanupAll, cleanupHead, flow, touched, newKeys]
theorem snapE_12 : (flow (snapshotE a b c d i) (some 12)).2 = false ∧
    ∀ call ∈ (flow (snapshotE a b c d i) (some 12)).1, ∀ k ∈ touched call, k ∈ newKeys b c := by
  simp [snapshotE, chain, encodeP, rmDiskP, cleanupAll, cleanupHead, flow, touched, newKeys]
theorem snapE_13 : (flow (snapshotE a b c d i) (some 13)).2 = false ∧
    ∀ call ∈ (flow (snapshotE a b c d i) (some 13)).1, ∀ k ∈ touched call, k ∈ newKeys b c := by
  simp [snapshotE, chain, encodeP, rmDiskP, cleanupAll, cleanupHead, flow, touched, newKeys]
theorem snapE_14 : (flow (snapshotE a b c d i) (some 14)).2 = false ∧
    ∀ call ∈ (flow (snapshotE a b c d i) (some 14)).1, ∀ k ∈ touched call, k ∈ newKeys b c := by
  simp [snapshotE, chain, encodeP, rmDiskP, cleanupAll, cleanupHead, flow, touched, newKeys]
theorem snapE_1 : flow (snapshotE a b c d i) (some 1) =
    (.fsyncDir :: .create (.img b) (.data i) :: (snapshotProg a b c d i).drop 3, true) := by
  simp [snapshotE, chain, encodeP, rmDiskP, cleanupAll, cleanupHead, flow, snapshotProg, encode]
end eval

/-- the conclusion of the theorem below, for one program and one failure position -/
def SnapGoal (fs : FS) (p : Prog) (f : Option Nat) (old new : List (String × Nat)) : Prop :=
  ((exec p fs f).2 = true → Recovers (exec p fs f).1 new) ∧ ((exec p fs f).2 = false → Recovers (exec p fs f).1 old)

theorem goal_of_fail (fs : FS) (p : Prog) (f : Option Nat) (old new : List (String × Nat))
    (h2 : (flow p f).2 = false) (h : Recovers (run fs (flow p f).1) old) : SnapGoal fs p f old new :=
  ⟨fun h' => (by unfold exec at h'; rw [h2] at h'; cases h'), fun _ => h⟩

theorem goal_of_ok (fs : FS) (p : Prog) (f : Option Nat) (old new : List (String × Nat))
    (h2 : (flow p f).2 = true) (h : Recovers (run fs (flow p f).1) new) : SnapGoal fs p f old new :=
  ⟨fun _ => h, fun h' => (by unfold exec at h'; rw [h2] at h'; cases h')⟩

theorem goal_of_eq_fail (fs : FS) (p : Prog) (f : Option Nat) (old new : List (String × Nat)) (cs : List Call)
    (e : flow p f = (cs, false)) (h : Recovers (run fs cs) old) : SnapGoal fs p f old new :=
  goal_of_fail fs p f old new (by rw [e]) (by rw [e]; exact h)

theorem goal_of_eq_ok (fs : FS) (p : Prog) (f : Option Nat) (old new : List (String × Nat)) (cs : List Call)
    (e : flow p f = (cs, true)) (h : Recovers (run fs cs) new) : SnapGoal fs p f old new :=
  goal_of_ok fs p f old new (by rw [e]) (by rw [e]; exact h)

/-- **C08 (snapshot, one failing call).** `createDisk` with ANY one of its file-system calls failing
    (or none): if it reports success the directory opens with the new chain; if it reports an error
    the directory opens with the chain before — the new head and the snapshot's files are gone or
    unreferenced, `volume.meta` names the old head. -/
theorem c08_snapshot_fault (fs : FS) (oldHead newHead snap oldParent : String) (i0 newIno : Nat)
    (rest : List (String × Nat))
    (hrec : Recovers fs ((oldHead, i0) :: rest))
    (hpar : get fs (.dmeta oldHead) = some (.disk oldParent))
    (hvol : get fs .vol = some (.volume oldHead))
    (hrest : oldParent = "" ∧ rest = [] ∨ oldParent ≠ "" ∧ IsChain fs oldParent rest)
    (hn1 : newHead ≠ oldHead) (hn2 : snap ≠ oldHead) (hn3 : snap ≠ newHead) (hn4 : snap ≠ "")
    (hf1 : ∀ x ∈ rest, x.1 ≠ newHead ∧ x.1 ≠ snap) (hf2 : ∀ x ∈ rest, x.1 ≠ oldHead)
    (ha1 : get fs (.img newHead) = none) (ha3 : get fs (.img snap) = none)
    (f : Option Nat) :
    ((exec (snapshotE oldHead newHead snap oldParent newIno) fs f).2 = true →
      Recovers (exec (snapshotE oldHead newHead snap oldParent newIno) fs f).1 ((newHead, newIno) :: (snap, i0) :: rest)) ∧
    ((exec (snapshotE oldHead newHead snap oldParent newIno) fs f).2 = false →
      Recovers (exec (snapshotE oldHead newHead snap oldParent newIno) fs f).1 ((oldHead, i0) :: rest)) := by
  have split := c08_snapshot_split fs oldHead newHead snap oldParent i0 newIno rest hrec hpar hvol hrest hn1 hn2 hn3 hn4 hf1 hf2 ha1 ha3
  have plain := old_survives_plain fs oldHead newHead snap i0 rest hrec hn1 hn2 hf1
  have restore := old_survives_restore fs oldHead newHead snap i0 rest hrec hvol hn1 hn2 hf1
  have committed : ∀ n, 17 < n →
      Recovers (run fs ((snapshotProg oldHead newHead snap oldParent newIno).take n)) ((newHead, newIno) :: (snap, i0) :: rest) :=
    fun n hn => (split n).2 hn
  have full : Recovers (run fs (snapshotProg oldHead newHead snap oldParent newIno)) ((newHead, newIno) :: (snap, i0) :: rest) := by
    have := committed 22 (by omega)
    rwa [take_all _ _ (by simp [snapshotProg, encode])] at this
  show SnapGoal fs _ f _ _
  rcases flow_cases (snapshotE oldHead newHead snap oldParent newIno) f with hnone | ⟨i, hi, rfl⟩
  · exact goal_of_eq_ok fs _ f _ _ _ (hnone.trans (snapE_none ..)) full
  · have hs : spine (snapshotE oldHead newHead snap oldParent newIno) = 22 := rfl
    rw [hs] at hi
    have cases22 : i = 0 ∨ i = 1 ∨ i = 2 ∨ i = 3 ∨ i = 4 ∨ i = 5 ∨ i = 6 ∨ i = 7 ∨ i = 8 ∨ i = 9 ∨ i = 10 ∨
        i = 11 ∨ i = 12 ∨ i = 13 ∨ i = 14 ∨ i = 15 ∨ i = 16 ∨ i = 17 ∨ i = 18 ∨ i = 19 ∨ i = 20 ∨ i = 21 := by omega
    rcases cases22 with rfl | rfl | rfl | rfl | rfl | rfl | rfl | rfl | rfl | rfl | rfl | rfl | rfl | rfl | rfl |
      rfl | rfl | rfl | rfl | rfl | rfl | rfl
    -- 0: the initial directory flush
    · exact goal_of_fail fs _ _ _ _ (snapE_0 ..).1 (plain _ (snapE_0 ..).2)
    -- 1: the probing open of the new head (no O_CREAT): its failure is expected, the operation goes on
    · refine goal_of_eq_ok fs _ _ _ _ _ (snapE_1 ..) ?_
      rw [run_dup_create, ← snapshotProg_shape]; exact full
    -- 2 … 14: before the rewrite of volume.meta: only the files being created are touched
    · exact goal_of_fail fs _ _ _ _ (snapE_2 ..).1 (plain _ (snapE_2 ..).2)
    · exact goal_of_fail fs _ _ _ _ (snapE_3 ..).1 (plain _ (snapE_3 ..).2)
    · exact goal_of_fail fs _ _ _ _ (snapE_4 ..).1 (plain _ (snapE_4 ..).2)
    · exact goal_of_fail fs _ _ _ _ (snapE_5 ..).1 (plain _ (snapE_5 ..).2)
    · exact goal_of_fail fs _ _ _ _ (snapE_6 ..).1 (plain _ (snapE_6 ..).2)
    · exact goal_of_fail fs _ _ _ _ (snapE_7 ..).1 (plain _ (snapE_7 ..).2)
    · exact goal_of_fail fs _ _ _ _ (snapE_8 ..).1 (plain _ (snapE_8 ..).2)
    · exact goal_of_fail fs _ _ _ _ (snapE_9 ..).1 (plain _ (snapE_9 ..).2)
    · exact goal_of_fail fs _ _ _ _ (snapE_10 ..).1 (plain _ (snapE_10 ..).2)
    · exact goal_of_fail fs _ _ _ _ (snapE_11 ..).1 (plain _ (snapE_11 ..).2)
    · exact goal_of_fail fs _ _ _ _ (snapE_12 ..).1 (plain _ (snapE_12 ..).2)
    · exact goal_of_fail fs _ _ _ _ (snapE_13 ..).1 (plain _ (snapE_13 ..).2)
    · exact goal_of_fail fs _ _ _ _ (snapE_14 ..).1 (plain _ (snapE_14 ..).2)
    -- 15 … 18: the rewrite of volume.meta — the old content is put back, then the deferred clean-up
    · exact goal_of_eq_fail fs _ _ _ _ _ (snapE_15 ..)
        (restore _ _ (by simp [snapshotProg, encode, touched, newKeys]) (by simp [cleanupCalls, touched, newKeys]))
    · exact goal_of_eq_fail fs _ _ _ _ _ (snapE_16 ..)
        (restore _ _ (by simp [snapshotProg, encode, touched, newKeys]) (by simp [cleanupCalls, touched, newKeys]))
    · exact goal_of_eq_fail fs _ _ _ _ _ (snapE_17 ..)
        (restore _ _ (by simp [snapshotProg, encode, touched, newKeys]) (by simp [cleanupCalls, touched, newKeys]))
    · exact goal_of_eq_fail fs _ _ _ _ _ (snapE_18 ..)
        (restore _ _ (by simp [snapshotProg, encode, touched, newKeys]) (by simp [cleanupCalls, touched, newKeys]))
    -- 19 … 21: rmDisk(oldHead) after the commit: its error is logged, the operation has succeeded
    · exact goal_of_eq_ok fs _ _ _ _ _ (snapE_19 ..) (committed 19 (by omega))
    · exact goal_of_eq_ok fs _ _ _ _ _ (snapE_20 ..) (committed 20 (by omega))
    · exact goal_of_eq_ok fs _ _ _ _ _ (snapE_21 ..) (committed 21 (by omega))

/-! ### revert -/

theorem run_dup_create0 (fs : FS) (k : Key) (e : Ent) (rest : List Call) :
    run fs (.create k e :: rest) = run fs (.create k e :: .create k e :: rest) := by
  simp only [run_cons]; rw [apply_create_idem]

theorem revertProg_shape (a b t : String) (i : Nat) : revertProg a b t i =
    .create (.img b) (.data i) :: .create (.img b) (.data i) :: (revertProg a b t i).drop 2 := by
  simp [revertProg, encode]

section evalRevert
variable (a b t : String) (i : Nat)
theorem revE_none : flow (revertE a b t i) none = (revertProg a b t i, true) := by
  simp [revertE, chain, encodeP, rmDiskP, flow, revertProg, encode]
theorem revE_0 : flow (revertE a b t i) (some 0) = (.create (.img b) (.data i) :: (revertProg a b t i).drop 2, true) := by
  simp [revertE, chain, encodeP, rmDiskP, flow, revertProg, encode]
theorem revE_1 : (flow (revertE a b t i) (some 1)).2 = false ∧
    ∀ call ∈ (flow (revertE a b t i) (some 1)).1, ∀ k ∈ touched call, k ∈ newKeys b b := by
  simp [revertE, chain, encodeP, rmDiskP, flow, touched, newKeys]
theorem revE_2 : (flow (revertE a b t i) (some 2)).2 = false ∧
    ∀ call ∈ (flow (revertE a b t i) (some 2)).1, ∀ k ∈ touched call, k ∈ newKeys b b := by
  simp [revertE, chain, encodeP, rmDiskP, flow, touched, newKeys]
theorem revE_3 : (flow (revertE a b t i) (some 3)).2 = false ∧
    ∀ call ∈ (flow (revertE a b t i) (some 3)).1, ∀ k ∈ touched call, k ∈ newKeys b b := by
  simp [revertE, chain, encodeP, rmDiskP, flow, touched, newKeys]
theorem revE_4 : (flow (revertE a b t i) (some 4)).2 = false ∧
    ∀ call ∈ (flow (revertE a b t i) (some 4)).1, ∀ k ∈ touched call, k ∈ newKeys b b := by
  simp [revertE, chain, encodeP, rmDiskP, flow, touched, newKeys]
theorem revE_5 : (flow (revertE a b t i) (some 5)).2 = false ∧
    ∀ call ∈ (flow (revertE a b t i) (some 5)).1, ∀ k ∈ touched call, k ∈ newKeys b b := by
  simp [revertE, chain, encodeP, rmDiskP, flow, touched, newKeys]
theorem revE_6 : (flow (revertE a b t i) (some 6)).2 = false ∧
    ∀ call ∈ (flow (revertE a b t i) (some 6)).1, ∀ k ∈ touched call, k ∈ newKeys b b := by
  simp [revertE, chain, encodeP, rmDiskP, flow, touched, newKeys]
theorem revE_7 : flow (revertE a b t i) (some 7) =
    ((revertProg a b t i).take 7 ++ encode .volTmp .vol (.volume a) ++ [], false) := by
  simp [revertE, chain, encodeP, rmDiskP, flow, revertProg, encode]
theorem revE_8 : flow (revertE a b t i) (some 8) =
    ((revertProg a b t i).take 8 ++ encode .volTmp .vol (.volume a) ++ [], false) := by
  simp [revertE, chain, encodeP, rmDiskP, flow, revertProg, encode]
theorem revE_9 : flow (revertE a b t i) (some 9) =
    ((revertProg a b t i).take 9 ++ encode .volTmp .vol (.volume a) ++ [], false) := by
  simp [revertE, chain, encodeP, rmDiskP, flow, revertProg, encode]
theorem revE_10 : flow (revertE a b t i) (some 10) =
    ((revertProg a b t i).take 10 ++ encode .volTmp .vol (.volume a) ++ [], false) := by
  simp [revertE, chain, encodeP, rmDiskP, flow, revertProg, encode]
theorem revE_11 : flow (revertE a b t i) (some 11) = ((revertProg a b t i).take 11, false) := by
  simp [revertE, chain, encodeP, rmDiskP, flow, revertProg, encode]
theorem revE_12 : flow (revertE a b t i) (some 12) = ((revertProg a b t i).take 12, false) := by
  simp [revertE, chain, encodeP, rmDiskP, flow, revertProg, encode]
theorem revE_13 : flow (revertE a b t i) (some 13) = ((revertProg a b t i).take 13, false) := by
  simp [revertE, chain, encodeP, rmDiskP, flow, revertProg, encode]
theorem revE_14 : flow (revertE a b t i) (some 14) = ((revertProg a b t i).take 14, false) := by
  simp [revertE, chain, encodeP, rmDiskP, flow, revertProg, encode]
theorem revE_15 : flow (revertE a b t i) (some 15) = ((revertProg a b t i).take 15, false) := by
  simp [revertE, chain, encodeP, rmDiskP, flow, revertProg, encode]
theorem revE_16 : flow (revertE a b t i) (some 16) = ((revertProg a b t i).take 16, false) := by
  simp [revertE, chain, encodeP, rmDiskP, flow, revertProg, encode]
theorem revE_17 : flow (revertE a b t i) (some 17) = ((revertProg a b t i).take 17, false) := by
  simp [revertE, chain, encodeP, rmDiskP, flow, revertProg, encode]
end evalRevert

/-- **C08 (revert, one failing call).** `revertDisk` with ANY one of its file-system calls failing (or
    none): success ⇒ the directory opens with the reverted chain; an error ⇒ it opens with the chain
    before or with the reverted chain — never with anything else — and with the chain before whenever
    the failing call precedes the completion of the commit (calls 1 … 10: creating the new head, its
    metadata, the rewrite of `volume.meta`, after whose failure the old content is put back). -/
theorem c08_revert_fault (fs : FS) (oldHead newHead target : String) (i0 it newIno : Nat)
    (mid below : List (String × Nat))
    (hvol : get fs .vol = some (.volume oldHead))
    (hold : IsChain fs oldHead ((oldHead, i0) :: mid ++ (target, it) :: below))
    (hn1 : newHead ≠ oldHead) (ht : target ≠ "") (ht1 : target ≠ oldHead) (ht2 : target ≠ newHead)
    (hf : ∀ x ∈ mid ++ below, x.1 ≠ newHead ∧ x.1 ≠ oldHead)
    (ha1 : get fs (.img newHead) = none)
    (f : Option Nat) :
    let r := exec (revertE oldHead newHead target newIno) fs f
    let old := (oldHead, i0) :: mid ++ (target, it) :: below
    let new := (newHead, newIno) :: (target, it) :: below
    (r.2 = true → Recovers r.1 new) ∧ (r.2 = false → Recovers r.1 old ∨ Recovers r.1 new) ∧
    (∀ i, f = some i → 1 ≤ i → i ≤ 10 → r.2 = false ∧ Recovers r.1 old) := by
  intro r old new
  have split := c08_revert_split fs oldHead newHead target i0 it newIno mid below hvol hold hn1 ht ht1 ht2 hf ha1
  have hrec : Recovers fs old := ⟨oldHead, hvol, hold⟩
  have hf1 : ∀ x ∈ mid ++ (target, it) :: below, x.1 ≠ newHead ∧ x.1 ≠ newHead := by
    intro x hx
    rcases List.mem_append.mp hx with hx | hx
    · exact ⟨(hf x (List.mem_append_left _ hx)).1, (hf x (List.mem_append_left _ hx)).1⟩
    · rcases List.mem_cons.mp hx with rfl | hx
      · exact ⟨ht2, ht2⟩
      · exact ⟨(hf x (List.mem_append_right _ hx)).1, (hf x (List.mem_append_right _ hx)).1⟩
  have plain := old_survives_plain fs oldHead newHead newHead i0 (mid ++ (target, it) :: below) hrec hn1 hn1 hf1
  have restore := old_survives_restore fs oldHead newHead newHead i0 (mid ++ (target, it) :: below) hrec hvol hn1 hn1 hf1
  have committed : ∀ n, 9 < n → Recovers (run fs ((revertProg oldHead newHead target newIno).take n)) new :=
    fun n hn => (split n).2 hn
  have full : Recovers (run fs (revertProg oldHead newHead target newIno)) new := by
    have := committed 18 (by omega)
    rwa [take_all _ _ (by simp [revertProg, encode])] at this
  -- the three shapes of an outcome
  have okNew : ∀ cs, flow (revertE oldHead newHead target newIno) f = (cs, true) → Recovers (run fs cs) new →
      (r.2 = true → Recovers r.1 new) ∧ (r.2 = false → Recovers r.1 old ∨ Recovers r.1 new) := by
    intro cs e h
    have e1 : r.1 = run fs cs := by show run fs (flow _ f).1 = _; rw [e]
    have e2 : r.2 = true := by show (flow _ f).2 = _; rw [e]
    exact ⟨fun _ => e1 ▸ h, fun h' => by rw [e2] at h'; cases h'⟩
  have failNew : ∀ cs, flow (revertE oldHead newHead target newIno) f = (cs, false) → Recovers (run fs cs) new →
      (r.2 = true → Recovers r.1 new) ∧ (r.2 = false → Recovers r.1 old ∨ Recovers r.1 new) := by
    intro cs e h
    have e1 : r.1 = run fs cs := by show run fs (flow _ f).1 = _; rw [e]
    have e2 : r.2 = false := by show (flow _ f).2 = _; rw [e]
    exact ⟨fun h' => (by rw [e2] at h'; cases h'), fun _ => Or.inr (e1 ▸ h)⟩
  have failOld : (flow (revertE oldHead newHead target newIno) f).2 = false →
      Recovers (run fs (flow (revertE oldHead newHead target newIno) f).1) old →
      (r.2 = true → Recovers r.1 new) ∧ (r.2 = false → Recovers r.1 old ∨ Recovers r.1 new) ∧ (r.2 = false ∧ Recovers r.1 old) := by
    intro e2 h
    exact ⟨fun h' => (by (have : r.2 = false := e2); rw [this] at h'; cases h'), fun _ => Or.inl h, e2, h⟩
  rcases flow_cases (revertE oldHead newHead target newIno) f with hnone | ⟨i, hi, rfl⟩
  · have := okNew _ (hnone.trans (revE_none ..)) full
    refine ⟨this.1, this.2, ?_⟩
    intro i hfi h1 h10
    -- a failure position inside the operation never behaves like "no failure"
    subst hfi
    have hs : spine (revertE oldHead newHead target newIno) = 18 := rfl
    have cases10 : i = 1 ∨ i = 2 ∨ i = 3 ∨ i = 4 ∨ i = 5 ∨ i = 6 ∨ i = 7 ∨ i = 8 ∨ i = 9 ∨ i = 10 := by omega
    rcases cases10 with rfl | rfl | rfl | rfl | rfl | rfl | rfl | rfl | rfl | rfl
    · exact (failOld (revE_1 ..).1 (plain _ (revE_1 ..).2)).2.2
    · exact (failOld (revE_2 ..).1 (plain _ (revE_2 ..).2)).2.2
    · exact (failOld (revE_3 ..).1 (plain _ (revE_3 ..).2)).2.2
    · exact (failOld (revE_4 ..).1 (plain _ (revE_4 ..).2)).2.2
    · exact (failOld (revE_5 ..).1 (plain _ (revE_5 ..).2)).2.2
    · exact (failOld (revE_6 ..).1 (plain _ (revE_6 ..).2)).2.2
    · exact (failOld (by rw [revE_7]) (by rw [revE_7]; exact restore _ _ (by simp [revertProg, encode, touched, newKeys]) (by simp))).2.2
    · exact (failOld (by rw [revE_8]) (by rw [revE_8]; exact restore _ _ (by simp [revertProg, encode, touched, newKeys]) (by simp))).2.2
    · exact (failOld (by rw [revE_9]) (by rw [revE_9]; exact restore _ _ (by simp [revertProg, encode, touched, newKeys]) (by simp))).2.2
    · exact (failOld (by rw [revE_10]) (by rw [revE_10]; exact restore _ _ (by simp [revertProg, encode, touched, newKeys]) (by simp))).2.2
  · have hs : spine (revertE oldHead newHead target newIno) = 18 := rfl
    rw [hs] at hi
    have cases18 : i = 0 ∨ i = 1 ∨ i = 2 ∨ i = 3 ∨ i = 4 ∨ i = 5 ∨ i = 6 ∨ i = 7 ∨ i = 8 ∨ i = 9 ∨ i = 10 ∨
        i = 11 ∨ i = 12 ∨ i = 13 ∨ i = 14 ∨ i = 15 ∨ i = 16 ∨ i = 17 := by omega
    rcases cases18 with rfl | rfl | rfl | rfl | rfl | rfl | rfl | rfl | rfl | rfl | rfl | rfl | rfl | rfl | rfl |
      rfl | rfl | rfl
    -- 0: the probing open
    · have := okNew _ (revE_0 ..) (by rw [run_dup_create0, ← revertProg_shape]; exact full)
      exact ⟨this.1, this.2, fun i hfi h1 _ => by cases hfi; omega⟩
    · have := failOld (revE_1 ..).1 (plain _ (revE_1 ..).2)
      exact ⟨this.1, this.2.1, fun _ _ _ _ => this.2.2⟩
    · have := failOld (revE_2 ..).1 (plain _ (revE_2 ..).2)
      exact ⟨this.1, this.2.1, fun _ _ _ _ => this.2.2⟩
    · have := failOld (revE_3 ..).1 (plain _ (revE_3 ..).2)
      exact ⟨this.1, this.2.1, fun _ _ _ _ => this.2.2⟩
    · have := failOld (revE_4 ..).1 (plain _ (revE_4 ..).2)
      exact ⟨this.1, this.2.1, fun _ _ _ _ => this.2.2⟩
    · have := failOld (revE_5 ..).1 (plain _ (revE_5 ..).2)
      exact ⟨this.1, this.2.1, fun _ _ _ _ => this.2.2⟩
    · have := failOld (revE_6 ..).1 (plain _ (revE_6 ..).2)
      exact ⟨this.1, this.2.1, fun _ _ _ _ => this.2.2⟩
    · have := failOld (by rw [revE_7]) (by rw [revE_7]; exact restore _ _ (by simp [revertProg, encode, touched, newKeys]) (by simp))
      exact ⟨this.1, this.2.1, fun _ _ _ _ => this.2.2⟩
    · have := failOld (by rw [revE_8]) (by rw [revE_8]; exact restore _ _ (by simp [revertProg, encode, touched, newKeys]) (by simp))
      exact ⟨this.1, this.2.1, fun _ _ _ _ => this.2.2⟩
    · have := failOld (by rw [revE_9]) (by rw [revE_9]; exact restore _ _ (by simp [revertProg, encode, touched, newKeys]) (by simp))
      exact ⟨this.1, this.2.1, fun _ _ _ _ => this.2.2⟩
    · have := failOld (by rw [revE_10]) (by rw [revE_10]; exact restore _ _ (by simp [revertProg, encode, touched, newKeys]) (by simp))
      exact ⟨this.1, this.2.1, fun _ _ _ _ => this.2.2⟩
    · have := failNew _ (revE_11 ..) (committed 11 (by omega))
      exact ⟨this.1, this.2, fun i hfi _ h10 => by cases hfi; omega⟩
    · have := failNew _ (revE_12 ..) (committed 12 (by omega))
      exact ⟨this.1, this.2, fun i hfi _ h10 => by cases hfi; omega⟩
    · have := failNew _ (revE_13 ..) (committed 13 (by omega))
      exact ⟨this.1, this.2, fun i hfi _ h10 => by cases hfi; omega⟩
    · have := failNew _ (revE_14 ..) (committed 14 (by omega))
      exact ⟨this.1, this.2, fun i hfi _ h10 => by cases hfi; omega⟩
    · have := failNew _ (revE_15 ..) (committed 15 (by omega))
      exact ⟨this.1, this.2, fun i hfi _ h10 => by cases hfi; omega⟩
    · have := failNew _ (revE_16 ..) (committed 16 (by omega))
      exact ⟨this.1, this.2, fun i hfi _ h10 => by cases hfi; omega⟩
    · have := failNew _ (revE_17 ..) (committed 17 (by omega))
      exact ⟨this.1, this.2, fun i hfi _ h10 => by cases hfi; omega⟩

/-! ### removal, single update -/

section evalRemove
variable (n c p g : String)
theorem remE_none : flow (removeE n c p g) none = (removeProg n c p g, true) := by
  simp [removeE, encodeP, rmDiskP, flow, removeProg, encode]
theorem remE_0 : flow (removeE n c p g) (some 0) = ((removeProg n c p g).take 0, false) := by
  simp [removeE, encodeP, rmDiskP, flow, removeProg, encode]
theorem remE_1 : flow (removeE n c p g) (some 1) = ((removeProg n c p g).take 1, false) := by
  simp [removeE, encodeP, rmDiskP, flow, removeProg, encode]
theorem remE_2 : flow (removeE n c p g) (some 2) = ((removeProg n c p g).take 2, false) := by
  simp [removeE, encodeP, rmDiskP, flow, removeProg, encode]
theorem remE_3 : flow (removeE n c p g) (some 3) = ((removeProg n c p g).take 3, false) := by
  simp [removeE, encodeP, rmDiskP, flow, removeProg, encode]
theorem remE_4 : flow (removeE n c p g) (some 4) = ((removeProg n c p g).take 4, false) := by
  simp [removeE, encodeP, rmDiskP, flow, removeProg, encode]
theorem remE_5 : flow (removeE n c p g) (some 5) = ((removeProg n c p g).take 5, false) := by
  simp [removeE, encodeP, rmDiskP, flow, removeProg, encode]
theorem remE_6 : flow (removeE n c p g) (some 6) = ((removeProg n c p g).take 6, false) := by
  simp [removeE, encodeP, rmDiskP, flow, removeProg, encode]
theorem remE_7 : flow (removeE n c p g) (some 7) = ((removeProg n c p g).take 7, false) := by
  simp [removeE, encodeP, rmDiskP, flow, removeProg, encode]
theorem remE_8 : flow (removeE n c p g) (some 8) = ((removeProg n c p g).take 8, false) := by
  simp [removeE, encodeP, rmDiskP, flow, removeProg, encode]
theorem remE_9 : flow (removeE n c p g) (some 9) = ((removeProg n c p g).take 9, false) := by
  simp [removeE, encodeP, rmDiskP, flow, removeProg, encode]
theorem remE_10 : flow (removeE n c p g) (some 10) = ((removeProg n c p g).take 10, false) := by
  simp [removeE, encodeP, rmDiskP, flow, removeProg, encode]
end evalRemove

/-- **C08 (removal, one failing call).** `RemoveDiffDisk` with ANY one of its file-system calls
    failing (or none): it reports success only when nothing failed, and then the directory opens with
    the chain without the member; otherwise (an error is reported, or `removeDiskNode` ended the
    process) the directory opens with the chain before or the chain after — the calls that took effect
    are a prefix of the operation's calls. -/
theorem c08_remove_fault (fs : FS) (h name child parent grand : String) (ic i ip : Nat)
    (top below : List (String × Nat))
    (hvol : get fs .vol = some (.volume h))
    (hold : IsChain fs h (top ++ (child, ic) :: (name, i) :: (parent, ip) :: below))
    (hgrand : get fs (.dmeta parent) = some (.disk grand))
    (hd1 : child ≠ name) (hd2 : child ≠ parent) (hd3 : name ≠ parent) (hp : parent ≠ "")
    (hdt : ∀ x ∈ top, x.1 ≠ child ∧ x.1 ≠ name ∧ x.1 ≠ parent)
    (hdb : ∀ x ∈ below, x.1 ≠ child ∧ x.1 ≠ name ∧ x.1 ≠ parent)
    (f : Option Nat) :
    let r := exec (removeE name child parent grand) fs f
    let old := top ++ (child, ic) :: (name, i) :: (parent, ip) :: below
    let new := top ++ (child, ic) :: (parent, ip) :: below
    (r.2 = true → Recovers r.1 new) ∧ (r.2 = false → Recovers r.1 old ∨ Recovers r.1 new) := by
  intro r old new
  have split := c08_remove_split fs h name child parent grand ic i ip top below hvol hold hgrand hd1 hd2 hd3 hp hdt hdb
  have pre : ∀ k, Recovers (run fs ((removeProg name child parent grand).take k)) old ∨
      Recovers (run fs ((removeProg name child parent grand).take k)) new := by
    intro k
    by_cases hk : k ≤ 2
    · exact Or.inl ((split k).1 hk)
    · exact Or.inr ((split k).2 (by omega))
  have full : Recovers (run fs (removeProg name child parent grand)) new := by
    have := (split 11).2 (by omega)
    rwa [take_all _ _ (by simp [removeProg, encode])] at this
  have failed : ∀ k, flow (removeE name child parent grand) f = ((removeProg name child parent grand).take k, false) →
      (r.2 = true → Recovers r.1 new) ∧ (r.2 = false → Recovers r.1 old ∨ Recovers r.1 new) := by
    intro k e
    have e1 : r.1 = run fs ((removeProg name child parent grand).take k) := by show run fs (flow _ f).1 = _; rw [e]
    have e2 : r.2 = false := by show (flow _ f).2 = _; rw [e]
    exact ⟨fun h' => (by rw [e2] at h'; cases h'), fun _ => e1 ▸ pre k⟩
  rcases flow_cases (removeE name child parent grand) f with hnone | ⟨j, hj, rfl⟩
  · have e := hnone.trans (remE_none name child parent grand)
    have e1 : r.1 = run fs (removeProg name child parent grand) := by show run fs (flow _ f).1 = _; rw [e]
    have e2 : r.2 = true := by show (flow _ f).2 = _; rw [e]
    exact ⟨fun _ => e1 ▸ full, fun h' => (by rw [e2] at h'; cases h')⟩
  · have hs : spine (removeE name child parent grand) = 11 := rfl
    rw [hs] at hj
    have cases11 : j = 0 ∨ j = 1 ∨ j = 2 ∨ j = 3 ∨ j = 4 ∨ j = 5 ∨ j = 6 ∨ j = 7 ∨ j = 8 ∨ j = 9 ∨ j = 10 := by omega
    rcases cases11 with rfl | rfl | rfl | rfl | rfl | rfl | rfl | rfl | rfl | rfl | rfl
    · exact failed 0 (remE_0 ..)
    · exact failed 1 (remE_1 ..)
    · exact failed 2 (remE_2 ..)
    · exact failed 3 (remE_3 ..)
    · exact failed 4 (remE_4 ..)
    · exact failed 5 (remE_5 ..)
    · exact failed 6 (remE_6 ..)
    · exact failed 7 (remE_7 ..)
    · exact failed 8 (remE_8 ..)
    · exact failed 9 (remE_9 ..)
    · exact failed 10 (remE_10 ..)

/-- **C08 (single metadata update, one failing call).** Every other metadata change (size, checkpoint,
    rebuilding flag, clone status, a disk's attributes) is one `encodeToFile`; with ANY one of its
    calls failing: success ⇒ the target holds the new content; an error ⇒ the target holds its old or
    its new content, never a partial one; and no other file except the temp file is changed. -/
theorem c08_update_fault (fs : FS) (tmp dst : Key) (e : Ent) (hne : tmp ≠ dst) (f : Option Nat) :
    let r := exec (updateE tmp dst e) fs f
    (r.2 = true → get r.1 dst = some e) ∧ (r.2 = false → get r.1 dst = get fs dst ∨ get r.1 dst = some e) ∧
    ∀ k, k ≠ tmp → k ≠ dst → get r.1 k = get fs k := by
  intro r
  have pre := c08_single_update fs tmp dst e hne
  have eNone : flow (updateE tmp dst e) none = (encode tmp dst e, true) := by simp [updateE, encodeP, flow, encode]
  have e0 : flow (updateE tmp dst e) (some 0) = ((encode tmp dst e).take 0, false) := by simp [updateE, encodeP, flow, encode]
  have e1 : flow (updateE tmp dst e) (some 1) = ((encode tmp dst e).take 1, false) := by simp [updateE, encodeP, flow, encode]
  have e2 : flow (updateE tmp dst e) (some 2) = ((encode tmp dst e).take 2, false) := by simp [updateE, encodeP, flow, encode]
  have e3 : flow (updateE tmp dst e) (some 3) = ((encode tmp dst e).take 3, false) := by simp [updateE, encodeP, flow, encode]
  have failed : ∀ k, flow (updateE tmp dst e) f = ((encode tmp dst e).take k, false) →
      (r.2 = true → get r.1 dst = some e) ∧ (r.2 = false → get r.1 dst = get fs dst ∨ get r.1 dst = some e) ∧
      ∀ k, k ≠ tmp → k ≠ dst → get r.1 k = get fs k := by
    intro k ek
    have r1 : r.1 = run fs ((encode tmp dst e).take k) := by show run fs (flow _ f).1 = _; rw [ek]
    have r2 : r.2 = false := by show (flow _ f).2 = _; rw [ek]
    refine ⟨fun h' => (by rw [r2] at h'; cases h'), fun _ => ?_, ?_⟩
    · rw [r1]; exact (pre k).1
    · rw [r1]; exact (pre k).2
  rcases flow_cases (updateE tmp dst e) f with hnone | ⟨j, hj, rfl⟩
  · have ek := hnone.trans eNone
    have r1 : r.1 = run fs (encode tmp dst e) := by show run fs (flow _ f).1 = _; rw [ek]
    have r2 : r.2 = true := by show (flow _ f).2 = _; rw [ek]
    have eff := encode_effect fs tmp dst e hne
    refine ⟨fun _ => ?_, fun h' => (by rw [r2] at h'; cases h'), ?_⟩
    · rw [r1]; exact eff.1
    · rw [r1]; exact eff.2
  · have hs : spine (updateE tmp dst e) = 4 := rfl
    rw [hs] at hj
    have cases4 : j = 0 ∨ j = 1 ∨ j = 2 ∨ j = 3 := by omega
    rcases cases4 with rfl | rfl | rfl | rfl
    · exact failed 0 e0
    · exact failed 1 e1
    · exact failed 2 e2
    · exact failed 3 e3

/-! ### non-vacuity: a concrete directory, every failure position (these are tests) -/

private def fsF : FS :=
  [(.vol, .volume "h2"), (.img "h2", .data 3), (.dmeta "h2", .disk "s1"), (.img "s1", .data 2), (.dmeta "s1", .disk "base"),
   (.img "base", .data 1), (.dmeta "base", .disk "")]

example : (List.range 24).all (fun n =>
    let r := exec (snapshotE "h2" "h3" "s2" "s1" 4) fsF (some n)
    if r.2 then recover r.1 = some [("h3", 4), ("s2", 3), ("s1", 2), ("base", 1)]
    else recover r.1 = some [("h2", 3), ("s1", 2), ("base", 1)]) = true := by decide

example : (List.range 20).all (fun n =>
    let r := exec (revertE "h2" "h3" "base" 4) fsF (some n)
    if r.2 then recover r.1 = some [("h3", 4), ("base", 1)]
    else recover r.1 = some [("h2", 3), ("s1", 2), ("base", 1)] ∨ recover r.1 = some [("h3", 4), ("base", 1)]) = true := by decide

/-- before fix 8f81c09 `createDisk` had no restore step: with the directory flush after the rename of
    `volume.meta` failing (call 18) the clean-up removed the files `volume.meta` named -/
example :
    let broken : Prog := encodeP .volTmp .vol (.volume "h3") (.ret true) (cleanupAll "h3" "s2")
    recover (run (run fsF ((snapshotProg "h2" "h3" "s2" "s1" 4).take 15)) (flow broken (some 3)).1) = none := by decide

end Jiva.Crash
