import JivaVerif.Model.Replica
/-!
# C10 — the revision counter counts applied writes exactly and never goes back
Replica side.  `rev` models the persisted counter (`revision.counter`, one 4 KiB O_DIRECT block,
rewritten by `increaseRevisionCounter` under `revisionLock`; the cache is reloaded from the file by
`initRevisionCounter` on every construct).  The promotion half (`SetRevisionCounter` inside the
controller's critical section) is in `Properties/Controller.lean` (`c10_promotion_*`).
-/
namespace Jiva.Properties
open Jiva

/-- writes that were applied while RW -/
def rwWrites (r : Rep) : List RepOp → Nat
  | [] => 0
  | op :: ops =>
    (match op with
     | .write off len _ => if r.isOpen && r.inVolume off len && r.mode = .rw then 1 else 0
     | .cwrite n _ => if r.isOpen && r.mode = .rw then n else 0
     | _ => 0) + rwWrites (r.step op).1 ops

/-- requests by which the counter is set from outside: `SetRevisionCounter`, and in the rebuild
    protocol of the harness the swap to the rebuilt replica (another replica's counter from then on)
    and its promotion (`SetRevisionCounter` by the controller, see `c10_promotion_*`) -/
def setsRev : RepOp → Bool
  | .setRev _ | .rbReload | .rbPromote => true
  | _ => false

def noSetRev : List RepOp → Prop
  | [] => True
  | op :: ops => setsRev op = false ∧ noSetRev ops

/-- one request: a write applied in RW adds exactly one; a write applied in WO, a refused write and
    every other request except `setRev` leave the counter alone -/
theorem c10_step (r : Rep) (op : RepOp) (h : setsRev op = false) :
    (r.step op).1.rev = r.rev + rwWrites r [op] := by
  cases op with
  | write off len tag =>
    unfold rwWrites Rep.step
    by_cases c : (!r.isOpen || !r.inVolume off len) = true
    · have : (r.isOpen && r.inVolume off len && decide (r.mode = .rw)) = false := by
        cases h1 : r.isOpen <;> cases h2 : r.inVolume off len <;> simp_all
      simp [c, this, rwWrites]
    · have c' : r.isOpen = true ∧ r.inVolume off len = true := by
        cases h1 : r.isOpen <;> cases h2 : r.inVolume off len <;> simp_all
      simp only [c, if_false]
      cases hm : r.mode <;> simp [c'.1, c'.2, rwWrites]
  | setRev n => simp [setsRev] at h
  | cwrite n tag =>
    unfold rwWrites Rep.step
    cases h1 : r.isOpen <;> cases hm : r.mode <;> simp [rwWrites]
  | read off len =>
    unfold Rep.step rwWrites; simp only [rwWrites]; split <;> simp
  | snap n user => unfold Rep.step rwWrites; simp only [rwWrites]; split <;> (try split) <;> (try split) <;> (try split) <;> simp
  | mark n => unfold Rep.step rwWrites; simp only [rwWrites]; split <;> (try split) <;> (try split) <;> (try split) <;> simp
  | coal n => unfold Rep.step rwWrites; simp only [rwWrites]; split <;> simp
  | rm n => unfold Rep.step rwWrites; simp only [rwWrites]; split <;> (try split) <;> (try split) <;> (try split) <;> simp
  | revert n => unfold Rep.step rwWrites; simp only [rwWrites]; split <;> (try split) <;> simp
  | reopen pre => unfold Rep.step rwWrites; simp only [rwWrites]; split <;> (try split) <;> simp
  | reload pre => unfold Rep.step rwWrites; simp only [rwWrites]; split <;> simp
  | close => unfold Rep.step rwWrites; simp only [rwWrites]; split <;> simp
  | open_ pre => unfold Rep.step rwWrites; simp only [rwWrites]; split <;> (try split) <;> simp
  | resize nb => unfold Rep.step rwWrites; simp only [rwWrites]; split <;> simp
  | punch on => simp [Rep.step, rwWrites]
  | apply f b n => simp [Rep.step, rwWrites]
  | drop => simp [Rep.step, rwWrites]
  | setMode m => unfold Rep.step rwWrites; simp only [rwWrites]; split <;> simp
  | setCkpt s => unfold Rep.step rwWrites; simp only [rwWrites]; split <;> simp
  | setRb b => unfold Rep.step rwWrites; simp only [rwWrites]; split <;> simp
  | stash => unfold Rep.step rwWrites; simp only [rwWrites]; split <;> simp
  | rbBegin n st => unfold Rep.step rwWrites; simp only [rwWrites]; split <;> (try split) <;> (try split) <;> (try split) <;> simp
  | rbReload => simp [setsRev] at h
  | lunmap => unfold Rep.step rwWrites; simp only [rwWrites]; split <;> simp
  | rbPromote => simp [setsRev] at h
  | rbEnd => unfold Rep.step rwWrites; simp only [rwWrites]; split <;> simp
  | maxChainSet n => simp [Rep.step, rwWrites]
  | replace t s => unfold Rep.step rwWrites; simp only [rwWrites]; split <;> simp
  | clone n => unfold Rep.step rwWrites; simp only [rwWrites]; split <;> (try split) <;> simp

/-- **C10 (exact).** Over any history without `SetRevisionCounter` — writes, mode changes,
    snapshots, deletions, reverts, close/open/reload — the counter grows by exactly the number of
    writes applied while RW. -/
theorem c10_exact (ops : List RepOp) : ∀ (r : Rep), noSetRev ops →
    (r.run ops).rev = r.rev + rwWrites r ops := by
  induction ops with
  | nil => intro r _; simp [Rep.run, rwWrites]
  | cons op ops ih =>
    intro r hn
    have hop : setsRev op = false := hn.1
    have hn' : noSetRev ops := hn.2
    have s := c10_step r op hop
    show ((r.step op).1.run ops).rev = r.rev + rwWrites r (op :: ops)
    rw [ih _ hn', s]
    simp only [rwWrites]; omega

/-- **C10 (never goes back).** -/
theorem c10_monotone (ops : List RepOp) (r : Rep) (h : noSetRev ops) : r.rev ≤ (r.run ops).rev := by
  rw [c10_exact ops r h]; omega

/-- **C10 (guard).** The counter can be set from outside only while the replica is open and RW. -/
theorem c10_setrev_guard (r : Rep) (n : Nat) (h : r.isOpen = false ∨ r.mode ≠ .rw) :
    r.step (.setRev n) = (r, .refused) := by
  unfold Rep.step; rcases h with h | h <;> simp [h]

/-- non-vacuity: RW write, switch to WO, write, reopen, RW write: two counted -/
example : ((Rep.init 8 4).run [.setMode .rw, .write 0 8 1, .setMode .wo, .write 3 9 2, .reopen true,
    .setMode .rw, .write 1 1 3]).rev = 3 := by decide

end Jiva.Properties
