import JivaVerif.Model.Replica
/-!
# C17 — replica operations are gated by its mode and open/closed state (replica engine part)
The REST action table part is in `Properties/Rest.lean`.
-/
namespace Jiva.Properties
open Jiva

/-- **C17 (closed ⇒ no I/O, no management).** A closed replica refuses every request except `open`
    and leaves its state untouched. -/
theorem c17_closed_refuses (r : Rep) (h : r.isOpen = false) (off len tag n k : Nat) (s : String) (u p : Bool) :
    r.step (.write off len tag) = (r, .refused) ∧ r.step (.cwrite n tag) = (r, .refused) ∧
    r.step (.read off len) = (r, .refused) ∧ r.step (.snap s u) = (r, .refused) ∧
    r.step (.mark s) = (r, .refused) ∧ r.step (.rm s) = (r, .refused) ∧ r.step (.revert s) = (r, .refused) ∧
    r.step (.reopen p) = (r, .refused) ∧ r.step (.reload p) = (r, .refused) ∧ r.step (.resize k) = (r, .refused) ∧
    r.step (.setMode .rw) = (r, .refused) ∧ r.step (.setRev k) = (r, .refused) ∧ r.step (.setCkpt s) = (r, .refused) := by
  unfold Rep.step; simp [h]

/-- **C17 (writes only in RW or WO).** An open replica whose mode has not been set applies nothing
    (this needed the fix 62551a9). -/
theorem c17_write_needs_mode (r : Rep) (h : r.mode = .init) (off len tag n : Nat) :
    r.step (.write off len tag) = (r, .refused) ∧ r.step (.cwrite n tag) = (r, .refused) := by
  constructor
  · simp only [Rep.step]
    split
    · rfl
    · simp [h]
  · simp [Rep.step, h]

/-- the data changes only through an accepted write -/
theorem c17_write_applies_iff (r : Rep) (off len tag : Nat) :
    (r.step (.write off len tag)).2 = .ok ↔
      (r.isOpen = true ∧ r.inVolume off len = true ∧ (r.mode = .rw ∨ r.mode = .wo)) := by
  unfold Rep.step
  cases ho : r.isOpen <;> cases hv : r.inVolume off len <;> cases hm : r.mode <;> simp [hv]

/-- **C17 (RW-only management).** Snapshot removal (both steps) and revision-counter updates are
    refused unless the replica is RW. -/
theorem c17_rw_only (r : Rep) (h : r.mode ≠ .rw) (s : String) (k : Nat) :
    r.step (.mark s) = (r, .refused) ∧ r.step (.rm s) = (r, .refused) ∧ r.step (.setRev k) = (r, .refused) := by
  unfold Rep.step; simp [h]

/-- **C17 (attach only while closed).** Opening — what attaching to a controller does first — is
    refused while the replica is open, so it cannot be attached twice. -/
theorem c17_attach_once (r : Rep) (h : r.isOpen = true) (p : Bool) : r.step (.open_ p) = (r, .refused) := by
  unfold Rep.step; simp [h]

/-- the mode is forgotten by close / reopen: a freshly opened replica accepts no write until the
    controller sets WO or RW -/
theorem c17_reopen_resets_mode (r : Rep) (h : r.isOpen = true) (p : Bool) :
    (r.step (.reopen p)).1.mode = .init ∧ (r.step .close).1.mode = .init := by
  unfold Rep.step; simp only [h, Bool.not_true, Bool.false_eq_true, if_false]
  refine ⟨?_, by first | rfl | trivial⟩
  split <;> rfl

example : ((Rep.init 8 4).run [.setMode .rw, .write 0 8 1, .close, .write 0 8 2, .open_ true, .write 0 8 3]).rev = 2 := by
  decide

end Jiva.Properties
