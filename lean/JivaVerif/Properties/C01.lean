import JivaVerif.Lemmas.InVol
/-!
# C01 — a replica reads back exactly what was last written (block semantics)

Model: `Jiva.DD` (replica/diff_disk.go, backup.go, chain part of replica.go/server.go).
Specification: `Jiva.DD.Spec` — `vol : unit → value`, where `write` overwrites exactly the
units it covers and nothing else ever changes `vol` except `revert`, which installs the
frozen image of the snapshot.

The theorems quantify over **every** list of admissible requests: any offset and length (in
units, aligned or not to the block), any number of snapshots, deletions, reverts, reopen with
or without preload, reclaimer steps at any time, hole punching on or off, any block size
`bs > 0` and any volume size.
-/
namespace Jiva.Properties
open Jiva DD
variable {β : Type} [Inhabited β]

/-- **C01 (main).** After any admissible history, a read of any unit range inside the volume
    returns, for every unit, the specified volume content — the payload of the most recent
    write that covered it, or zero (`default`) if it was never written. -/
theorem c01_read_back (bs nb : Nat) (hbs : 0 < bs) (ops : List (Op β))
    (hadm : AdmAll (DD.init bs nb : DD β) ops) (off len u : Nat)
    (hr : off + len ≤ (runWith (DD.init bs nb) Spec.init ops).1.nb * (runWith (DD.init bs nb) Spec.init ops).1.bs)
    (h1 : off ≤ u) (h2 : u < off + len) :
    ((runWith (DD.init bs nb : DD β) Spec.init ops).1.read off len).2 u =
      (runWith (DD.init bs nb : DD β) Spec.init ops).2.vol u := by
  have r := refines_run ops _ _ (refines_init bs nb hbs) hadm
  generalize (runWith (DD.init bs nb : DD β) Spec.init ops) = p at r hr
  show p.1.readUnit u = p.2.vol u
  have hu : u / p.1.bs < p.1.nb := (Nat.div_lt_iff_lt_mul r.wf.bs_pos).mpr (by omega)
  rw [readUnit_eq_live p.1 r.wf u hu]; exact r.live u

/-- **C01 (write).** One `WriteAt`, whatever its alignment, changes exactly the units it covers. -/
theorem c01_write_exact (d : DD β) (h : WF d) (off len : Nat) (buf : Nat → β)
    (hr : off + len ≤ d.nb * d.bs) (u : Nat) :
    (d.write off len buf).live u = if off ≤ u ∧ u < off + len then buf u else d.live u :=
  (writeOk_write d h off len buf hr).live u

/-- **C01 (read is pure).** A read changes neither the volume nor any snapshot. -/
theorem c01_read_pure (d : DD β) (off len i u : Nat) : (d.read off len).1.view i u = d.view i u :=
  view_read d off len i u

/-- **C01 (reopen).** Close + open, with or without extent preload, changes no content. -/
theorem c01_reopen (d : DD β) (pre : Bool) (i u : Nat) : (d.reopen pre).view i u = d.view i u :=
  view_reopen d pre i u

/-- the invariant holds in every reachable state -/
theorem c01_inv (bs nb : Nat) (hbs : 0 < bs) (ops : List (Op β))
    (hadm : AdmAll (DD.init bs nb : DD β) ops) : WF (runWith (DD.init bs nb : DD β) Spec.init ops).1 :=
  (refines_run ops _ _ (refines_init bs nb hbs) hadm).wf

/-! Non-vacuity: a concrete history with an unaligned write across three blocks, a user snapshot,
    an overwrite, punching on, a reopen with preload — it is admissible, and the read-back
    theorem's conclusion can be evaluated. -/
def demoOps01 : List (Op Nat) :=
  [.write 3 18 (fun u => 100 + u), .snapshot true, .setPunch true, .write 0 8 (fun u => 200 + u),
   .snapshot false, .write 4 9 (fun u => 300 + u), .applyHole 0, .reopen true, .read 0 32]

example : AdmAll (DD.init 8 4 : DD Nat) demoOps01 := by
  simp only [demoOps01, AdmAll, Adm]; decide

example : ((List.range 14).map fun u => (runWith (DD.init 8 4 : DD Nat) Spec.init demoOps01).1.readUnit u)
    = [200, 201, 202, 203, 304, 305, 306, 307, 308, 309, 310, 311, 312, 113] := by decide

end Jiva.Properties
