import JivaVerif.Model.Rpc
/-!
# C15 — data-path RPC: frames round-trip, replies reach their request, failure poisons the connection
-/
namespace Jiva.Properties
open Jiva.Rpc

theorem leBytes_length (n x : Nat) : (leBytes n x).length = n := by
  induction n generalizing x with
  | zero => rfl
  | succ n ih => simp [leBytes, ih]

theorem leVal_leBytes (n x : Nat) : leVal (leBytes n x) = x % 256 ^ n := by
  induction n generalizing x with
  | zero => simp [leBytes, leVal, Nat.mod_one]
  | succ n ih =>
    simp only [leBytes, leVal, ih]
    rw [Nat.pow_succ, Nat.mul_comm (256 ^ n) 256, Nat.mod_mul]

theorem take_len_append {α : Type} (l1 l2 : List α) (n : Nat) (h : l1.length = n) : (l1 ++ l2).take n = l1 := by
  subst h; simp
theorem drop_len_append {α : Type} (l1 l2 : List α) (n : Nat) (h : l1.length = n) : (l1 ++ l2).drop n = l2 := by
  subst h; simp

theorem field (n x : Nat) (l : List Nat) (h : x < 256 ^ n) :
    leVal ((leBytes n x ++ l).take n) = x ∧ (leBytes n x ++ l).drop n = l := by
  rw [take_len_append _ _ _ (leBytes_length n x), drop_len_append _ _ _ (leBytes_length n x), leVal_leBytes,
    Nat.mod_eq_of_lt h]
  exact ⟨rfl, rfl⟩

/-- **C15 (round trip).** Every well-formed frame — any type, sequence number, offset, size and
    payload shorter than 4 GiB — followed by any further bytes decodes to itself and leaves exactly
    those bytes. -/
theorem c15_roundtrip (m : Msg) (rest : List Nat) (hw : m.WF) (hm : m.magic = magicVersion) :
    decode (encode m ++ rest) = .ok m rest := by
  obtain ⟨w1, w2, w3, w4, w5, w6, _⟩ := hw
  have e : encode m ++ rest = leBytes 2 m.magic ++ (leBytes 4 m.seq ++ (leBytes 4 m.typ ++ (leBytes 8 m.offset ++
      (leBytes 8 m.size ++ (leBytes 4 m.data.length ++ (m.data ++ rest)))))) := by
    simp [encode, List.append_assoc]
  rw [e]
  unfold decode
  have f1 := field 2 m.magic (leBytes 4 m.seq ++ (leBytes 4 m.typ ++ (leBytes 8 m.offset ++
      (leBytes 8 m.size ++ (leBytes 4 m.data.length ++ (m.data ++ rest)))))) (by simpa using w1)
  have f2 := field 4 m.seq (leBytes 4 m.typ ++ (leBytes 8 m.offset ++
      (leBytes 8 m.size ++ (leBytes 4 m.data.length ++ (m.data ++ rest))))) (by simpa using w2)
  have f3 := field 4 m.typ (leBytes 8 m.offset ++
      (leBytes 8 m.size ++ (leBytes 4 m.data.length ++ (m.data ++ rest)))) (by simpa using w3)
  have f4 := field 8 m.offset (leBytes 8 m.size ++ (leBytes 4 m.data.length ++ (m.data ++ rest))) (by simpa using w4)
  have f5 := field 8 m.size (leBytes 4 m.data.length ++ (m.data ++ rest)) (by simpa using w5)
  have f6 := field 4 m.data.length (m.data ++ rest) (by simpa using w6)
  have l1 : ¬ ((leBytes 2 m.magic ++ (leBytes 4 m.seq ++ (leBytes 4 m.typ ++ (leBytes 8 m.offset ++
      (leBytes 8 m.size ++ (leBytes 4 m.data.length ++ (m.data ++ rest))))))).length < 2) := by
    simp [leBytes_length]
  have l2 : ¬ ((leBytes 4 m.seq ++ (leBytes 4 m.typ ++ (leBytes 8 m.offset ++
      (leBytes 8 m.size ++ (leBytes 4 m.data.length ++ (m.data ++ rest)))))).length < 28) := by
    simp [leBytes_length]; omega
  have l3 : ¬ ((m.data ++ rest).length < m.data.length) := by simp
  have t1 : (m.data ++ rest).take m.data.length = m.data := by simp
  have t2 : (m.data ++ rest).drop m.data.length = rest := by simp
  have hm' : ¬ (m.magic ≠ magicVersion) := by simp [hm]
  simp only [f1.1, f1.2, f2.1, f2.2, f3.1, f3.2, f4.1, f4.2, f5.1, f5.2, f6.1, f6.2, l1, l2, l3, t1, t2, hm',
    if_false]

/-- **C15 (wrong magic is rejected before any other field is used).** -/
theorem c15_reject (bs : List Nat) (h2 : 2 ≤ bs.length) (hm : leVal (bs.take 2) ≠ magicVersion) :
    decode bs = .reject := by
  unfold decode
  have : ¬ bs.length < 2 := by omega
  simp [this, hm]

/-- **C15 (stream).** Two frames back to back decode in order (and so on by induction). -/
theorem c15_stream2 (m1 m2 : Msg) (rest : List Nat) (h1 : m1.WF) (h2 : m2.WF)
    (e1 : m1.magic = magicVersion) (e2 : m2.magic = magicVersion) :
    decode (encode m1 ++ (encode m2 ++ rest)) = .ok m1 (encode m2 ++ rest) ∧
    decode (encode m2 ++ rest) = .ok m2 rest :=
  ⟨c15_roundtrip m1 _ h1 e1, c15_roundtrip m2 _ h2 e2⟩

/-- the hypothesis on the payload length is sharp: a 2³²-byte payload is not round-tripped (the
    length field is `uint32(len(msg.Data))`) -/
theorem c15_len_field_wraps : leVal (leBytes 4 (2 ^ 32)) = 0 := by
  rw [leVal_leBytes]

/-! ### client loop -/

/-- in-flight sequence numbers are distinct, were all handed out, and each was sent -/
def ClInv (c : Cl) : Prop :=
  (c.pending.map (·.1)).Nodup ∧ (∀ p ∈ c.pending, p.1 ≤ c.seq ∧ p ∈ c.sent) ∧
  (c.broken = true → c.pending = []) ∧ (c.sent.map (·.1)).Nodup ∧ (∀ p ∈ c.sent, p.1 ≤ c.seq)

theorem clinv_init : ClInv Cl.init := by simp [ClInv, Cl.init]

theorem clinv_step (c : Cl) (h : ClInv c) (e : Ev) : ClInv (c.step e) := by
  obtain ⟨h1, h2, h3, h4, h5⟩ := h
  cases e with
  | request id =>
    show ClInv (c.onRequest id)
    unfold Cl.onRequest
    by_cases hb : c.broken = true
    · rw [if_pos hb]; exact ⟨h1, h2, h3, h4, h5⟩
    · rw [if_neg hb]
      refine ⟨?_, ?_, ?_, ?_, ?_⟩
      · show ((c.pending ++ [(c.seq + 1, id)]).map (·.1)).Nodup
        rw [List.map_append, List.nodup_append]
        refine ⟨h1, by simp, ?_⟩
        intro a ha b hb'
        simp at hb'; subst hb'
        obtain ⟨p, hp, ep⟩ := List.mem_map.mp ha
        have := (h2 p hp).1
        omega
      · intro p hp
        have hp' : p ∈ c.pending ++ [(c.seq + 1, id)] := hp
        rcases List.mem_append.mp hp' with hp | hp
        · have := h2 p hp
          exact ⟨by show p.1 ≤ c.seq + 1; omega, List.mem_append.mpr (Or.inl this.2)⟩
        · simp at hp; subst hp
          exact ⟨Nat.le_refl _, List.mem_append.mpr (Or.inr (by simp))⟩
      · intro hh; exact absurd hh hb
      · show ((c.sent ++ [(c.seq + 1, id)]).map (·.1)).Nodup
        rw [List.map_append, List.nodup_append]
        refine ⟨h4, by simp, ?_⟩
        intro a ha b hb'
        simp at hb'; subst hb'
        obtain ⟨p, hp, ep⟩ := List.mem_map.mp ha
        have := h5 p hp
        omega
      · intro p hp
        have hp' : p ∈ c.sent ++ [(c.seq + 1, id)] := hp
        rcases List.mem_append.mp hp' with hp | hp
        · have := h5 p hp; show p.1 ≤ c.seq + 1; omega
        · simp at hp; subst hp; exact Nat.le_refl _
  | response s t z =>
    show ClInv (c.onResponse s t z)
    unfold Cl.onResponse
    by_cases hb : c.broken = true
    · rw [if_pos hb]; exact ⟨h1, h2, h3, h4, h5⟩
    · rw [if_neg hb]
      cases hf : c.pending.find? (fun p => p.1 = s) with
      | none => exact ⟨h1, h2, h3, h4, h5⟩
      | some p =>
        refine ⟨?_, ?_, ?_, h4, h5⟩
        · exact List.Nodup.sublist (List.Sublist.map _ List.filter_sublist) h1
        · intro q hq; exact h2 q (List.mem_filter.mp hq).1
        · intro hh; exact absurd hh hb
  | transportErr =>
    show ClInv c.onErr
    unfold Cl.onErr
    by_cases hb : c.broken = true
    · rw [if_pos hb]; exact ⟨h1, h2, h3, h4, h5⟩
    · rw [if_neg hb]
      exact ⟨List.nodup_nil, (fun p hp => by cases hp), fun _ => rfl, h4, h5⟩

theorem clinv_run (evs : List Ev) : ∀ c, ClInv c → ClInv (c.run evs) := by
  induction evs with
  | nil => intro c h; exact h
  | cons e es ih => intro c h; exact ih _ (clinv_step c h e)

/-- **C15 (a reply completes exactly the request that was given its sequence number).** -/
theorem c15_match (c : Cl) (h : ClInv c) (s t z id : Nat) (hb : c.broken = false)
    (hp : (s, id) ∈ c.pending) :
    (c.step (.response s t z)).done = c.done ++ [(id, .ok t z)] ∧
    (s, id) ∉ (c.step (.response s t z)).pending ∧
    (∀ q ∈ c.pending, q.1 ≠ s → q ∈ (c.step (.response s t z)).pending) := by
  show (c.onResponse s t z).done = _ ∧ (s, id) ∉ (c.onResponse s t z).pending ∧
    (∀ q ∈ c.pending, q.1 ≠ s → q ∈ (c.onResponse s t z).pending)
  unfold Cl.onResponse
  simp only [hb, Bool.false_eq_true, if_false]
  cases hf : c.pending.find? (fun p => p.1 = s) with
  | none =>
    have := List.find?_eq_none.mp hf (s, id) hp
    simp at this
  | some p =>
    have hpm : p ∈ c.pending := List.mem_of_find?_eq_some hf
    have hps : p.1 = s := by have := List.find?_some hf; simpa using this
    -- distinct sequence numbers: p is the pair (s, id)
    have : p = (s, id) := by
      have nd := h.1
      generalize c.pending = l at nd hpm hp
      induction l with
      | nil => cases hp
      | cons x xs ih =>
        rw [List.map_cons, List.nodup_cons] at nd
        rcases List.mem_cons.mp hpm with e1 | e1 <;> rcases List.mem_cons.mp hp with e2 | e2
        · rw [e1, e2]
        · exfalso; apply nd.1; rw [← e1, hps]; exact List.mem_map.mpr ⟨(s, id), e2, rfl⟩
        · exfalso; apply nd.1; rw [← e2]; exact List.mem_map.mpr ⟨p, e1, hps⟩
        · exact ih nd.2 e1 e2
    subst this
    refine ⟨rfl, ?_, ?_⟩
    · intro hm; have := (List.mem_filter.mp hm).2; simp at this
    · intro q hq hne; exact List.mem_filter.mpr ⟨hq, by simpa using hne⟩

/-- an unknown sequence number completes nothing -/
theorem c15_unknown_seq (c : Cl) (s t z : Nat) (h : ∀ p ∈ c.pending, p.1 ≠ s) : c.step (.response s t z) = c := by
  show c.onResponse s t z = c
  unfold Cl.onResponse
  split
  · rfl
  · have : c.pending.find? (fun p => p.1 = s) = none := by
      rw [List.find?_eq_none]; intro p hp; simpa using h p hp
    rw [this]

/-- **C15 (poison).** A transport error (read/write failure, or a request that exceeded its
    deadline) completes every in-flight request with an error, notifies the owner exactly once, and
    from then on every request fails at once and no reply is accepted. -/
theorem c15_poison (c : Cl) (hb : c.broken = false) :
    let c' := c.step .transportErr
    c'.broken = true ∧ c'.pending = [] ∧ c'.notified = c.notified + 1 ∧
    c'.done = c.done ++ c.pending.map (fun p => (p.2, .err)) ∧
    (∀ id, (c'.step (.request id)).done = c'.done ++ [(id, .err)] ∧ (c'.step (.request id)).pending = []) ∧
    (∀ s t z, c'.step (.response s t z) = c') ∧ c'.step .transportErr = c' := by
  simp [Cl.step, Cl.onErr, Cl.onRequest, Cl.onResponse, hb]

/-- the owner is notified at most once over any history -/
theorem c15_notified_once (evs : List Ev) : (Cl.init.run evs).notified ≤ 1 := by
  have key : ∀ (c : Cl) (e : Ev), (c.broken = false → c.notified = 0) → c.notified ≤ 1 →
      ((c.step e).broken = false → (c.step e).notified = 0) ∧ (c.step e).notified ≤ 1 := by
    intro c e h0 h1
    cases e with
    | request id =>
      show ((c.onRequest id).broken = false → (c.onRequest id).notified = 0) ∧ (c.onRequest id).notified ≤ 1
      unfold Cl.onRequest; split <;> exact ⟨h0, h1⟩
    | response s t z =>
      show ((c.onResponse s t z).broken = false → (c.onResponse s t z).notified = 0) ∧ (c.onResponse s t z).notified ≤ 1
      unfold Cl.onResponse
      split
      · exact ⟨h0, h1⟩
      · split <;> exact ⟨h0, h1⟩
    | transportErr =>
      show (c.onErr.broken = false → c.onErr.notified = 0) ∧ c.onErr.notified ≤ 1
      unfold Cl.onErr
      split
      · exact ⟨h0, h1⟩
      · rename_i hb
        have := h0 (by simpa using hb)
        exact ⟨(fun hh => by cases hh), (by show c.notified + 1 ≤ 1; omega)⟩
  have : ∀ (evs : List Ev) (c : Cl), (c.broken = false → c.notified = 0) → c.notified ≤ 1 →
      (c.run evs).notified ≤ 1 := by
    intro evs
    induction evs with
    | nil => intro c _ h1; exact h1
    | cons e es ih =>
      intro c h0 h1
      have k := key c e h0 h1
      exact ih _ k.1 k.2
  exact this evs Cl.init (by simp [Cl.init]) (by simp [Cl.init])

/-- server side: the reply to a write carries no payload, the reply to a read carries what was
    read, an error reply carries the error text -/
theorem c15_createResponse (m : Msg) :
    (createResponse m .none).typ = typeResponse ∧ (createResponse m .none).seq = m.seq ∧
    (createResponse m .none).size = m.data.length ∧
    (m.typ = typeWrite → (createResponse m .none).data = []) ∧
    (m.typ ≠ typeWrite → (createResponse m .none).data = m.data) ∧
    (∀ t, (createResponse m (.err t)).typ = typeError ∧ (createResponse m (.err t)).data = t) := by
  simp [createResponse]
  constructor
  · intro h; simp [h]
  · intro h; simp [h]

example : decode (encode ⟨magicVersion, 7, 1, 4096, 3, [1, 2, 3]⟩ ++ [9, 9]) =
    .ok ⟨magicVersion, 7, 1, 4096, 3, [1, 2, 3]⟩ [9, 9] := by decide
example : ((Cl.init.run [.request 10, .request 11, .response 2 2 5, .transportErr, .request 12]).done) =
    [(11, .ok 2 5), (10, .err), (12, .err)] := by decide

end Jiva.Properties
