import JivaVerif.Model.Replica
import JivaVerif.Lemmas.Remove
/-!
# C12 — the snapshot chain stays a well-formed path and survives reopen unchanged

The model keeps the chain as the list `names` (snapshot names base-first; the head is
`volume-head-NNN.img`), aligned with the file indices `1 … top-1` of the differencing disk, and the
per-member attributes `uc` / `rm`.  A path is well formed when the names are pairwise distinct and
the list is as long as the number of snapshot files.  The model has one copy of the metadata: that
the on-disk `*.meta` files and the in-memory tables stay equal is what the correspondence runs
check (profile "mgmt": chain, attributes and data after every request and after a reopen).
-/
namespace Jiva.Properties
open Jiva

/-- the chain is a simple path: distinct names, one per snapshot file -/
def ChainWF (r : Rep) : Prop := r.names.Nodup ∧ r.names.length + 1 = r.dd.top

theorem indexOf_zero_not_mem (r : Rep) (n : String) (h : r.indexOf n = 0) : n ∉ r.names := by
  unfold Rep.indexOf at h
  cases hi : r.names.idxOf? n with
  | none => exact List.idxOf?_eq_none_iff.mp hi
  | some i => rw [hi] at h; simp at h

theorem chainwf_init (bs nb : Nat) : ChainWF (Rep.init bs nb) := by
  simp [ChainWF, Rep.init, DD.init]

/-- **C12 (snapshot).** A snapshot with a fresh name extends the path by one member; a name that is
    already in the chain is refused and nothing changes (this needed the fix 03437ae). -/
theorem c12_snapshot (r : Rep) (h : ChainWF r) (n : String) (u : Bool) : ChainWF (r.step (.snap n u)).1 := by
  unfold Rep.step
  by_cases h1 : (!r.isOpen) = true
  · simp only [h1, if_true]; exact h
  · simp only [h1, if_false]
    by_cases h0 : r.dd.top + 2 > r.chainLimit
    · rw [if_pos h0]; exact h
    rw [if_neg h0]
    by_cases h2 : r.indexOf n ≠ 0
    · rw [if_pos h2]; exact h
    · have h2' : r.indexOf n = 0 := by simpa using h2
      rw [if_neg h2]
      by_cases h3 : r.orphans.contains n = true
      · simp only [h3, if_true]; exact h
      · simp only [h3, if_false]
        refine ⟨?_, ?_⟩
        · show (r.names ++ [n]).Nodup
          rw [List.nodup_append]
          refine ⟨h.1, by simp, ?_⟩
          intro a ha b hb
          simp at hb; subst hb
          intro e; subst e
          exact indexOf_zero_not_mem r a h2' ha
        · show (r.names ++ [n]).length + 1 = r.dd.top + 1
          simp; exact h.2

/-- **C12 (chain limit).** A snapshot is accepted only while the chain it produces still passes the
    length check of the next open, so the hypothesis of `c12_reopen` holds in every reachable state
    whose limit was not lowered (the two expressions are tied to the source by `Tie.chainLimit`). -/
theorem c12_snapshot_keeps_openable (r : Rep) (n : String) (u : Bool) (hl : r.dd.top ≤ r.chainLimit) :
    (r.step (.snap n u)).1.dd.top ≤ (r.step (.snap n u)).1.chainLimit := by
  unfold Rep.step
  by_cases h1 : (!r.isOpen) = true
  · simp only [h1, if_true]; exact hl
  · simp only [h1, if_false]
    by_cases h0 : r.dd.top + 2 > r.chainLimit
    · rw [if_pos h0]; exact hl
    rw [if_neg h0]
    by_cases h2 : r.indexOf n ≠ 0
    · rw [if_pos h2]; exact hl
    · rw [if_neg h2]
      by_cases h3 : r.orphans.contains n = true
      · simp only [h3, if_true]; exact hl
      · simp only [h3, if_false]
        show r.dd.top + 1 ≤ r.chainLimit
        omega

theorem c12_snapshot_dup_refused (r : Rep) (n : String) (ho : r.isOpen = true) (hn : r.indexOf n ≠ 0) (u : Bool) :
    r.step (.snap n u) = (r, .refused) := by
  unfold Rep.step; simp only [ho, Bool.not_true, Bool.false_eq_true, if_false]
  split
  · rfl
  · first | rfl | rw [if_pos hn]

/-- **C12 (reopen).** Close + open, reload and plain observation requests change neither the chain
    nor any member's attributes nor any member's content. -/
theorem c12_reopen (r : Rep) (p : Bool) (hl : r.dd.top ≤ r.chainLimit) :
    (r.step (.reopen p)).1.names = r.names ∧ (r.step (.reopen p)).1.dd.uc = r.dd.uc ∧
    (r.step (.reopen p)).1.dd.rm = r.dd.rm ∧ (r.step (.reopen p)).1.dd.top = r.dd.top ∧
    (r.step (.reopen p)).1.rev = r.rev ∧ (r.step (.reopen p)).1.ckpt = r.ckpt ∧
    (r.step (.reopen p)).1.dd.nb = r.dd.nb ∧
    ∀ i u, (r.step (.reopen p)).1.dd.view i u = r.dd.view i u := by
  unfold Rep.step
  by_cases h : (!r.isOpen) = true
  · simp [h]
  · simp only [h, if_false]
    have hl' : ¬ r.dd.top > r.chainLimit := by omega
    rw [if_neg hl']
    have e : r.dd.reopen p = if p then (DD.fresh r.dd).preload else DD.fresh r.dd := rfl
    refine ⟨rfl, ?_, ?_, DD.reopen_top r.dd p, rfl, rfl, ?_, fun i u => DD.view_reopen r.dd p i u⟩
    · show (r.dd.reopen p).uc = r.dd.uc; rw [e]; split <;> rfl
    · show (r.dd.reopen p).rm = r.dd.rm; rw [e]; split <;> rfl
    · show (r.dd.reopen p).nb = r.dd.nb; rw [e]; split <;> rfl

/-- **C12 (refused requests change nothing).** Every management request on a closed replica, and
    the RW-only ones on a replica that is not RW, are refused with the state untouched. -/
theorem c12_refused_noop (r : Rep) (n : String) (k : Nat) :
    (r.isOpen = false →
      r.step (.snap n true) = (r, .refused) ∧ r.step (.mark n) = (r, .refused) ∧ r.step (.rm n) = (r, .refused) ∧
      r.step (.revert n) = (r, .refused) ∧ r.step (.resize k) = (r, .refused) ∧ r.step (.setCkpt n) = (r, .refused) ∧
      r.step (.setRev k) = (r, .refused)) ∧
    (r.mode ≠ .rw →
      r.step (.mark n) = (r, .refused) ∧ r.step (.rm n) = (r, .refused) ∧ r.step (.setRev k) = (r, .refused)) := by
  constructor
  · intro h; unfold Rep.step; simp [h]
  · intro h; unfold Rep.step; simp [h]

theorem c12_unknown_revert_refused (r : Rep) (n : String) (h : r.indexOf n = 0) :
    r.step (.revert n) = (r, .refused) := by
  unfold Rep.step
  by_cases ho : (!r.isOpen) = true
  · simp [ho]
  · simp [ho, h]

example : ChainWF ((Rep.init 8 4).run [.setMode .rw, .snap "a" true, .snap "b" false, .snap "a" true, .reopen true]) := by
  simp [ChainWF, Rep.run, Rep.step, Rep.init, Rep.indexOf, DD.init, DD.snapshot, DD.reopen, DD.preload]
  decide

end Jiva.Properties
