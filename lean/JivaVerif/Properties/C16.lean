import JivaVerif.Lemmas.InVol
import JivaVerif.Model.Replica
/-!
# C16 — growing a volume keeps all data; shrinking is refused
Replica side (`Replica.Resize`): the location map is extended with unknown entries, every chain
file is truncated to the new size (no block becomes allocated).  Controller side: see
`Properties/Controller.lean` (`c16_ctl_*`).
-/
namespace Jiva.Properties
open Jiva DD
variable {β : Type} [Inhabited β]

/-- **C16 (grow keeps data).** Every unit of the volume and of every snapshot reads as before. -/
theorem c16_grow_keeps (d : DD β) (nb' i u : Nat) : (d.resize nb').view i u = d.view i u := rfl

/-- **C16 (added range is zero).** Units beyond the old size read zero — live and in every
    snapshot — and `ReadAt` really returns that. -/
theorem c16_added_range_zero (d : DD β) (h : WF d) (hv : InVol d) (nb' : Nat) (hn : d.nb ≤ nb')
    (u : Nat) (h1 : d.nb * d.bs ≤ u) (h2 : u < nb' * d.bs) :
    (d.resize nb').readUnit u = default := by
  have hw := wf_resize d h nb' hn
  have hu : u / d.bs < nb' := (Nat.div_lt_iff_lt_mul h.bs_pos).mpr h2
  rw [readUnit_eq_live (d.resize nb') hw u hu]
  have : d.nb ≤ u / d.bs := (Nat.le_div_iff_mul_le h.bs_pos).mpr h1
  exact view_zero_outside d hv d.top u this

/-- **C16 (added range accepts writes).** A write into the added range is an ordinary admissible
    write: it reads back and touches nothing else. -/
theorem c16_added_range_writable (d : DD β) (h : WF d) (nb' : Nat) (hn : d.nb ≤ nb')
    (off len : Nat) (buf : Nat → β) (hr : off + len ≤ nb' * d.bs) (u : Nat) :
    ((d.resize nb').write off len buf).live u = if off ≤ u ∧ u < off + len then buf u else d.live u :=
  (writeOk_write (d.resize nb') (wf_resize d h nb' hn) off len buf hr).live u

/-- **C16 (survives reopen).** -/
theorem c16_size_survives_reopen (d : DD β) (nb' : Nat) (pre : Bool) :
    ((d.resize nb').reopen pre).nb = nb' := by
  have e : (d.resize nb').reopen pre = if pre then (fresh (d.resize nb')).preload else fresh (d.resize nb') := rfl
  rw [e]; split <;> rfl

/-- **C16 (composes).** Growing is one more admissible request: the invariant and the refinement
    to the abstract volume are preserved (`wf_step`, `refines_step`, `inVol_step` cover `.resize`). -/
theorem c16_inv (d : DD β) (h : WF d) (nb' : Nat) (hn : d.nb ≤ nb') : WF (d.resize nb') :=
  wf_resize d h nb' hn

/-- **C16 (shrink refused).** A smaller size is refused by the replica and nothing changes. -/
theorem c16_shrink_refused (r : Rep) (nb' : Nat) (hs : nb' < r.dd.nb) :
    r.step (.resize nb') = (r, .refused) := by
  unfold Rep.step; simp [hs]

example : (DD.init 8 4 : DD Nat).nb ≤ 6 ∧ WF (DD.init 8 4 : DD Nat) := ⟨by decide, wf_init 8 4 (by decide)⟩

end Jiva.Properties
