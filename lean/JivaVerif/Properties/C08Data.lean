import JivaVerif.Lemmas.Write
/-!
# C08 — the data path under process death: a torn write

"If a replica process dies at any instant — during a write … — every previously acknowledged byte
and every retained snapshot reads back unchanged."  A write in flight may be partially applied.

The data of a request reaches the head file block by block (`fullWriteAt` issues one `pwrite` per run
of blocks; `readModifyWrite` one 4 KiB block that already contains the merged old and new units).
Process death leaves an arbitrary subset `T` of those blocks written (atomicity of a single 4 KiB
block is the assumption; the location map, the pending punch requests and the revision cache live in
memory and are rebuilt from the files by the next open).  For EVERY such subset:

* every snapshot layer is untouched (`c08_torn_snapshots`);
* a unit whose block was not reached reads exactly as before, a unit whose block was reached reads the
  (merged) buffer — so nothing outside the blocks of the request changes and no block is half old,
  half new (`c08_torn_live`);
* the torn state is the complete effect when every block was reached, and no effect when none was
  (`c08_torn_all`, `c08_torn_none`): the crash states lie between the two.

`crashdiff` kills the real process at every mutating call of a write and checks exactly this on the
reopened directory: units outside the request unchanged, each block of the request entirely old or
entirely as the completed write left it.
-/
namespace Jiva.DD
variable {β : Type} [Inhabited β]

/-- the head file after process death during a block write of `[s, s+n)`: the blocks in `T` were
    reached -/
def tornWrite (d : DD β) (s n : Nat) (buf : Nat → β) (T : Nat → Bool) : DD β :=
  { d with
    files := fun i => if i = d.top then
        ⟨fun b => if s ≤ b ∧ b < s + n ∧ T b = true then true else (d.files d.top).alloc b,
         fun u => if s ≤ u / d.bs ∧ u / d.bs < s + n ∧ T (u / d.bs) = true then buf u else (d.files d.top).data u⟩
      else d.files i }

/-- **C08 (torn write, snapshots).** Whatever part of a write reached the disk, every snapshot layer
    reads as before. -/
theorem c08_torn_snapshots (d : DD β) (s n : Nat) (buf : Nat → β) (T : Nat → Bool) (i u : Nat) (hi : i < d.top) :
    (d.tornWrite s n buf T).view i u = d.view i u := by
  unfold view
  apply viewUpTo_congr
  intro j _ hj
  have : j ≠ d.top := by omega
  simp [tornWrite, this]

/-- **C08 (torn write, live volume).** A unit reads the new (merged) data exactly when its block was
    reached, and exactly what it read before otherwise. -/
theorem c08_torn_live (d : DD β) (htop : 1 ≤ d.top) (s n : Nat) (buf : Nat → β) (T : Nat → Bool) (u : Nat) :
    (d.tornWrite s n buf T).live u =
      if s ≤ u / d.bs ∧ u / d.bs < s + n ∧ T (u / d.bs) = true then buf u else d.live u := by
  unfold live
  have e1 : (d.tornWrite s n buf T).top = d.top := rfl
  rw [e1]
  obtain ⟨t, ht⟩ : ∃ t, d.top = t + 1 := ⟨d.top - 1, by omega⟩
  unfold view
  have hbs : (d.tornWrite s n buf T).bs = d.bs := rfl
  rw [hbs, ht, viewUpTo_succ, viewUpTo_succ]
  have hbelow : viewUpTo (d.tornWrite s n buf T).files d.bs t u = viewUpTo d.files d.bs t u :=
    c08_torn_snapshots d s n buf T t u (by omega)
  rw [hbelow]
  by_cases hin : s ≤ u / d.bs ∧ u / d.bs < s + n ∧ T (u / d.bs) = true
  · simp [tornWrite, ht, hin]
  · simp only [tornWrite, ht, hin, if_false, if_true]

/-- nothing outside the blocks of the request changes -/
theorem c08_torn_outside (d : DD β) (htop : 1 ≤ d.top) (s n : Nat) (buf : Nat → β) (T : Nat → Bool) (u : Nat)
    (hout : ¬ (s ≤ u / d.bs ∧ u / d.bs < s + n)) : (d.tornWrite s n buf T).live u = d.live u := by
  rw [c08_torn_live d htop]
  have : ¬ (s ≤ u / d.bs ∧ u / d.bs < s + n ∧ T (u / d.bs) = true) := fun h => hout ⟨h.1, h.2.1⟩
  simp [this]

/-- every block reached: the files are those of the completed write -/
theorem c08_torn_all (d : DD β) (s n : Nat) (buf : Nat → β) :
    (d.tornWrite s n buf (fun _ => true)).files = (d.fullWrite s n buf).files := by
  funext i
  by_cases h : i = d.top
  · simp [tornWrite, fullWrite, File.writeBlocks, h]
  · simp [tornWrite, fullWrite, h]

/-- no block reached: nothing happened -/
theorem c08_torn_none (d : DD β) (s n : Nat) (buf : Nat → β) :
    (d.tornWrite s n buf (fun _ => false)).files = d.files := by
  funext i
  by_cases h : i = d.top
  · subst h; simp [tornWrite]
  · simp [tornWrite, h]

/-- non-vacuity (a test): two of three blocks reached -/
example :
    let d : DD Nat := (DD.init 2 4).fullWrite 0 4 (fun u => 10 + u)
    let t := d.tornWrite 1 3 (fun u => 90 + u) (fun b => b != 2)
    (List.range 8).map t.live = [10, 11, 92, 93, 14, 15, 96, 97] := by decide

end Jiva.DD
