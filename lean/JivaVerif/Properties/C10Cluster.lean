import JivaVerif.Properties.C09Restart
/-!
# C10 at the level of the volume — "all RW replicas of a volume report the same count"

Over the whole-volume model (`Model/Cluster.lean`), for ANY history — failing writes, lost replies,
rebuilds, removals, stops in any state, restarts with any registration order; no hypothesis on the
health of the volume: in every reachable state all RW replicas hold the same writes and report the
same revision count, and that count is the number of writes they hold.
-/
namespace Jiva.Cluster
open Jiva Sys

/-- the part of the invariant that needs no hypothesis on how the volume stops -/
structure Inv0 (s : Sys) : Prop where
  cnt : ∀ i, (s.node i).rebuilding = false → (s.node i).rev = (s.node i).log.length
  rw  : ∀ i, (s.node i).att = .rw → (s.node i).log = s.stream ∧ (s.node i).rev = s.stream.length
  dn  : s.up = false → ∀ i, (s.node i).att = .none

theorem inv0_init (rf n : Nat) : Inv0 (init rf n) :=
  ⟨fun _ _ => rfl, fun _ h => (by cases h), fun _ _ => rfl⟩

theorem inv0_setNode (s : Sys) (h : Inv0 s) (hup : s.up = true) (i : Nat) (nd : Node)
    (hc : nd.rebuilding = false → nd.rev = nd.log.length)
    (hrw : nd.att = .rw → nd.log = s.stream ∧ nd.rev = s.stream.length) : Inv0 (s.setNode i nd) := by
  have hnode : ∀ j, (s.setNode i nd).node j = if j = i then nd else s.node j := fun j => rfl
  refine ⟨?_, ?_, ?_⟩
  · intro j hr
    rw [hnode] at hr ⊢
    by_cases e : j = i
    · rw [if_pos e] at hr ⊢; exact hc hr
    · rw [if_neg e] at hr ⊢; exact h.cnt j hr
  · intro j ha
    rw [hnode] at ha ⊢
    show _ = s.stream ∧ _ = s.stream.length
    by_cases e : j = i
    · rw [if_pos e] at ha ⊢; exact hrw ha
    · rw [if_neg e] at ha ⊢; exact h.rw j ha
  · intro hu
    have : (s.setNode i nd).up = s.up := rfl
    rw [this, hup] at hu; cases hu

theorem inv0_step (s : Sys) (h : Inv0 s) (op : Op) : Inv0 (s.step op).1 := by
  cases op with
  | reg i e =>
    show Inv0 (s.stepReg i e).1
    unfold stepReg
    split
    · exact h
    · rename_i hg
      have hdown : s.up = false := by
        cases hu : s.up with
        | false => rfl
        | true => exact absurd (Or.inl hu) hg
      -- registering changes nothing the invariant looks at
      have h1 : Inv0 (s.setNode i { s.node i with registered := true }) := by
        have hnode : ∀ j, (s.setNode i { s.node i with registered := true }).node j =
            if j = i then { s.node i with registered := true } else s.node j := fun j => rfl
        refine ⟨?_, ?_, ?_⟩
        · intro j hr
          rw [hnode] at hr ⊢
          by_cases e : j = i
          · subst e; rw [if_pos rfl] at hr ⊢; exact h.cnt j hr
          · rw [if_neg e] at hr ⊢; exact h.cnt j hr
        · intro j ha
          rw [hnode] at ha ⊢
          by_cases e : j = i
          · subst e; rw [if_pos rfl] at ha ⊢; exact h.rw j ha
          · rw [if_neg e] at ha ⊢; exact h.rw j ha
        · intro _ j
          rw [hnode]
          by_cases e : j = i
          · subst e; rw [if_pos rfl]; exact h.dn hdown j
          · rw [if_neg e]; exact h.dn hdown j
      have hd1 : (s.setNode i { s.node i with registered := true }).up = false := hdown
      generalize s.setNode i { s.node i with registered := true } = s1 at h1 hd1 ⊢
      dsimp only
      split
      · exact h1
      · rename_i hrebi
        split
        · exact h
        · rename_i hlegal
          split
          · -- the elected replica starts the volume: the volume is what it holds
            have hrebi' : (s1.node i).rebuilding = false := by simpa using hrebi
            have hlegal' : s1.legalLeader (s1.candidate i) e = true := by simpa using hlegal
            have hereb : (s1.node e).rebuilding = false := by
              have hcurreb : (s1.node (s1.candidate i)).rebuilding = false := by
                unfold candidate
                split
                · split
                  · exact hrebi'
                  · rename_i hm; simpa using hm
                · exact hrebi'
              unfold legalLeader at hlegal'
              simp only at hlegal'
              split at hlegal'
              · have : e = s1.candidate i := by simpa using hlegal'
                rw [this]; exact hcurreb
              · have hl' : ((e < s1.n ∧ (s1.node e).registered = true) ∧ (s1.node e).rebuilding = false) ∧
                    (s1.node e).rev = Ctl.maxRevCount s1.regs (s1.node (s1.candidate i)).rev := by
                  simpa using hlegal'
                exact hl'.1.2
            have hnode : ∀ j, (({ s1 with maxRev := some e } : Sys).start e).node j =
                if j = e then { s1.node e with att := .rw } else s1.node j := fun j => rfl
            refine ⟨?_, ?_, fun hu => by cases hu⟩
            · intro j hr
              rw [hnode] at hr ⊢
              by_cases ej : j = e
              · rw [if_pos ej] at hr ⊢; exact h1.cnt e hr
              · rw [if_neg ej] at hr ⊢; exact h1.cnt j hr
            · intro j ha
              rw [hnode] at ha ⊢
              show _ = (s1.node e).log ∧ _ = (s1.node e).log.length
              by_cases ej : j = e
              · rw [if_pos ej]; exact ⟨rfl, h1.cnt e hereb⟩
              · rw [if_neg ej] at ha ⊢
                -- nobody else is attached while the volume is down
                rw [h1.dn hd1 j] at ha; cases ha
          · exact ⟨h1.cnt, h1.rw, h1.dn⟩
  | write f a =>
    show Inv0 (s.stepWrite f a).1
    unfold stepWrite
    split
    · exact h
    · split
      · exact h
      · refine ⟨?_, ?_, ?_⟩
        · intro i hr
          show (s.writeNode f a i).rev = (s.writeNode f a i).log.length
          have hr' : (s.node i).rebuilding = false := by rw [← writeNode_reb s f a i]; exact hr
          rcases writeNode_log s f a i with ⟨e1, e2⟩ | ⟨_, e1, e2⟩
          · rw [e1, e2]; exact h.cnt i hr'
          · rw [e1, e2, h.cnt i hr']; simp
        · intro i ha
          show (s.writeNode f a i).log = s.stream ++ [s.next] ∧ (s.writeNode f a i).rev = (s.stream ++ [s.next]).length
          have ha' : (s.writeNode f a i).att = .rw := ha
          obtain ⟨e0, e1⟩ := writeNode_att s f a i (by rw [ha']; intro hc; cases hc)
          have hrw : (s.node i).att = .rw := by rw [← e0]; exact ha'
          obtain ⟨l1, l2⟩ := e1 hrw
          rw [l1, l2, (h.rw i hrw).1, (h.rw i hrw).2]; simp
        · intro hu
          rename_i hup _
          have : s.up = false := hu
          rw [this] at hup; simp at hup
  | add i =>
    show Inv0 (s.stepAdd i).1
    unfold stepAdd
    split
    · exact h
    · rename_i hg
      exact inv0_setNode s h (up_of_not s hg) i _ (fun hr => h.cnt i hr) (fun ha => by cases ha)
  | setrb i =>
    show Inv0 (s.stepSetRb i).1
    unfold stepSetRb
    split
    · exact h
    · rename_i hg
      refine inv0_setNode s h (up_of_not s hg) i _ (fun hr => by cases hr) (fun ha => ?_)
      have hwo : (s.node i).att = .wo := by
        cases hc : (s.node i).att with
        | wo => rfl
        | none => exact absurd (Or.inr (Or.inr (by simp [hc]))) hg
        | rw => exact absurd (Or.inr (Or.inr (by simp [hc]))) hg
      have : (s.node i).att = .rw := ha
      rw [hwo] at this; cases this
  | promote i src =>
    show Inv0 (s.stepPromote i src).1
    unfold stepPromote
    split
    · exact h
    · rename_i hg
      have hsrc : (s.node src).att = .rw := by
        cases ha : (s.node src).att with
        | rw => rfl
        | none => exact absurd (Or.inr (Or.inr (Or.inr (Or.inr (by simp [ha]))))) hg
        | wo => exact absurd (Or.inr (Or.inr (Or.inr (Or.inr (by simp [ha]))))) hg
      have hr := h.rw src hsrc
      refine inv0_setNode s h (up_of_not s hg) i _ (fun _ => ?_) (fun _ => hr)
      show (s.node src).rev = (s.node src).log.length
      rw [hr.1, hr.2]
  | rbdone i =>
    show Inv0 (s.stepRbDone i).1
    unfold stepRbDone
    split
    · exact h
    · rename_i hg
      have hi : (s.node i).att = .rw := by
        cases ha : (s.node i).att with
        | rw => rfl
        | none => exact absurd (Or.inr (Or.inl (by simp [ha]))) hg
        | wo => exact absurd (Or.inr (Or.inl (by simp [ha]))) hg
      have hr := h.rw i hi
      have hup : s.up = true := by
        cases hu : s.up with
        | true => rfl
        | false => have := h.dn hu i; rw [hi] at this; cases this
      refine inv0_setNode s h hup i _ (fun _ => ?_) (fun _ => hr)
      show (s.node i).rev = (s.node i).log.length
      rw [hr.1, hr.2]
  | remove i =>
    show Inv0 (s.stepRemove i).1
    unfold stepRemove
    split
    · exact h
    · rename_i hg
      exact inv0_setNode s h (up_of_not s hg) i _ (fun hr => h.cnt i hr) (fun ha => by cases ha)
  | snap =>
    show Inv0 (s.stepSnap).1
    unfold stepSnap
    split
    · exact h
    · refine ⟨?_, ?_, ?_⟩
      · intro i hr
        show (if (s.node i).att = .rw then _ else s.node i).rev = (if (s.node i).att = .rw then _ else s.node i).log.length
        have hr' : (s.node i).rebuilding = false := by
          have : (if (s.node i).att = .rw then { s.node i with snaps := (s.node i).snaps ++ [(s.nextSnap, (s.node i).log)] } else s.node i).rebuilding = false := hr
          split at this <;> exact this
        split <;> exact h.cnt i hr'
      · intro i ha
        show (if (s.node i).att = .rw then _ else s.node i).log = s.stream ∧ (if (s.node i).att = .rw then _ else s.node i).rev = s.stream.length
        have ha' : (s.node i).att = .rw := by
          have : (if (s.node i).att = .rw then { s.node i with snaps := (s.node i).snaps ++ [(s.nextSnap, (s.node i).log)] } else s.node i).att = .rw := ha
          split at this <;> exact this
        split <;> exact h.rw i ha'
      · intro hu
        rename_i hg
        have : s.up = false := hu
        exact absurd (Or.inl (by simp [this])) hg
  | regq => exact h
  | stop =>
    show Inv0 (s.stepStop).1
    unfold stepStop
    exact ⟨fun i hr => h.cnt i hr, fun i ha => (by cases ha), fun _ _ => rfl⟩

theorem inv0_run (ops : List Op) : ∀ s : Sys, Inv0 s → Inv0 (s.run ops) := by
  induction ops with
  | nil => intro s h; exact h
  | cons op ops ih => intro s h; exact ih _ (inv0_step s h op)

/-- **C10 (all RW replicas of a volume report the same count).** `rf` and `n` arbitrary, ANY
    history, the volume stopping and restarting in any state: two replicas that are RW hold the same
    writes and report the same revision count, which is the number of writes they hold. -/
theorem c10_rw_replicas_agree (rf n : Nat) (ops : List Op) :
    let s := (init rf n).run ops
    ∀ i j, (s.node i).att = .rw → (s.node j).att = .rw →
      (s.node i).log = (s.node j).log ∧ (s.node i).rev = (s.node j).rev ∧ (s.node i).rev = (s.node i).log.length := by
  intro s i j hi hj
  have h := inv0_run ops (init rf n) (inv0_init rf n)
  obtain ⟨a1, a2⟩ := h.rw i hi
  obtain ⟨b1, b2⟩ := h.rw j hj
  exact ⟨by rw [a1, b1], by rw [a2, b2], by rw [a2, a1]⟩

end Jiva.Cluster

namespace Jiva.Cluster
open Jiva Sys

/-- **C04 / C05 at the level of the volume (a detached replica comes back only through a fresh
    add-and-rebuild).**  One step of ANY kind from ANY state: a replica directory that was not RW and is
    RW afterwards was either promoted by this step — it was attached WO, and now holds what its RW source
    holds — or it is the replica the election of this step ended on, the volume having been down. -/
theorem c05_rw_only_by_promotion_or_election (s : Sys) (op : Op) (i : Nat)
    (h0 : (s.node i).att ≠ .rw) (h1 : ((s.step op).1.node i).att = .rw) :
    (∃ src, op = .promote i src ∧ (s.node i).att = .wo ∧ (s.node src).att = .rw ∧
        ((s.step op).1.node i).log = (s.node src).log ∧ ((s.step op).1.node i).rev = (s.node src).rev) ∨
    (∃ r, op = .reg r i ∧ s.up = false ∧ (s.step op).2 = .leader i) := by
  cases op with
  | reg r e =>
    right
    have h1' : ((s.stepReg r e).1.node i).att = .rw := h1
    show ∃ r', Op.reg r e = Op.reg r' i ∧ s.up = false ∧ (s.stepReg r e).2 = .leader i
    unfold stepReg at h1' ⊢
    split at h1'
    · exact absurd h1' h0
    · rename_i hg
      have hdown : s.up = false := by
        cases hu : s.up with
        | false => rfl
        | true => exact absurd (Or.inl hu) hg
      rw [if_neg hg]
      have hreg : ∀ j, ((s.setNode r { s.node r with registered := true }).node j).att = (s.node j).att := by
        intro j
        show (if j = r then { s.node r with registered := true } else s.node j).att = _
        by_cases ej : j = r
        · subst ej; rw [if_pos rfl]
        · rw [if_neg ej]
      dsimp only at h1' ⊢
      split at h1'
      · rw [hreg] at h1'; exact absurd h1' h0
      · rename_i hr
        rw [if_neg hr]
        split at h1'
        · exact absurd h1' h0
        · rename_i hl
          rw [if_neg hl]
          split at h1'
          · rename_i hm
            rw [if_pos hm]
            -- the volume is started on `e`: only `e` becomes RW
            have hnode : (({ s.setNode r { s.node r with registered := true } with maxRev := some e } : Sys).start e).node i =
                if i = e then { (s.setNode r { s.node r with registered := true }).node e with att := .rw }
                else (s.setNode r { s.node r with registered := true }).node i := rfl
            rw [hnode] at h1'
            by_cases ie : i = e
            · subst ie; exact ⟨r, rfl, hdown, rfl⟩
            · rw [if_neg ie, hreg] at h1'; exact absurd h1' h0
          · rw [hreg] at h1'; exact absurd h1' h0
  | write f a =>
    exfalso
    have h1' : ((s.stepWrite f a).1.node i).att = .rw := h1
    unfold stepWrite at h1'
    split at h1'
    · exact h0 h1'
    · split at h1'
      · exact h0 h1'
      · have h2 : (s.writeNode f a i).att = .rw := h1'
        have := (writeNode_att s f a i (by rw [h2]; intro hc; cases hc)).1
        rw [h2] at this; exact h0 this.symm
  | add k =>
    exfalso
    have h1' : ((s.stepAdd k).1.node i).att = .rw := h1
    unfold stepAdd at h1'
    split at h1'
    · exact h0 h1'
    · have h2 : (if i = k then { s.node k with att := .wo } else s.node i).att = .rw := h1'
      by_cases e : i = k
      · rw [if_pos e] at h2; cases h2
      · rw [if_neg e] at h2; exact h0 h2
  | setrb k =>
    exfalso
    have h1' : ((s.stepSetRb k).1.node i).att = .rw := h1
    unfold stepSetRb at h1'
    split at h1'
    · exact h0 h1'
    · have h2 : (if i = k then { s.node k with rebuilding := true, log := [], snaps := [] } else s.node i).att = .rw := h1'
      by_cases e : i = k
      · subst e; rw [if_pos rfl] at h2; exact h0 h2
      · rw [if_neg e] at h2; exact h0 h2
  | promote k src =>
    left
    have h1' : ((s.stepPromote k src).1.node i).att = .rw := h1
    show ∃ src', Op.promote k src = Op.promote i src' ∧ _ ∧ _ ∧ ((s.stepPromote k src).1.node i).log = _ ∧ ((s.stepPromote k src).1.node i).rev = _
    unfold stepPromote at h1' ⊢
    split at h1'
    · exact absurd h1' h0
    · rename_i hg
      rw [if_neg hg]
      have h2 : (if i = k then { s.node k with att := .rw, log := (s.node src).log, rev := (s.node src).rev, snaps := (s.node src).snaps }
          else s.node i).att = .rw := h1'
      by_cases e : i = k
      · subst e
        have hwo : (s.node i).att = .wo := by
          cases hc : (s.node i).att with
          | wo => rfl
          | none => exact absurd (Or.inr (Or.inr (Or.inr (Or.inl (by simp [hc]))))) hg
          | rw => exact absurd (Or.inr (Or.inr (Or.inr (Or.inl (by simp [hc]))))) hg
        have hsrc : (s.node src).att = .rw := by
          cases hc : (s.node src).att with
          | rw => rfl
          | none => exact absurd (Or.inr (Or.inr (Or.inr (Or.inr (by simp [hc]))))) hg
          | wo => exact absurd (Or.inr (Or.inr (Or.inr (Or.inr (by simp [hc]))))) hg
        refine ⟨src, rfl, hwo, hsrc, ?_, ?_⟩
        · show (if i = i then _ else s.node i).log = _; rw [if_pos rfl]
        · show (if i = i then _ else s.node i).rev = _; rw [if_pos rfl]
      · rw [if_neg e] at h2; exact absurd h2 h0
  | rbdone k =>
    exfalso
    have h1' : ((s.stepRbDone k).1.node i).att = .rw := h1
    unfold stepRbDone at h1'
    split at h1'
    · exact h0 h1'
    · have h2 : (if i = k then { s.node k with rebuilding := false } else s.node i).att = .rw := h1'
      by_cases e : i = k
      · subst e; rw [if_pos rfl] at h2; exact h0 h2
      · rw [if_neg e] at h2; exact h0 h2
  | remove k =>
    exfalso
    have h1' : ((s.stepRemove k).1.node i).att = .rw := h1
    unfold stepRemove at h1'
    split at h1'
    · exact h0 h1'
    · have h2 : (if i = k then { s.node k with att := .none } else s.node i).att = .rw := h1'
      by_cases e : i = k
      · rw [if_pos e] at h2; cases h2
      · rw [if_neg e] at h2; exact h0 h2
  | snap =>
    exfalso
    have h1' : ((s.stepSnap).1.node i).att = .rw := h1
    unfold stepSnap at h1'
    split at h1'
    · exact h0 h1'
    · have h2 : (if (s.node i).att = .rw then { s.node i with snaps := (s.node i).snaps ++ [(s.nextSnap, (s.node i).log)] }
          else s.node i).att = .rw := h1'
      split at h2 <;> exact h0 h2
  | regq => exact absurd h1 h0
  | stop =>
    exfalso
    have h1' : ((s.stepStop).1.node i).att = .rw := h1
    unfold stepStop at h1'
    cases h1'

end Jiva.Cluster

namespace Jiva.Cluster
open Jiva Sys

/-- the writes acknowledged since the volume was last started are part of what the volume holds —
    no hypothesis on how the volume was stopped before -/
def InvE (s : Sys) : Prop := ∀ w ∈ s.ackedEpoch, w ∈ s.stream

theorem invE_step (s : Sys) (h : InvE s) (op : Op) : InvE (s.step op).1 := by
  cases op with
  | reg i e =>
    show InvE (s.stepReg i e).1
    unfold stepReg
    split
    · exact h
    · dsimp only
      split
      · exact h
      · split
        · exact h
        · split
          · intro w hw; cases hw
          · exact h
  | write f a =>
    show InvE (s.stepWrite f a).1
    unfold stepWrite
    split
    · exact h
    · split
      · exact h
      · intro w hw
        show w ∈ s.stream ++ [s.next]
        have hw' : w ∈ (if _ then s.ackedEpoch ++ [s.next] else s.ackedEpoch) := hw
        split at hw'
        · rcases List.mem_append.mp hw' with h1 | h1
          · exact List.mem_append_left _ (h w h1)
          · exact List.mem_append_right _ h1
        · exact List.mem_append_left _ (h w hw')
  | add i => show InvE (s.stepAdd i).1; unfold stepAdd; split <;> exact h
  | setrb i => show InvE (s.stepSetRb i).1; unfold stepSetRb; split <;> exact h
  | promote i src => show InvE (s.stepPromote i src).1; unfold stepPromote; split <;> exact h
  | rbdone i => show InvE (s.stepRbDone i).1; unfold stepRbDone; split <;> exact h
  | remove i => show InvE (s.stepRemove i).1; unfold stepRemove; split <;> exact h
  | snap => show InvE (s.stepSnap).1; unfold stepSnap; split <;> exact h
  | regq => exact h
  | stop => exact h

theorem invE_run (ops : List Op) : ∀ s : Sys, InvE s → InvE (s.run ops) := by
  induction ops with
  | nil => intro s h; exact h
  | cons op ops ih => intro s h; exact ih _ (invE_step s h op)

/-- **C02 / C04 at the level of the volume (a successful read reflects every acknowledged write).**
    ANY history, the volume stopped and restarted in any state: every replica that is RW — the
    replicas reads are served from — holds every write acknowledged since the volume was last
    started.  (For the writes acknowledged before the last restart see `c09_restart_serves_acked`.) -/
theorem c04_rw_replicas_hold_epoch_acks (rf n : Nat) (ops : List Op) :
    let s := (init rf n).run ops
    ∀ i, (s.node i).att = .rw → ∀ w ∈ s.ackedEpoch, w ∈ (s.node i).log := by
  intro s i hi w hw
  have h0 := inv0_run ops (init rf n) (inv0_init rf n)
  have he := invE_run ops (init rf n) (fun w hw => by cases hw)
  rw [(h0.rw i hi).1]
  exact he w hw

end Jiva.Cluster
