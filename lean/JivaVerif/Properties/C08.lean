import JivaVerif.Model.Crash
/-!
# C08 — the replica directory is crash-consistent at every instant (process death)

For the chain-changing operations the metadata protocol is modelled as the sequence of file-system
calls the code issues (`Model/Crash.lean`; the sequences are compared with `strace` traces of the
real operations by `crashdiff`).  The theorems say: whatever prefix of that sequence has been
executed when the process dies, the directory opens, and the chain `construct` finds is either the
one before or the one after the operation, every member keeping its inode (its data).

Not covered here (fault enumeration by `crashdiff`, see DESIGN §5 C08): a single failing call
(ENOSPC / EIO), the data path, the revision-counter block, power-loss reordering.
-/
namespace Jiva.Crash

theorem get_del_same (fs : FS) (k : Key) : get (del fs k) k = none := by
  induction fs with
  | nil => rfl
  | cons p rest ih =>
    unfold del
    by_cases h : p.1 = k
    · have : (decide (p.1 ≠ k)) = false := by simp [h]
      rw [List.filter_cons_of_neg (by simp [h])]
      exact ih
    · rw [List.filter_cons_of_pos (by simp [h])]
      show (if p.1 = k then some p.2 else get (del rest k) k) = none
      rw [if_neg h]; exact ih

theorem get_del_other (fs : FS) (k k' : Key) (h : k' ≠ k) : get (del fs k) k' = get fs k' := by
  induction fs with
  | nil => rfl
  | cons p rest ih =>
    unfold del
    by_cases hp : p.1 = k
    · rw [List.filter_cons_of_neg (by simp [hp])]
      have : p.1 ≠ k' := by rw [hp]; exact fun e => h e.symm
      show get (del rest k) k' = (if p.1 = k' then some p.2 else get rest k')
      rw [if_neg this]; exact ih
    · rw [List.filter_cons_of_pos (by simp [hp])]
      show (if p.1 = k' then some p.2 else get (del rest k) k') = (if p.1 = k' then some p.2 else get rest k')
      rw [ih]

theorem get_put_same (fs : FS) (k : Key) (e : Ent) : get (put fs k e) k = some e := by
  show (if k = k then some e else _) = some e
  rw [if_pos rfl]

theorem get_put_other (fs : FS) (k k' : Key) (e : Ent) (h : k' ≠ k) : get (put fs k e) k' = get fs k' := by
  show (if k = k' then some e else get (del fs k) k') = get fs k'
  rw [if_neg (fun e => h e.symm)]
  exact get_del_other fs k k' h

theorem apply_create (fs : FS) (a : Key) (e : Ent) :
    apply fs (.create a e) = match get fs a with | some _ => fs | none => put fs a e := rfl
theorem apply_write (fs : FS) (a : Key) (e : Ent) :
    apply fs (.write a e) = match get fs a with | some _ => put fs a e | none => fs := rfl
theorem apply_rename (fs : FS) (a b : Key) :
    apply fs (.rename a b) = match get fs a with | some e => put (del fs a) b e | none => fs := rfl
theorem apply_link (fs : FS) (a b : Key) :
    apply fs (.link a b) = match get fs a, get fs b with | some e, none => put fs b e | _, _ => fs := rfl

/-- a call changes only the keys it names -/
theorem get_apply_untouched (fs : FS) (c : Call) (k : Key) (h : k ∉ touched c) : get (apply fs c) k = get fs k := by
  cases c with
  | create a e =>
    have : k ≠ a := by simpa [touched] using h
    rw [apply_create]; split
    · rfl
    · exact get_put_other fs a k e this
  | write a e =>
    have : k ≠ a := by simpa [touched] using h
    rw [apply_write]; split
    · exact get_put_other fs a k e this
    · rfl
  | rename a b =>
    have hh : k ≠ a ∧ k ≠ b := by simpa [touched] using h
    rw [apply_rename]; split
    · rw [get_put_other _ b k _ hh.2, get_del_other _ a k hh.1]
    · rfl
  | link a b =>
    have : k ≠ b := by simpa [touched] using h
    rw [apply_link]; split
    · exact get_put_other fs b k _ this
    · rfl
  | unlink a =>
    have : k ≠ a := by simpa [touched] using h
    exact get_del_other fs a k this
  | fsyncDir => rfl
  | truncate a => rfl

theorem get_run_untouched (cs : List Call) : ∀ (fs : FS) (k : Key), (∀ c ∈ cs, k ∉ touched c) →
    get (run fs cs) k = get fs k := by
  induction cs with
  | nil => intro fs k _; rfl
  | cons c cs ih =>
    intro fs k h
    show get (run (apply fs c) cs) k = get fs k
    rw [ih _ k (fun c' hc' => h c' (List.mem_cons_of_mem _ hc'))]
    exact get_apply_untouched fs c k (h c (List.mem_cons_self))

theorem run_append (fs : FS) (a b : List Call) : run fs (a ++ b) = run (run fs a) b := by
  unfold run; rw [List.foldl_append]

/-- the keys a chain is read from -/
def Uses (c : List (String × Nat)) (k : Key) : Prop := k = .vol ∨ ∃ x ∈ c, k = .img x.1 ∨ k = .dmeta x.1

theorem isChain_congr (fs fs' : FS) (d : String) (c : List (String × Nat)) (h : IsChain fs d c)
    (e : ∀ x ∈ c, get fs' (.img x.1) = get fs (.img x.1) ∧ get fs' (.dmeta x.1) = get fs (.dmeta x.1)) :
    IsChain fs' d c := by
  induction h with
  | base d i h1 h2 =>
    have := e (d, i) (List.mem_singleton.mpr rfl)
    exact IsChain.base d i (this.1.trans h1) (this.2.trans h2)
  | step d p i c h1 h2 h3 _ ih =>
    have := e (d, i) (List.mem_cons_self)
    exact IsChain.step d p i c (this.1.trans h1) (this.2.trans h2) h3
      (ih (fun x hx => e x (List.mem_cons_of_mem _ hx)))

/-- calls that touch none of the keys a chain is read from leave it recoverable — and so does every
    prefix of them -/
theorem recovers_untouched (fs : FS) (c : List (String × Nat)) (cs : List Call) (h : Recovers fs c)
    (hu : ∀ call ∈ cs, ∀ k ∈ touched call, ¬ Uses c k) : Recovers (run fs cs) c := by
  obtain ⟨hd, hv, hc⟩ := h
  have keep : ∀ k, Uses c k → get (run fs cs) k = get fs k := by
    intro k hk
    apply get_run_untouched
    intro call hcall hmem
    exact hu call hcall k hmem hk
  refine ⟨hd, (keep .vol (Or.inl rfl)).trans hv, ?_⟩
  apply isChain_congr fs _ hd c hc
  intro x hx
  exact ⟨keep _ (Or.inr ⟨x, hx, Or.inl rfl⟩), keep _ (Or.inr ⟨x, hx, Or.inr rfl⟩)⟩

/-- all keys a call sequence can change -/
def keysOf (cs : List Call) : List Key := cs.flatMap touched

theorem mem_keysOf (cs : List Call) (c : Call) (k : Key) (hc : c ∈ cs) (hk : k ∈ touched c) : k ∈ keysOf cs :=
  List.mem_flatMap.mpr ⟨c, hc, hk⟩

theorem run_cons (fs : FS) (c : Call) (cs : List Call) : run fs (c :: cs) = run (apply fs c) cs := rfl

theorem take_past {α : Type} (a : List α) (c : α) (b : List α) (m : Nat) :
    (a ++ c :: b).take (a.length + 1 + m) = a ++ c :: b.take m := by
  induction a with
  | nil =>
    have : ([] : List α).length + 1 + m = m + 1 := by simp; omega
    rw [this]; rfl
  | cons x a ih =>
    have : (x :: a).length + 1 + m = (a.length + 1 + m) + 1 := by simp; omega
    rw [this]
    show x :: (a ++ c :: b).take (a.length + 1 + m) = _
    rw [ih]; rfl

theorem mem_take {α : Type} (l : List α) (n : Nat) (x : α) (h : x ∈ l.take n) : x ∈ l := List.mem_of_mem_take h

/-- `encodeToFile`: afterwards the target holds the new content, nothing else but the temp file changed -/
theorem encode_effect (fs : FS) (tmp dst : Key) (e : Ent) (_hne : tmp ≠ dst) :
    get (run fs (encode tmp dst e)) dst = some e ∧
    ∀ k, k ≠ tmp → k ≠ dst → get (run fs (encode tmp dst e)) k = get fs k := by
  constructor
  · -- after create+write the temp file holds e; the rename moves it
    have h1 : get (apply (apply fs (.create tmp .incomplete)) (.write tmp e)) tmp = some e := by
      have ex : ∃ x, get (apply fs (.create tmp .incomplete)) tmp = some x := by
        rw [apply_create]; split
        · rename_i x hx; exact ⟨x, hx⟩
        · exact ⟨.incomplete, get_put_same fs tmp _⟩
      obtain ⟨x, hx⟩ := ex
      rw [apply_write, hx]; exact get_put_same _ tmp e
    show get (apply (apply (apply (apply fs (.create tmp .incomplete)) (.write tmp e)) (.rename tmp dst)) .fsyncDir) dst = some e
    show get (apply (apply (apply fs (.create tmp .incomplete)) (.write tmp e)) (.rename tmp dst)) dst = some e
    rw [apply_rename, h1]; exact get_put_same _ dst e
  · intro k h1 h2
    apply get_run_untouched
    intro c hc
    simp only [encode, List.mem_cons, List.mem_nil_iff, or_false] at hc
    rcases hc with rfl | rfl | rfl | rfl <;> simp [touched, h1, h2]

/-- **C08 (snapshot).** Taking a snapshot: whatever prefix of the call sequence of `createDisk` was
    executed when the process died, the directory opens with the chain before the operation or with
    the chain after it (new head on top, the old head's inode under the snapshot's name). -/
theorem c08_snapshot_split (fs : FS) (oldHead newHead snap oldParent : String) (i0 newIno : Nat)
    (rest : List (String × Nat))
    (hrec : Recovers fs ((oldHead, i0) :: rest))
    (hpar : get fs (.dmeta oldHead) = some (.disk oldParent))
    (hvol : get fs .vol = some (.volume oldHead))
    (hrest : oldParent = "" ∧ rest = [] ∨ oldParent ≠ "" ∧ IsChain fs oldParent rest)
    (hn1 : newHead ≠ oldHead) (hn2 : snap ≠ oldHead) (hn3 : snap ≠ newHead) (hn4 : snap ≠ "")
    (hf1 : ∀ x ∈ rest, x.1 ≠ newHead ∧ x.1 ≠ snap) (hf2 : ∀ x ∈ rest, x.1 ≠ oldHead)
    (ha1 : get fs (.img newHead) = none) (ha3 : get fs (.img snap) = none)
    (n : Nat) :
    (n ≤ 17 → Recovers (run fs ((snapshotProg oldHead newHead snap oldParent newIno).take n)) ((oldHead, i0) :: rest)) ∧
    (17 < n → Recovers (run fs ((snapshotProg oldHead newHead snap oldParent newIno).take n))
      ((newHead, newIno) :: (snap, i0) :: rest)) := by
  -- the program is: everything up to the completed temp file of volume.meta, the rename, the clean-up
  let P1 : List Call :=
    [.fsyncDir, .create (.img newHead) (.data newIno), .create (.img newHead) (.data newIno), .truncate (.img newHead)] ++
    encode (.dmetaTmp newHead) (.dmeta newHead) (.disk snap) ++
    [.link (.img oldHead) (.img snap), .link (.dmeta oldHead) (.dmeta snap), .fsyncDir] ++
    encode (.dmetaTmp snap) (.dmeta snap) (.disk oldParent) ++
    [.create .volTmp .incomplete, .write .volTmp (.volume newHead)]
  let P2 : List Call := [.fsyncDir, .unlink (.img oldHead), .unlink (.dmeta oldHead), .fsyncDir]
  have hP : snapshotProg oldHead newHead snap oldParent newIno = P1 ++ (.rename .volTmp .vol :: P2) := by
    simp [snapshotProg, encode, P1, P2]
  rw [hP]
  have oldKeys : ∀ k, Uses ((oldHead, i0) :: rest) k →
      k ≠ .img newHead ∧ k ≠ .dmeta newHead ∧ k ≠ .dmetaTmp newHead ∧ k ≠ .img snap ∧ k ≠ .dmeta snap ∧
      k ≠ .dmetaTmp snap ∧ k ≠ .volTmp := by
    intro k hk
    rcases hk with rfl | ⟨x, hx, hk⟩
    · simp
    · have hx' : x.1 ≠ newHead ∧ x.1 ≠ snap := by
        rcases List.mem_cons.mp hx with rfl | hx
        · exact ⟨fun e => hn1 e.symm, fun e => hn2 e.symm⟩
        · exact hf1 x hx
      rcases hk with rfl | rfl <;> simp [hx'.1, hx'.2]
  have hkeys : ∀ k ∈ keysOf P1, k = .img newHead ∨ k = .dmeta newHead ∨ k = .dmetaTmp newHead ∨ k = .img snap ∨
      k = .dmeta snap ∨ k = .dmetaTmp snap ∨ k = .volTmp := by
    intro k hk
    have e : keysOf P1 = [.img newHead, .img newHead, .dmetaTmp newHead, .dmetaTmp newHead, .dmetaTmp newHead, .dmeta newHead,
        .img snap, .dmeta snap, .dmetaTmp snap, .dmetaTmp snap, .dmetaTmp snap, .dmeta snap, .volTmp, .volTmp] := rfl
    rw [e] at hk
    simp only [List.mem_cons, List.mem_nil_iff, or_false] at hk
    rcases hk with h | h | h | h | h | h | h | h | h | h | h | h | h | h <;> simp [h]
  have p1_untouched : ∀ call ∈ P1, ∀ k ∈ touched call, ¬ Uses ((oldHead, i0) :: rest) k := by
    intro call hc k hk hu
    obtain ⟨o1, o2, o3, o4, o5, o6, o7⟩ := oldKeys k hu
    rcases hkeys k (mem_keysOf P1 call k hc hk) with h | h | h | h | h | h | h <;> contradiction
  refine ⟨fun hn0 => ?_, fun hn0 => ?_⟩
  · -- death before the commit: the old chain
    have hn : n ≤ P1.length := hn0
    rw [List.take_append_of_le_length hn]
    exact recovers_untouched fs _ _ hrec (fun call hc => p1_untouched call (mem_take _ _ _ hc))
  · -- the rename of volume.meta has happened
    have hn : ¬ n ≤ P1.length := by have : P1.length = 17 := rfl; omega
    obtain ⟨m, hm⟩ : ∃ m, n = P1.length + 1 + m := ⟨n - P1.length - 1, by omega⟩
    subst hm
    rw [take_past, run_append, run_cons]
    -- the state at the commit point
    have s_new : get (run fs P1) (.img newHead) = some (.data newIno) ∧
        get (run fs P1) (.dmeta newHead) = some (.disk snap) ∧
        get (run fs P1) (.img snap) = some (.data i0) ∧
        get (run fs P1) (.dmeta snap) = some (.disk oldParent) ∧
        get (run fs P1) .volTmp = some (.volume newHead) ∧
        (∀ k, Uses ((oldHead, i0) :: rest) k → get (run fs P1) k = get fs k) := by
      have keep : ∀ k, Uses ((oldHead, i0) :: rest) k → get (run fs P1) k = get fs k := by
        intro k hk
        apply get_run_untouched
        intro call hc hmem
        exact p1_untouched call hc k hmem hk
      -- segment by segment
      let A : List Call := [.fsyncDir, .create (.img newHead) (.data newIno), .create (.img newHead) (.data newIno), .truncate (.img newHead)]
      let B := encode (.dmetaTmp newHead) (.dmeta newHead) (.disk snap)
      let C : List Call := [.link (.img oldHead) (.img snap), .link (.dmeta oldHead) (.dmeta snap), .fsyncDir]
      let D := encode (.dmetaTmp snap) (.dmeta snap) (.disk oldParent)
      let E : List Call := [.create .volTmp .incomplete, .write .volTmp (.volume newHead)]
      have hsplit : P1 = A ++ B ++ C ++ D ++ E := rfl
      have hirec : get fs (.img oldHead) = some (.data i0) := by
        obtain ⟨hd, hv, hc⟩ := hrec
        rw [hvol] at hv; cases hv
        cases hc with
        | base _ _ h1 _ => exact h1
        | step _ _ _ _ h1 _ _ _ => exact h1
      -- A: the new head's data file
      have a1 : get (run fs A) (.img newHead) = some (.data newIno) := by
        show get (apply (apply (apply (apply fs .fsyncDir) (.create (.img newHead) (.data newIno))) (.create (.img newHead) (.data newIno))) (.truncate (.img newHead))) (.img newHead) = _
        show get (apply (apply fs (.create (.img newHead) (.data newIno))) (.create (.img newHead) (.data newIno))) (.img newHead) = _
        have : get (apply fs (.create (.img newHead) (.data newIno))) (.img newHead) = some (.data newIno) := by
          rw [apply_create, ha1]; exact get_put_same _ _ _
        rw [apply_create, this]
        exact this
      have aOther : ∀ k, k ≠ .img newHead → get (run fs A) k = get fs k := by
        intro k hk
        apply get_run_untouched
        intro c hc
        simp only [A, List.mem_cons, List.mem_nil_iff, or_false] at hc
        rcases hc with rfl | rfl | rfl | rfl <;> simp [touched, hk]
      -- B: its metadata
      have b := encode_effect (run fs A) (.dmetaTmp newHead) (.dmeta newHead) (.disk snap) (by simp)
      have b1 : get (run (run fs A) B) (.img newHead) = some (.data newIno) := by
        rw [b.2 _ (by simp) (by simp)]; exact a1
      -- C: the hard links
      have c_img : get (run (run (run fs A) B) C) (.img snap) = some (.data i0) := by
        have src : get (run (run fs A) B) (.img oldHead) = some (.data i0) := by
          rw [b.2 _ (by simp) (by simp), aOther _ (by simp [hn1.symm])]; exact hirec
        have dst : get (run (run fs A) B) (.img snap) = none := by
          rw [b.2 _ (by simp) (by simp), aOther _ (by simp [hn3])]; exact ha3
        have l1 : get (apply (run (run fs A) B) (.link (.img oldHead) (.img snap))) (.img snap) = some (.data i0) := by
          rw [apply_link, src, dst]; exact get_put_same _ _ _
        show get (apply (apply (apply (run (run fs A) B) (.link (.img oldHead) (.img snap))) (.link (.dmeta oldHead) (.dmeta snap))) .fsyncDir) (.img snap) = _
        show get (apply (apply (run (run fs A) B) (.link (.img oldHead) (.img snap))) (.link (.dmeta oldHead) (.dmeta snap))) (.img snap) = _
        rw [get_apply_untouched _ _ _ (by simp [touched])]
        exact l1
      have cOther : ∀ k, k ≠ .img snap → k ≠ .dmeta snap → get (run (run (run fs A) B) C) k = get (run (run fs A) B) k := by
        intro k h1 h2
        apply get_run_untouched
        intro c hc
        simp only [C, List.mem_cons, List.mem_nil_iff, or_false] at hc
        rcases hc with rfl | rfl | rfl <;> simp [touched, h1, h2]
      -- D: the snapshot's metadata (the old head's, with the snapshot's attributes)
      have d := encode_effect (run (run (run fs A) B) C) (.dmetaTmp snap) (.dmeta snap) (.disk oldParent) (by simp)
      -- E: the complete temp file of volume.meta
      have e1 : ∀ fs0 : FS, get (run fs0 E) .volTmp = some (.volume newHead) := by
        intro fs0
        have ex : ∃ x, get (apply fs0 (.create .volTmp .incomplete)) .volTmp = some x := by
          rw [apply_create]; split
          · rename_i x hx; exact ⟨x, hx⟩
          · exact ⟨.incomplete, get_put_same fs0 .volTmp _⟩
        obtain ⟨x, hx⟩ := ex
        show get (apply (apply fs0 (.create .volTmp .incomplete)) (.write .volTmp (.volume newHead))) .volTmp = _
        rw [apply_write, hx]; exact get_put_same _ _ _
      have eOther : ∀ (fs0 : FS) k, k ≠ .volTmp → get (run fs0 E) k = get fs0 k := by
        intro fs0 k hk
        apply get_run_untouched
        intro c hc
        simp only [E, List.mem_cons, List.mem_nil_iff, or_false] at hc
        rcases hc with rfl | rfl <;> simp [touched, hk]
      rw [hsplit]
      simp only [run_append]
      refine ⟨?_, ?_, ?_, ?_, e1 _, ?_⟩
      · rw [eOther _ _ (by simp), d.2 _ (by simp) (by simp), cOther _ (by simp [hn3.symm]) (by simp)]; exact b1
      · rw [eOther _ _ (by simp), d.2 _ (by simp) (by simp [hn3.symm]), cOther _ (by simp) (by simp [hn3.symm])]; exact b.1
      · rw [eOther _ _ (by simp), d.2 _ (by simp) (by simp)]; exact c_img
      · rw [eOther _ _ (by simp)]; exact d.1
      · intro k hk
        have := keep k hk
        rw [hsplit] at this
        simp only [run_append] at this
        exact this
    obtain ⟨g1, g2, g3, g4, g5, keep⟩ := s_new
    -- after the rename: volume.meta names the new head, nothing the new chain reads is changed
    have r_vol : get (apply (run fs P1) (.rename .volTmp .vol)) .vol = some (.volume newHead) := by
      rw [apply_rename, g5]; exact get_put_same _ _ _
    have r_other : ∀ k, k ≠ .vol → k ≠ .volTmp → get (apply (run fs P1) (.rename .volTmp .vol)) k = get (run fs P1) k := by
      intro k h1 h2
      exact get_apply_untouched _ _ _ (by simp [touched, h1, h2])
    have newRec : Recovers (apply (run fs P1) (.rename .volTmp .vol)) ((newHead, newIno) :: (snap, i0) :: rest) := by
      refine ⟨newHead, r_vol, ?_⟩
      apply IsChain.step newHead snap newIno _ (by rw [r_other _ (by simp) (by simp)]; exact g1)
        (by rw [r_other _ (by simp) (by simp)]; exact g2) hn4
      rcases hrest with ⟨hp, hr⟩ | ⟨hp, hr⟩
      · subst hp; subst hr
        exact IsChain.base snap i0 (by rw [r_other _ (by simp) (by simp)]; exact g3)
          (by rw [r_other _ (by simp) (by simp)]; exact g4)
      · apply IsChain.step snap oldParent i0 rest (by rw [r_other _ (by simp) (by simp)]; exact g3)
          (by rw [r_other _ (by simp) (by simp)]; exact g4) hp
        apply isChain_congr fs _ oldParent rest hr
        intro x hx
        have u1 : Uses ((oldHead, i0) :: rest) (.img x.1) := Or.inr ⟨x, List.mem_cons_of_mem _ hx, Or.inl rfl⟩
        have u2 : Uses ((oldHead, i0) :: rest) (.dmeta x.1) := Or.inr ⟨x, List.mem_cons_of_mem _ hx, Or.inr rfl⟩
        exact ⟨by rw [r_other _ (by simp) (by simp)]; exact keep _ u1,
               by rw [r_other _ (by simp) (by simp)]; exact keep _ u2⟩
    -- the clean-up touches only the old head's two files
    apply recovers_untouched _ _ _ newRec
    intro call hc k hk hu
    have hc' := mem_take _ _ _ hc
    simp only [P2, List.mem_cons, List.mem_nil_iff, or_false] at hc'
    rcases hu with rfl | ⟨x, hx, hk'⟩
    · rcases hc' with rfl | rfl | rfl | rfl <;> simp [touched] at hk
    · have hx' : x.1 ≠ oldHead := by
        rcases List.mem_cons.mp hx with rfl | hx
        · exact hn1
        · rcases List.mem_cons.mp hx with rfl | hx
          · exact hn2
          · exact hf2 x hx
      rcases hc' with rfl | rfl | rfl | rfl <;> rcases hk' with rfl | rfl <;> simp [touched, hx'] at hk

/-- **C08 (snapshot).** Taking a snapshot: whatever prefix of the call sequence of `createDisk` was
    executed when the process died, the directory opens with the chain before the operation or with
    the chain after it (new head on top, the old head's inode under the snapshot's name); the switch
    happens at the rename of `volume.meta` (the 18th call). -/
theorem c08_snapshot (fs : FS) (oldHead newHead snap oldParent : String) (i0 newIno : Nat)
    (rest : List (String × Nat))
    (hrec : Recovers fs ((oldHead, i0) :: rest))
    (hpar : get fs (.dmeta oldHead) = some (.disk oldParent))
    (hvol : get fs .vol = some (.volume oldHead))
    (hrest : oldParent = "" ∧ rest = [] ∨ oldParent ≠ "" ∧ IsChain fs oldParent rest)
    (hn1 : newHead ≠ oldHead) (hn2 : snap ≠ oldHead) (hn3 : snap ≠ newHead) (hn4 : snap ≠ "")
    (hf1 : ∀ x ∈ rest, x.1 ≠ newHead ∧ x.1 ≠ snap) (hf2 : ∀ x ∈ rest, x.1 ≠ oldHead)
    (ha1 : get fs (.img newHead) = none) (ha3 : get fs (.img snap) = none)
    (n : Nat) :
    Recovers (run fs ((snapshotProg oldHead newHead snap oldParent newIno).take n)) ((oldHead, i0) :: rest) ∨
    Recovers (run fs ((snapshotProg oldHead newHead snap oldParent newIno).take n))
      ((newHead, newIno) :: (snap, i0) :: rest) := by
  have h := c08_snapshot_split fs oldHead newHead snap oldParent i0 newIno rest hrec hpar hvol hrest hn1 hn2 hn3 hn4 hf1 hf2 ha1 ha3 n
  by_cases hn : n ≤ 17
  · exact Or.inl (h.1 hn)
  · exact Or.inr (h.2 (by omega))

/-! ### removal of a chain member -/

theorem isChain_head (fs : FS) (h : String) (x : String × Nat) (c : List (String × Nat))
    (hc : IsChain fs h (x :: c)) : x.1 = h := by
  cases hc <;> rfl

/-- the part of a chain from one of its members downwards is a chain -/
theorem isChain_suffix (fs : FS) (top : List (String × Nat)) : ∀ (h : String) (d : String) (i : Nat)
    (c : List (String × Nat)), IsChain fs h (top ++ (d, i) :: c) → IsChain fs d ((d, i) :: c) := by
  induction top with
  | nil =>
    intro h d i c hc
    have := isChain_head fs h (d, i) c hc
    simp at this; subst this; exact hc
  | cons x top ih =>
    intro h d i c hc
    rw [List.cons_append] at hc
    generalize hl : top ++ (d, i) :: c = l at hc
    cases hc with
    | base _ _ _ _ => cases top <;> simp at hl
    | step _ p _ _ _ _ _ hrest => subst hl; exact ih p d i c hrest

/-- replacing the lower part of a chain: the members above it only need their own entries unchanged -/
theorem isChain_replace (fs fs' : FS) (top : List (String × Nat)) : ∀ (h d : String) (i : Nat)
    (c c' : List (String × Nat)), IsChain fs h (top ++ (d, i) :: c) → IsChain fs' d ((d, i) :: c') →
    (∀ x ∈ top, get fs' (.img x.1) = get fs (.img x.1) ∧ get fs' (.dmeta x.1) = get fs (.dmeta x.1)) →
    IsChain fs' h (top ++ (d, i) :: c') := by
  induction top with
  | nil =>
    intro h d i c c' hc hn _
    have := isChain_head fs h (d, i) c hc
    simp at this; subst this; exact hn
  | cons x top ih =>
    intro h d i c c' hc hn hag
    rw [List.cons_append] at hc
    generalize hl : top ++ (d, i) :: c = l at hc
    cases hc with
    | base _ _ _ _ => cases top <;> simp at hl
    | step _ p j _ h1 h2 h3 hrest =>
      subst hl
      have a := hag (h, j) (List.mem_cons_self)
      exact IsChain.step h p j _ (a.1.trans h1) (a.2.trans h2) h3
        (ih p d i c c' hrest hn (fun y hy => hag y (List.mem_cons_of_mem _ hy)))

/-- **C08 (removal).** Removing the chain member `name` (child `child`, parent `parent`): whatever
    prefix of the call sequence of `removeDiskNode` / `rmDisk` was executed, the directory opens with
    the chain before or with the chain without `name`; every other member keeps its inode. -/
theorem c08_remove_split (fs : FS) (h name child parent grand : String) (ic i ip : Nat)
    (top below : List (String × Nat))
    (hvol : get fs .vol = some (.volume h))
    (hold : IsChain fs h (top ++ (child, ic) :: (name, i) :: (parent, ip) :: below))
    (hgrand : get fs (.dmeta parent) = some (.disk grand))
    (hd1 : child ≠ name) (hd2 : child ≠ parent) (hd3 : name ≠ parent) (hp : parent ≠ "")
    (hdt : ∀ x ∈ top, x.1 ≠ child ∧ x.1 ≠ name ∧ x.1 ≠ parent)
    (hdb : ∀ x ∈ below, x.1 ≠ child ∧ x.1 ≠ name ∧ x.1 ≠ parent)
    (n : Nat) :
    (n ≤ 2 → Recovers (run fs ((removeProg name child parent grand).take n))
      (top ++ (child, ic) :: (name, i) :: (parent, ip) :: below)) ∧
    (2 < n → Recovers (run fs ((removeProg name child parent grand).take n))
      (top ++ (child, ic) :: (parent, ip) :: below)) := by
  let P1 : List Call := [.create (.dmetaTmp child) .incomplete, .write (.dmetaTmp child) (.disk parent)]
  let Q1 : List Call := [.fsyncDir, .create (.dmetaTmp parent) .incomplete, .write (.dmetaTmp parent) (.disk grand)]
  let Q2 : List Call := [.fsyncDir, .unlink (.img name), .unlink (.dmeta name), .fsyncDir]
  have hP : removeProg name child parent grand =
      P1 ++ (.rename (.dmetaTmp child) (.dmeta child) :: (Q1 ++ (.rename (.dmetaTmp parent) (.dmeta parent) :: Q2))) := by
    simp [removeProg, encode, P1, Q1, Q2]
  rw [hP]
  have hsub := isChain_suffix fs top h child ic _ hold
  have hname : IsChain fs name ((name, i) :: (parent, ip) :: below) := by
    cases hsub with
    | step _ p _ _ _ _ _ hr => have := isChain_head fs p _ _ hr; simp at this; subst this; exact hr
  have hparent : IsChain fs parent ((parent, ip) :: below) := by
    cases hname with
    | step _ p _ _ _ _ _ hr => have := isChain_head fs p _ _ hr; simp at this; subst this; exact hr
  have hchild_img : get fs (.img child) = some (.data ic) := by
    cases hsub with
    | step _ _ _ _ h1 _ _ _ => exact h1
  refine ⟨fun hn0 => ?_, fun hn0 => ?_⟩
  · have hn : n ≤ P1.length := hn0
    rw [List.take_append_of_le_length hn]
    refine recovers_untouched fs _ _ ⟨h, hvol, hold⟩ ?_
    intro call hc k hk hu
    have hc' := mem_take _ _ _ hc
    simp only [P1, List.mem_cons, List.mem_nil_iff, or_false] at hc'
    have hk' : k = .dmetaTmp child := by
      rcases hc' with rfl | rfl <;> simpa [touched] using hk
    subst hk'
    rcases hu with h0 | ⟨x, _, h0 | h0⟩ <;> cases h0
  · have hn : ¬ n ≤ P1.length := by have : P1.length = 2 := rfl; omega
    obtain ⟨m, hm⟩ : ∃ m, n = P1.length + 1 + m := ⟨n - P1.length - 1, by omega⟩
    subst hm
    rw [take_past, run_append, run_cons]
    have t1 : get (run fs P1) (.dmetaTmp child) = some (.disk parent) := by
      have ex : ∃ x, get (apply fs (.create (.dmetaTmp child) .incomplete)) (.dmetaTmp child) = some x := by
        rw [apply_create]; split
        · rename_i x hx; exact ⟨x, hx⟩
        · exact ⟨.incomplete, get_put_same fs _ _⟩
      obtain ⟨x, hx⟩ := ex
      show get (apply (apply fs (.create (.dmetaTmp child) .incomplete)) (.write (.dmetaTmp child) (.disk parent))) _ = _
      rw [apply_write, hx]; exact get_put_same _ _ _
    have p1Other : ∀ k, k ≠ .dmetaTmp child → get (run fs P1) k = get fs k := by
      intro k hk
      apply get_run_untouched
      intro c hc
      simp only [P1, List.mem_cons, List.mem_nil_iff, or_false] at hc
      rcases hc with rfl | rfl <;> simp [touched, hk]
    generalize hS : apply (run fs P1) (.rename (.dmetaTmp child) (.dmeta child)) = S
    have c_meta : get S (.dmeta child) = some (.disk parent) := by
      rw [← hS, apply_rename, t1]; exact get_put_same _ _ _
    have cOther : ∀ k, k ≠ .dmetaTmp child → k ≠ .dmeta child → get S k = get fs k := by
      intro k h1 h2
      rw [← hS, get_apply_untouched _ _ _ (by simp [touched, h1, h2])]
      exact p1Other k h1
    have newChain : IsChain S h (top ++ (child, ic) :: (parent, ip) :: below) := by
      apply isChain_replace fs _ top h child ic _ _ hold
      · apply IsChain.step child parent ic _ ((cOther _ (by simp) (by simp)).trans hchild_img) c_meta hp
        apply isChain_congr fs _ parent _ hparent
        intro x hx
        have hx' : x.1 ≠ child := by
          rcases List.mem_cons.mp hx with rfl | hx
          · exact fun e => hd2 e.symm
          · exact (hdb x hx).1
        exact ⟨cOther _ (by simp) (by simp), cOther _ (by simp) (by simp [hx'])⟩
      · intro x hx
        exact ⟨cOther _ (by simp) (by simp), cOther _ (by simp) (by simp [(hdt x hx).1])⟩
    have newRec : Recovers S (top ++ (child, ic) :: (parent, ip) :: below) :=
      ⟨h, (cOther .vol (by simp) (by simp)).trans hvol, newChain⟩
    have hgrandS : get S (.dmeta parent) = some (.disk grand) := by
      rw [cOther _ (by simp) (by simp [hd2.symm])]; exact hgrand
    -- names of the new chain
    have newNames : ∀ x ∈ top ++ (child, ic) :: (parent, ip) :: below, x.1 ≠ name := by
      intro x hx
      rcases List.mem_append.mp hx with hx | hx
      · exact (hdt x hx).2.1
      · rcases List.mem_cons.mp hx with rfl | hx
        · exact hd1
        · rcases List.mem_cons.mp hx with rfl | hx
          · exact fun e => hd3 e.symm
          · exact (hdb x hx).2.1
    -- the second metadata file: rewritten with the same parent pointer
    by_cases hm1 : m ≤ Q1.length
    · rw [List.take_append_of_le_length hm1]
      apply recovers_untouched _ _ _ newRec
      intro call hc k hk hu
      have hc' := mem_take _ _ _ hc
      simp only [Q1, List.mem_cons, List.mem_nil_iff, or_false] at hc'
      have hk' : k = .dmetaTmp parent := by
        rcases hc' with rfl | rfl | rfl <;> simp [touched] at hk <;> exact hk
      subst hk'
      rcases hu with h0 | ⟨x, _, h0 | h0⟩ <;> cases h0
    · obtain ⟨j, hj⟩ : ∃ j, m = Q1.length + 1 + j := ⟨m - Q1.length - 1, by omega⟩
      subst hj
      rw [take_past, run_append, run_cons]
      have q1Other : ∀ k, k ≠ .dmetaTmp parent → get (run S Q1) k = get S k := by
        intro k hk
        apply get_run_untouched
        intro c hc
        simp only [Q1, List.mem_cons, List.mem_nil_iff, or_false] at hc
        rcases hc with rfl | rfl | rfl <;> simp [touched, hk]
      have t2 : get (run S Q1) (.dmetaTmp parent) = some (.disk grand) := by
        have ex : ∃ x, get (apply (apply S .fsyncDir) (.create (.dmetaTmp parent) .incomplete)) (.dmetaTmp parent) = some x := by
          rw [apply_create]; split
          · rename_i x hx; exact ⟨x, hx⟩
          · exact ⟨.incomplete, get_put_same _ _ _⟩
        obtain ⟨x, hx⟩ := ex
        show get (apply (apply (apply S .fsyncDir) (.create (.dmetaTmp parent) .incomplete)) (.write (.dmetaTmp parent) (.disk grand))) _ = _
        rw [apply_write, hx]; exact get_put_same _ _ _
      generalize hS2 : apply (run S Q1) (.rename (.dmetaTmp parent) (.dmeta parent)) = S2
      have s2_parent : get S2 (.dmeta parent) = some (.disk grand) := by
        rw [← hS2, apply_rename, t2]; exact get_put_same _ _ _
      have s2Other : ∀ k, k ≠ .dmetaTmp parent → k ≠ .dmeta parent → get S2 k = get S k := by
        intro k h1 h2
        rw [← hS2, get_apply_untouched _ _ _ (by simp [touched, h1, h2])]
        exact q1Other k h1
      have s2All : ∀ k, k ≠ .dmetaTmp parent → get S2 k = get S k := by
        intro k h1
        by_cases h2 : k = .dmeta parent
        · subst h2; rw [s2_parent, hgrandS]
        · exact s2Other k h1 h2
      have rec2 : Recovers S2 (top ++ (child, ic) :: (parent, ip) :: below) := by
        obtain ⟨hd, hv, hc⟩ := newRec
        refine ⟨hd, (s2All .vol (by simp)).trans hv, ?_⟩
        apply isChain_congr S _ hd _ hc
        intro x _
        exact ⟨s2All _ (by simp), s2All _ (by simp)⟩
      apply recovers_untouched _ _ _ rec2
      intro call hc k hk hu
      have hc' := mem_take _ _ _ hc
      simp only [Q2, List.mem_cons, List.mem_nil_iff, or_false] at hc'
      rcases hu with rfl | ⟨x, hx, hk'⟩
      · rcases hc' with rfl | rfl | rfl | rfl <;> simp [touched] at hk
      · have hx' := newNames x hx
        rcases hc' with rfl | rfl | rfl | rfl <;> rcases hk' with rfl | rfl <;> simp [touched, hx'] at hk

/-- **C08 (removal).** Removing the chain member `name` (child `child`, parent `parent`): whatever
    prefix of the call sequence of `removeDiskNode` / `rmDisk` was executed, the directory opens with
    the chain before or with the chain without `name`; every other member keeps its inode. -/
theorem c08_remove (fs : FS) (h name child parent grand : String) (ic i ip : Nat)
    (top below : List (String × Nat))
    (hvol : get fs .vol = some (.volume h))
    (hold : IsChain fs h (top ++ (child, ic) :: (name, i) :: (parent, ip) :: below))
    (hgrand : get fs (.dmeta parent) = some (.disk grand))
    (hd1 : child ≠ name) (hd2 : child ≠ parent) (hd3 : name ≠ parent) (hp : parent ≠ "")
    (hdt : ∀ x ∈ top, x.1 ≠ child ∧ x.1 ≠ name ∧ x.1 ≠ parent)
    (hdb : ∀ x ∈ below, x.1 ≠ child ∧ x.1 ≠ name ∧ x.1 ≠ parent)
    (n : Nat) :
    Recovers (run fs ((removeProg name child parent grand).take n))
      (top ++ (child, ic) :: (name, i) :: (parent, ip) :: below) ∨
    Recovers (run fs ((removeProg name child parent grand).take n))
      (top ++ (child, ic) :: (parent, ip) :: below) := by
  have hh := c08_remove_split fs h name child parent grand ic i ip top below hvol hold hgrand hd1 hd2 hd3 hp hdt hdb n
  by_cases hn : n ≤ 2
  · exact Or.inl (hh.1 hn)
  · exact Or.inr (hh.2 (by omega))

/-- **C08 (revert).** Reverting to the chain member `target`: whatever prefix of the call sequence of
    `revertDisk` was executed, the directory opens with the chain before, or with a new head directly
    on `target` (the members that were above `target` stay in the directory but are no longer part of
    the chain). -/
theorem c08_revert_split (fs : FS) (oldHead newHead target : String) (i0 it newIno : Nat)
    (mid below : List (String × Nat))
    (hvol : get fs .vol = some (.volume oldHead))
    (hold : IsChain fs oldHead ((oldHead, i0) :: mid ++ (target, it) :: below))
    (hn1 : newHead ≠ oldHead) (ht : target ≠ "") (ht1 : target ≠ oldHead) (ht2 : target ≠ newHead)
    (hf : ∀ x ∈ mid ++ below, x.1 ≠ newHead ∧ x.1 ≠ oldHead)
    (ha1 : get fs (.img newHead) = none)
    (n : Nat) :
    (n ≤ 9 → Recovers (run fs ((revertProg oldHead newHead target newIno).take n))
      ((oldHead, i0) :: mid ++ (target, it) :: below)) ∧
    (9 < n → Recovers (run fs ((revertProg oldHead newHead target newIno).take n))
      ((newHead, newIno) :: (target, it) :: below)) := by
  let A : List Call := [.create (.img newHead) (.data newIno), .create (.img newHead) (.data newIno), .truncate (.img newHead)]
  let B := encode (.dmetaTmp newHead) (.dmeta newHead) (.disk target)
  let E : List Call := [.create .volTmp .incomplete, .write .volTmp (.volume newHead)]
  let P1 : List Call := A ++ B ++ E
  let Q1 : List Call := [.fsyncDir, .unlink (.img oldHead), .unlink (.dmeta oldHead), .fsyncDir,
    .create .volTmp .incomplete, .write .volTmp (.volume newHead)]
  let Q2 : List Call := [.fsyncDir]
  have hP : revertProg oldHead newHead target newIno =
      P1 ++ (.rename .volTmp .vol :: (Q1 ++ (.rename .volTmp .vol :: Q2))) := by
    simp [revertProg, encode, P1, A, B, E, Q1, Q2]
  rw [hP]
  have htarget : IsChain fs target ((target, it) :: below) :=
    isChain_suffix fs ((oldHead, i0) :: mid) oldHead target it below hold
  have oldKeys : ∀ k, Uses ((oldHead, i0) :: mid ++ (target, it) :: below) k →
      k ≠ .img newHead ∧ k ≠ .dmeta newHead ∧ k ≠ .dmetaTmp newHead ∧ k ≠ .volTmp := by
    intro k hk
    rcases hk with rfl | ⟨x, hx, hk⟩
    · simp
    · have hx' : x.1 ≠ newHead := by
        rcases List.mem_cons.mp hx with rfl | hx
        · exact fun e => hn1 e.symm
        · rcases List.mem_append.mp hx with hx | hx
          · exact (hf x (List.mem_append_left _ hx)).1
          · rcases List.mem_cons.mp hx with rfl | hx
            · exact ht2
            · exact (hf x (List.mem_append_right _ hx)).1
      rcases hk with rfl | rfl <;> simp [hx']
  have hkeys : ∀ k ∈ keysOf P1, k = .img newHead ∨ k = .dmeta newHead ∨ k = .dmetaTmp newHead ∨ k = .volTmp := by
    intro k hk
    have e : keysOf P1 = [.img newHead, .img newHead, .dmetaTmp newHead, .dmetaTmp newHead, .dmetaTmp newHead, .dmeta newHead,
        .volTmp, .volTmp] := rfl
    rw [e] at hk
    simp only [List.mem_cons, List.mem_nil_iff, or_false] at hk
    rcases hk with h | h | h | h | h | h | h | h <;> simp [h]
  have p1_untouched : ∀ call ∈ P1, ∀ k ∈ touched call, ¬ Uses ((oldHead, i0) :: mid ++ (target, it) :: below) k := by
    intro call hc k hk hu
    obtain ⟨o1, o2, o3, o4⟩ := oldKeys k hu
    rcases hkeys k (mem_keysOf P1 call k hc hk) with h | h | h | h <;> contradiction
  refine ⟨fun hn0 => ?_, fun hn0 => ?_⟩
  · have hn : n ≤ P1.length := hn0
    rw [List.take_append_of_le_length hn]
    exact recovers_untouched fs _ _ ⟨oldHead, hvol, hold⟩ (fun call hc => p1_untouched call (mem_take _ _ _ hc))
  · have hn : ¬ n ≤ P1.length := by have : P1.length = 9 := rfl; omega
    obtain ⟨m, hm⟩ : ∃ m, n = P1.length + 1 + m := ⟨n - P1.length - 1, by omega⟩
    subst hm
    rw [take_past, run_append, run_cons]
    have keep : ∀ k, Uses ((oldHead, i0) :: mid ++ (target, it) :: below) k → get (run fs P1) k = get fs k := by
      intro k hk
      apply get_run_untouched
      intro call hc hmem
      exact p1_untouched call hc k hmem hk
    -- the state at the commit point
    have a1 : get (run fs A) (.img newHead) = some (.data newIno) := by
      show get (apply (apply (apply fs (.create (.img newHead) (.data newIno))) (.create (.img newHead) (.data newIno))) (.truncate (.img newHead))) (.img newHead) = _
      show get (apply (apply fs (.create (.img newHead) (.data newIno))) (.create (.img newHead) (.data newIno))) (.img newHead) = _
      have : get (apply fs (.create (.img newHead) (.data newIno))) (.img newHead) = some (.data newIno) := by
        rw [apply_create, ha1]; exact get_put_same _ _ _
      rw [apply_create, this]
      exact this
    have b := encode_effect (run fs A) (.dmetaTmp newHead) (.dmeta newHead) (.disk target) (by simp)
    have eOther : ∀ (fs0 : FS) k, k ≠ .volTmp → get (run fs0 E) k = get fs0 k := by
      intro fs0 k hk
      apply get_run_untouched
      intro c hc
      simp only [E, List.mem_cons, List.mem_nil_iff, or_false] at hc
      rcases hc with rfl | rfl <;> simp [touched, hk]
    have e1 : ∀ fs0 : FS, get (run fs0 E) .volTmp = some (.volume newHead) := by
      intro fs0
      have ex : ∃ x, get (apply fs0 (.create .volTmp .incomplete)) .volTmp = some x := by
        rw [apply_create]; split
        · rename_i x hx; exact ⟨x, hx⟩
        · exact ⟨.incomplete, get_put_same fs0 .volTmp _⟩
      obtain ⟨x, hx⟩ := ex
      show get (apply (apply fs0 (.create .volTmp .incomplete)) (.write .volTmp (.volume newHead))) .volTmp = _
      rw [apply_write, hx]; exact get_put_same _ _ _
    have g1 : get (run fs P1) (.img newHead) = some (.data newIno) := by
      show get (run fs (A ++ B ++ E)) _ = _
      simp only [run_append]
      rw [eOther _ _ (by simp), b.2 _ (by simp) (by simp)]; exact a1
    have g2 : get (run fs P1) (.dmeta newHead) = some (.disk target) := by
      show get (run fs (A ++ B ++ E)) _ = _
      simp only [run_append]
      rw [eOther _ _ (by simp)]; exact b.1
    have g5 : get (run fs P1) .volTmp = some (.volume newHead) := by
      show get (run fs (A ++ B ++ E)) _ = _
      simp only [run_append]
      exact e1 _
    generalize hS : apply (run fs P1) (.rename .volTmp .vol) = S
    have s_vol : get S .vol = some (.volume newHead) := by
      rw [← hS, apply_rename, g5]; exact get_put_same _ _ _
    have sOther : ∀ k, k ≠ .vol → k ≠ .volTmp → get S k = get (run fs P1) k := by
      intro k h1 h2
      rw [← hS]; exact get_apply_untouched _ _ _ (by simp [touched, h1, h2])
    have newChain : IsChain S newHead ((newHead, newIno) :: (target, it) :: below) := by
      apply IsChain.step newHead target newIno _ (by rw [sOther _ (by simp) (by simp)]; exact g1)
        (by rw [sOther _ (by simp) (by simp)]; exact g2) ht
      apply isChain_congr fs _ target _ htarget
      intro x hx
      have hxm : x ∈ (oldHead, i0) :: mid ++ (target, it) :: below :=
        List.mem_cons_of_mem _ (List.mem_append_right _ hx)
      exact ⟨by rw [sOther _ (by simp) (by simp)]; exact keep _ (Or.inr ⟨x, hxm, Or.inl rfl⟩),
             by rw [sOther _ (by simp) (by simp)]; exact keep _ (Or.inr ⟨x, hxm, Or.inr rfl⟩)⟩
    have newRec : Recovers S ((newHead, newIno) :: (target, it) :: below) := ⟨newHead, s_vol, newChain⟩
    have newNames : ∀ x ∈ (newHead, newIno) :: (target, it) :: below, x.1 ≠ oldHead := by
      intro x hx
      rcases List.mem_cons.mp hx with rfl | hx
      · exact hn1
      · rcases List.mem_cons.mp hx with rfl | hx
        · exact ht1
        · exact (hf x (List.mem_append_right _ hx)).2
    by_cases hm1 : m ≤ Q1.length
    · rw [List.take_append_of_le_length hm1]
      apply recovers_untouched _ _ _ newRec
      intro call hc k hk hu
      have hc' := mem_take _ _ _ hc
      simp only [Q1, List.mem_cons, List.mem_nil_iff, or_false] at hc'
      rcases hu with rfl | ⟨x, hx, hk'⟩
      · rcases hc' with rfl | rfl | rfl | rfl | rfl | rfl <;> simp [touched] at hk
      · have hx' := newNames x hx
        rcases hc' with rfl | rfl | rfl | rfl | rfl | rfl <;> rcases hk' with rfl | rfl <;> simp [touched, hx'] at hk
    · obtain ⟨j, hj⟩ : ∃ j, m = Q1.length + 1 + j := ⟨m - Q1.length - 1, by omega⟩
      subst hj
      rw [take_past, run_append, run_cons]
      -- the second rewrite of volume.meta names the same head
      have q1Keep : ∀ k, Uses ((newHead, newIno) :: (target, it) :: below) k → k ≠ .vol → get (run S Q1) k = get S k := by
        intro k hk hv
        apply get_run_untouched
        intro c hc
        simp only [Q1, List.mem_cons, List.mem_nil_iff, or_false] at hc
        rcases hk with rfl | ⟨x, hx, hk'⟩
        · exact absurd rfl hv
        · have hx' := newNames x hx
          rcases hc with rfl | rfl | rfl | rfl | rfl | rfl <;> rcases hk' with rfl | rfl <;> simp [touched, hx']
      have q1Vol : get (run S Q1) .vol = get S .vol := by
        apply get_run_untouched
        intro c hc
        simp only [Q1, List.mem_cons, List.mem_nil_iff, or_false] at hc
        rcases hc with rfl | rfl | rfl | rfl | rfl | rfl <;> simp [touched]
      have t2 : get (run S Q1) .volTmp = some (.volume newHead) := by
        have : Q1 = [.fsyncDir, .unlink (.img oldHead), .unlink (.dmeta oldHead), .fsyncDir] ++ E := rfl
        rw [this, run_append]; exact e1 _
      generalize hS2 : apply (run S Q1) (.rename .volTmp .vol) = S2
      have s2_vol : get S2 .vol = some (.volume newHead) := by
        rw [← hS2, apply_rename, t2]; exact get_put_same _ _ _
      have s2Other : ∀ k, k ≠ .vol → k ≠ .volTmp → get S2 k = get (run S Q1) k := by
        intro k h1 h2
        rw [← hS2]; exact get_apply_untouched _ _ _ (by simp [touched, h1, h2])
      have rec2 : Recovers S2 ((newHead, newIno) :: (target, it) :: below) := by
        refine ⟨newHead, s2_vol, ?_⟩
        apply isChain_congr S _ newHead _ newChain
        intro x hx
        exact ⟨by rw [s2Other _ (by simp) (by simp)]; exact q1Keep _ (Or.inr ⟨x, hx, Or.inl rfl⟩) (by simp),
               by rw [s2Other _ (by simp) (by simp)]; exact q1Keep _ (Or.inr ⟨x, hx, Or.inr rfl⟩) (by simp)⟩
      apply recovers_untouched _ _ _ rec2
      intro call hc k hk _
      have hc' := mem_take _ _ _ hc
      simp only [Q2, List.mem_cons, List.mem_nil_iff, or_false] at hc'
      subst hc'
      simp [touched] at hk

/-- **C08 (revert).** Reverting to the chain member `target`: whatever prefix of the call sequence of
    `revertDisk` was executed, the directory opens with the chain before, or with a new head directly
    on `target`. -/
theorem c08_revert (fs : FS) (oldHead newHead target : String) (i0 it newIno : Nat)
    (mid below : List (String × Nat))
    (hvol : get fs .vol = some (.volume oldHead))
    (hold : IsChain fs oldHead ((oldHead, i0) :: mid ++ (target, it) :: below))
    (hn1 : newHead ≠ oldHead) (ht : target ≠ "") (ht1 : target ≠ oldHead) (ht2 : target ≠ newHead)
    (hf : ∀ x ∈ mid ++ below, x.1 ≠ newHead ∧ x.1 ≠ oldHead)
    (ha1 : get fs (.img newHead) = none)
    (n : Nat) :
    Recovers (run fs ((revertProg oldHead newHead target newIno).take n))
      ((oldHead, i0) :: mid ++ (target, it) :: below) ∨
    Recovers (run fs ((revertProg oldHead newHead target newIno).take n))
      ((newHead, newIno) :: (target, it) :: below) := by
  have hh := c08_revert_split fs oldHead newHead target i0 it newIno mid below hvol hold hn1 ht ht1 ht2 hf ha1 n
  by_cases hn : n ≤ 9
  · exact Or.inl (hh.1 hn)
  · exact Or.inr (hh.2 (by omega))

/-- **C08 (single metadata update).** Every other metadata change (size, checkpoint, rebuilding flag,
    clone status, a disk's attributes) is one `encodeToFile`: whatever prefix of it was executed, the
    target file holds its old or its new content — never a partial one — and no other file except the
    temp file is changed. -/
theorem c08_single_update (fs : FS) (tmp dst : Key) (e : Ent) (hne : tmp ≠ dst) (n : Nat) :
    (get (run fs ((encode tmp dst e).take n)) dst = get fs dst ∨
     get (run fs ((encode tmp dst e).take n)) dst = some e) ∧
    ∀ k, k ≠ tmp → k ≠ dst → get (run fs ((encode tmp dst e).take n)) k = get fs k := by
  constructor
  · by_cases hn : n ≤ 2
    · left
      apply get_run_untouched
      intro c hc
      have hc' : c ∈ (encode tmp dst e).take 2 := by
        have : (encode tmp dst e).take n = ((encode tmp dst e).take 2).take n := by
          rw [List.take_take]; congr 1; omega
        rw [this] at hc; exact mem_take _ _ _ hc
      simp only [encode, List.take, List.mem_cons, List.mem_nil_iff, or_false] at hc'
      rcases hc' with rfl | rfl <;> simp [touched, hne.symm]
    · right
      have h3 : (encode tmp dst e).take n = (encode tmp dst e).take 3 ++ ((encode tmp dst e).drop 3).take (n - 3) := by
        have : n = 3 + (n - 3) := by omega
        rw [this, List.take_add]; simp
      rw [h3, run_append]
      have hd : ((encode tmp dst e).drop 3).take (n - 3) = [] ∨ ((encode tmp dst e).drop 3).take (n - 3) = [.fsyncDir] := by
        cases hk : n - 3 with
        | zero => left; rfl
        | succ k => right; simp [encode]
      have core : get (run fs ((encode tmp dst e).take 3)) dst = some e := by
        have h1 : get (apply (apply fs (.create tmp .incomplete)) (.write tmp e)) tmp = some e := by
          have ex : ∃ x, get (apply fs (.create tmp .incomplete)) tmp = some x := by
            rw [apply_create]; split
            · rename_i x hx; exact ⟨x, hx⟩
            · exact ⟨.incomplete, get_put_same fs tmp _⟩
          obtain ⟨x, hx⟩ := ex
          rw [apply_write, hx]; exact get_put_same _ tmp e
        show get (apply (apply (apply fs (.create tmp .incomplete)) (.write tmp e)) (.rename tmp dst)) dst = some e
        rw [apply_rename, h1]; exact get_put_same _ dst e
      rcases hd with hd | hd <;> rw [hd]
      · exact core
      · exact core
  · intro k h1 h2
    apply get_run_untouched
    intro c hc
    have hc' := mem_take _ _ _ hc
    simp only [encode, List.mem_cons, List.mem_nil_iff, or_false] at hc'
    rcases hc' with rfl | rfl | rfl | rfl <;> simp [touched, h1, h2]

/-- **C08 (durability).** Each program ends with a flush of the directory after its last directory
    update (`crashdiff` checks the same on the real traces). -/
theorem c08_programs_end_flushed (a b c d : String) (i : Nat) :
    (snapshotProg a b c d i).getLast? = some .fsyncDir ∧ (removeProg a b c d).getLast? = some .fsyncDir ∧
    (revertProg a b c i).getLast? = some .fsyncDir := by
  simp [snapshotProg, removeProg, revertProg, encode]

/-! ### the executable walk and the relation agree -/

theorem chainFrom_sound (fs : FS) : ∀ (fuel : Nat) (d : String) (c : List (String × Nat)),
    chainFrom fs fuel d = some c → IsChain fs d c := by
  intro fuel
  induction fuel with
  | zero => intro d c h; cases h
  | succ fuel ih =>
    intro d c h
    unfold chainFrom at h
    split at h
    · rename_i i p h1 h2
      by_cases hp : p = ""
      · rw [if_pos hp] at h
        cases h
        subst hp
        exact IsChain.base d i h1 h2
      · rw [if_neg hp] at h
        cases hc : chainFrom fs fuel p with
        | none => rw [hc] at h; cases h
        | some c' =>
          rw [hc] at h
          cases h
          exact IsChain.step d p i c' h1 h2 hp (ih p c' hc)
    · cases h

/-- what the driver's `recover` computes is a chain in the sense of the theorems -/
theorem recover_sound (fs : FS) (c : List (String × Nat)) (h : recover fs = some c) : Recovers fs c := by
  unfold recover at h
  split at h
  · rename_i hd hv
    exact ⟨hd, hv, chainFrom_sound fs _ hd c h⟩
  · cases h

/-! ### non-vacuity: a concrete directory, every prefix of both programs, the executable recovery -/

private def fs0 : FS :=
  [(.vol, .volume "h2"), (.img "h2", .data 3), (.dmeta "h2", .disk "s1"),
   (.img "s1", .data 2), (.dmeta "s1", .disk "base"), (.img "base", .data 1), (.dmeta "base", .disk "")]

example : recover fs0 = some [("h2", 3), ("s1", 2), ("base", 1)] := by decide

example : (List.range 24).all (fun n =>
    let r := recover (run fs0 ((snapshotProg "h2" "h3" "s2" "s1" 4).take n))
    r = some [("h2", 3), ("s1", 2), ("base", 1)] ∨ r = some [("h3", 4), ("s2", 3), ("s1", 2), ("base", 1)]) = true := by
  decide

example : (List.range 13).all (fun n =>
    let r := recover (run fs0 ((removeProg "s1" "h2" "base" "").take n))
    r = some [("h2", 3), ("s1", 2), ("base", 1)] ∨ r = some [("h2", 3), ("base", 1)]) = true := by
  decide

example : (List.range 20).all (fun n =>
    let r := recover (run fs0 ((revertProg "h2" "h3" "base" 4).take n))
    r = some [("h2", 3), ("s1", 2), ("base", 1)] ∨ r = some [("h3", 4), ("base", 1)]) = true := by
  decide

end Jiva.Crash
