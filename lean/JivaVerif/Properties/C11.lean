import JivaVerif.Lemmas.InVol
import JivaVerif.Lemmas.Cleaner
import JivaVerif.Model.Replica
/-!
# C11 — deleting snapshots never changes live data or other retained snapshots

Deletion of chain member `k` is `coalesce k` (sfold of `k` onto `k-1`) followed by `removeIdx k`
(`RemoveDiffDisk`: drain, `RemoveIndex`, unlink).  I/O, snapshots and reads may come between the
two; the reclaimer is not scheduled in between (modelling assumption, see DESIGN.md).
-/
namespace Jiva.Properties
open Jiva DD
variable {β : Type} [Inhabited β]

/-- **C11 (live data).** Folding and unlinking `k` leaves the live volume as it was. -/
theorem c11_live_coalesce (d : DD β) (k u : Nat) (hk : 2 ≤ k) (hkt : k < d.top) :
    (d.coalesce k).live u = d.live u := by
  show (d.coalesce k).view d.top u = d.view d.top u
  exact view_coalesce d k d.top u hk (by omega)

theorem c11_live_remove (d : DD β) (h : WF d) (k u : Nat) (hk : 2 ≤ k) (hkt : k < d.top)
    (hc : Coalesced d k) : (d.removeIdx k).live u = d.live u :=
  live_removeIdx d h k u hk hkt hc

/-- **C11 (other members).** The fold changes only the view of the merge target `k-1` (which takes
    the content of `k`); the unlink changes no view, it renumbers.  Hence a retained user-created
    snapshot is changed **iff** it is the merge target — exactly what clause 3 of the cleaner's
    filter excludes. -/
theorem c11_others_coalesce (d : DD β) (k i u : Nat) (hk : 2 ≤ k) (hi : i ≠ k - 1) :
    (d.coalesce k).view i u = d.view i u := view_coalesce d k i u hk hi

theorem c11_target_takes_child (d : DD β) (k u : Nat) (hk : 2 ≤ k) :
    (d.coalesce k).view (k - 1) u = d.view k u := view_coalesce_parent d k u hk

theorem c11_others_remove (d : DD β) (k i u : Nat) (hk : 2 ≤ k) (hc : Coalesced d k) :
    (d.removeIdx k).view i u = if i < k then d.view i u else d.view (i + 1) u :=
  view_removeIdx d k i u hk hc

/-- what the fold establishes is what the unlink needs, and I/O in between keeps it -/
theorem c11_fold_establishes (d : DD β) (k : Nat) (hk : 2 ≤ k) : Coalesced (d.coalesce k) k :=
  coalesced_coalesce d k hk

/-- **C11 (invariant).** The location map, the cached SnapIndx and the marker array stay sound
    across a deletion that respects the filter. -/
theorem c11_inv (d : DD β) (h : WF d) (k : Nat) (hk : 2 ≤ k) (hkt : k < d.top)
    (hc : Coalesced d k) (hu1 : d.ur k = false) (hu2 : d.ur (k - 1) = false) : WF (d.removeIdx k) :=
  wf_removeIdx d h k hk hkt hc hu1 hu2

/-- **C11 (cleaner filter).** For every chain, attribute assignment and checkpoint position, every
    candidate of the background cleaner is strictly between the base and the checkpoint, is not a
    retained user-created snapshot, and its merge target is not one either; there are no candidates
    when the checkpoint is missing, is the base or the base's child, or the chain has at most three
    members. -/
theorem c11_cleaner (d : DD β) (ck k : Nat) (hk : k ∈ candidates d ck) :
    2 ≤ k ∧ k < ck ∧ d.ur k = false ∧ d.ur (k - 1) = false ∧ 3 < d.top ∧ 2 < ck := by
  unfold candidates at hk
  split at hk
  · simp at hk
  · rename_i c
    have := mem_candidatesUpTo d (ck - 1) k hk
    exact ⟨this.1, by omega, this.2.2.1, this.2.2.2, by omega, by omega⟩

/-- consequently a candidate below a checkpoint that is a snapshot (`ck < top`) is admissible for
    `coalesce` — never the head, the latest snapshot or the base. -/
theorem c11_cleaner_admissible (d : DD β) (ck k : Nat) (hck : ck < d.top) (hk : k ∈ candidates d ck) :
    Adm d (.coalesce k : Op β) ∧ k + 1 < d.top := by
  have ⟨a, b, c, e, _, _⟩ := c11_cleaner d ck k hk
  exact ⟨⟨a, by omega, e, c⟩, by omega⟩

/-- **C11 (protected disks).** `PrepareRemoveDisk` refuses the latest snapshot and the base, and a
    refused request changes nothing (the head has no snapshot name and cannot be addressed; a
    replica that is closed or not RW refuses everything). -/
theorem c11_protected (r : Rep) (n : String) (hne : r.indexOf n ≠ 0)
    (h : r.indexOf n + 1 = r.dd.top ∨ r.indexOf n = 1) :
    r.step (.mark n) = (r, .refused) := by
  unfold Rep.step
  by_cases c1 : (!r.isOpen || r.mode ≠ .rw) = true
  · simp only [c1, if_true]
  · simp only [c1, hne, if_false]
    rcases h with h | h
    · simp [h]
    · by_cases c2 : r.indexOf n + 1 = r.dd.top
      · simp [c2]
      · simp [c2, h]

theorem c11_wrong_mode_refused (r : Rep) (n : String) (h : r.isOpen = false ∨ r.mode ≠ .rw) :
    r.step (.mark n) = (r, .refused) ∧ r.step (.rm n) = (r, .refused) := by
  unfold Rep.step
  rcases h with h | h <;> simp [h]

end Jiva.Properties
