import JivaVerif.Model.Rest
import JivaVerif.Model.Controller
/-!
# C14 / C17 — management API: what is proved over the regenerated tables

C14 is mostly about the runtime (panics, fatal errors, deadlocks inside handlers); that part is
*searched* by the restdiff engine (every route × method × body class × state, each request in a
child process).  What can be stated as theorems about the regenerated action table is here.
-/
namespace Jiva.Properties
open Jiva

/-- **C17 (REST gate).** An action request is answered by its handler exactly when a handler is
    routed for the action and the replica's current state offers it (`checkAction`); every other
    action request is answered 404 before any handler runs — hence without side effects. -/
theorem c17_rest_gate (st a : String) :
    Rest.served st a = true ↔ (a ∈ Gen.routedActions ∧ a ∈ Rest.actions st) := by
  unfold Rest.served; simp

/-- the table as it is in the source: attaching (`open`) is offered only while the replica is
    closed, so a replica that is open, dirty or rebuilding cannot be attached again (C17) -/
theorem c17_open_only_when_closed :
    ∀ st ∈ ["initial", "closed", "open", "dirty", "rebuilding", "error"],
      Rest.served st "open" = true ↔ st = "closed" := by decide

/-- I/O-path management that needs an open replica is not offered while it is closed or initial -/
theorem c17_closed_offers_no_data_ops :
    ∀ a ∈ ["snapshot", "reload", "setrebuilding", "setreplicamode", "setrevisioncounter", "setcheckpoint", "close"],
      Rest.served "closed" a = false ∧ Rest.served "initial" a = false := by decide

/-- nothing is offered in the error state -/
theorem c17_error_offers_nothing : ∀ a ∈ Gen.routedActions, Rest.served "error" a = false := by decide

/-- a rebuilding replica offers neither snapshot removal nor revert nor a second `setrebuilding`
    cycle's prerequisites being skipped: in particular no `removedisk`, `replacedisk`, `revert` -/
theorem c17_rebuilding_restricted :
    ∀ a ∈ ["removedisk", "replacedisk", "revert", "prepareremovedisk", "snapshot", "open", "create"],
      Rest.served "rebuilding" a = false := by decide

/-- **C14 (slice bounds).** `VerifyRebuildReplica` compares chains only after checking that both
    are long enough; the model's comparison is total and refuses short chains. -/
theorem c14_verify_short_chain_refused (rwc woc : List String) (ckp : String)
    (h : woc.length < Ctl.ckptIndex rwc ckp + 1) : Ctl.chainsAgree rwc woc ckp = false := by
  unfold Ctl.chainsAgree
  simp [h]

end Jiva.Properties
