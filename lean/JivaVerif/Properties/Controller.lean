import JivaVerif.Lemmas.CtlRf
/-!
# Controller properties: C02, C03, C04, C05, C09, C13, C18 and the controller halves of C01, C07,
# C10, C16

Model: `Jiva.Ctl` (controller/control.go, replicator.go, multi_writer_at.go, rebuild.go).  A state is
*reachable* if it is `(Ctl.init rf).run ops` for some request list `ops` — any requests, any
environment answers (they are part of the requests), `rf ≥ 1`.  `cinv_run` gives the invariant
`CInv` in every reachable state; the theorems below are stated for any state satisfying `CInv`.
-/
namespace Jiva.Properties
open Jiva Ctl

/-- every reachable state satisfies the invariant -/
theorem ctl_reachable_inv (rf : Nat) (h : 1 ≤ rf) (ops : List CtlOp) : CInv ((Ctl.init rf).run ops) :=
  cinv_run ops _ (cinv_init rf h)

/-! ## C03 — writes only while a quorum of replicas is RW -/

/-- **C03 (status exact, every reachable state).** The volume is read-only exactly when fewer
    than ⌊RF/2⌋+1 replicas are RW — after *every* request, not only at quiescent points. -/
theorem c03_status_exact (c : Ctl) (h : CInv c) :
    c.readOnly = false ↔ rwOf c.replicas ≥ c.rf / 2 + 1 := by
  have := h.status.1
  rw [this]; simp

/-- **C03 (gate).** While read-only, write / flush / unmap are refused, no replica is called and
    nothing changes. -/
theorem c03_gate (c : Ctl) (hro : c.readOnly = true) (off len : Nat) (f : List String) (t : List (String × Out)) :
    c.stepWrite off len f t = (c, .refused) ∧ c.stepSync "Sync" f = (c, .refused) ∧
    c.stepSync "Unmap" f = (c, .refused) := by
  unfold stepWrite stepSync; simp [hro]

/-- **C03 (never below quorum).** A write that is let through (not refused) happens in a state
    with a quorum of RW replicas. -/
theorem c03_never_below (c : Ctl) (h : CInv c) (off len : Nat) (f : List String) (t : List (String × Out))
    (hacc : (c.stepWrite off len f t).2 ≠ .refused) : rwOf c.replicas ≥ c.rf / 2 + 1 := by
  apply (c03_status_exact c h).mp
  cases hro : c.readOnly with
  | false => rfl
  | true => exact absurd (by rw [(c03_gate c hro off len f t).1]) hacc

/-- the state in which `Controller.WriteAt` fans the request out, if it does: the state of the request
    itself, or — for a request that is first completed from the RW replicas while a WO replica is
    attached — the state after that read, the readers that failed it dropped -/
def writeFanOutState (c : Ctl) (off len : Nat) (tried : List (String × Out)) : Option Ctl :=
  if c.readOnly then none else
  if off + len > c.size then none else
  if c.needsWiden off len then
    if !c.available then none else
    let c1 := c.readCalls tried
    let errs := (tried.filter fun t => t.2 = .fail).map (·.1)
    let served := tried.any fun t => t.2 = .ok
    if errs.isEmpty then (if served then some c1 else none) else
    if served ∧ !(c1.ioFail errs).2 then
      (if (c1.ioFail errs).1.readOnly then none else some (c1.ioFail errs).1)
    else none
  else some c

theorem readCalls_readOnly (t : List (String × Out)) : ∀ c : Ctl, (c.readCalls t).readOnly = c.readOnly := by
  induction t with
  | nil => intro c; rfl
  | cons x xs ih =>
    intro c
    show (Ctl.readCalls (match c.readers.find? (fun r => r.1 = x.1) with
      | some r => c.call r.2 "ReadAt" | none => c) xs).readOnly = c.readOnly
    rw [ih]
    split <;> rfl

theorem stepWrite_fanOut (c : Ctl) (off len : Nat) (f : List String) (t : List (String × Out)) (c' : Ctl)
    (h : writeFanOutState c off len t = some c') : c.stepWrite off len f t = c'.stepFanOut "WriteAt" f := by
  unfold writeFanOutState at h
  unfold stepWrite
  simp only at h ⊢
  repeat' split at h
  all_goals first
    | (cases h; done)
    | (injection h with h; subst h; simp only [*, ↓reduceIte, and_self, not_true_eq_false, not_false_eq_true] <;> simp)

/-- **C03 (the fan-out itself happens with a quorum).** Whenever `Controller.WriteAt` sends the request to
    the replicas, the volume has a quorum of RW replicas AT THAT MOMENT — also when the read that
    completes a sub-block request (a WO replica is attached) has just cost it replicas: the gate is
    looked at again after that read (fix in /repo; before it, a write could be fanned out to, and
    acknowledged by, one RW replica and the rebuilding one). -/
theorem c03_fanout_with_quorum (c : Ctl) (hc : CInv c) (off len : Nat) (t : List (String × Out)) (c' : Ctl)
    (h : writeFanOutState c off len t = some c') : rwOf c'.replicas ≥ c'.rf / 2 + 1 := by
  have key : CInv c' ∧ c'.readOnly = false := by
    unfold writeFanOutState at h
    simp only at h
    have i1 := cinv_readCalls c hc t
    have ro1 := readCalls_readOnly t c
    repeat' split at h
    all_goals first
      | (cases h; done)
      | (injection h with h; subst h
         first
           | exact ⟨hc, by simp_all⟩
           | exact ⟨i1, by rw [ro1]; simp_all⟩
           | exact ⟨cinv_ioFail _ i1 _, by simp_all⟩)
  exact (c03_status_exact c' key.1).mp key.2

/-- **C03 (recovers).** With a quorum the gate is open. -/
theorem c03_recovers (c : Ctl) (h : CInv c) (hq : rwOf c.replicas ≥ c.rf / 2 + 1) : c.readOnly = false :=
  (c03_status_exact c h).mpr hq

/-! ## C18 — membership bookkeeping is consistent -/

/-- **C18.** In every reachable state: no address twice; the I/O table has exactly the replica
    list's addresses and modes; the write fan-out is exactly the non-ERR backends and the read set
    exactly the RW backends; at most one replica is rebuilding; at most RF replicas; the reported RW
    count is the number of RW entries; no live backend was ever closed. -/
theorem c18_consistent (c : Ctl) (h : CInv c) :
    (c.replicas.map (·.1)).Nodup ∧
    c.backends.map (fun b => (b.addr, b.mode)) = c.replicas ∧
    c.writers = (c.backends.filter fun b => b.mode ≠ .err).map (fun b => (b.addr, b.id)) ∧
    c.readers = (c.backends.filter fun b => b.mode = .rw).map (fun b => (b.addr, b.id)) ∧
    (c.replicas.filter fun r => r.2 = .wo).length ≤ 1 ∧
    c.replicas.length ≤ c.rf ∧
    c.rwCount = rwOf c.replicas ∧
    (∀ b ∈ c.backends, b.id ∉ c.closed) :=
  ⟨h.core.nodup, h.core.agree, h.core.fanout.1, h.core.fanout.2.1, h.core.oneWO, h.core.lenRf,
   h.status.2, h.core.idsLive⟩

/-- **C18 (removed is silent).** A closed backend is in neither fan-out list, so no later request
    calls it. -/
theorem c18_removed_silent (c : Ctl) (h : CInv c) (a : String) (id : Nat) (hcl : id ∈ c.closed) :
    (a, id) ∉ c.writers ∧ (a, id) ∉ c.readers := by
  have hc := h.core
  constructor
  · rw [hc.fanout.1]; intro hm
    obtain ⟨b, hb, e⟩ := List.mem_map.mp hm
    have := hc.idsLive b (List.mem_filter.mp hb).1
    simp at e; rw [e.2] at this; exact this hcl
  · rw [hc.fanout.2.1]; intro hm
    obtain ⟨b, hb, e⟩ := List.mem_map.mp hm
    have := hc.idsLive b (List.mem_filter.mp hb).1
    simp at e; rw [e.2] at this; exact this hcl

/-! ## C02 / C05 — majority acknowledgement, detachment of the failed -/

/-- **C02 (acknowledged ⇒ majority).** If a write / flush / unmap is reported successful, strictly
    more than half of the replicas attached at that moment applied it (or none failed). -/
theorem c02_ack_majority (c : Ctl) (m : String) (fails : List String)
    (hok : (c.stepFanOut m fails).2 = .ok) :
    c.writers.length - (c.failedWriters fails).length > c.writers.length / 2 ∨ c.failedWriters fails = [] := by
  unfold stepFanOut at hok
  simp only at hok
  by_cases h1 : (!c.available) = true
  · rw [if_pos h1] at hok; cases hok
  · rw [if_neg h1] at hok
    by_cases he : (c.failedWriters fails).isEmpty = true
    · right; exact List.isEmpty_iff.mp he
    · left
      rw [if_neg he] at hok
      simp only at hok
      by_cases hm : majorityOk c.writers.length (c.failedWriters fails).length = true
      · unfold majorityOk at hm; simpa using hm
      · have : ¬ (majorityOk c.writers.length (c.failedWriters fails).length = true ∧
            (!((c.writers.foldl (fun c w => c.call w.2 m) c).ioFail (c.failedWriters fails)).2) = true) :=
          fun hh => hm hh.1
        rw [if_neg this] at hok; cases hok

/-- **C02 (no majority ⇒ failure reported).** -/
theorem c02_fail_reported (c : Ctl) (m : String) (fails : List String) (hav : c.available = true)
    (hne : c.failedWriters fails ≠ [])
    (hno : ¬ (c.writers.length - (c.failedWriters fails).length > c.writers.length / 2)) :
    (c.stepFanOut m fails).2 = .failed := by
  unfold stepFanOut
  simp only
  have h1 : ¬ ((!c.available) = true) := by simp [hav]
  rw [if_neg h1]
  have he : ¬ ((c.failedWriters fails).isEmpty = true) := fun hh => hne (List.isEmpty_iff.mp hh)
  rw [if_neg he]
  have hm : ¬ (majorityOk c.writers.length (c.failedWriters fails).length = true) := by
    unfold majorityOk; simpa using hno
  have : ¬ (majorityOk c.writers.length (c.failedWriters fails).length = true ∧
      (!((c.writers.foldl (fun c w => c.call w.2 m) c).ioFail (c.failedWriters fails)).2) = true) :=
    fun hh => hm hh.1
  simp only [this, if_false]

theorem removeAll_gone (errs : List String) : ∀ (c : Ctl), CInv c → ∀ a ∈ errs,
    (c.removeAll errs).hasReplica a = false ∧ (c.removeAll errs).backendOf a = none := by
  induction errs with
  | nil => intro c _ a ha; cases ha
  | cons x xs ih =>
    intro c h a ha
    have h1 := cinv_removeReplica c h x CkEnv.none
    show ((c.removeReplica x CkEnv.none).removeAll xs).hasReplica a = false ∧ _
    by_cases hx : a ∈ xs
    · exact ih _ h1 a hx
    · have hax : a = x := by
        rcases List.mem_cons.mp ha with e | e
        · exact e
        · exact absurd e hx
      subst hax
      -- removed now; later removals only shrink the tables
      have g := removeReplica_gone c h a CkEnv.none
      have mono : ∀ (l : List String) (d : Ctl), CInv d → d.hasReplica a = false → d.backendOf a = none →
          (d.removeAll l).hasReplica a = false ∧ (d.removeAll l).backendOf a = none := by
        intro l
        induction l with
        | nil => intro d _ h1 h2; exact ⟨h1, h2⟩
        | cons y ys ihl =>
          intro d hd h1 h2
          have hd' := cinv_removeReplica d hd y CkEnv.none
          apply ihl _ hd'
          · unfold hasReplica; rw [removeReplica_replicas, List.any_eq_false]
            intro r hr
            unfold hasReplica at h1; rw [List.any_eq_false] at h1
            exact h1 r (List.mem_filter.mp hr).1
          · -- backends agree with replicas, and the address is not a replica
            unfold backendOf; rw [List.find?_eq_none]
            intro b hb hba
            have hm := mem_replicas_of_mem_backends _ hd'.core b hb
            rw [removeReplica_replicas] at hm
            unfold hasReplica at h1; rw [List.any_eq_false] at h1
            have := h1 (key b) (List.mem_filter.mp hm).1
            have e1 : b.addr = a := by simpa using hba
            simp [key, e1] at this
      exact mono xs _ h1 g.1 g.2

/-- **C02 / C05 (laggards detached).** After a write / flush / unmap returns — successfully or not —
    every replica that failed it is out of the replica list and out of the I/O table (its backend
    closed), so by `c18_consistent` it is in no fan-out list and receives no further call. -/
theorem c02_failed_detached (c : Ctl) (h : CInv c) (m : String) (fails : List String)
    (hav : c.available = true) (a : String) (ha : a ∈ c.failedWriters fails) :
    ((c.stepFanOut m fails).1).hasReplica a = false ∧ ((c.stepFanOut m fails).1).backendOf a = none := by
  unfold stepFanOut
  simp only
  have h1 : ¬ ((!c.available) = true) := by simp [hav]
  rw [if_neg h1]
  have hc := cinv_calls' c h c.writers (·.2) m
  have he : ¬ ((c.failedWriters fails).isEmpty = true) := by
    intro hh; have := List.isEmpty_iff.mp hh; rw [this] at ha; cases ha
  rw [if_neg he]
  simp only
  unfold ioFail
  exact removeAll_gone _ _ (cinv_handleError _ hc _) a ha

/-- **C05 (a failing minority is masked).** If the failed replicas leave a strict majority of the
    attached ones and an RW replica survives (`handleErrorNoLock` finds one), the request succeeds
    towards the initiator. -/
theorem c05_minority_masked (c : Ctl) (m : String) (fails : List String) (hav : c.available = true)
    (hmaj : c.writers.length - (c.failedWriters fails).length > c.writers.length / 2)
    (hrw : ((c.writers.foldl (fun c w => c.call w.2 m) c).ioFail (c.failedWriters fails)).2 = false) :
    (c.stepFanOut m fails).2 = .ok := by
  unfold stepFanOut
  simp only
  have h1 : ¬ ((!c.available) = true) := by simp [hav]
  rw [if_neg h1]
  by_cases he : (c.failedWriters fails).isEmpty = true
  · rw [if_pos he]
  · rw [if_neg he]
    have hm : majorityOk c.writers.length (c.failedWriters fails).length = true := by
      unfold majorityOk; simpa using hmaj
    simp [hm, hrw]

/-- the "an RW replica survives" test of `handleErrorNoLock` is exactly that -/
theorem c05_survivor_test (c : Ctl) (errs : List String) (hne : errs ≠ []) :
    (c.handleError errs).2 = false ↔ ((c.handleError errs).1.replicas.any fun r => r.2 = .rw) = true := by
  unfold handleError
  have : ¬ (errs.isEmpty = true) := fun hh => hne (List.isEmpty_iff.mp hh)
  simp only [this, if_false]
  simp

/-! ## C04 — reads only from RW replicas, with fail-over -/

/-- **C04 (readers are exactly the RW replicas).** -/
theorem c04_readers_rw (c : Ctl) (h : CInv c) (a : String) (id : Nat) :
    (a, id) ∈ c.readers ↔ ∃ b ∈ c.backends, b.addr = a ∧ b.id = id ∧ b.mode = .rw := by
  rw [h.core.fanout.2.1]
  constructor
  · intro hm
    obtain ⟨b, hb, e⟩ := List.mem_map.mp hm
    have hf := List.mem_filter.mp hb
    simp at e
    exact ⟨b, hf.1, e.1, e.2, by simpa using hf.2⟩
  · intro ⟨b, hb, e1, e2, e3⟩
    exact List.mem_map.mpr ⟨b, List.mem_filter.mpr ⟨hb, by simp [e3]⟩, by simp [e1, e2]⟩

/-- **C04 (no RW replica ⇒ the read fails and nobody is asked).** -/
theorem c04_no_rw_fails (c : Ctl) (hav : c.available = false) (off len : Nat) (tried : List (String × Out))
    (hr : off + len ≤ c.size) : (c.stepRead off len tried).2 = .failed ∧ (c.stepRead off len tried).1 = c := by
  unfold stepRead
  have h0 : ¬ (off + len > c.size) := by omega
  simp only [h0, if_false]
  split
  · exact ⟨rfl, rfl⟩
  · split
    · exact ⟨rfl, rfl⟩
    · simp [hav]

/-- **C04 (only readers are asked).** The calls a read makes go to members of the read set. -/
theorem c04_read_calls (c : Ctl) (tried : List (String × Out)) :
    ∀ p ∈ (c.readCalls tried).calls, p ∈ c.calls ∨ ∃ r ∈ c.readers, r.2 = p.1 := by
  unfold readCalls
  induction tried generalizing c with
  | nil => intro p hp; exact Or.inl hp
  | cons t ts ih =>
    intro p hp
    have := ih _ p hp
    cases hf : c.readers.find? (fun r => r.1 = t.1) with
    | none =>
      simp only [List.foldl_cons, hf] at hp
      exact ih c p hp
    | some r =>
      simp only [List.foldl_cons, hf] at hp
      rcases ih _ p hp with h1 | h1
      · simp only [call] at h1
        rcases List.mem_append.mp h1 with h2 | h2
        · exact Or.inl h2
        · simp at h2; right; exact ⟨r, List.mem_of_find?_eq_some hf, by rw [h2]⟩
      · exact Or.inr h1

/-! ## C09 — election -/

theorem maxRevCount_ge_cur (regs : List Reg) (cur : Nat) : cur ≤ maxRevCount regs cur := by
  unfold maxRevCount
  induction regs generalizing cur with
  | nil => exact Nat.le_refl _
  | cons r rs ih =>
    simp only [List.foldl_cons]
    split
    · rename_i hc; exact Nat.le_trans (Nat.le_of_lt hc.2) (ih _)
    · exact ih _

theorem maxRevCount_ge (regs : List Reg) : ∀ (cur : Nat) (r : Reg), r ∈ regs → r.rebuilding = false →
    r.rev ≤ maxRevCount regs cur := by
  unfold maxRevCount
  induction regs with
  | nil => intro cur r hr; cases hr
  | cons x xs ih =>
    intro cur r hr hnb
    simp only [List.foldl_cons]
    rcases List.mem_cons.mp hr with e | e
    · subst e
      split
      · exact maxRevCount_ge_cur xs _
      · rename_i hc
        have : ¬ cur < r.rev := by intro hh; exact hc ⟨by simp [hnb], hh⟩
        exact Nat.le_trans (by omega) (maxRevCount_ge_cur xs cur)
    · exact ih _ r e hnb

/-- **C09 (the elected replica has the highest revision count).** Whatever order Go iterates the
    registration map in, a winner the election loop can produce holds the maximum count `M` over the
    current leader candidate and every registered replica that is not in the middle of a rebuild:
    no such replica has more than `M`, and the winner is either the candidate `cur` (whose count
    `curRev` then equals `M`) or a registered, non-rebuilding replica whose count is `M`. -/
theorem c09_max (regs : List Reg) (cur w : String) (curRev : Nat) (hl : legalElect regs cur curRev w = true) :
    (∀ r ∈ regs, r.rebuilding = false → r.rev ≤ maxRevCount regs curRev) ∧ curRev ≤ maxRevCount regs curRev ∧
    ((w = cur ∧ curRev = maxRevCount regs curRev) ∨
     (∃ x ∈ regs, x.addr = w ∧ x.rebuilding = false ∧ x.rev = maxRevCount regs curRev)) := by
  refine ⟨fun r hr hnb => maxRevCount_ge regs curRev r hr hnb, maxRevCount_ge_cur regs curRev, ?_⟩
  unfold legalElect at hl
  simp only at hl
  by_cases hm : maxRevCount regs curRev = curRev
  · rw [if_pos hm] at hl
    left; exact ⟨by simpa using hl, hm.symm⟩
  · rw [if_neg hm] at hl
    right
    obtain ⟨x, hx, hp⟩ := List.any_eq_true.mp hl
    exact ⟨x, hx, by simpa using hp⟩

/-- **C09 (majority first).** The election tail sends a start signal only when a majority of the
    configured replicas is registered. -/
theorem c09_majority (c : Ctl) (r : Reg) (so : Bool) (el : String)
    (hs : (c.electAndSignal r so el).1.signals ≠ c.signals) : c.registered.length ≥ c.rf / 2 + 1 := by
  unfold electAndSignal at hs
  simp only at hs
  by_cases h1 : r.rebuilding = true
  · rw [if_pos h1] at hs; exact absurd rfl hs
  · rw [if_neg h1] at hs
    generalize (if c.maxRev = "" ∨ c.rebuildingOf c.maxRev = true then r.addr else c.maxRev) = cur at hs
    by_cases h2 : (!legalElect c.registered cur (c.revOf cur) el) = true
    · rw [if_pos h2] at hs; exact absurd rfl hs
    · rw [if_neg h2] at hs
      by_cases h3 : c.registered.length ≥ c.rf / 2 + 1
      · exact h3
      · rw [if_neg h3] at hs; exact absurd rfl hs

/-- **C09 (a rebuilding replica never triggers an election).** -/
theorem c09_rebuilding_not_elected (c : Ctl) (r : Reg) (so : Bool) (el : String) (hr : r.rebuilding = true) :
    c.electAndSignal r so el = (c, .ok) := by
  unfold electAndSignal; simp [hr]

/-- **C09 (only the leader can start the volume).** -/
theorem c09_only_leader (c : Ctl) (e0 : StartEnv) (es : List StartEnv) (ck : CkEnv)
    (hne : e0.addr ≠ full c.maxRev) (h0 : c.replicas.length = 0) :
    c.stepStart (e0 :: es) ck = (c, .refused) := by
  unfold stepStart
  have : ¬ (c.replicas.length > 0) := by omega
  simp [this, hne]

/-- **C18 (Start respects the replication factor).** A start request naming more replicas than the
    replication factor is refused and changes nothing (fix 8cc7cbc). -/
theorem c18_start_rf (c : Ctl) (es : List StartEnv) (ck : CkEnv) (h : es.length > c.rf) :
    (c.stepStart es ck).1 = c := by
  unfold stepStart
  split
  · rfl
  · repeat' split
    all_goals first | rfl | omega

theorem setMode_replicas (c : Ctl) (a : String) (m : CMode) :
    (c.setMode a m).replicas = c.replicas.map (fun r => if r.1 = a ∧ r.2 ≠ .err then (r.1, m) else r) := by
  unfold setMode
  split
  · rename_i hh
    have hh' : (c.replicas.any fun r => r.1 = a) = false := by simpa [hasReplica] using hh
    rw [List.any_eq_false] at hh'
    symm
    have : ∀ r ∈ c.replicas, (fun r : String × CMode => if r.1 = a ∧ r.2 ≠ .err then (r.1, m) else r) r = id r := by
      intro r hr
      have := hh' r hr
      simp at this
      simp [this]
    rw [List.map_congr_left this, List.map_id]
  · show (c.setModeCore a m).replicas = _
    unfold setModeCore
    simp only
    split
    · split <;> rfl
    · rfl

/-- no entry for `a` is RW -/
def NotRW (l : List (String × CMode)) (a : String) : Prop := ∀ r ∈ l, r.1 = a → r.2 ≠ .rw

theorem notRW_setErr_self (c : Ctl) (a : String) : NotRW (c.setMode a .err).replicas a := by
  intro r hr ha
  rw [setMode_replicas] at hr
  obtain ⟨r0, _, e⟩ := List.mem_map.mp hr
  by_cases c0 : r0.1 = a ∧ r0.2 ≠ .err
  · rw [if_pos c0] at e; rw [← e]; simp
  · rw [if_neg c0] at e
    rw [← e] at ha ⊢
    have : r0.2 = .err := by
      by_cases hh : r0.2 = .err
      · exact hh
      · exact absurd ⟨ha, hh⟩ c0
    rw [this]; decide

theorem notRW_setErr_other (c : Ctl) (a b : String) (h : NotRW c.replicas a) : NotRW (c.setMode b .err).replicas a := by
  intro r hr ha
  rw [setMode_replicas] at hr
  obtain ⟨r0, hr0, e⟩ := List.mem_map.mp hr
  by_cases c0 : r0.1 = b ∧ r0.2 ≠ .err
  · rw [if_pos c0] at e; rw [← e]; simp
  · rw [if_neg c0] at e
    rw [← e] at ha ⊢
    exact h r0 hr0 ha

theorem notRW_foldl (l : List String) : ∀ (c : Ctl) (a : String), (a ∈ l ∨ NotRW c.replicas a) →
    NotRW (l.foldl (fun c a => c.setMode a .err) c).replicas a := by
  induction l with
  | nil => intro c a h; rcases h with h | h; cases h; exact h
  | cons b l ih =>
    intro c a h
    apply ih
    rcases h with h | h
    · rcases List.mem_cons.mp h with rfl | h
      · right; exact notRW_setErr_self c a
      · left; exact h
    · right; exact notRW_setErr_other c a b h

theorem expectedRev_ge (es : List StartEnv) : ∀ (m : Nat) (e : StartEnv), e ∈ es →
    e.rev.getD 0 ≤ es.foldl (fun m e => max m (e.rev.getD 0)) m := by
  induction es with
  | nil => intro m e he; cases he
  | cons x xs ih =>
    intro m e he
    simp only [List.foldl]
    have mono : ∀ (l : List StartEnv) (m : Nat), m ≤ l.foldl (fun m e => max m (e.rev.getD 0)) m := by
      intro l
      induction l with
      | nil => intro m; exact Nat.le_refl _
      | cons y ys ih2 => intro m; simp only [List.foldl]; exact Nat.le_trans (Nat.le_max_left _ _) (ih2 _)
    rcases List.mem_cons.mp he with rfl | he
    · exact Nat.le_trans (Nat.le_max_right _ _) (mono xs _)
    · exact ih _ e he

/-- **C09 / C04 (replicas found behind at start-up are fenced).** After a successful `Start` with any
    number of addresses, whatever each replica answered, every replica whose revision counter is not
    the highest one reported is not RW — it is in neither the reader nor the writer list (`CInv`:
    readers = RW backends) — and the highest counter is an upper bound of all of them. -/
theorem c09_start_fences_stale (c : Ctl) (es : List StartEnv) (ck : CkEnv) (h0 : ¬ c.replicas.length > 0)
    (hok : (c.stepStart es ck).2 = .ok) :
    (∀ e ∈ es, e.rev.getD 0 ≤ expectedRev es) ∧
    ∀ e ∈ es, e.rev.getD 0 ≠ expectedRev es → NotRW (c.stepStart es ck).1.replicas e.addr := by
  refine ⟨fun e he => expectedRev_ge es 0 e he, ?_⟩
  intro e he hstale
  unfold stepStart at hok ⊢
  split at hok
  · cases he
  · rename_i e0 rest
    rw [if_neg h0] at hok ⊢
    by_cases h2 : e0.addr ≠ full c.maxRev
    · rw [if_pos h2] at hok; cases hok
    · rw [if_neg h2] at hok ⊢
      by_cases h3 : (e0 :: rest).length > c.rf
      · rw [if_pos h3] at hok; cases hok
      · rw [if_neg h3] at hok ⊢
        split at hok
        · cases hok
        · rename_i hl
          rw [if_neg hl]
          simp only at hok ⊢
          split at hok
          · cases hok
          · rename_i hr
            rw [if_neg hr]
            have e1 : ∀ x : Ctl, x.startFront.replicas = x.replicas := by
              intro x; unfold startFront; split <;> rfl
            show NotRW (Ctl.startFront _).replicas e.addr
            rw [e1, (updateCheckpoint_same _ ck).2.1]
            show NotRW (Ctl.replicas (List.foldl _ _ _)) e.addr
            apply notRW_foldl
            left
            unfold staleAddrs
            exact List.mem_map.mpr ⟨e, List.mem_filter.mpr ⟨he, by simpa using hstale⟩, rfl⟩

/-! ## C13 — snapshots on all replicas, checkpoint agreed -/

/-- **C13 (refused unless all RF replicas are RW).** -/
theorem c13_snapshot_refused (c : Ctl) (h : CInv c) (ex : Option Bool) (f : List String)
    (hn : rwOf c.replicas ≠ c.rf) : c.stepSnapshot ex f = (c, .refused) := by
  unfold stepSnapshot
  have : c.rwCount ≠ c.rf := by rw [h.status.2]; exact hn
  simp [this]

/-- **C13 (failed replicas are marked).** Every replica whose snapshot call failed is ERR afterwards
    — it is never left RW or WO with a diverging chain. -/
theorem c13_snapshot_failed_marked (c : Ctl) (a : String) (m : CMode) (hm : m ≠ .wo) :
    ∀ r ∈ (c.setMode a m).replicas, r.1 = a → r.2 = m ∨ r.2 = .err := by
  intro r hr ha
  unfold setMode at hr
  split at hr
  · rename_i hh
    unfold hasReplica at hh
    have hh' : (c.replicas.any fun r => r.1 = a) = false := by simpa using hh
    rw [List.any_eq_false] at hh'
    have := hh' r hr
    simp [ha] at this
  · have hr' : r ∈ (c.setModeCore a m).replicas := hr
    unfold setModeCore at hr'
    simp only at hr'
    have key : r ∈ c.replicas.map (fun r => if r.1 = a ∧ r.2 ≠ .err then (r.1, m) else r) := by
      split at hr'
      · split at hr'
        · exact hr'
        · exact hr'
      · exact hr'
    obtain ⟨r0, _, e⟩ := List.mem_map.mp key
    by_cases c0 : r0.1 = a ∧ r0.2 ≠ .err
    · rw [if_pos c0] at e; left; rw [← e]
    · rw [if_neg c0] at e
      right
      rw [← e] at ha ⊢
      by_cases hh : r0.2 = .err
      · exact hh
      · exact absurd ⟨ha, hh⟩ c0

/-- **C13 (checkpoint sound).** A checkpoint is recorded only when all RF replicas are RW, agree on
    their latest snapshot, and every one of them persisted that name. -/
theorem c13_checkpoint_sound (c : Ctl) (e : CkEnv) (hne : (c.updateCheckpoint e).checkpoint ≠ "") :
    rwOf c.replicas = c.rf ∧ latestAgreed c e = some (c.updateCheckpoint e).checkpoint ∧
    ((c.backends.filter fun b => b.mode = .rw).all fun b => lookupD e.setOk b.addr true) = true :=
  updateCheckpoint_sound c e hne

/-- **C13 (withdrawn when a replica leaves).** In every reachable state a recorded checkpoint
    implies a full replica list; a removal therefore always clears it. -/
theorem c13_checkpoint_full (c : Ctl) (h : CInv c) (hne : c.checkpoint ≠ "") : c.replicas.length = c.rf :=
  h.ckpt hne

theorem c13_withdrawn (c : Ctl) (h : CInv c) (a : String) (hh : c.hasReplica a = true) :
    (c.removeReplica a CkEnv.none).checkpoint = "" := by
  have hi := cinv_removeReplica c h a CkEnv.none
  cases hck : (c.removeReplica a CkEnv.none).checkpoint.decEq "" with
  | isTrue e => exact e
  | isFalse ne =>
    exfalso
    have hl := hi.ckpt ne
    rw [removeReplica_replicas] at hl
    have hrf : (c.removeReplica a CkEnv.none).rf = c.rf := by
      unfold removeReplica
      simp only [hh, Bool.not_true, Bool.false_eq_true, if_false]
      rw [(updateCheckpoint_same _ _).1]
      show (Ctl.removeBackend _ a).rf = c.rf
      unfold removeBackend
      split <;> (simp only [rebuild, call]; split <;> rfl)
    rw [hrf] at hl
    -- one entry was removed, so the list is strictly shorter than before, which was at most rf
    unfold hasReplica at hh
    obtain ⟨r, hr, hra⟩ := List.any_eq_true.mp hh
    have hlt : (c.replicas.filter fun r => r.1 ≠ a).length < c.replicas.length := by
      apply List.length_filter_lt_length_iff_exists.mpr
      exact ⟨r, hr, by simpa using hra⟩
    have := h.core.lenRf
    omega

/-! ## C01 / C16 / C07 / C10 — controller halves -/

/-- **C01 (range check).** I/O that is not inside `[0, size)` is refused and touches nothing. -/
theorem c01_range (c : Ctl) (off len : Nat) (f : List String) (t : List (String × Out)) (hout : off + len > c.size) :
    (c.readOnly = false → c.stepWrite off len f t = (c, .refused)) ∧ c.stepRead off len t = (c, .refused) := by
  unfold stepWrite stepRead
  constructor
  · intro hro; simp [hro, hout]
  · simp [hout]

/-- **C16 (controller).** A size that is not larger is refused and nothing changes; otherwise the
    size is updated only after the replicas were resized. -/
theorem c16_ctl_shrink_refused (c : Ctl) (sz : Nat) (f : List String) (h : sz ≤ c.size) :
    c.stepResize sz f = (c, .refused) := by
  unfold stepResize; simp [h]

theorem mem_calls_foldl (l : List Backend) (m : String) : ∀ (c : Ctl),
    (∀ x ∈ c.calls, x ∈ (l.foldl (fun c b => c.call b.id m) c).calls) ∧
    ∀ b ∈ l, (b.id, m) ∈ (l.foldl (fun c b => c.call b.id m) c).calls := by
  induction l with
  | nil => intro c; exact ⟨fun x hx => hx, fun b hb => by cases hb⟩
  | cons a l ih =>
    intro c
    have h := ih (c.call a.id m)
    refine ⟨fun x hx => h.1 x (by show x ∈ c.calls ++ [(a.id, m)]; exact List.mem_append_left _ hx), ?_⟩
    intro b hb
    rcases List.mem_cons.mp hb with rfl | hb
    · exact h.1 _ (by show (b.id, m) ∈ c.calls ++ [(b.id, m)]; simp)
    · exact h.2 b hb

theorem setMode_calls (c : Ctl) (a : String) (m : CMode) : (c.setMode a m).calls = c.calls := by
  unfold setMode; split
  · rfl
  · show (c.setModeCore a m).calls = c.calls
    exact (setModeCore_same c a m).2.2.2.2.2.2.2.2.2.2

theorem foldl_setMode_calls (errs : List String) (m : CMode) : ∀ c : Ctl,
    (errs.foldl (fun c a => c.setMode a m) c).calls = c.calls := by
  induction errs with
  | nil => intro c; rfl
  | cons a l ih => intro c; simp only [List.foldl]; rw [ih, setMode_calls]

theorem handleError_calls (c : Ctl) (errs : List String) : (c.handleError errs).1.calls = c.calls := by
  unfold handleError
  split
  · rfl
  · exact foldl_setMode_calls errs .err c

/-- **C16 (controller, grow reaches every replica in service).** An accepted grow is sent to every
    replica that is not marked failed — the rebuilding (WO) one included, which receives every write
    and will be promoted with the size it has. -/
theorem c16_ctl_grow_reaches_all (c : Ctl) (sz : Nat) (f : List String) (h : c.size < sz) :
    ∀ b ∈ c.backends, b.mode ≠ .err → (b.id, "Resize") ∈ (c.stepResize sz f).1.calls := by
  intro b hb hm
  have hmem : b ∈ c.backends.filter fun b => b.mode ≠ .err := List.mem_filter.mpr ⟨hb, by simpa using hm⟩
  have key := (mem_calls_foldl (c.backends.filter fun b => b.mode ≠ .err) "Resize" c).2 b hmem
  unfold stepResize
  rw [if_neg (by omega)]
  simp only
  split
  · exact key
  · split
    · show (b.id, "Resize") ∈ (Ctl.handleError _ _).1.calls
      rw [handleError_calls]; exact key
    · show (b.id, "Resize") ∈ (Ctl.handleError _ _).1.calls
      rw [handleError_calls]; exact key

/-- **C07 (promotion gate).** `VerifyRebuildReplica` reports success for a WO replica only if both
    chains were fetched, they agree from the latest snapshot down to the WO replica's checkpoint,
    and the source's revision counter was fetched; the counter sent to the target is that value
    (C10, promotion half). -/
theorem c07_gate (c : Ctl) (a : String) (rwc woc : Option (List String)) (ckp : Option String)
    (rev : Option Nat) (o1 o2 : Bool) (ck : CkEnv)
    (hwo : c.replicas.find? (fun r => r.1 = a) = some (a, .wo))
    (hok : (c.stepVerify a rwc woc ckp rev o1 o2 ck).2 = .ok) :
    ∃ r w k n, rwc = some r ∧ woc = some w ∧ ckp = some k ∧ rev = some n ∧ chainsAgree r w k = true ∧
      o1 = true ∧ o2 = true := by
  unfold stepVerify at hok
  rw [hwo] at hok
  cases hs : c.replicas.find? (fun r => r.2 = .rw) with
  | none => rw [hs] at hok; cases hok
  | some src =>
    rw [hs] at hok
    simp only at hok
    have e1 : ¬ ((a, CMode.wo).2 = CMode.rw) := by simp
    have e2 : ¬ ((a, CMode.wo).2 ≠ CMode.wo) := by simp
    rw [if_neg e1, if_neg e2] at hok
    cases rwc with
    | none => cases hok
    | some r =>
      cases woc with
      | none => cases hok
      | some w =>
        cases ckp with
        | none => cases hok
        | some k =>
          simp only at hok
          split at hok
          · cases hok
          · cases hca : chainsAgree r w k with
            | false => rw [hca] at hok; cases hok
            | true =>
              rw [hca] at hok
              (
                simp only at hok
                cases rev with
                | none => cases hok
                | some n =>
                  simp only at hok
                  cases o1 with
                  | false => simp at hok
                  | true =>
                    cases o2 with
                    | false => simp at hok
                    | true => exact ⟨r, w, k, n, rfl, rfl, rfl, rfl, hca, rfl, rfl⟩)

/-- **C07 (sub-block writes during a rebuild are completed from RW replicas).** While a WO replica
    is attached, a write that does not cover whole blocks is acknowledged only if the surrounding data
    was actually served by a reader — i.e. (C04) by an RW replica; when that read fails the request
    fails and no replica receives the write. -/
theorem c07_widened_write_was_read (c : Ctl) (off len : Nat) (f : List String) (t : List (String × Out))
    (hw : c.needsWiden off len = true) (hok : (c.stepWrite off len f t).2 = .ok) :
    (t.any fun x => x.2 = .ok) = true := by
  unfold stepWrite at hok
  by_cases h1 : c.readOnly = true
  · rw [if_pos h1] at hok; cases hok
  · rw [if_neg h1] at hok
    by_cases h2 : off + len > c.size
    · rw [if_pos h2] at hok; cases hok
    · rw [if_neg h2, if_pos hw] at hok
      by_cases h3 : (!c.available) = true
      · rw [if_pos h3] at hok; cases hok
      · rw [if_neg h3] at hok
        simp only at hok
        split at hok
        · split at hok
          · assumption
          · cases hok
        · split at hok
          · rename_i h; exact h.1
          · cases hok

/-- the reads made for the widening go to members of the read set only -/
theorem c07_widen_asks_readers (c : Ctl) (t : List (String × Out)) :
    ∀ p ∈ (c.readCalls t).calls, p ∈ c.calls ∨ ∃ r ∈ c.readers, r.2 = p.1 := c04_read_calls c t

/-- **C07 (at most one rebuilding).** Part of `c18_consistent`; stated again for reachable states. -/
theorem c07_single_wo (rf : Nat) (h : 1 ≤ rf) (ops : List CtlOp) :
    (((Ctl.init rf).run ops).replicas.filter fun r => r.2 = .wo).length ≤ 1 :=
  (ctl_reachable_inv rf h ops).core.oneWO

/-- **C18 / C07 under overlapping AddReplica calls.** `AddReplica` releases the controller lock
    around `factory.Create`; its two critical sections are the requests `addPre` / `addPost`, which
    may be interleaved with each other and with every other request in any way (`ops` is arbitrary).
    In every state reached the replica list never exceeds the replication factor, no address appears
    twice and at most one replica is rebuilding.  (The bound needed the repair 8ee11b8: the
    replication factor is verified again once the lock is re-taken.) -/
theorem c18_overlapping_adds (rf : Nat) (h : 1 ≤ rf) (ops : List CtlOp) :
    ((Ctl.init rf).run ops).replicas.length ≤ rf ∧
    (((Ctl.init rf).run ops).replicas.map (·.1)).Nodup ∧
    (((Ctl.init rf).run ops).replicas.filter fun r => r.2 = .wo).length ≤ 1 := by
  have inv := ctl_reachable_inv rf h ops
  have e : ((Ctl.init rf).run ops).rf = rf := run_rf ops _
  have l := inv.core.lenRf
  rw [e] at l
  exact ⟨l, inv.core.nodup, inv.core.oneWO⟩

/-- two additions overlapping inside `Create` with RF 3 and two RW replicas: the first attaches and is
    promoted, the second is refused when it comes back (before 8ee11b8 it was attached as a fourth) -/
example :
    let ops : List CtlOp :=
      [.register ⟨"a", "ua", 5, false⟩ true true "a", .register ⟨"b", "ub", 3, false⟩ true true "a",
       .start [⟨"tcp://a:9502", true, 1048576, true, "NA", true, some 5⟩] CkEnv.none,
       .add "tcp://b:9502" none true [] true true CkEnv.none,
       .verify "tcp://b:9502" (some ["h1", "s1"]) (some ["h0", "s1"]) (some "") (some 5) true true CkEnv.none,
       .addPre "tcp://c:9502" none, .addPre "tcp://d:9502" none,
       .addPost "tcp://c:9502" none true [] true true CkEnv.none,
       .verify "tcp://c:9502" (some ["h2", "s2", "s1"]) (some ["h0", "s2", "s1"]) (some "") (some 5) true true CkEnv.none]
    (((Ctl.init 3).run ops).step (.addPost "tcp://d:9502" none true [] true true CkEnv.none)).2 = .refused ∧
    ((Ctl.init 3).run ops).replicas.length = 3 := by decide

/-! Non-vacuity: a reachable state with two RW replicas and one rebuilding, RF 3, reached through
    register / start / add / verify / add, then a write that fails on one RW replica. -/
def demo : List CtlOp :=
  [.register ⟨"a", "ua", 5, false⟩ true true "a", .register ⟨"b", "ub", 3, false⟩ true true "a",
   .start [⟨"tcp://a:9502", true, 1048576, true, "NA", true, some 5⟩] CkEnv.none,
   .add "tcp://b:9502" none true [] true true CkEnv.none,
   .verify "tcp://b:9502" (some ["h1", "s1"]) (some ["h0", "s1"]) (some "") (some 5) true true CkEnv.none,
   .add "tcp://c:9502" none true [] true true CkEnv.none]

example : ((Ctl.init 3).run demo).replicas =
    [("tcp://a:9502", .rw), ("tcp://b:9502", .rw), ("tcp://c:9502", .wo)] := by decide
example : ((Ctl.init 3).run demo).readOnly = false := by decide
example : (((Ctl.init 3).run demo).stepFanOut "WriteAt" ["tcp://b:9502"]).2 = .ok ∧
    (((Ctl.init 3).run demo).stepFanOut "WriteAt" ["tcp://b:9502"]).1.replicas =
      [("tcp://a:9502", .rw), ("tcp://c:9502", .wo)] := by decide

/-- a start naming three replicas of which the elected one is behind (the situation of seed C04b): the
    two replicas below the highest counter are fenced, the volume is read-only with one RW of RF 3 -/
example :
    let ops : List CtlOp :=
      [.register ⟨"a", "ua", 7, false⟩ true true "a", .register ⟨"c", "uc", 7, false⟩ true true "a"]
    let st := ((Ctl.init 3).run ops).step (.start [⟨"tcp://a:9502", true, 1048576, true, "NA", true, some 7⟩,
        ⟨"tcp://b:9502", true, 1048576, true, "NA", true, some 9⟩, ⟨"tcp://c:9502", true, 1048576, true, "NA", true, some 7⟩] CkEnv.none)
    st.2 = .ok ∧ st.1.replicas = [("tcp://a:9502", .err), ("tcp://b:9502", .rw), ("tcp://c:9502", .err)] ∧
    st.1.readers = [("tcp://b:9502", 1)] ∧ st.1.readOnly = true := by decide

/-- four addresses with RF 3 are refused -/
example :
    let ops : List CtlOp :=
      [.register ⟨"a", "ua", 7, false⟩ true true "a", .register ⟨"c", "uc", 7, false⟩ true true "a"]
    let e := fun (a : String) => (⟨a, true, 1048576, true, "NA", true, some 7⟩ : StartEnv)
    (((Ctl.init 3).run ops).step (.start [e "tcp://a:9502", e "tcp://b:9502", e "tcp://c:9502", e "tcp://d:9502"] CkEnv.none)).2 = .refused := by decide

end Jiva.Properties
