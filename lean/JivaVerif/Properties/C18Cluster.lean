import JivaVerif.Properties.C10Cluster
/-!
# C07 / C18 at the level of the volume — "at most one replica is rebuilding", "never more than RF"

Over the whole-volume model, for ANY history: at most one attached replica is WO at any time, and the
number of attached replicas never exceeds the replication factor.
-/
namespace Jiva.Cluster
open Jiva Sys

/-- counting over `0 … n-1` when the predicate changes at one index only -/
theorem countP_range_update (p q : Nat → Bool) (i : Nat) (hq : ∀ j, j ≠ i → q j = p j) :
    ∀ n, i < n → (List.range n).countP q + (if p i then 1 else 0) = (List.range n).countP p + (if q i then 1 else 0)
  | 0, h => by omega
  | n + 1, h => by
    rw [List.range_succ, List.countP_append, List.countP_append]
    simp only [List.countP_cons, List.countP_nil, Nat.zero_add]
    by_cases e : i = n
    · subst e
      have same : (List.range i).countP q = (List.range i).countP p := by
        apply List.countP_congr
        intro j hj
        have : j ≠ i := by have := List.mem_range.mp hj; omega
        rw [hq j this]
      rw [same]; omega
    · have hlt : i < n := by omega
      have ih := countP_range_update p q i hq n hlt
      have hn : q n = p n := hq n (by omega)
      rw [hn]; omega

theorem countP_range_set_true (p q : Nat → Bool) (i n : Nat) (hi : i < n) (hq : ∀ j, j ≠ i → q j = p j)
    (hpi : p i = false) (hqi : q i = true) : (List.range n).countP q = (List.range n).countP p + 1 := by
  have := countP_range_update p q i hq n hi
  rw [hpi, hqi] at this
  simpa using this

theorem countP_range_le (p q : Nat → Bool) (n : Nat) (h : ∀ j, q j = true → p j = true) :
    (List.range n).countP q ≤ (List.range n).countP p :=
  List.countP_mono_left (fun j _ hj => h j hj)

def Sys.woCount (s : Sys) : Nat := s.idx.countP fun i => (s.node i).att = .wo

structure InvM (s : Sys) : Prop where
  rfpos : 1 ≤ s.rf
  wo1   : s.woCount ≤ 1
  mem   : s.memberCount ≤ s.rf
  dn    : s.up = false → ∀ i, (s.node i).att = .none

theorem invM_init (rf n : Nat) (h : 1 ≤ rf) : InvM (init rf n) := by
  refine ⟨h, ?_, ?_, fun _ _ => rfl⟩
  · have : (init rf n).woCount = 0 := by
      unfold Sys.woCount; apply List.countP_eq_zero.mpr; intro j _; simp [init]
    omega
  · have : (init rf n).memberCount = 0 := by
      unfold memberCount; apply List.countP_eq_zero.mpr; intro j _; simp [init]
    omega

/-- a step after which every replica is attached as before or less -/
theorem invM_of_le (s t : Sys) (h : InvM s) (hn : t.n = s.n) (hrf : t.rf = s.rf)
    (hwo : ∀ j, (t.node j).att = .wo → (s.node j).att = .wo)
    (hmem : ∀ j, (t.node j).att ≠ .none → (s.node j).att ≠ .none)
    (hdn : t.up = false → ∀ i, (t.node i).att = .none) : InvM t := by
  refine ⟨by rw [hrf]; exact h.rfpos, ?_, ?_, hdn⟩
  · have : t.woCount ≤ s.woCount := by
      unfold Sys.woCount idx; rw [hn]
      exact countP_range_le _ _ _ (fun j hj => by simpa using hwo j (by simpa using hj))
    exact Nat.le_trans this h.wo1
  · have : t.memberCount ≤ s.memberCount := by
      unfold memberCount idx; rw [hn]
      exact countP_range_le _ _ _ (fun j hj => by
        have : (t.node j).att ≠ .none := by simpa using hj
        simpa using hmem j this)
    rw [hrf]; exact Nat.le_trans this h.mem

theorem setNode_att (s : Sys) (i : Nat) (nd : Node) (j : Nat) :
    ((s.setNode i nd).node j).att = if j = i then nd.att else (s.node j).att := by
  show (if j = i then nd else s.node j).att = _
  split <;> rfl

/-- a step that replaces one record without attaching it more than it was -/
theorem invM_setNode_le (s : Sys) (h : InvM s) (hup : s.up = true) (i : Nat) (nd : Node)
    (hwo : nd.att = .wo → (s.node i).att = .wo) (hmem : nd.att ≠ .none → (s.node i).att ≠ .none) :
    InvM (s.setNode i nd) :=
  invM_of_le s _ h rfl rfl
    (fun j hj => by
      rw [setNode_att] at hj
      by_cases e : j = i
      · subst e; rw [if_pos rfl] at hj; exact hwo hj
      · rw [if_neg e] at hj; exact hj)
    (fun j hj => by
      rw [setNode_att] at hj
      by_cases e : j = i
      · subst e; rw [if_pos rfl] at hj; exact hmem hj
      · rw [if_neg e] at hj; exact hj)
    (fun hu => by
      have : (s.setNode i nd).up = s.up := rfl
      rw [this, hup] at hu; cases hu)

theorem invM_step (s : Sys) (h : InvM s) (op : Op) : InvM (s.step op).1 := by
  cases op with
  | reg i e =>
    show InvM (s.stepReg i e).1
    unfold stepReg
    split
    · exact h
    · rename_i hg
      have hdown : s.up = false := by
        cases hu : s.up with
        | false => rfl
        | true => exact absurd (Or.inl hu) hg
      have hnone := h.dn hdown
      have hnone1 : ∀ j, ((s.setNode i { s.node i with registered := true }).node j).att = .none := by
        intro j; rw [setNode_att]
        by_cases e : j = i
        · subst e; rw [if_pos rfl]; exact hnone j
        · rw [if_neg e]; exact hnone j
      have h1 : InvM (s.setNode i { s.node i with registered := true }) :=
        invM_of_le s _ h rfl rfl
          (fun j hj => by rw [hnone1 j] at hj; cases hj)
          (fun j hj => absurd (hnone1 j) hj)
          (fun _ j => hnone1 j)
      generalize s.setNode i { s.node i with registered := true } = s1 at h1 hnone1 ⊢
      dsimp only
      split
      · exact h1
      · split
        · exact h
        · split
          · -- the volume starts on `e`: one RW member, nobody WO
            have hatt : ∀ j, ((({ s1 with maxRev := some e } : Sys).start e).node j).att = if j = e then .rw else .none := by
              intro j
              show (if j = e then { s1.node e with att := Att.rw } else s1.node j).att = _
              split
              · rfl
              · exact hnone1 j
            refine ⟨h1.rfpos, ?_, ?_, fun hu => by cases hu⟩
            · have : (({ s1 with maxRev := some e } : Sys).start e).woCount = 0 := by
                unfold Sys.woCount; apply List.countP_eq_zero.mpr; intro j _
                rw [hatt]; split <;> simp
              show (({ s1 with maxRev := some e } : Sys).start e).woCount ≤ 1
              rw [this]; exact Nat.zero_le 1
            · have hle : (({ s1 with maxRev := some e } : Sys).start e).memberCount ≤ 1 := by
                unfold memberCount idx
                show (List.range s1.n).countP _ ≤ 1
                by_cases hen : e < s1.n
                · have := countP_range_set_true (fun _ => false)
                    (fun j => decide (((({ s1 with maxRev := some e } : Sys).start e).node j).att ≠ .none)) e s1.n hen
                    (fun j hj => by show decide _ = false; rw [hatt, if_neg hj]; simp) rfl
                    (by show decide _ = true; rw [hatt, if_pos rfl]; simp)
                  have z : (List.range s1.n).countP (fun _ => false) = 0 := List.countP_eq_zero.mpr (fun _ _ => by simp)
                  rw [this, z]; omega
                · have : (List.range s1.n).countP
                      (fun j => decide (((({ s1 with maxRev := some e } : Sys).start e).node j).att ≠ .none)) = 0 := by
                    apply List.countP_eq_zero.mpr
                    intro j hj
                    have : j ≠ e := by have := List.mem_range.mp hj; omega
                    show ¬ (decide _ = true)
                    rw [hatt, if_neg this]; simp
                  rw [this]; omega
              exact Nat.le_trans hle h1.rfpos
          · exact invM_of_le s1 _ h1 rfl rfl (fun _ hj => hj) (fun _ hj => hj) (fun hu j => h1.dn hu j)
  | write f a =>
    show InvM (s.stepWrite f a).1
    unfold stepWrite
    split
    · exact h
    · split
      · exact h
      · rename_i hup _
        refine invM_of_le s _ h rfl rfl ?_ ?_ ?_
        · intro j hj
          have hj' : (s.writeNode f a j).att = .wo := hj
          have := (writeNode_att s f a j (by rw [hj']; intro hc; cases hc)).1
          rw [← this]; exact hj'
        · intro j hj
          have hj' : (s.writeNode f a j).att ≠ .none := hj
          have := (writeNode_att s f a j hj').1
          rw [← this]; exact hj'
        · intro hu
          have : s.up = false := hu
          rw [this] at hup; simp at hup
  | add i =>
    show InvM (s.stepAdd i).1
    unfold stepAdd
    split
    · exact h
    · rename_i hg
      simp only [not_or] at hg
      obtain ⟨g1, g2, g3, g4, g5, _⟩ := hg
      have hup : s.up = true := by cases hu : s.up <;> simp_all
      have hin : i < s.n := by omega
      have hnone : (s.node i).att = .none := by
        cases hc : (s.node i).att <;> simp_all
      have hatt := setNode_att s i { s.node i with att := .wo }
      refine ⟨h.rfpos, ?_, ?_, fun hu => by
        have : (s.setNode i { s.node i with att := .wo }).up = s.up := rfl
        rw [this, hup] at hu; cases hu⟩
      · -- nobody was WO
        have z : s.woCount = 0 := by
          unfold Sys.woCount; apply List.countP_eq_zero.mpr
          intro j hj
          have hno : s.hasWO = false := by simpa using g4
          unfold hasWO at hno
          have := List.any_eq_false.mp hno j hj
          simpa using this
        have := countP_range_set_true (fun j => decide ((s.node j).att = .wo))
          (fun j => decide (((s.setNode i { s.node i with att := .wo }).node j).att = .wo)) i s.n hin
          (fun j hj => by show decide _ = decide _; rw [hatt, if_neg hj])
          (by show decide _ = false; rw [hnone]; rfl)
          (by show decide _ = true; rw [hatt, if_pos rfl]; rfl)
        unfold Sys.woCount idx at z ⊢
        show (List.range s.n).countP _ ≤ 1
        rw [this, z]; omega
      · have := countP_range_set_true (fun j => decide ((s.node j).att ≠ .none))
          (fun j => decide (((s.setNode i { s.node i with att := .wo }).node j).att ≠ .none)) i s.n hin
          (fun j hj => by show decide _ = decide _; rw [hatt, if_neg hj])
          (by show decide _ = false; rw [hnone]; simp)
          (by show decide _ = true; rw [hatt, if_pos rfl]; simp)
        have hlt : s.memberCount < s.rf := by omega
        unfold memberCount idx at hlt ⊢
        show (List.range s.n).countP _ ≤ s.rf
        rw [this]; omega
  | setrb i =>
    show InvM (s.stepSetRb i).1
    unfold stepSetRb
    split
    · exact h
    · rename_i hg
      exact invM_setNode_le s h (up_of_not s hg) i _ (fun ha => ha) (fun ha => ha)
  | promote i src =>
    show InvM (s.stepPromote i src).1
    unfold stepPromote
    split
    · exact h
    · rename_i hg
      have hwo : (s.node i).att = .wo := by
        cases hc : (s.node i).att with
        | wo => rfl
        | none => exact absurd (Or.inr (Or.inr (Or.inr (Or.inl (by simp [hc]))))) hg
        | rw => exact absurd (Or.inr (Or.inr (Or.inr (Or.inl (by simp [hc]))))) hg
      exact invM_setNode_le s h (up_of_not s hg) i _ (fun ha => by cases ha) (fun _ => by rw [hwo]; intro hc; cases hc)
  | rbdone i =>
    show InvM (s.stepRbDone i).1
    unfold stepRbDone
    split
    · exact h
    · rename_i hg
      have hi : (s.node i).att = .rw := by
        cases ha : (s.node i).att with
        | rw => rfl
        | none => exact absurd (Or.inr (Or.inl (by simp [ha]))) hg
        | wo => exact absurd (Or.inr (Or.inl (by simp [ha]))) hg
      have hup : s.up = true := by
        cases hu : s.up with
        | true => rfl
        | false => have := h.dn hu i; rw [hi] at this; cases this
      exact invM_setNode_le s h hup i _ (fun ha => ha) (fun ha => ha)
  | remove i =>
    show InvM (s.stepRemove i).1
    unfold stepRemove
    split
    · exact h
    · rename_i hg
      exact invM_setNode_le s h (up_of_not s hg) i _ (fun ha => by cases ha) (fun ha => absurd rfl ha)
  | snap =>
    show InvM (s.stepSnap).1
    unfold stepSnap
    split
    · exact h
    · rename_i hg
      refine invM_of_le s _ h rfl rfl ?_ ?_ ?_
      · intro j hj
        have : (if (s.node j).att = .rw then { s.node j with snaps := (s.node j).snaps ++ [(s.nextSnap, (s.node j).log)] }
            else s.node j).att = .wo := hj
        split at this <;> exact this
      · intro j hj
        have : (if (s.node j).att = .rw then { s.node j with snaps := (s.node j).snaps ++ [(s.nextSnap, (s.node j).log)] }
            else s.node j).att ≠ .none := hj
        split at this <;> exact this
      · intro hu
        have : s.up = false := hu
        exact absurd (Or.inl (by simp [this])) hg
  | regq => exact h
  | stop =>
    show InvM (s.stepStop).1
    unfold stepStop
    exact invM_of_le s _ h rfl rfl (fun j hj => by cases hj) (fun j hj => absurd rfl hj) (fun _ _ => rfl)

theorem invM_run (ops : List Op) : ∀ s : Sys, InvM s → InvM (s.run ops) := by
  induction ops with
  | nil => intro s h; exact h
  | cons op ops ih => intro s h; exact ih _ (invM_step s h op)

/-- **C07 / C18 (at most one replica is rebuilding; never more replicas than the replication factor).**
    `rf ≥ 1`, ANY history of the whole volume: in every reachable state at most one attached replica is
    WO, and the number of attached replicas does not exceed the replication factor. -/
theorem c18_cluster_one_wo_and_at_most_rf (rf n : Nat) (h : 1 ≤ rf) (ops : List Op) :
    let s := (init rf n).run ops
    s.woCount ≤ 1 ∧ s.memberCount ≤ s.rf := by
  intro s
  have hi := invM_run ops (init rf n) (invM_init rf n h)
  exact ⟨hi.wo1, hi.mem⟩

end Jiva.Cluster
