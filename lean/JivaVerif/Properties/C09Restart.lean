import JivaVerif.Model.Cluster
import JivaVerif.Properties.Controller
/-!
# C09 — "a volume whose replicas all stopped and came back serves every acknowledged write again"

Stated over the whole-volume model (`Model/Cluster.lean`): ANY history of registrations, writes with
any failures, additions, promotions, removals, stops and restarts.

`c09_restart_serves_acked`: if every stop of the history happens in good health — a quorum of
replicas RW and not marked as rebuilding — then in every reachable state every replica that serves
reads holds every write that was ever acknowledged, whatever majority registers first after each
restart and whichever replica the election loop ends on.

The hypothesis is needed, and the code does lose acknowledged writes without it
(`c09_unhealthy_stop_loses_ack`, replayed on the real controller by `clusterdiff`; DESIGN.md §6).
-/
namespace Jiva.Cluster
open Jiva Sys

/-- two predicates that together hold more often than the list is long hold together somewhere -/
theorem countP_overlap {α : Type} (p q : α → Bool) : ∀ (l : List α),
    l.countP p + l.countP q > l.length → ∃ x ∈ l, p x = true ∧ q x = true
  | [] => by simp
  | x :: xs => by
    intro h
    simp only [List.countP_cons, List.length_cons] at h
    by_cases hp : p x = true
    · by_cases hq : q x = true
      · exact ⟨x, List.mem_cons_self, hp, hq⟩
      · obtain ⟨y, hy, h1, h2⟩ := countP_overlap p q xs (by simp [hp, hq] at h; omega)
        exact ⟨y, List.mem_cons_of_mem _ hy, h1, h2⟩
    · obtain ⟨y, hy, h1, h2⟩ := countP_overlap p q xs (by
        by_cases hq : q x = true <;> simp [hp, hq] at h <;> omega)
      exact ⟨y, List.mem_cons_of_mem _ hy, h1, h2⟩

/-- a replica directory that holds everything and may be elected -/
def holder (s : Sys) (i : Nat) : Bool := !(s.node i).rebuilding && decide ((s.node i).log = s.stream)

structure Inv (s : Sys) : Prop where
  size  : s.n ≤ s.rf
  pre   : ∀ i, (s.node i).rebuilding = false → (s.node i).log <+: s.stream ∧ (s.node i).rev = (s.node i).log.length
  rw    : ∀ i, (s.node i).att = .rw → (s.node i).log = s.stream ∧ (s.node i).rev = s.stream.length
  acked : ∀ w ∈ s.acked, w ∈ s.stream
  down  : s.up = false → (∀ i, (s.node i).att = .none) ∧ s.quorum ≤ s.idx.countP (holder s)

theorem inv_init (rf n : Nat) (h1 : n ≤ rf) (h2 : rf / 2 + 1 ≤ n) : Inv (init rf n) := by
  refine ⟨h1, ?_, ?_, ?_, ?_⟩
  · intro i _; exact ⟨List.prefix_refl _, rfl⟩
  · intro i h; cases h
  · intro w h; cases h
  · intro _
    refine ⟨fun i => rfl, ?_⟩
    have : (init rf n).idx.countP (holder (init rf n)) = n := by
      have : ∀ x ∈ (init rf n).idx, holder (init rf n) x = true := by intro x _; rfl
      rw [List.countP_eq_length.mpr this]; simp [Sys.idx, init]
    rw [this]; exact h2


/-- the part of the invariant that only looks at what a step leaves alone -/
theorem inv_of_same (s t : Sys) (h : Inv s) (hn : t.n = s.n) (hrf : t.rf = s.rf) (hst : t.stream = s.stream)
    (hack : t.acked = s.acked) (hup : t.up = s.up)
    (hnode : ∀ i, (t.node i).log = (s.node i).log ∧ (t.node i).rev = (s.node i).rev ∧
      (t.node i).rebuilding = (s.node i).rebuilding ∧ (t.node i).att = (s.node i).att) : Inv t := by
  refine ⟨by rw [hn, hrf]; exact h.size, ?_, ?_, ?_, ?_⟩
  · intro i hr
    obtain ⟨e1, e2, e3, _⟩ := hnode i
    rw [e1, e2, hst]; exact h.pre i (by rw [← e3]; exact hr)
  · intro i ha
    obtain ⟨e1, e2, _, e4⟩ := hnode i
    rw [e1, e2, hst]; exact h.rw i (by rw [← e4]; exact ha)
  · intro w hw; rw [hst]; exact h.acked w (by rw [← hack]; exact hw)
  · intro hu
    obtain ⟨d1, d2⟩ := h.down (by rw [← hup]; exact hu)
    refine ⟨fun i => by rw [(hnode i).2.2.2]; exact d1 i, ?_⟩
    have hq : t.quorum = s.quorum := by unfold Sys.quorum; rw [hrf]
    have hc : t.idx.countP (holder t) = s.idx.countP (holder s) := by
      have : t.idx = s.idx := by unfold Sys.idx; rw [hn]
      rw [this]
      apply List.countP_congr
      intro i _
      unfold holder
      rw [(hnode i).1, (hnode i).2.2.1, hst]
    rw [hq, hc]; exact d2

/-- a step that replaces one replica's record while the volume is up -/
theorem inv_setNode (s : Sys) (h : Inv s) (hup : s.up = true) (i : Nat) (nd : Node)
    (hpre : nd.rebuilding = false → nd.log <+: s.stream ∧ nd.rev = nd.log.length)
    (hrw : nd.att = .rw → nd.log = s.stream ∧ nd.rev = s.stream.length) : Inv (s.setNode i nd) := by
  have hnode : ∀ j, (s.setNode i nd).node j = if j = i then nd else s.node j := fun j => rfl
  refine ⟨h.size, ?_, ?_, h.acked, ?_⟩
  · intro j hr
    rw [hnode] at hr ⊢
    show _ <+: s.stream ∧ _
    by_cases e : j = i
    · rw [if_pos e] at hr ⊢; exact hpre hr
    · rw [if_neg e] at hr ⊢; exact h.pre j hr
  · intro j ha
    rw [hnode] at ha ⊢
    show _ = s.stream ∧ _ = s.stream.length
    by_cases e : j = i
    · rw [if_pos e] at ha ⊢; exact hrw ha
    · rw [if_neg e] at ha ⊢; exact h.rw j ha
  · intro hu
    have : (s.setNode i nd).up = s.up := rfl
    rw [this, hup] at hu; cases hu

theorem up_of_not (s : Sys) {q : Prop} (hg : ¬ ((!s.up) = true ∨ q)) : s.up = true := by
  cases hu : s.up with
  | true => rfl
  | false => exact absurd (Or.inl (by simp [hu])) hg

theorem inv_remove (s : Sys) (h : Inv s) (i : Nat) : Inv (s.stepRemove i).1 := by
  unfold stepRemove
  split
  · exact h
  · rename_i hg
    exact inv_setNode s h (up_of_not s hg) i _ (fun hr => h.pre i hr) (fun ha => by cases ha)

theorem inv_add (s : Sys) (h : Inv s) (i : Nat) : Inv (s.stepAdd i).1 := by
  unfold stepAdd
  split
  · exact h
  · rename_i hg
    exact inv_setNode s h (up_of_not s hg) i _ (fun hr => h.pre i hr) (fun ha => by cases ha)

theorem inv_setrb (s : Sys) (h : Inv s) (i : Nat) : Inv (s.stepSetRb i).1 := by
  unfold stepSetRb
  split
  · exact h
  · rename_i hg
    refine inv_setNode s h (up_of_not s hg) i _ (fun hr => by cases hr) (fun ha => ?_)
    have hwo : (s.node i).att = .wo := by
      cases hc : (s.node i).att with
      | wo => rfl
      | none => exact absurd (Or.inr (Or.inr (by simp [hc]))) hg
      | rw => exact absurd (Or.inr (Or.inr (by simp [hc]))) hg
    have : (s.node i).att = .rw := ha
    rw [hwo] at this; cases this

theorem inv_promote (s : Sys) (h : Inv s) (i src : Nat) : Inv (s.stepPromote i src).1 := by
  unfold stepPromote
  split
  · exact h
  · rename_i hg
    have hsrc : (s.node src).att = .rw := by
      cases ha : (s.node src).att with
      | rw => rfl
      | none => exact absurd (Or.inr (Or.inr (Or.inr (Or.inr (by simp [ha]))))) hg
      | wo => exact absurd (Or.inr (Or.inr (Or.inr (Or.inr (by simp [ha]))))) hg
    have hr := h.rw src hsrc
    refine inv_setNode s h (up_of_not s hg) i _ (fun _ => ?_) (fun _ => hr)
    show (s.node src).log <+: s.stream ∧ (s.node src).rev = (s.node src).log.length
    rw [hr.1, hr.2]; exact ⟨List.prefix_refl _, rfl⟩

theorem inv_rbdone (s : Sys) (h : Inv s) (i : Nat) : Inv (s.stepRbDone i).1 := by
  unfold stepRbDone
  split
  · exact h
  · rename_i hg
    have hi : (s.node i).att = .rw := by
      cases ha : (s.node i).att with
      | rw => rfl
      | none => exact absurd (Or.inr (Or.inl (by simp [ha]))) hg
      | wo => exact absurd (Or.inr (Or.inl (by simp [ha]))) hg
    have hr := h.rw i hi
    have hup : s.up = true := by
      cases hu : s.up with
      | true => rfl
      | false => have := (h.down hu).1 i; rw [hi] at this; cases this
    refine inv_setNode s h hup i _ (fun _ => ?_) (fun _ => hr)
    show (s.node i).log <+: s.stream ∧ (s.node i).rev = (s.node i).log.length
    rw [hr.1, hr.2]; exact ⟨List.prefix_refl _, rfl⟩


theorem inv_stop (s : Sys) (h : Inv s) (hh : s.healthy = true) : Inv (s.stepStop).1 := by
  unfold stepStop
  refine ⟨h.size, ?_, ?_, h.acked, ?_⟩
  · intro i hr; exact h.pre i hr
  · intro i ha; cases ha
  · intro _
    refine ⟨fun i => rfl, ?_⟩
    unfold healthy at hh
    apply Nat.le_trans (of_decide_eq_true hh)
    apply List.countP_mono_left
    intro i _ hp
    have hp' : (s.node i).att = .rw ∧ (s.node i).rebuilding = false := by simpa using hp
    show (!(s.node i).rebuilding && decide ((s.node i).log = s.stream)) = true
    rw [hp'.2, (h.rw i hp'.1).1]; simp

theorem writeNode_reb (s : Sys) (f a : List Nat) (i : Nat) : (s.writeNode f a i).rebuilding = (s.node i).rebuilding := by
  unfold writeNode; simp only
  repeat' split
  all_goals rfl

/-- a replica that is still attached after the request was attached before, did not fail it, and holds
    it (counted) when it is RW -/
theorem writeNode_att (s : Sys) (f a : List Nat) (i : Nat) (h : (s.writeNode f a i).att ≠ .none) :
    (s.writeNode f a i).att = (s.node i).att ∧
    ((s.node i).att = .rw → (s.writeNode f a i).log = (s.node i).log ++ [s.next] ∧ (s.writeNode f a i).rev = (s.node i).rev + 1) := by
  unfold writeNode at h ⊢; simp only at h ⊢
  by_cases h0 : (s.node i).att = .none
  · rw [if_pos h0] at h; exact absurd h0 h
  · rw [if_neg h0] at h ⊢
    by_cases hf : f.contains i = true
    · rw [if_pos hf] at h; exact absurd rfl h
    · rw [if_neg hf] at h ⊢
      have hf' : f.contains i = false := by simpa using hf
      refine ⟨?_, fun hrw => ?_⟩
      · split <;> rfl
      · rw [if_pos ⟨hrw, by rw [hf']; rfl⟩]; exact ⟨rfl, rfl⟩

/-- whatever happens to a replica in a write request, it keeps what it has, or it was RW and holds
    the new write as well -/
theorem writeNode_log (s : Sys) (f a : List Nat) (i : Nat) :
    ((s.writeNode f a i).log = (s.node i).log ∧ (s.writeNode f a i).rev = (s.node i).rev) ∨
    ((s.node i).att = .rw ∧ (s.writeNode f a i).log = (s.node i).log ++ [s.next] ∧ (s.writeNode f a i).rev = (s.node i).rev + 1) := by
  unfold writeNode; simp only
  by_cases h0 : (s.node i).att = .none
  · rw [if_pos h0]; exact Or.inl ⟨rfl, rfl⟩
  · rw [if_neg h0]
    by_cases hc : (s.node i).att = .rw ∧ (!f.contains i || a.contains i) = true
    · rw [if_pos hc]; right; refine ⟨hc.1, ?_⟩; split <;> exact ⟨rfl, rfl⟩
    · rw [if_neg hc]; left; split <;> exact ⟨rfl, rfl⟩

theorem inv_write (s : Sys) (h : Inv s) (f a : List Nat) : Inv (s.stepWrite f a).1 := by
  unfold stepWrite
  split
  · exact h
  · split
    · exact h
    · refine ⟨h.size, ?_, ?_, ?_, ?_⟩
      · intro i hr
        show (s.writeNode f a i).log <+: s.stream ++ [s.next] ∧ (s.writeNode f a i).rev = (s.writeNode f a i).log.length
        have hr' : (s.node i).rebuilding = false := by rw [← writeNode_reb s f a i]; exact hr
        obtain ⟨p1, p2⟩ := h.pre i hr'
        rcases writeNode_log s f a i with ⟨e1, e2⟩ | ⟨hrw, e1, e2⟩
        · rw [e1, e2]; exact ⟨List.IsPrefix.trans p1 (List.prefix_append _ _), p2⟩
        · rw [e1, e2, (h.rw i hrw).1]
          exact ⟨List.prefix_refl _, by rw [p2, (h.rw i hrw).1]; simp⟩
      · intro i ha
        show (s.writeNode f a i).log = s.stream ++ [s.next] ∧ (s.writeNode f a i).rev = (s.stream ++ [s.next]).length
        have ha' : (s.writeNode f a i).att = .rw := ha
        obtain ⟨e0, e1⟩ := writeNode_att s f a i (by rw [ha']; intro hc; cases hc)
        have hrw : (s.node i).att = .rw := by rw [← e0]; exact ha'
        obtain ⟨l1, l2⟩ := e1 hrw
        rw [l1, l2, (h.rw i hrw).1, (h.rw i hrw).2]; simp
      · intro w hw
        show w ∈ s.stream ++ [s.next]
        have hw' : w ∈ (if _ then s.acked ++ [s.next] else s.acked) := hw
        split at hw'
        · rcases List.mem_append.mp hw' with h1 | h1
          · exact List.mem_append_left _ (h.acked w h1)
          · exact List.mem_append_right _ h1
        · exact List.mem_append_left _ (h.acked w hw')
      · intro hu
        rename_i hup _
        have : s.up = false := hu
        rw [this] at hup; simp at hup


theorem mkReg_mem (s : Sys) (j : Nat) (hj : j < s.n) (hr : (s.node j).registered = true) :
    (⟨toString j, "u", (s.node j).rev, (s.node j).rebuilding⟩ : Reg) ∈ s.regs := by
  unfold regs idx
  exact List.mem_map.mpr ⟨j, List.mem_filter.mpr ⟨List.mem_range.mpr hj, hr⟩, rfl⟩

/-- starting the volume on a replica that holds everything keeps the invariant -/
theorem inv_start (s : Sys) (h : Inv s) (hd : s.up = false) (e : Nat) (hlog : (s.node e).log = s.stream)
    (hreb : (s.node e).rebuilding = false) : Inv (s.start e) := by
  obtain ⟨d1, _⟩ := h.down hd
  have hnode : ∀ j, (s.start e).node j = if j = e then { s.node e with att := .rw } else s.node j := fun j => rfl
  have hst : (s.start e).stream = s.stream := hlog
  refine ⟨h.size, ?_, ?_, ?_, ?_⟩
  · intro j hr
    rw [hnode] at hr ⊢; rw [hst]
    by_cases ej : j = e
    · rw [if_pos ej] at hr ⊢; exact h.pre e hr
    · rw [if_neg ej] at hr ⊢; exact h.pre j hr
  · intro j ha
    rw [hnode] at ha ⊢; rw [hst]
    by_cases ej : j = e
    · rw [if_pos ej]
      show (s.node e).log = s.stream ∧ (s.node e).rev = s.stream.length
      exact ⟨hlog, by rw [(h.pre e hreb).2, hlog]⟩
    · rw [if_neg ej] at ha; rw [d1 j] at ha; cases ha
  · intro w hw; rw [hst]; exact h.acked w hw
  · intro hu; cases hu

/-- what the election guarantees: the replica it ends on is not rebuilding and no registered replica
    that is not rebuilding has a higher count -/
theorem legalLeader_spec (s : Sys) (i e : Nat) (hi : (s.node i).rebuilding = false)
    (hl : s.legalLeader (s.candidate i) e = true) :
    ∀ j, j < s.n → (s.node j).registered = true → (s.node j).rebuilding = false →
      (s.node e).rebuilding = false ∧ (s.node j).rev ≤ (s.node e).rev := by
  intro j hjn hjr hjb
  have hcurreb : (s.node (s.candidate i)).rebuilding = false := by
    unfold candidate
    split
    · split
      · exact hi
      · rename_i hm; simpa using hm
    · exact hi
  generalize s.candidate i = cur at hl hcurreb
  have hjle : (s.node j).rev ≤ Ctl.maxRevCount s.regs (s.node cur).rev :=
    Jiva.Properties.maxRevCount_ge s.regs (s.node cur).rev _ (mkReg_mem s j hjn hjr) hjb
  unfold legalLeader at hl
  simp only at hl
  split at hl
  · rename_i hm
    have : e = cur := by simpa using hl
    subst this
    exact ⟨hcurreb, by rw [← hm]; exact hjle⟩
  · have hl' : ((e < s.n ∧ (s.node e).registered = true) ∧ (s.node e).rebuilding = false) ∧
        (s.node e).rev = Ctl.maxRevCount s.regs (s.node cur).rev := by simpa using hl
    exact ⟨hl'.1.2, by rw [hl'.2]; exact hjle⟩

theorem inv_reg (s : Sys) (h : Inv s) (i e : Nat) : Inv (s.stepReg i e).1 := by
  unfold stepReg
  split
  · exact h
  · rename_i hg
    have hdown : s.up = false := by
      cases hu : s.up with
      | false => rfl
      | true => exact absurd (Or.inl hu) hg
    have hi : i < s.n := by
      apply Nat.lt_of_not_le; intro hc; exact hg (Or.inr (Or.inl hc))
    generalize hs1 : s.setNode i { s.node i with registered := true } = s1
    have hn1 : ∀ j, (s1.node j).log = (s.node j).log ∧ (s1.node j).rev = (s.node j).rev ∧
        (s1.node j).rebuilding = (s.node j).rebuilding ∧ (s1.node j).att = (s.node j).att := by
      intro j; subst hs1
      show (if j = i then _ else s.node j).log = _ ∧ (if j = i then _ else s.node j).rev = _ ∧
        (if j = i then _ else s.node j).rebuilding = _ ∧ (if j = i then _ else s.node j).att = _
      by_cases ej : j = i
      · subst ej; simp
      · simp [ej]
    have e_n : s1.n = s.n := by subst hs1; rfl
    have e_rf : s1.rf = s.rf := by subst hs1; rfl
    have e_st : s1.stream = s.stream := by subst hs1; rfl
    have e_up : s1.up = s.up := by subst hs1; rfl
    have h1 : Inv s1 := inv_of_same s s1 h e_n e_rf e_st (by subst hs1; rfl) e_up hn1
    dsimp only
    split
    · exact h1
    · rename_i hrebi
      split
      · exact h
      · rename_i hlegal
        split
        · rename_i hmaj
          -- the main case: a majority has registered, the elected replica starts the volume
          have hd1 : s1.up = false := by rw [e_up]; exact hdown
          obtain ⟨_, dq⟩ := h1.down hd1
          have hq2 : s1.quorum + s1.quorum > s1.idx.length := by
            have := h1.size
            unfold Sys.quorum Sys.idx; simp only [List.length_range]; omega
          have hmaj' : s1.quorum ≤ s1.idx.countP (fun k => (s1.node k).registered) := hmaj
          obtain ⟨j, hj, hjh, hjr⟩ := countP_overlap (holder s1) (fun k => (s1.node k).registered) s1.idx (by omega)
          have hjn : j < s1.n := by unfold Sys.idx at hj; exact List.mem_range.mp hj
          have hjh' : (s1.node j).rebuilding = false ∧ (s1.node j).log = s1.stream := by
            unfold holder at hjh; simpa using hjh
          have hjrev : (s1.node j).rev = s1.stream.length := by rw [(h1.pre j hjh'.1).2, hjh'.2]
          have hrebi' : (s1.node i).rebuilding = false := by simpa using hrebi
          have hlegal' : s1.legalLeader (s1.candidate i) e = true := by simpa using hlegal
          have he := legalLeader_spec s1 i e hrebi' hlegal' j hjn hjr hjh'.1
          have hpe := h1.pre e he.1
          have hlog : (s1.node e).log = s1.stream := by
            apply List.IsPrefix.eq_of_length_le hpe.1
            rw [← hpe.2, ← hjrev]; exact he.2
          exact inv_start { s1 with maxRev := some e } (inv_of_same s1 _ h1 rfl rfl rfl rfl rfl (fun _ => ⟨rfl, rfl, rfl, rfl⟩))
            hd1 e hlog he.1
        · exact inv_of_same s1 _ h1 rfl rfl rfl rfl rfl (fun _ => ⟨rfl, rfl, rfl, rfl⟩)


theorem inv_snap (s : Sys) (h : Inv s) : Inv (s.stepSnap).1 := by
  unfold stepSnap
  split
  · exact h
  · refine inv_of_same s _ h rfl rfl rfl rfl rfl (fun i => ?_)
    show (if (s.node i).att = .rw then _ else s.node i).log = _ ∧ (if (s.node i).att = .rw then _ else s.node i).rev = _ ∧
      (if (s.node i).att = .rw then _ else s.node i).rebuilding = _ ∧ (if (s.node i).att = .rw then _ else s.node i).att = _
    split <;> exact ⟨rfl, rfl, rfl, rfl⟩

theorem inv_step (s : Sys) (h : Inv s) (op : Op) (hh : op = .stop → s.healthy = true) : Inv (s.step op).1 := by
  cases op with
  | reg i e => exact inv_reg s h i e
  | write f a => exact inv_write s h f a
  | add i => exact inv_add s h i
  | setrb i => exact inv_setrb s h i
  | promote i src => exact inv_promote s h i src
  | rbdone i => exact inv_rbdone s h i
  | remove i => exact inv_remove s h i
  | snap => exact inv_snap s h
  | regq => exact h
  | stop => exact inv_stop s h (hh rfl)

theorem inv_run (ops : List Op) : ∀ (s : Sys), Inv s → s.healthyRun ops = true → Inv (s.run ops) := by
  induction ops with
  | nil => intro s h _; exact h
  | cons op ops ih =>
    intro s h hh
    cases op with
    | stop =>
      have hh' : (s.healthy && ((s.step .stop).1).healthyRun ops) = true := hh
      have h2 : s.healthy = true ∧ ((s.step .stop).1).healthyRun ops = true := by simpa using hh'
      exact ih _ (inv_step s h .stop (fun _ => h2.1)) h2.2
    | reg i e => exact ih _ (inv_step s h _ (fun hc => by cases hc)) hh
    | write f a => exact ih _ (inv_step s h _ (fun hc => by cases hc)) hh
    | add i => exact ih _ (inv_step s h _ (fun hc => by cases hc)) hh
    | setrb i => exact ih _ (inv_step s h _ (fun hc => by cases hc)) hh
    | promote i src => exact ih _ (inv_step s h _ (fun hc => by cases hc)) hh
    | rbdone i => exact ih _ (inv_step s h _ (fun hc => by cases hc)) hh
    | remove i => exact ih _ (inv_step s h _ (fun hc => by cases hc)) hh
    | snap => exact ih _ (inv_step s h _ (fun hc => by cases hc)) hh
    | regq => exact ih _ (inv_step s h _ (fun hc => by cases hc)) hh

/-- **C09 (a volume whose replicas all stopped and came back serves every acknowledged write
    again).**  `rf` configured replicas (any `rf ≥ 1`; `n` directories with `rf / 2 + 1 ≤ n ≤ rf`), ANY
    history of registrations, writes failing on any replicas, additions, promotions, removals, stops
    and restarts in which every stop finds a quorum of replicas RW and not marked as rebuilding.
    Then, whatever majority registers first after a restart and whichever replica the election ends
    on: every replica that is RW — the replicas reads are served from — holds every write that was
    ever acknowledged, in this epoch or an earlier one. -/
theorem c09_restart_serves_acked (rf n : Nat) (h1 : n ≤ rf) (h2 : rf / 2 + 1 ≤ n) (ops : List Op)
    (hh : (init rf n).healthyRun ops = true) :
    let s := (init rf n).run ops
    ∀ i, (s.node i).att = .rw → ∀ w ∈ s.acked, w ∈ (s.node i).log := by
  intro s i hi w hw
  have hinv := inv_run ops (init rf n) (inv_init rf n h1 h2) hh
  rw [(hinv.rw i hi).1]
  exact hinv.acked w hw

/-- the same for the replica an election ends on: it holds everything that was acknowledged before
    the stop (`Out.leader e` is the answer of the registration that completed the majority) -/
theorem c09_elected_holds_acked (rf n : Nat) (h1 : n ≤ rf) (h2 : rf / 2 + 1 ≤ n) (ops : List Op)
    (hh : (init rf n).healthyRun ops = true) (i e : Nat)
    (hl : (((init rf n).run ops).stepReg i e).2 = .leader e) :
    ∀ w ∈ ((init rf n).run ops).acked, w ∈ (((init rf n).run ops).node e).log := by
  intro w hw
  have hinv := inv_run ops (init rf n) (inv_init rf n h1 h2) hh
  generalize (init rf n).run ops = s at hinv hl hw
  have hinv' := inv_reg s hinv i e
  -- after the registration the elected replica is RW, and it holds what it held
  have hrw : ((s.stepReg i e).1.node e).att = .rw ∧ ((s.stepReg i e).1.node e).log = (s.node e).log ∧
      (s.stepReg i e).1.acked = s.acked := by
    unfold stepReg at hl ⊢
    split at hl
    · cases hl
    · rename_i hg
      rw [if_neg hg]
      dsimp only at hl ⊢
      split at hl
      · cases hl
      · rename_i hr
        rw [if_neg hr]
        split at hl
        · cases hl
        · rename_i hlg
          rw [if_neg hlg]
          split at hl
          · rename_i hm
            rw [if_pos hm]
            refine ⟨by simp [start, setNode], ?_, rfl⟩
            simp only [start, setNode]
            by_cases ei : e = i <;> simp [ei]
          · cases hl
  have := (hinv'.rw e hrw.1).1
  rw [hrw.2.1] at this
  rw [this]
  exact hinv'.acked w (by rw [hrw.2.2]; exact hw)

/-- **the hypothesis is needed** (a test, and the history `clusterdiff` replays on the real
    controller): RF 3.  Replicas 0 and 1 are RW, replica 2 is being rebuilt; a write fails on replica
    1 and is acknowledged — replicas 0 and 2 took it, a majority of the three attached — and replica
    1 is detached.  Everything stops (one RW replica: not in good health).  Replicas 2 and 1 register
    first: that is a majority, replica 2 is rebuilding, replica 1 is elected, starts the volume, and
    the acknowledged write is gone. -/
theorem c09_unhealthy_stop_loses_ack :
    let ops : List Op := [.reg 0 0, .reg 1 0, .add 1, .setrb 1, .promote 1 0, .rbdone 1, .add 2, .setrb 2,
                          .write [1] [], .stop, .reg 2 0, .reg 1 1]
    let s := (init 3 3).run ops
    (init 3 3).healthyRun ops = false ∧ s.acked = [0] ∧ (s.node 1).att = .rw ∧ (s.node 1).log = [] ∧ s.stream = [] := by
  decide

/-- non-vacuity (a test): the same beginning with a stop in good health — the write is acknowledged
    by replicas 0 and 1, replica 2 (stale) and replica 1 register first, and replica 1 is elected and
    holds the write -/
example :
    let ops : List Op := [.reg 0 0, .reg 1 0, .add 1, .setrb 1, .promote 1 0, .rbdone 1, .write [] [],
                          .stop, .reg 2 2, .reg 1 1]
    let s := (init 3 3).run ops
    (init 3 3).healthyRun ops = true ∧ s.acked = [0] ∧ (s.node 1).att = .rw ∧ (s.node 1).log = [0] ∧
    (s.node 2).log = [] := by
  decide


/-- a stop between the attachment of a WO replica and its `SetRebuilding(true)` (a test): replica 2,
    stale, is attached WO and takes write 1 uncounted; everything stops in good health; 2 and 0
    register — 2 is not marked rebuilding, but its counter is lower and 0 is elected -/
example :
    let ops : List Op := [.reg 0 0, .reg 1 0, .add 1, .setrb 1, .promote 1 0, .rbdone 1, .write [] [], .add 2,
                          .write [] [], .stop, .reg 2 2, .reg 0 0]
    let s := (init 3 3).run ops
    (init 3 3).healthyRun ops = true ∧ s.acked = [0, 1] ∧ (s.node 0).att = .rw ∧ (s.node 0).log = [0, 1] ∧
    (s.node 2).rebuilding = false := by
  decide

end Jiva.Cluster
