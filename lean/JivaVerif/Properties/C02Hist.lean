import JivaVerif.Properties.Controller
import JivaVerif.Lemmas.CtlHist
/-!
# C02 / C05 — every replica in service holds every acknowledged write (history level)

"… every attached replica that failed to apply it is detached before any further I/O is served.
Consequently every replica that is in service (RW or rebuilding) at any later time holds every
acknowledged write."

`Hist` is ghost state beside the controller model: the number of write requests so far, which of
them were acknowledged, which backend (by id) applied which request — it was sent the request and is
not among those that failed it — and since which request each backend has been attached.  The
theorem `c02_in_service_holds_acked` is an induction over ARBITRARY request lists (any replication
factor, any environment answers): in every reachable state, every backend that is not marked failed
has applied every acknowledged write issued since it was attached.  (What was written before it was
attached reaches it through the rebuild — C07.)  It rests on `keeps_step`: no request brings a
backend marked ERR back into service — a replica that returns is attached under a fresh id.
-/
namespace Jiva.Properties
open Jiva Ctl

/-- **who is still in service after an acknowledged fan-out applied it**: every backend that is not
    ERR afterwards was sent the request and is not among those that failed it -/
theorem fanOut_ok_applied (c : Ctl) (h : CInv c) (m : String) (fails : List String)
    (hok : (c.stepFanOut m fails).2 = .ok) :
    ∀ b ∈ (c.stepFanOut m fails).1.backends, b.mode ≠ .err →
      (b.id, m) ∈ (c.stepFanOut m fails).1.calls ∧ fails.contains b.addr = false := by
  intro b hb hal
  have called : ∀ b0 ∈ c.backends, b0.mode ≠ .err →
      (b0.id, m) ∈ (c.writers.foldl (fun c w => c.call w.2 m) c).calls := by
    intro b0 hb0 h0
    have hw : (b0.addr, b0.id) ∈ c.writers := by
      rw [h.core.fanout.1]
      exact List.mem_map.mpr ⟨b0, List.mem_filter.mpr ⟨hb0, by simpa using h0⟩, rfl⟩
    exact (mem_calls_foldl' c.writers (·.2) m c).2 _ hw
  have hav : c.available = true := by
    cases hc : c.available with
    | true => rfl
    | false => unfold stepFanOut at hok; simp [hc] at hok
  unfold stepFanOut at hb hok ⊢
  simp only at hb hok ⊢
  have h1 : ¬ ((!c.available) = true) := by simp [hav]
  rw [if_neg h1] at hb hok ⊢
  by_cases he : (c.failedWriters fails).isEmpty = true
  · rw [if_pos he] at hb ⊢
    have hb0 : b ∈ c.backends := by rw [← (calls_same c c.writers (·.2) m).2.2.1]; exact hb
    refine ⟨called b hb0 hal, ?_⟩
    -- nobody failed: no writer's address is in `fails`
    have hemp := List.isEmpty_iff.mp he
    cases hf : fails.contains b.addr with
    | false => rfl
    | true =>
      exfalso
      have hw : (b.addr, b.id) ∈ c.writers := by
        rw [h.core.fanout.1]
        exact List.mem_map.mpr ⟨b, List.mem_filter.mpr ⟨hb0, by simpa using hal⟩, rfl⟩
      have : b.addr ∈ c.failedWriters fails := by
        unfold failedWriters
        exact List.mem_map.mpr ⟨(b.addr, b.id), List.mem_filter.mpr ⟨hw, hf⟩, rfl⟩
      rw [hemp] at this; cases this
  · rw [if_neg he] at hb ⊢
    have hc1 := cinv_calls' c h c.writers (·.2) m
    have same := calls_same c c.writers (·.2) m
    obtain ⟨b0, hb0, e1, e2, e3⟩ := pres_ioFail _ (c.failedWriters fails) b hb
    have hb0' : b0 ∈ c.backends := by rw [← same.2.2.1]; exact hb0
    have h0 : b0.mode ≠ .err := e3 hal
    refine ⟨?_, ?_⟩
    · rw [← e1]
      exact calls_mono_ioFail _ _ _ (called b0 hb0' h0)
    · cases hf : fails.contains b.addr with
      | false => rfl
      | true =>
        exfalso
        have hw : (b0.addr, b0.id) ∈ c.writers := by
          rw [h.core.fanout.1]
          exact List.mem_map.mpr ⟨b0, List.mem_filter.mpr ⟨hb0', by simpa using h0⟩, rfl⟩
        have hfw : b.addr ∈ c.failedWriters fails := by
          unfold failedWriters
          exact List.mem_map.mpr ⟨(b0.addr, b0.id), List.mem_filter.mpr ⟨hw, by rw [e2]; exact hf⟩, e2⟩
        -- a writer that failed is detached: its address names no backend afterwards
        have gone : ((c.writers.foldl (fun c w => c.call w.2 m) c).ioFail (c.failedWriters fails)).1.backendOf b.addr = none := by
          unfold ioFail
          exact (removeAll_gone _ _ (cinv_handleError _ hc1 _) b.addr hfw).2
        unfold backendOf at gone
        have := List.find?_eq_none.mp gone b hb
        simp at this


/-- the same for `Controller.WriteAt` with its range check, its read-only gate and the widening read -/
theorem write_ok_applied (c : Ctl) (h : CInv c) (off len : Nat) (fails : List String) (tried : List (String × Out))
    (hok : (c.stepWrite off len fails tried).2 = .ok) :
    ∀ b ∈ (c.stepWrite off len fails tried).1.backends, b.mode ≠ .err →
      (b.id, "WriteAt") ∈ (c.stepWrite off len fails tried).1.calls ∧ fails.contains b.addr = false := by
  unfold stepWrite at hok ⊢
  simp only at hok ⊢
  have i1 := cinv_readCalls c h tried
  repeat' split at hok
  all_goals first
    | cases hok
    | skip
  all_goals (repeat' split)
  all_goals first
    | exact fanOut_ok_applied _ h _ _ (by assumption)
    | exact fanOut_ok_applied _ i1 _ _ (by assumption)
    | exact fanOut_ok_applied _ (cinv_ioFail _ i1 _) _ _ (by assumption)
    | (exfalso; simp_all)

/-! ### the history -/

structure Hist where
  n       : Nat                 -- write requests so far
  acked   : List Nat            -- those reported successful
  applied : List (Nat × Nat)    -- (backend id, request): it was sent the request and did not fail it
  since   : List (Nat × Nat)    -- (backend id, number of the first request issued after it was attached)

def Hist.init : Hist := ⟨0, [], [], []⟩

/-- the ghost state follows the requests -/
def Hist.step (h : Hist) (c : Ctl) (op : CtlOp) : Hist :=
  let r := c.step op
  let fresh := r.1.backends.filter fun b => c.nextId ≤ b.id
  match op with
  | .write _ _ fails _ =>
    { n := h.n + 1
      acked := if r.2 = .ok then h.acked ++ [h.n] else h.acked
      applied := h.applied ++ ((r.1.backends.filter fun b =>
          r.1.calls.contains (b.id, "WriteAt") && !fails.contains b.addr).map fun b => (b.id, h.n))
      since := h.since ++ fresh.map fun b => (b.id, h.n + 1) }
  | _ => { h with since := h.since ++ fresh.map fun b => (b.id, h.n) }

def runHist : Ctl → Hist → List CtlOp → Ctl × Hist
  | c, h, [] => (c, h)
  | c, h, op :: ops => runHist (c.step op).1 (h.step c op) ops

/-- every backend in service has an attachment point, and has applied every acknowledged write from
    that point on; acknowledged requests are past requests -/
structure HInv (c : Ctl) (h : Hist) : Prop where
  holds : ∀ b ∈ c.backends, b.mode ≠ .err →
    ∃ s, (b.id, s) ∈ h.since ∧ s ≤ h.n ∧ ∀ w ∈ h.acked, s ≤ w → (b.id, w) ∈ h.applied
  past  : ∀ w ∈ h.acked, w < h.n

theorem hinv_init (rf : Nat) : HInv (Ctl.init rf) Hist.init :=
  ⟨fun b hb => (by cases hb), fun w hw => (by cases hw)⟩

theorem hinv_step (c : Ctl) (hc : CInv c) (h : Hist) (hi : HInv c h) (op : CtlOp) :
    HInv (c.step op).1 (h.step c op) := by
  have keeps := keeps_step c hc op
  -- the part common to every request: where the attachment point of a backend in service comes from
  have old : ∀ b ∈ (c.step op).1.backends, b.mode ≠ .err → b.id < c.nextId →
      ∃ s, (b.id, s) ∈ h.since ∧ s ≤ h.n ∧ ∀ w ∈ h.acked, s ≤ w → (b.id, w) ∈ h.applied := by
    intro b hb hal hlt
    rcases keeps b.id ⟨b, hb, rfl, hal⟩ with hk | ⟨b0, hb0, e0, h0⟩
    · omega
    · have := hi.holds b0 hb0 h0
      rw [e0] at this; exact this
  cases op with
  | write off len fails tried =>
    have hstep : (c.step (.write off len fails tried)) = c.clearLog.stepWrite off len fails tried := rfl
    refine ⟨?_, ?_⟩
    · intro b hb hal
      by_cases hlt : b.id < c.nextId
      · obtain ⟨s, s1, s2, s3⟩ := old b hb hal hlt
        refine ⟨s, List.mem_append_left _ s1, by show s ≤ h.n + 1; omega, ?_⟩
        intro w hw hsw
        show (b.id, w) ∈ h.applied ++ _
        by_cases hok : (c.step (.write off len fails tried)).2 = .ok
        · have hw' : w ∈ h.acked ++ [h.n] := by
            have : w ∈ (if (c.step (.write off len fails tried)).2 = .ok then h.acked ++ [h.n] else h.acked) := hw
            rw [if_pos hok] at this; exact this
          rcases List.mem_append.mp hw' with hw' | hw'
          · exact List.mem_append_left _ (s3 w hw' hsw)
          · simp at hw'; subst hw'
            apply List.mem_append_right
            have ap := write_ok_applied c.clearLog (cinv_clearLog c hc) off len fails tried (by rw [← hstep]; exact hok) b
              (by rw [← hstep]; exact hb) hal
            refine List.mem_map.mpr ⟨b, List.mem_filter.mpr ⟨hb, ?_⟩, rfl⟩
            rw [hstep]
            have a2 : ¬ b.addr ∈ fails := by simpa using ap.2
            simp [ap.1, a2]
        · have hw' : w ∈ h.acked := by
            have : w ∈ (if (c.step (.write off len fails tried)).2 = .ok then h.acked ++ [h.n] else h.acked) := hw
            rw [if_neg hok] at this; exact this
          exact List.mem_append_left _ (s3 w hw' hsw)
      · -- attached by this request (a write attaches nobody, but the argument is the general one)
        refine ⟨h.n + 1, ?_, Nat.le_refl _, ?_⟩
        · apply List.mem_append_right
          exact List.mem_map.mpr ⟨b, List.mem_filter.mpr ⟨hb, by simpa using Nat.le_of_not_lt hlt⟩, rfl⟩
        · intro w hw hsw
          exfalso
          have : w < h.n + 1 := by
            have hw2 : w ∈ (if (c.step (.write off len fails tried)).2 = .ok then h.acked ++ [h.n] else h.acked) := hw
            split at hw2
            · rcases List.mem_append.mp hw2 with hw2 | hw2
              · have := hi.past w hw2; omega
              · simp at hw2; omega
            · have := hi.past w hw2; omega
          omega
    · intro w hw
      show w < h.n + 1
      have hw2 : w ∈ (if (c.step (.write off len fails tried)).2 = .ok then h.acked ++ [h.n] else h.acked) := hw
      split at hw2
      · rcases List.mem_append.mp hw2 with hw2 | hw2
        · have := hi.past w hw2; omega
        · simp at hw2; omega
      · have := hi.past w hw2; omega
  | _ =>
    refine ⟨?_, hi.past⟩
    intro b hb hal
    by_cases hlt : b.id < c.nextId
    · obtain ⟨s, s1, s2, s3⟩ := old b hb hal hlt
      exact ⟨s, List.mem_append_left _ s1, s2, s3⟩
    · refine ⟨h.n, ?_, Nat.le_refl _, ?_⟩
      · apply List.mem_append_right
        exact List.mem_map.mpr ⟨b, List.mem_filter.mpr ⟨hb, by simpa using Nat.le_of_not_lt hlt⟩, rfl⟩
      · intro w hw hsw
        exfalso
        have := hi.past w hw
        omega

theorem hinv_run (ops : List CtlOp) : ∀ (c : Ctl) (h : Hist), CInv c → HInv c h →
    HInv (runHist c h ops).1 (runHist c h ops).2 := by
  induction ops with
  | nil => intro c h _ hi; exact hi
  | cons op ops ih =>
    intro c h hc hi
    exact ih _ _ (cinv_step c hc op) (hinv_step c hc h hi op)

theorem runHist_fst (ops : List CtlOp) : ∀ (c : Ctl) (h : Hist), (runHist c h ops).1 = c.run ops := by
  induction ops with
  | nil => intro c h; rfl
  | cons op ops ih => intro c h; exact ih _ _

/-- **C02 / C05 (every replica in service holds every acknowledged write).** After ANY list of
    requests, with any replication factor and any answers of the environment: every backend that is
    not marked failed — it is in the fan-out list, RW or rebuilding — has an attachment point, and has
    applied every write that was acknowledged from that point on. -/
theorem c02_in_service_holds_acked (rf : Nat) (hrf : 1 ≤ rf) (ops : List CtlOp) :
    let c := (Ctl.init rf).run ops
    let h := (runHist (Ctl.init rf) Hist.init ops).2
    ∀ b ∈ c.backends, b.mode ≠ .err →
      ∃ s, (b.id, s) ∈ h.since ∧ ∀ w ∈ h.acked, s ≤ w → (b.id, w) ∈ h.applied := by
  intro c h b hb hal
  have hi := hinv_run ops (Ctl.init rf) Hist.init (cinv_init rf hrf) (hinv_init rf)
  rw [runHist_fst] at hi
  obtain ⟨s, s1, _, s3⟩ := hi.holds b hb hal
  exact ⟨s, s1, s3⟩

/-- non-vacuity (a test): RF 3; a write with two replicas, a third one is attached afterwards (its
    attachment point is request 1) and rebuilt; the next write fails on one replica and is acknowledged
    by the other two, which also take the last one: three acknowledged writes, the backend attached
    later applied those from its attachment on, the one that failed is gone -/
example :
    let ops : List CtlOp :=
      [.register ⟨"a", "ua", 5, false⟩ true true "a", .register ⟨"b", "ub", 3, false⟩ true true "a",
       .start [⟨"tcp://a:9502", true, 1048576, true, "NA", true, some 5⟩] CkEnv.none,
       .add "tcp://b:9502" none true [] true true CkEnv.none,
       .verify "tcp://b:9502" (some ["h1", "s1"]) (some ["h0", "s1"]) (some "") (some 5) true true CkEnv.none,
       .write 0 4096 [] [],
       .add "tcp://c:9502" none true [] true true CkEnv.none,
       .verify "tcp://c:9502" (some ["h2", "s2", "s1"]) (some ["h0", "s2", "s1"]) (some "") (some 6) true true CkEnv.none,
       .write 0 4096 ["tcp://b:9502"] [], .write 4096 4096 [] []]
    let r := runHist (Ctl.init 3) Hist.init ops
    r.2.acked = [0, 1, 2] ∧ r.1.backends.map (·.id) = [0, 2] ∧
    r.2.applied = [(0, 0), (1, 0), (0, 1), (2, 1), (0, 2), (2, 2)] ∧ r.2.since = [(0, 0), (1, 0), (2, 1)] := by decide

end Jiva.Properties
