import JivaVerif.Lemmas.InVol
import JivaVerif.Lemmas.CtlRf
import JivaVerif.Model.Replica
/-!
# C19 — a clone replica holds exactly the source snapshot and serves only when done

Replica part: the clone of snapshot `k` is assembled from the files of `k` and of its ancestors (copied
with their metadata by the sync agents), a fresh empty head made a child of `k` by `UpdateCloneInfo`,
a reload without preload and `UpdateLUNMap` (`DD.cloneOf`).  Controller part: `Start` of the new
volume polls the clone status and makes the replica RW only on `completed` / `NA`; on `error` the
replica is removed (`Ctl.stepStart`, whose `clone` argument is the status the polling loop ended on).
The order of the steps of the clone procedure itself (transfer, clone info, reload, map, then the
status) is tied to `sync/sync.go` and `app/replica.go` by the T1 facts `cloneReplicaOrder`,
`appCloneOrder`, `cloneStatusOrder` and `cloneStatusLoop`.
-/
namespace Jiva.Properties
open Jiva DD Ctl
variable {β : Type} [Inhabited β]

/-- the clone's chain before the reload: the source's files up to `k`, an empty head above -/
def cloneChain (d : DD β) (k : Nat) : DD β :=
  { d with files := fun i => if i ≤ k then d.files i else File.empty
           top   := k + 1
           uc    := fun i => if i ≤ k then d.uc i else false
           rm    := fun i => if i ≤ k then d.rm i else false }

theorem cloneOf_eq (d : DD β) (k : Nat) : d.cloneOf k = ((cloneChain d k).reopen false).lunmap := rfl

theorem wfs_cloneChain (d : DD β) (h : WF d) (k : Nat) : WFS (cloneChain d k) := by
  refine ⟨h.bs_pos, by show 1 ≤ k + 1; omega, ?_, ?_, ?_⟩
  · intro b
    show (if 0 ≤ k then d.files 0 else File.empty).alloc b = false
    rw [if_pos (Nat.zero_le k)]; exact h.empty0 b
  · intro i hi b
    have hi' : k + 1 < i := hi
    show (if i ≤ k then d.files i else File.empty).alloc b = false
    rw [if_neg (by omega)]; rfl
  · intro i hu
    have hu' : (if i ≤ k then d.uc i else false) = true := hu
    by_cases c : i ≤ k
    · rw [if_pos c] at hu'
      exact ⟨(h.ucLt i hu').1, by show i < k + 1; omega⟩
    · rw [if_neg c] at hu'; cases hu'

/-- the invariant holds for the finished clone -/
theorem c19_clone_wf (d : DD β) (h : WF d) (k : Nat) : WF (d.cloneOf k) := by
  rw [cloneOf_eq]
  exact wf_lunmap _ (wf_reopen _ (wfs_cloneChain d h k) false)

/-- **C19 (image).** Every unit of the clone reads exactly as the source snapshot `k` shows it —
    whatever the source's head and its newer snapshots contain, whatever its location map and its
    queue of pending punch requests look like. -/
theorem c19_image (d : DD β) (h : WF d) (k : Nat) (u : Nat) (hu : u / d.bs < d.nb) :
    (d.cloneOf k).readUnit u = d.view k u := by
  have w := c19_clone_wf d h k
  have eb : (d.cloneOf k).bs = d.bs := rfl
  have en : (d.cloneOf k).nb = d.nb := rfl
  rw [readUnit_eq_live _ w u (by rw [eb, en]; exact hu)]
  show viewUpTo (fun i => if i ≤ k then d.files i else File.empty) d.bs (k + 1) u = viewUpTo d.files d.bs k u
  rw [viewUpTo_succ]
  have : ((fun i => if i ≤ k then d.files i else File.empty) (k + 1)).alloc (u / d.bs) = false := by
    show (if k + 1 ≤ k then d.files (k + 1) else File.empty).alloc (u / d.bs) = false
    rw [if_neg (by omega)]; rfl
  rw [this]
  simp only [Bool.false_eq_true, if_false]
  apply viewUpTo_congr
  intro j _ hj
  show (if j ≤ k then d.files j else File.empty).alloc (u / d.bs) = (d.files j).alloc (u / d.bs) ∧ _
  rw [if_pos hj]
  exact ⟨rfl, fun _ => rfl⟩

/-- every older snapshot of the clone also equals the source's -/
theorem c19_ancestors (d : DD β) (k i u : Nat) (hi : i ≤ k) : (d.cloneOf k).view i u = d.view i u := by
  show viewUpTo (fun j => if j ≤ k then d.files j else File.empty) d.bs i u = viewUpTo d.files d.bs i u
  apply viewUpTo_congr
  intro j _ hj
  show (if j ≤ k then d.files j else File.empty).alloc (u / d.bs) = (d.files j).alloc (u / d.bs) ∧ _
  rw [if_pos (by omega)]
  exact ⟨rfl, fun _ => rfl⟩

/-- the clone is independent of everything above the snapshot: two sources that agree up to `k`
    give the same clone image (writes and snapshots taken at the source after `k`, during or before
    the copy, do not matter) -/
theorem c19_later_history_irrelevant (d e : DD β) (hd : WF d) (he : WF e) (k u : Nat)
    (hb : e.bs = d.bs) (hn : e.nb = d.nb) (hf : ∀ j, j ≤ k → e.files j = d.files j) (hu : u / d.bs < d.nb) :
    (e.cloneOf k).readUnit u = (d.cloneOf k).readUnit u := by
  rw [c19_image d hd k u hu, c19_image e he k u (by rw [hb, hn]; exact hu)]
  show viewUpTo e.files e.bs k u = viewUpTo d.files d.bs k u
  rw [hb]
  apply viewUpTo_congr
  intro j _ hj
  rw [hf j hj]
  exact ⟨rfl, fun _ => rfl⟩

/-! ### the counter handed to the clone -/

/-- one recorded counter per snapshot name -/
def RecsWF (r : Rep) : Prop := r.recs.length = r.names.length

/-- every request keeps the recorded counters aligned with the chain, so the counter the clone is
    given (`recs[k-1]` for the snapshot at index `k`) is always an actual recorded value — the default
    of the model's `getD` is never used -/
theorem c19_recs_aligned_step (r : Rep) (h : RecsWF r) (op : RepOp) : RecsWF (r.step op).1 := by
  unfold RecsWF at *
  cases op <;> simp only [Rep.step] <;> (repeat' split) <;>
    simp_all [Rep.bumpRecs, List.length_take, List.length_eraseIdx, List.length_set] <;> (try omega)

theorem c19_recs_aligned (ops : List RepOp) : ∀ r : Rep, RecsWF r → RecsWF (r.run ops) := by
  induction ops with
  | nil => intro r h; exact h
  | cons op ops ih => intro r h; exact ih _ (c19_recs_aligned_step r h op)

/-- the counter recorded for a snapshot is the replica's counter at the moment the snapshot was taken -/
theorem c19_recorded_at_snapshot (r : Rep) (n : String) (u : Bool)
    (hok : (r.step (.snap n u)).2 = .ok) :
    (r.step (.snap n u)).1.recs.getLast? = some r.rev ∧ (r.step (.snap n u)).1.names.getLast? = some n := by
  simp only [Rep.step] at hok ⊢
  repeat' split at hok
  all_goals first | cases hok | skip
  all_goals (repeat' split)
  all_goals simp_all

/-! ### the new volume's controller -/

/-- **C19 (gate).** If the polling of the clone status of a replica ended on `error` (or the status
    call failed), its attachment fails — `Start` returns the error — and the replica is not part of
    the volume afterwards: neither readable nor writable. -/
theorem c19_error_not_served (c : Ctl) (e : StartEnv) (hno : c.hasReplica e.addr = false)
    (he : e.clone = "error" ∨ e.clone = "callfail") :
    (c.startOne e).2 = false ∧ (c.startOne e).1.hasReplica e.addr = false := by
  have hsame : (c.reserveId.adoptSize e.size).replicas = c.replicas := by
    unfold adoptSize; split <;> rfl
  unfold startOne
  simp only
  split
  · exact ⟨rfl, hno⟩
  · split
    · exact ⟨rfl, by show ((c.reserveId.adoptSize e.size).replicas.any _) = false; rw [hsame]; exact hno⟩
    · split
      · exact ⟨rfl, by show ((c.reserveId.adoptSize e.size).replicas.any _) = false; rw [hsame]; exact hno⟩
      · rename_i c1 ec
        have := canAdd_none_eq _ _ _ ec
        subst this
        repeat' split
        all_goals first
          | exact ⟨rfl, by show ((c.reserveId.adoptSize e.size).replicas.any _) = false; rw [hsame]; exact hno⟩
          | contradiction
          | (refine ⟨rfl, ?_⟩
             show (Ctl.removeReplica _ _ _).hasReplica e.addr = false
             unfold hasReplica
             rw [removeReplica_replicas, List.any_eq_false]
             intro r hr
             have := (List.mem_filter.mp hr).2
             simpa using this)

theorem startOne_true_clone (c : Ctl) (e : StartEnv) (h : (c.startOne e).2 = true) :
    e.clone ≠ "error" ∧ e.clone ≠ "callfail" := by
  unfold startOne at h
  simp only at h
  repeat' split at h
  all_goals first | cases h | skip
  rename_i h4 _
  exact ⟨fun e' => h4 (Or.inl e'), fun e' => h4 (Or.inr e')⟩

theorem startLoop_true_clone (es : List StartEnv) : ∀ (c : Ctl), (c.startLoop es).2 = true →
    ∀ e ∈ es, e.clone ≠ "error" ∧ e.clone ≠ "callfail" := by
  induction es with
  | nil => intro c _ e he; cases he
  | cons x xs ih =>
    intro c h e he
    unfold startLoop at h
    split at h
    · rename_i hx
      rcases List.mem_cons.mp he with rfl | he
      · exact startOne_true_clone c e hx
      · exact ih _ h e he
    · cases h

/-- **C19 (gate, converse).** A `Start` that succeeds ended the polling of every replica it attached
    on a status other than `error`: the polling loop (T1 fact `cloneStatusLoop`) leaves only on
    `completed` / `NA` / `error`. -/
theorem c19_served_only_when_done (c : Ctl) (es : List StartEnv) (ck : CkEnv) (h0 : ¬ c.replicas.length > 0)
    (hok : (c.stepStart es ck).2 = .ok) :
    ∀ e ∈ es, e.clone ≠ "error" ∧ e.clone ≠ "callfail" := by
  unfold stepStart at hok
  split at hok
  · intro e he; cases he
  · rename_i e0 rest
    rw [if_neg h0] at hok
    repeat' split at hok
    all_goals first | cases hok | skip
    rename_i hl _
    have : ((c.startReset.startLoop (e0 :: rest)).2 = true) := by
      cases hh : (c.startReset.startLoop (e0 :: rest)).2
      · exact absurd hh hl
      · rfl
    exact startLoop_true_clone _ _ this

/-! ### non-vacuity -/

private def srcDemo : DD Nat :=
  ((((DD.init 8 2).write 0 8 (fun u => 7 + u)).snapshot true).write 2 3 (fun _ => 99)).snapshot false

/-- cloning the first snapshot of a source that went on writing gives the first snapshot's image -/
example : (srcDemo.cloneOf 1).readUnit 2 = 9 ∧ srcDemo.live 2 = 99 ∧ (srcDemo.cloneOf 2).readUnit 2 = 99 := by decide

end Jiva.Properties
