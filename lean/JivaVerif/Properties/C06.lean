import JivaVerif.Lemmas.InVol
/-!
# C06 — snapshots are immutable and revert restores exactly the snapshot image

A retained user-created snapshot is an index `i` with `d.ur i = true` (metadata: UserCreated and
not marked Removed).  Its content is `d.view i`.  The specification keeps, per chain member, the
frozen image `img i` taken at snapshot time (`Spec.step (.snapshot _)` stores the then-current
volume) and nothing in the specification ever changes it (deletion of *another* member only
renumbers).  Hole punching is part of the model: requests are queued by writes and by preload and
applied by the environment at any later time.
-/
namespace Jiva.Properties
open Jiva DD
variable {β : Type} [Inhabited β]

/-- **C06 (main).** After any admissible history — writes of any shape, reclaimer steps at any
    time, reopen/preload, deletion of other snapshots — every retained user-created snapshot shows
    exactly the image frozen when it was taken. -/
theorem c06_frozen (bs nb : Nat) (hbs : 0 < bs) (ops : List (Op β))
    (hadm : AdmAll (DD.init bs nb : DD β) ops) (i : Nat)
    (hi : (runWith (DD.init bs nb : DD β) Spec.init ops).1.ur i = true) (u : Nat) :
    (runWith (DD.init bs nb : DD β) Spec.init ops).1.view i u =
      (runWith (DD.init bs nb : DD β) Spec.init ops).2.img i u :=
  (refines_run ops _ _ (refines_init bs nb hbs) hadm).snap i hi u

/-- The frozen image is the volume at the moment of the snapshot … -/
theorem c06_image_is_volume (s : Spec β) (top : Nat) (user : Bool) :
    (s.step top (.snapshot user)).img top = s.vol := by
  simp [Spec.step]

/-- … and no later request changes it, except that deleting another member renumbers
    (`removeIdx k` moves index `i > k` to `i - 1`) and folding `k` replaces the image of `k-1`,
    which admissibility forbids for a retained user-created `k-1`. -/
theorem c06_image_stable (s : Spec β) (top : Nat) (op : Op β) (i : Nat)
    (h1 : ∀ user, op = .snapshot user → i ≠ top)
    (h2 : ∀ k, op = .coalesce k → i ≠ k - 1)
    (h3 : ∀ k, op ≠ .removeIdx k) :
    (s.step top op).img i = s.img i := by
  cases op with
  | snapshot user => have := h1 user rfl; simp [Spec.step, this]
  | coalesce k => have := h2 k rfl; simp [Spec.step, this]
  | removeIdx k => exact absurd rfl (h3 k)
  | _ => rfl

theorem c06_image_renumbered (s : Spec β) (top k i : Nat) :
    (s.step top (.removeIdx k : Op β)).img i = if i < k then s.img i else s.img (i + 1) := rfl

/-- **C06 (reclamation).** Applying any queued punch request, at any time, changes neither the
    live volume nor a retained user-created snapshot. -/
theorem c06_reclaim_safe (d : DD β) (h : WF d) (j i u : Nat) (hi : d.ur i = true ∨ i = d.top) :
    (d.applyHole j).view i u = d.view i u :=
  view_applyHole d h j i u hi

/-- **C06 (writes).** A write never touches any snapshot layer. -/
theorem c06_write_leaves_snapshots (d : DD β) (h : WF d) (off len : Nat) (buf : Nat → β)
    (hr : off + len ≤ d.nb * d.bs) (i u : Nat) (hi : i < d.top) :
    (d.write off len buf).view i u = d.view i u :=
  (writeOk_write d h off len buf hr).below i u hi

/-- **C06 (revert).** Reverting to snapshot `k` makes the volume read back exactly the image of
    `k`; the snapshots at or below `k` are unchanged. -/
theorem c06_revert (d : DD β) (k u : Nat) : (d.revert k).live u = d.view k u := live_revert d k u

theorem c06_revert_keeps (d : DD β) (k i u : Nat) (hi : i ≤ k) : (d.revert k).view i u = d.view i u :=
  view_revert d k i u hi

/-- the property's own exclusion, recorded so that it is not mistaken for a proof gap: with
    reclamation on, an *automatic* snapshot may be thinned (here preload punches the base's copy of
    a block that the next automatic snapshot also holds), so nothing is promised about its image. -/
example : ∃ d : DD Nat, WF d ∧ d.ur 1 = false ∧ (d.applyHole 0).view 1 0 ≠ d.view 1 0 := by
  refine ⟨((((DD.init 8 2 : DD Nat).setPunch true).write 0 8 (fun _ => 7)).snapshot false |>.write 0 8 (fun _ => 9)), ?_, ?_, ?_⟩
  · have h0 := wf_setPunch _ (wf_init 8 2 (by decide) : WF (DD.init 8 2 : DD Nat)) true
    have h1 := (writeOk_write _ h0 0 8 (fun _ => 7) (by decide)).wf
    have h2 := wf_snapshot _ h1 false
    exact (writeOk_write _ h2 0 8 (fun _ => 9) (by decide)).wf
  · decide
  · decide

/-! Non-vacuity of `c06_frozen`: a history with a user snapshot, later overwrites that queue punch
    requests for the automatic layer above it, the reclaimer, a reopen with preload. -/
def demoOps06 : List (Op Nat) :=
  [.setPunch true, .write 0 16 (fun u => 100 + u), .snapshot true, .write 0 8 (fun u => 200 + u),
   .snapshot false, .write 0 16 (fun u => 300 + u), .applyHole 0, .reopen true, .applyHole 0]

example : AdmAll (DD.init 8 4 : DD Nat) demoOps06 := by
  simp only [demoOps06, AdmAll, Adm]; decide
example : (runWith (DD.init 8 4 : DD Nat) Spec.init demoOps06).1.ur 1 = true := by decide
example : (runWith (DD.init 8 4 : DD Nat) Spec.init demoOps06).1.pend.length +
          (runWith (DD.init 8 4 : DD Nat) Spec.init (demoOps06.take 6)).1.pend.length ≥ 1 := by decide

end Jiva.Properties
