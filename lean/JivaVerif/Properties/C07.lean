import JivaVerif.Lemmas.InVol
import JivaVerif.Lemmas.Widen
import JivaVerif.Lemmas.Window
/-!
# C07 — a rebuilt replica is byte-identical to its source before it serves reads (replica part)

The rebuilt replica is assembled from (a) extent-for-extent copies of the source's snapshot files
(everything below the source's head, from the sync point upward — here: all of them) and (b) its own
head, which has received every write since both replicas took the add-time snapshot inside one
controller critical section.  It is then reloaded without preload, its location map is rebuilt by
`UpdateLUNMap`, and only then does the controller promote it (`c07_gate`, `c07_single_wo` in
`Properties/Controller.lean`).
-/
namespace Jiva.Properties
open Jiva DD
variable {β : Type} [Inhabited β]

/-- the rebuilt replica right after `Reload`: the source's snapshot files, the target's own head `h`,
    an empty location map, markers and SnapIndx recomputed from the (copied) metadata -/
def graft (s : DD β) (h : File β) : DD β :=
  fresh { s with files := fun i => if i = s.top then h else s.files i }

/-- the two heads received the same writes: same allocated blocks, same content there -/
def SameWrites (bs : Nat) (a b : File β) : Prop :=
  (∀ blk, a.alloc blk = b.alloc blk) ∧ (∀ u, a.alloc (u / bs) = true → a.data u = b.data u)

/-- **C07 (identical).** If the target's head holds exactly what the source's head holds, then after
    the reload every view of the rebuilt replica — the live volume and every snapshot — equals the
    source's. -/
theorem c07_identical (s : DD β) (h : File β) (hw : SameWrites s.bs h (s.files s.top)) (i u : Nat) :
    (graft s h).view i u = s.view i u := by
  show viewUpTo (fun j => if j = s.top then h else s.files j) s.bs i u = viewUpTo s.files s.bs i u
  apply viewUpTo_congr
  intro j _ _
  by_cases e : j = s.top
  · subst e; simp only [if_true]
    exact ⟨hw.1 _, hw.2 u⟩
  · simp [e]

/-- the rebuilt replica satisfies the invariant (its location map is empty, so nothing can be stale) -/
theorem c07_graft_wf (s : DD β) (hs : WF s) (h : File β) (hw : SameWrites s.bs h (s.files s.top)) :
    WF (graft s h) := by
  apply wf_fresh
  refine ⟨hs.bs_pos, hs.top_pos, ?_, ?_, hs.ucLt⟩
  · intro b
    have : (0 : Nat) ≠ s.top := by have := hs.top_pos; omega
    show ((if (0 : Nat) = s.top then h else s.files 0)).alloc b = false
    simp [this]; exact hs.empty0 b
  · intro j hj b
    have hj' : s.top < j := hj
    have : j ≠ s.top := by omega
    show ((if j = s.top then h else s.files j)).alloc b = false
    simp [this]; exact hs.emptyAbove j hj' b

/-- **C07 (merge).** `UpdateLUNMap` keeps the invariant — the merged location map is sound for every
    block, whichever blocks foreground writes touched since the reload — and changes no content. -/
theorem c07_merge_inv (d : DD β) (h : WF d) : WF d.lunmap ∧ ∀ i u, d.lunmap.view i u = d.view i u :=
  ⟨wf_lunmap d h, fun _ _ => rfl⟩

/-- writes between the reload and the merge are ordinary admissible requests: the invariant and the
    read-back theorem (C01) apply to the rebuilt replica throughout -/
theorem c07_reads_after_promotion (s : DD β) (hs : WF s) (h : File β) (hw : SameWrites s.bs h (s.files s.top))
    (u : Nat) (hu : u / s.bs < s.nb) : (graft s h).lunmap.readUnit u = s.live u := by
  have w1 := c07_graft_wf s hs h hw
  have w2 := wf_lunmap _ w1
  have e : (graft s h).lunmap.bs = s.bs := rfl
  have en : (graft s h).lunmap.nb = s.nb := rfl
  rw [readUnit_eq_live _ w2 u (by rw [e, en]; exact hu)]
  have et : (graft s h).lunmap.top = s.top := rfl
  unfold live
  rw [et]
  exact c07_identical s h hw s.top u

/-! ### foreground writes inside `UpdateLUNMap`'s window

`Server.UpdateLUNMap` releases the server lock while it scans the extents (`PreloadLunMap`) and takes it
again for the merge: foreground writes land in between.  They reach the rebuilding replica as whole
blocks (the controller widens every request while it is attached). -/

/-- the state after a list of whole-block writes `(first block, number of blocks, data)` -/
def windowWrites (d : DD β) (ws : List (Nat × Nat × (Nat → β))) : DD β :=
  ws.foldl (fun d w => d.fullWrite w.1 w.2.1 w.2.2) d

theorem windowWrites_later (d0 : DD β) (h0 : WF d0) (ws : List (Nat × Nat × (Nat → β)))
    (hr : ∀ w ∈ ws, w.1 + w.2.1 ≤ d0.nb) :
    ∀ d, Later d0 d → WF d → Later d0 (windowWrites d ws) ∧ WF (windowWrites d ws) := by
  induction ws with
  | nil => intro d l h; exact ⟨l, h⟩
  | cons w ws ih =>
    intro d l h
    have hw := hr w List.mem_cons_self
    have := ih (fun x hx => hr x (List.mem_cons_of_mem _ hx)) (d.fullWrite w.1 w.2.1 w.2.2)
      (later_fullWrite d0 d l w.1 w.2.1 w.2.2) (wf_fullWrite d h w.1 w.2.1 w.2.2 (by rw [l.nb]; exact hw))
    exact this

/-- **C07 (writes inside the window of `UpdateLUNMap`).** The extents are scanned in state `d0`; ANY
    list of whole-block foreground writes lands before the merge.  The merged replica satisfies the
    invariant — its location map is sound, every punch request it queued (also those for the copies
    the writes shadowed) is safe for every retained user snapshot — no content changes, and every unit
    reads the volume as the writes left it. -/
theorem c07_window_writes (d0 : DD β) (h0 : WF d0) (ws : List (Nat × Nat × (Nat → β)))
    (hr : ∀ w ∈ ws, w.1 + w.2.1 ≤ d0.nb) :
    WF (d0.lunmapAfter (windowWrites d0 ws)) ∧
    (∀ i u, (d0.lunmapAfter (windowWrites d0 ws)).view i u = (windowWrites d0 ws).view i u) ∧
    ∀ u, u / d0.bs < d0.nb → (d0.lunmapAfter (windowWrites d0 ws)).readUnit u = (windowWrites d0 ws).live u := by
  obtain ⟨l, h⟩ := windowWrites_later d0 h0 ws hr d0 (Later.refl d0) h0
  have w := wf_lunmapAfter d0 _ h0 h l
  refine ⟨w, fun _ _ => rfl, ?_⟩
  intro u hu
  have e1 : (d0.lunmapAfter (windowWrites d0 ws)).bs = d0.bs := l.bs
  have e2 : (d0.lunmapAfter (windowWrites d0 ws)).nb = d0.nb := l.nb
  rw [readUnit_eq_live _ w u (by rw [e1, e2]; exact hu)]
  rfl

/-- the guard matters (seed C07d): with `≥` instead of `>` the merge would queue the copy held by the
    latest user-created snapshot itself, and applying that request changes the snapshot's image — a
    concrete instance (a test) -/
example :
    let d0 : DD Nat := (((DD.init 2 2).fullWrite 0 2 (fun u => 10 + u)).snapshot true).setPunch true
    let d := d0.fullWrite 0 1 (fun u => 90 + u)
    (d0.lunmapAfter d).pend = [] ∧ (d0.lunmapAfter d).view 1 0 = 10 := by decide


/-! ### foreground writes while the rebuild runs

The controller sends every write to the source (RW) and to the target (WO).  A replica completes a
write that does not cover whole blocks by reading the rest of the block from its own chain
(`readModifyWrite`); the target's chain is incomplete until the reload, so it must never have to do
that.  `Controller.widenForWONoLock` (the repair of the defect recorded for C07) therefore widens such
a write to block boundaries with data read from the RW replicas, and both replicas receive the same
whole-block buffer. -/

/-- block-aligned writes keep two heads equal, whatever lies below them -/
theorem sameWrites_writeBlocks (bs : Nat) (a b : File β) (hw : SameWrites bs a b) (s n : Nat) (buf : Nat → β) :
    SameWrites bs (a.writeBlocks bs s n buf) (b.writeBlocks bs s n buf) := by
  refine ⟨fun blk => ?_, fun u hu => ?_⟩
  · show (if s ≤ blk ∧ blk < s + n then true else a.alloc blk) = (if s ≤ blk ∧ blk < s + n then true else b.alloc blk)
    split
    · rfl
    · exact hw.1 blk
  · show (if s ≤ u / bs ∧ u / bs < s + n then buf u else a.data u) = (if s ≤ u / bs ∧ u / bs < s + n then buf u else b.data u)
    have hu' : (if s ≤ u / bs ∧ u / bs < s + n then true else a.alloc (u / bs)) = true := hu
    by_cases c : s ≤ u / bs ∧ u / bs < s + n
    · rw [if_pos c, if_pos c]
    · rw [if_neg c, if_neg c]
      rw [if_neg c] at hu'
      exact hw.2 u hu'

/-- what the head of ANY replica (in particular the target, whose lower files are empty or stale)
    holds after the widened request: whole blocks written from the buffer, nothing read from below -/
theorem c07_target_head (t : DD β) (hbs : 0 < t.bs) (src : Nat → β) (off len : Nat) (buf : Nat → β) (hl : len ≠ 0) :
    (t.widenWrite src off len buf).files t.top =
      (t.files t.top).writeBlocks t.bs (wStart t.bs off / t.bs) ((wEnd t.bs off len - wStart t.bs off) / t.bs)
        (widenBuf src off len buf) := by
  rw [widenWrite_eq_fullWrite t hbs src off len buf hl]
  show (if t.top = t.top then _ else _) = _
  rw [if_pos rfl]

/-- one foreground request during the rebuild, as both replicas see it -/
def pairWrite (s t : DD β) (off len : Nat) (buf : Nat → β) : DD β × DD β :=
  (s.widenWrite s.live off len buf, t.widenWrite s.live off len buf)

/-- **C07 (writes during the rebuild).** Each foreground request — of any offset and length inside the
    volume — (1) has on the source exactly the effect of the request itself (`WriteOk`: the written
    units change, nothing else, invariant kept) and (2) leaves the two heads holding the same writes,
    no matter what the target's chain below its head contains. -/
theorem c07_pairWrite (s t : DD β) (hs : WF s) (hbs : t.bs = s.bs) (off len : Nat) (buf : Nat → β)
    (hr : off + len ≤ s.nb * s.bs)
    (hw : SameWrites s.bs (t.files t.top) (s.files s.top)) :
    WriteOk s (pairWrite s t off len buf).1 off len buf ∧
    SameWrites s.bs ((pairWrite s t off len buf).2.files t.top) ((pairWrite s t off len buf).1.files s.top) ∧
    (pairWrite s t off len buf).2.top = t.top ∧ (pairWrite s t off len buf).2.bs = t.bs := by
  have hpos := hs.bs_pos
  refine ⟨writeOk_widenWrite s hs off len buf hr, ?_⟩
  unfold pairWrite
  by_cases hl : len = 0
  · subst hl
    unfold widenWrite
    simp only [if_true]
    refine ⟨hw, ?_, ?_⟩ <;> first | rfl | trivial
  · have ht : 0 < t.bs := by rw [hbs]; exact hpos
    refine ⟨?_, ?_, ?_⟩
    · rw [c07_target_head t ht s.live off len buf hl, c07_target_head s hpos s.live off len buf hl, hbs]
      exact sameWrites_writeBlocks s.bs _ _ hw _ _ _
    · rw [widenWrite_eq_fullWrite t ht s.live off len buf hl]; rfl
    · rw [widenWrite_eq_fullWrite t ht s.live off len buf hl]; rfl

/-- any number of foreground requests -/
def pairRun (s t : DD β) : List (Nat × Nat × (Nat → β)) → DD β × DD β
  | [] => (s, t)
  | (off, len, buf) :: ws => pairRun (pairWrite s t off len buf).1 (pairWrite s t off len buf).2 ws

def InVolAll (nb bs : Nat) : List (Nat × Nat × (Nat → β)) → Prop
  | [] => True
  | (off, len, _) :: ws => off + len ≤ nb * bs ∧ InVolAll nb bs ws

theorem c07_pairRun (ws : List (Nat × Nat × (Nat → β))) : ∀ (s t : DD β), WF s → t.bs = s.bs → t.top = s.top →
    InVolAll s.nb s.bs ws → SameWrites s.bs (t.files t.top) (s.files s.top) →
    WF (pairRun s t ws).1 ∧ (pairRun s t ws).1.bs = s.bs ∧ (pairRun s t ws).1.top = s.top ∧
    (pairRun s t ws).1.nb = s.nb ∧
    SameWrites s.bs ((pairRun s t ws).2.files s.top) ((pairRun s t ws).1.files s.top) := by
  induction ws with
  | nil => intro s t hs _ ht _ hw; rw [ht] at hw; exact ⟨hs, rfl, rfl, rfl, hw⟩
  | cons w ws ih =>
    obtain ⟨off, len, buf⟩ := w
    intro s t hs hbs htop hv hw
    obtain ⟨ok, sw, tt, tb⟩ := c07_pairWrite s t hs hbs off len buf hv.1 hw
    have hv' : InVolAll (pairWrite s t off len buf).1.nb (pairWrite s t off len buf).1.bs ws := by
      rw [ok.nb, ok.bs]; exact hv.2
    have sw' : SameWrites (pairWrite s t off len buf).1.bs
        ((pairWrite s t off len buf).2.files (pairWrite s t off len buf).2.top)
        ((pairWrite s t off len buf).1.files (pairWrite s t off len buf).1.top) := by
      rw [ok.bs, tt, ok.top]; exact sw
    have := ih (pairWrite s t off len buf).1 (pairWrite s t off len buf).2 ok.wf
      (by rw [tb, ok.bs]; exact hbs) (by rw [tt, ok.top]; exact htop) hv' sw'
    rw [ok.bs, ok.top, ok.nb] at this
    exact this

/-- **C07 (end to end, replica part).** Source and target take the add-time snapshot (the target's
    new head is empty, the source's too), any sequence of foreground requests of any shape follows,
    the source's snapshot files are copied under the target's head and the target is reloaded and
    merged: every unit of the volume reads on the rebuilt replica exactly as on the source, which in
    turn holds exactly what the requests wrote. -/
theorem c07_rebuild (s t : DD β) (hs : WF s) (hbs : t.bs = s.bs) (htop : t.top = s.top)
    (hw : SameWrites s.bs (t.files t.top) (s.files s.top))
    (ws : List (Nat × Nat × (Nat → β))) (hv : InVolAll s.nb s.bs ws) (u : Nat)
    (hu : u / s.bs < s.nb) :
    (graft (pairRun s t ws).1 ((pairRun s t ws).2.files s.top)).lunmap.readUnit u = (pairRun s t ws).1.live u := by
  obtain ⟨wf, b, tp, hnb, sw⟩ := c07_pairRun ws s t hs hbs htop hv hw
  apply c07_reads_after_promotion _ wf
  · rw [b, tp]; exact sw
  · rw [b, hnb]; exact hu

/-! ### a replica that rejoins with its old directory

Only the snapshots above the rejoining replica's checkpoint are transferred
(`sync.isRevisionCountAndChainSame`); the checkpoint and everything below it stay the replica's own
files.  That is sound exactly as far as the checkpoint's image is the same on both replicas (what the
controller established when it recorded the checkpoint, C13): -/

/-- if the two chains show the same image at the checkpoint `k` and have the same files above it, they
    show the same image at every member from `k` upwards — whatever the files at and below `k` look
    like on either side (the source may have merged snapshots there since) -/
theorem c07_rejoin_above_checkpoint (sf tf : Nat → File β) (bs k : Nat)
    (hk : ∀ u, viewUpTo tf bs k u = viewUpTo sf bs k u) (habove : ∀ j, k < j → tf j = sf j) :
    ∀ i, k ≤ i → ∀ u, viewUpTo tf bs i u = viewUpTo sf bs i u := by
  intro i hi
  induction i with
  | zero =>
    have : k = 0 := by omega
    subst this; exact hk
  | succ i ih =>
    intro u
    by_cases e : k = i + 1
    · subst e; exact hk u
    · have hlt : k ≤ i := by omega
      rw [viewUpTo_succ, viewUpTo_succ, habove (i + 1) (by omega), ih hlt u]

/-! ### non-vacuity, and the defect the widening repairs -/

private def srcDemo : DD Nat := ((DD.init 8 2).write 0 8 (fun u => 7 + u)).snapshot false
private def tgtDemo : DD Nat := (DD.init 8 2).snapshot false

/-- the two fresh heads after the add-time snapshot hold the same (no) writes -/
example : SameWrites 8 (tgtDemo.files tgtDemo.top) (srcDemo.files srcDemo.top) :=
  ⟨fun _ => rfl, fun _ h => by simp [tgtDemo, DD.snapshot, DD.init, File.empty] at h⟩

/-- **the defect.** Without the widening, a one-unit write makes the target assemble the block from
    its own (empty) chain: its head then holds 0 where the source's head holds the old data, the two
    heads differ on an allocated block, and after the reload that block hides the synced data. -/
theorem c07_unwidened_differs :
    ((tgtDemo.write 2 1 (fun _ => 99)).files 2).alloc 0 = true ∧
    ((tgtDemo.write 2 1 (fun _ => 99)).files 2).data 0 = 0 ∧
    ((srcDemo.write 2 1 (fun _ => 99)).files 2).data 0 = 7 := by decide

/-- with the widening the same request leaves both heads with the source's data around the unit -/
example : ((pairWrite srcDemo tgtDemo 2 1 (fun _ => 99)).2.files 2).data 0 = 7 ∧
          ((pairWrite srcDemo tgtDemo 2 1 (fun _ => 99)).2.files 2).data 2 = 99 ∧
          ((pairWrite srcDemo tgtDemo 2 1 (fun _ => 99)).1.files 2).data 0 = 7 := by decide

end Jiva.Properties
