import JivaVerif.Properties.C10Cluster
/-!
# C13 at the level of the volume — "a volume snapshot … has identical content on every replica"

Over the whole-volume model (`Model/Cluster.lean`), for ANY history: every volume snapshot a replica
directory holds is the volume's content at the moment the snapshot was taken (`taken`, ghost) — so
two directories that hold the same snapshot hold the same content for it, whether they were attached
when it was taken or received it through a rebuild — and a snapshot is taken only while all `rf`
replicas are RW.
-/
namespace Jiva.Cluster
open Jiva Sys

structure InvS (s : Sys) : Prop where
  sub   : ∀ i p, p ∈ (s.node i).snaps → p ∈ s.taken
  bound : ∀ p ∈ s.taken, p.1 < s.nextSnap
  func  : ∀ p ∈ s.taken, ∀ q ∈ s.taken, p.1 = q.1 → p.2 = q.2

theorem invS_init (rf n : Nat) : InvS (init rf n) :=
  ⟨fun _ _ h => (by cases h), fun _ h => (by cases h), fun _ h => (by cases h)⟩

/-- a step that changes neither the snapshots taken nor, node by node, adds to the snapshots held -/
theorem invS_of_sub (s t : Sys) (h : InvS s) (ht : t.taken = s.taken) (hn : t.nextSnap = s.nextSnap)
    (hsub : ∀ i p, p ∈ (t.node i).snaps → ∃ j, p ∈ (s.node j).snaps) : InvS t := by
  refine ⟨?_, ?_, ?_⟩
  · intro i p hp
    obtain ⟨j, hj⟩ := hsub i p hp
    rw [ht]; exact h.sub j p hj
  · intro p hp; rw [hn]; exact h.bound p (by rw [← ht]; exact hp)
  · intro p hp q hq; exact h.func p (by rw [← ht]; exact hp) q (by rw [← ht]; exact hq)

theorem setNode_snaps (s : Sys) (i : Nat) (nd : Node) (hnd : ∀ p, p ∈ nd.snaps → ∃ j, p ∈ (s.node j).snaps) :
    ∀ k p, p ∈ ((s.setNode i nd).node k).snaps → ∃ j, p ∈ (s.node j).snaps := by
  intro k p hp
  have hnode : (s.setNode i nd).node k = if k = i then nd else s.node k := rfl
  rw [hnode] at hp
  by_cases e : k = i
  · rw [if_pos e] at hp; exact hnd p hp
  · rw [if_neg e] at hp; exact ⟨k, hp⟩

theorem writeNode_snaps (s : Sys) (f a : List Nat) (i : Nat) : (s.writeNode f a i).snaps = (s.node i).snaps := by
  unfold writeNode; simp only
  repeat' split
  all_goals rfl

theorem invS_step (s : Sys) (h0 : Inv0 s) (h : InvS s) (op : Op) : InvS (s.step op).1 := by
  cases op with
  | reg i e =>
    show InvS (s.stepReg i e).1
    unfold stepReg
    split
    · exact h
    · have h1 : InvS (s.setNode i { s.node i with registered := true }) :=
        invS_of_sub s _ h rfl rfl (setNode_snaps s i _ (fun p hp => ⟨i, hp⟩))
      generalize s.setNode i { s.node i with registered := true } = s1 at h1 ⊢
      dsimp only
      split
      · exact h1
      · split
        · exact h
        · split
          · refine invS_of_sub s1 _ h1 rfl rfl (fun k p hp => ?_)
            have hnode : (({ s1 with maxRev := some e } : Sys).start e).node k =
                if k = e then { s1.node e with att := .rw } else s1.node k := rfl
            rw [hnode] at hp
            by_cases ek : k = e
            · rw [if_pos ek] at hp; exact ⟨e, hp⟩
            · rw [if_neg ek] at hp; exact ⟨k, hp⟩
          · exact invS_of_sub s1 _ h1 rfl rfl (fun k p hp => ⟨k, hp⟩)
  | write f a =>
    show InvS (s.stepWrite f a).1
    unfold stepWrite
    split
    · exact h
    · split
      · exact h
      · refine invS_of_sub s _ h rfl rfl (fun k p hp => ⟨k, ?_⟩)
        have : p ∈ (s.writeNode f a k).snaps := hp
        rw [writeNode_snaps] at this; exact this
  | add i =>
    show InvS (s.stepAdd i).1
    unfold stepAdd
    split
    · exact h
    · exact invS_of_sub s _ h rfl rfl (setNode_snaps s i _ (fun p hp => ⟨i, hp⟩))
  | setrb i =>
    show InvS (s.stepSetRb i).1
    unfold stepSetRb
    split
    · exact h
    · exact invS_of_sub s _ h rfl rfl (setNode_snaps s i _ (fun p hp => by cases hp))
  | promote i src =>
    show InvS (s.stepPromote i src).1
    unfold stepPromote
    split
    · exact h
    · exact invS_of_sub s _ h rfl rfl (setNode_snaps s i _ (fun p hp => ⟨src, hp⟩))
  | rbdone i =>
    show InvS (s.stepRbDone i).1
    unfold stepRbDone
    split
    · exact h
    · exact invS_of_sub s _ h rfl rfl (setNode_snaps s i _ (fun p hp => ⟨i, hp⟩))
  | remove i =>
    show InvS (s.stepRemove i).1
    unfold stepRemove
    split
    · exact h
    · exact invS_of_sub s _ h rfl rfl (setNode_snaps s i _ (fun p hp => ⟨i, hp⟩))
  | regq => exact h
  | stop =>
    show InvS (s.stepStop).1
    unfold stepStop
    exact invS_of_sub s _ h rfl rfl (fun k p hp => ⟨k, hp⟩)
  | snap =>
    show InvS (s.stepSnap).1
    unfold stepSnap
    split
    · exact h
    · refine ⟨?_, ?_, ?_⟩
      · intro i p hp
        show p ∈ s.taken ++ [(s.nextSnap, s.stream)]
        have hp' : p ∈ (if (s.node i).att = .rw then { s.node i with snaps := (s.node i).snaps ++ [(s.nextSnap, (s.node i).log)] }
            else s.node i).snaps := hp
        split at hp'
        · rename_i hrw
          rcases List.mem_append.mp hp' with h1 | h1
          · exact List.mem_append_left _ (h.sub i p h1)
          · apply List.mem_append_right
            rw [(h0.rw i hrw).1] at h1; exact h1
        · exact List.mem_append_left _ (h.sub i p hp')
      · intro p hp
        show p.1 < s.nextSnap + 1
        have hp' : p ∈ s.taken ++ [(s.nextSnap, s.stream)] := hp
        rcases List.mem_append.mp hp' with h1 | h1
        · have := h.bound p h1; omega
        · simp at h1; subst h1; exact Nat.lt_succ_self _
      · intro p hp q hq hpq
        have hp' : p ∈ s.taken ++ [(s.nextSnap, s.stream)] := hp
        have hq' : q ∈ s.taken ++ [(s.nextSnap, s.stream)] := hq
        rcases List.mem_append.mp hp' with h1 | h1 <;> rcases List.mem_append.mp hq' with h2 | h2
        · exact h.func p h1 q h2 hpq
        · simp at h2; subst h2; have := h.bound p h1; simp at hpq; omega
        · simp at h1; subst h1; have := h.bound q h2; simp at hpq; omega
        · simp at h1 h2; subst h1; subst h2; rfl

theorem invS_run (ops : List Op) : ∀ s : Sys, Inv0 s → InvS s → InvS (s.run ops) := by
  induction ops with
  | nil => intro s _ h; exact h
  | cons op ops ih => intro s h0 h; exact ih _ (inv0_step s h0 op) (invS_step s h0 h op)

/-- **C13 (a volume snapshot has identical content on every replica).** ANY history: a snapshot a
    replica directory holds is the content the volume had when the snapshot was taken; two
    directories holding the same snapshot hold the same content for it. -/
theorem c13_snapshot_identical_on_all_replicas (rf n : Nat) (ops : List Op) :
    let s := (init rf n).run ops
    (∀ i p, p ∈ (s.node i).snaps → p ∈ s.taken) ∧
    (∀ i j k l l', (k, l) ∈ (s.node i).snaps → (k, l') ∈ (s.node j).snaps → l = l') := by
  intro s
  have h := invS_run ops (init rf n) (inv0_init rf n) (invS_init rf n)
  refine ⟨h.sub, ?_⟩
  intro i j k l l' hi hj
  exact h.func (k, l) (h.sub i _ hi) (k, l') (h.sub j _ hj) rfl

/-- **C13 (refused unless all RF replicas are RW).** -/
theorem c13_cluster_snapshot_needs_all_rw (s : Sys) (h : s.rwCount ≠ s.rf) : s.stepSnap = (s, .refused) := by
  unfold stepSnap; simp [h]

/-- non-vacuity (a test): RF 3, a write, a snapshot with all three RW, a write, replica 2 is removed,
    re-added and rebuilt: it holds snapshot 0 with the same content as the others -/
example :
    let ops : List Op := [.reg 0 0, .reg 1 0, .add 1, .setrb 1, .promote 1 0, .rbdone 1, .add 2, .setrb 2, .promote 2 0,
                          .rbdone 2, .write [] [], .snap, .write [] [], .remove 2, .add 2, .setrb 2, .promote 2 1, .rbdone 2]
    let s := (init 3 3).run ops
    (s.node 0).snaps = [(0, [0])] ∧ (s.node 2).snaps = [(0, [0])] ∧ (s.node 2).log = [0, 1] ∧ s.taken = [(0, [0])] := by
  decide

end Jiva.Cluster
