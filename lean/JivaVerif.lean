-- Root of the `JivaVerif` library.
import JivaVerif.Model.DiffDisk
