-- Root of the `JivaVerif` library.
import JivaVerif.Model.DiffDisk
import JivaVerif.Model.Replica
import JivaVerif.Model.Ops
import JivaVerif.Model.Cleaner
import JivaVerif.Model.Controller
import JivaVerif.Properties.C01
import JivaVerif.Properties.C06
import JivaVerif.Properties.C07
import JivaVerif.Properties.C10
import JivaVerif.Properties.C11
import JivaVerif.Properties.C16
import JivaVerif.Properties.Controller
import JivaVerif.Properties.C12
import JivaVerif.Properties.C17
import JivaVerif.Tie
import JivaVerif.Properties.C15
import JivaVerif.Properties.Rest
